(* Proofs/PoolProofs.v - invariants of the pool machine of Model/Pool.v over ALL event
   sequences (induction on the event list). *)
From Coq Require Import List Arith Bool ZArith Lia.
From ReqV Require Import Model.Pool.
Import ListNotations.

(* ---------- small library ---------- *)

Lemma upd_same : forall A (f : nat -> A) i v, upd f i v i = v.
Proof. intros; unfold upd; now rewrite Nat.eqb_refl. Qed.
Lemma upd_other : forall A (f : nat -> A) i j v, j <> i -> upd f i v j = f j.
Proof. intros; unfold upd; destruct (Nat.eqb_spec j i); congruence. Qed.

Ltac nlia := unfold conn, key, want in *; lia.

Ltac updt :=
  unfold upd in *;
  repeat match goal with
  | |- context [Nat.eqb ?a ?b] => destruct (Nat.eqb_spec a b); subst
  | H : context [Nat.eqb ?a ?b] |- _ => destruct (Nat.eqb_spec a b); subst
  end.

Lemma memb_In : forall c l, memb c l = true <-> In c l.
Proof.
  intros; unfold memb; rewrite existsb_exists; split.
  - intros (x & Hx & E); apply Nat.eqb_eq in E; now subst.
  - intros; exists c; split; auto; apply Nat.eqb_refl.
Qed.
Lemma memb_false : forall c l, memb c l = false <-> ~ In c l.
Proof. intros; rewrite <- memb_In; destruct (memb c l); split; congruence. Qed.

Lemma remove1_In : forall c x l, In x (remove1 c l) -> In x l.
Proof.
  induction l as [|y r IH]; cbn; auto.
  destruct (Nat.eqb_spec y c); cbn; intuition.
Qed.
Lemma remove1_In_other : forall c x l, x <> c -> In x l -> In x (remove1 c l).
Proof.
  induction l as [|y r IH]; cbn; auto.
  destruct (Nat.eqb_spec y c); cbn; intros; subst; intuition congruence.
Qed.
Lemma remove1_NoDup : forall c l, NoDup l -> NoDup (remove1 c l).
Proof.
  induction l as [|y r IH]; cbn; auto; intros H; inversion H; subst.
  destruct (Nat.eqb_spec y c); auto.
  constructor; auto. intro X; apply remove1_In in X; auto.
Qed.
Lemma remove1_not_In : forall c l, NoDup l -> ~ In c (remove1 c l).
Proof.
  induction l as [|y r IH]; cbn; auto; intros H; inversion H; subst.
  destruct (Nat.eqb_spec y c); subst; auto.
  cbn; intuition.
Qed.
Lemma remove1_length : forall c l, length (remove1 c l) <= length l.
Proof. induction l as [|y r IH]; cbn; auto. destruct (Nat.eqb y c); cbn; lia. Qed.
Lemma remove1_notin : forall c l, ~ In c l -> remove1 c l = l.
Proof.
  induction l as [|y r IH]; cbn; auto; intros.
  destruct (Nat.eqb_spec y c); subst; [tauto|]. f_equal; tauto.
Qed.

Lemma drop_done_In : forall d w q, In w (drop_done d q) -> In w q.
Proof. induction q as [|x q IH]; cbn; auto. destruct (d x); cbn; intuition. Qed.
Lemma drop_done_head : forall d q w q', drop_done d q = w :: q' -> d w = false /\ In w q /\ (forall x, In x q' -> In x q).
Proof.
  induction q as [|x q IH]; cbn; [discriminate|]; intros w q'.
  destruct (d x) eqn:E.
  - intros H; destruct (IH _ _ H) as (a & b & c); auto.
  - intros H; inversion H; subst; auto.
Qed.
Lemma drop_done_NoDup : forall d q, NoDup q -> NoDup (drop_done d q).
Proof. induction q as [|x q IH]; cbn; auto; intros H; inversion H; subst. destruct (d x); auto. Qed.
Lemma drop_done_length : forall d q, length (drop_done d q) <= length q.
Proof. induction q as [|x q IH]; cbn; auto. destruct (d x); cbn; lia. Qed.

Lemma removelast_In : forall (x : nat) l, In x (removelast l) -> In x l.
Proof.
  induction l as [|y r IH]; cbn; auto. destruct r; cbn in *; intuition.
Qed.
Lemma NoDup_removelast : forall (l : list nat), NoDup l -> NoDup (removelast l).
Proof.
  induction l as [|y r IH]; cbn; auto; intros H; inversion H; subst.
  destruct r; auto. constructor; auto. intro X; apply removelast_In in X; auto.
Qed.
Lemma removelast_length : forall (l : list nat), l <> [] -> S (length (removelast l)) = length l.
Proof.
  intros l H. destruct (exists_last H) as (l' & a & ->).
  rewrite removelast_last, app_length; cbn; lia.
Qed.
Lemma last_not_in_removelast : forall (l : list nat), NoDup l -> l <> [] -> ~ In (last l 0) (removelast l).
Proof.
  intros l H N. destruct (exists_last N) as (l' & a & ->).
  rewrite removelast_last, last_last. apply NoDup_remove_2 in H. rewrite app_nil_r in H. exact H.
Qed.

Lemma scan_idle_spec : forall cl rl c rest,
  scan_idle cl rl = (Some c, rest) ->
  In c rl /\ cl c = false /\ (forall x, In x rest -> In x rl) /\
  (NoDup rl -> NoDup rest /\ ~ In c rest) /\ length rest < length rl.
Proof.
  induction rl as [|x r IH]; cbn; [discriminate|]; intros c rest.
  destruct (cl x) eqn:E.
  - intros H; destruct (IH _ _ H) as (a & b & c0 & d & e).
    split; [auto|]. split; [auto|]. split; [auto|]. split; [|lia].
    intros N; inversion N; subst; tauto.
  - intros H; inversion H; subst.
    split; [auto|]. split; [auto|]. split; [auto|]. split; [|lia].
    intros N; inversion N; auto.
Qed.
Lemma scan_idle_none : forall cl rl rest, scan_idle cl rl = (None, rest) -> rest = [].
Proof.
  induction rl as [|x r IH]; cbn; intros rest H; [now inversion H|].
  destruct (cl x); [eauto|discriminate].
Qed.

Lemma NoDup_snoc : forall (c : nat) l, NoDup l -> ~ In c l -> NoDup (l ++ [c]).
Proof.
  induction l as [|x r IH]; cbn; intros N H; [constructor; auto; constructor|].
  inversion N; subst. constructor; [|apply IH; tauto].
  intro X; apply in_app_or in X; destruct X as [X|[X|[]]]; [auto|subst; tauto].
Qed.

Lemma In_removelast_other : forall (x : nat) l, In x l -> x <> last l 0 -> In x (removelast l).
Proof.
  intros x l H N. destruct l as [|y r]; [inversion H|].
  assert (Hne : y :: r <> []) by discriminate.
  destruct (exists_last Hne) as (l' & a & E). rewrite E in *.
  rewrite removelast_last. rewrite last_last in N.
  apply in_app_or in H; destruct H as [H|[H|[]]]; auto; congruence.
Qed.

(* ---------- group A: the idle pool and connection ownership ---------- *)

Section InvA.
Variable cfg : config.

Record invA0 (s : state) : Prop := mkInvA {
  A_idle_loc : forall k c, In c (idle s k) -> cloc s c = LIdle /\ ck s c = k;
  A_idle_nodup : forall k, NoDup (idle s k);
  A_res_loc : forall w c b, wres s w = Some (c, b) -> cloc s c = LChan w;
  A_held_loc : forall w c, wheld s w = Some c -> cloc s c = LHeld w;
  A_lru_nodup : NoDup (lru s);
  A_idle_lru : forall k c, In c (idle s k) -> In c (lru s);
  A_lru_loc : forall c, In c (lru s) -> cloc s c = LIdle;
  A_cap : forall k, length (idle s k) <= idle_cap cfg;
  A_fresh : forall c, next_conn s <= c -> cloc s c = LDead }.

Definition lru_bounded (s : state) : Prop :=
  (0 < max_idle cfg)%Z -> (Z.of_nat (length (lru s)) <= max_idle cfg)%Z.

Definition invA (s : state) : Prop := invA0 s /\ lru_bounded s.

Definition Asame (s s' : state) : Prop :=
  idle s' = idle s /\ lru s' = lru s /\ cloc s' = cloc s /\ ck s' = ck s /\
  wres s' = wres s /\ wheld s' = wheld s /\ next_conn s' = next_conn s.

Lemma invA0_same : forall s s', Asame s s' -> invA0 s -> invA0 s'.
Proof.
  intros s s' (e1 & e2 & e3 & e4 & e5 & e6 & e7) [].
  constructor; rewrite ?e1, ?e2, ?e3, ?e4, ?e5, ?e6, ?e7; auto.
Qed.
Lemma invA_same : forall s s', Asame s s' -> invA s -> invA s'.
Proof.
  intros s s' E [I T]. split; [eapply invA0_same; eauto|].
  destruct E as (e1 & e2 & _). unfold lru_bounded. now rewrite e2.
Qed.

Lemma dec_conns_same : forall s k, Asame s (dec_conns cfg s k).
Proof.
  intros; unfold dec_conns, Asame.
  destruct (negb (host_limited cfg)); [tauto|].
  destruct (per_host s k); [cbn; tauto|].
  destruct (drop_done _ _); cbn; tauto.
Qed.

Lemma close_conn_same : forall s c, Asame s (close_conn cfg s c).
Proof.
  intros; unfold close_conn. destruct (closed s c); [unfold Asame; tauto|].
  destruct (dec_conns_same (set_closed (upd (closed s) c true) s) (ck s c)) as (e1 & e2 & e3 & e4 & e5 & e6 & e7).
  unfold Asame; cbn in *. tauto.
Qed.

Lemma invA_init : invA init.
Proof.
  split; [constructor|red]; cbn; intros; try tauto; try discriminate; try constructor; try lia.
Qed.

(* moving a loose connection to LDead, or delivering it to a wantConn, keeps the invariant *)
Lemma reloc_dead_A : forall s c, invA s -> cloc s c = LLoose -> invA (set_cloc (upd (cloc s) c LDead) s).
Proof.
  intros s c [[] T] L. split; [|exact T]. constructor; cbn; intros.
  - destruct (A_idle_loc0 _ _ H). updt; [congruence|auto].
  - auto.
  - specialize (A_res_loc0 _ _ _ H). updt; congruence.
  - specialize (A_held_loc0 _ _ H). updt; congruence.
  - auto.
  - eauto.
  - specialize (A_lru_loc0 _ H). updt; congruence.
  - auto.
  - updt; auto.
Qed.

Lemma deliver_A : forall s w c b, invA s -> cloc s c = LLoose -> invA (fst (deliver s w c b)).
Proof.
  intros s w c b I L. unfold deliver. destruct (wdone s w); cbn; auto.
  destruct I as [[] T]. split; [|exact T]. constructor; cbn; intros.
  - destruct (A_idle_loc0 _ _ H). updt; [congruence|auto].
  - auto.
  - updt; try (inversion H; subst; congruence); try (specialize (A_res_loc0 _ _ _ H); congruence).
  - specialize (A_held_loc0 _ _ H). updt; congruence.
  - auto.
  - eauto.
  - specialize (A_lru_loc0 _ H). updt; congruence.
  - auto.
  - specialize (A_fresh0 _ H). updt; congruence.
Qed.

Lemma remove_idle_A0 : forall s c, invA0 s -> invA0 (remove_idle s c).
Proof.
  intros s c []. unfold remove_idle. constructor; cbn; intros.
  - updt; [apply remove1_In in H|]; auto.
  - updt; [apply remove1_NoDup|]; auto.
  - eauto.
  - eauto.
  - apply remove1_NoDup; auto.
  - updt.
    + assert (c0 <> c) by (intro; subst; eapply remove1_not_In; [|exact H]; auto).
      apply remove1_In in H. apply remove1_In_other; eauto.
    + assert (c0 <> c) by (intro; subst; destruct (A_idle_loc0 _ _ H); congruence).
      apply remove1_In_other; eauto.
  - apply remove1_In in H; auto.
  - updt; auto. etransitivity; [apply remove1_length|auto].
  - auto.
Qed.
Lemma remove_idle_A : forall s c, invA s -> invA (remove_idle s c).
Proof.
  intros s c [I T]. split; [now apply remove_idle_A0|].
  intros H; specialize (T H); unfold remove_idle; cbn.
  pose proof (remove1_length c (lru s)). nlia.
Qed.

(* LRU eviction inside tryPutIdleConn: removeOldest; oldest.close(); removeIdleConnLocked(oldest) *)
Lemma evict_A0 : forall s, invA0 s -> lru s <> [] ->
  let o := last (lru s) 0 in
  invA0 (remove_idle (close_conn cfg (set_lru (removelast (lru s)) s) o) o) /\
  S (length (lru (remove_idle (close_conn cfg (set_lru (removelast (lru s)) s) o) o))) = length (lru s).
Proof.
  intros s I NE o.
  destruct (close_conn_same (set_lru (removelast (lru s)) s) o) as (e1 & e2 & e3 & e4 & e5 & e6 & e7).
  cbn in e1, e2, e3, e4, e5, e6, e7.
  assert (NO : ~ In o (removelast (lru s))) by (apply last_not_in_removelast; [apply I|auto]).
  unfold remove_idle. rewrite e1, e2, e4. rewrite (remove1_notin _ _ NO).
  split; [|cbn; apply removelast_length; auto].
  destruct I. constructor; cbn; rewrite ?e3, ?e4, ?e5, ?e6, ?e7; intros.
  - updt; [apply remove1_In in H|]; auto.
  - updt; [apply remove1_NoDup|]; auto.
  - eauto.
  - eauto.
  - apply NoDup_removelast; auto.
  - apply In_removelast_other.
    + updt; [apply remove1_In in H|]; eauto.
    + unfold o in *. updt.
      * intro; subst c. eapply remove1_not_In; [|exact H]; auto.
      * intro E. destruct (A_idle_loc0 _ _ H) as [_ K]. rewrite E in K. auto.
  - apply removelast_In in H; auto.
  - updt; auto. etransitivity; [apply remove1_length|auto].
  - auto.
Qed.

Lemma try_put_A : forall s c, invA s -> cloc s c = LLoose ->
  invA (fst (try_put cfg s c)) /\
  (snd (try_put cfg s c) = false -> cloc (fst (try_put cfg s c)) c = LLoose).
Proof.
  intros s c I L. unfold try_put.
  destruct (keepalive_off cfg); [cbn; auto|].
  destruct (closed s c); [cbn; auto|].
  cbn [ck set_reused idle_wait wdone close_idle idle lru].
  destruct (drop_done (wdone s) (idle_wait s (ck s c))) as [|w q'] eqn:Q.
  2:{ cbn [fst snd]. split; [|discriminate]. apply deliver_A; auto.
      eapply invA_same; [|exact I]. unfold Asame; cbn; tauto. }
  cbn [close_idle set_idle_wait set_reused].
  destruct (close_idle s); [cbn; split; auto; eapply invA_same; [|exact I]; unfold Asame; cbn; tauto|].
  cbn [idle set_idle_wait set_reused].
  destruct (idle_cap cfg <=? length (idle s (ck s c))) eqn:CAP;
    [cbn; split; auto; eapply invA_same; [|exact I]; unfold Asame; cbn; tauto|].
  apply Nat.leb_gt in CAP.
  destruct I as [I T].
  assert (NI : forall k, ~ In c (idle s k)) by (intros k H; destruct (A_idle_loc _ I _ _ H); congruence).
  assert (NL : ~ In c (lru s)) by (intros H; pose proof (A_lru_loc _ I _ H); congruence).
  match goal with |- context [if ?b then set_panicked true ?x else ?y] =>
    set (s1 := if b then set_panicked true x else y) end.
  assert (S1 : Asame s s1).
  { subst s1. destruct (_ || _); unfold Asame; cbn; tauto. }
  destruct S1 as (e1 & e2 & e3 & e4 & e5 & e6 & e7).
  set (s2 := set_cloc _ _).
  assert (I2 : invA0 s2).
  { subst s2. destruct I. constructor; cbn; rewrite ?e1, ?e2, ?e3, ?e4, ?e5, ?e6, ?e7; intros.
    - updt.
      + auto.
      + exfalso; eapply NI; eauto.
      + apply in_app_or in H; destruct H as [H|[H|[]]]; [auto|congruence].
      + auto.
    - updt; auto. apply NoDup_snoc; auto.
    - specialize (A_res_loc0 _ _ _ H). updt; congruence.
    - specialize (A_held_loc0 _ _ H). updt; congruence.
    - constructor; auto.
    - updt; [apply in_app_or in H; destruct H as [H|[H|[]]]|]; cbn; eauto.
    - destruct H; subst; updt; auto; congruence.
    - updt; auto. rewrite app_length; cbn; nlia.
    - specialize (A_fresh0 _ H). updt; congruence. }
  assert (L2 : length (lru s2) = S (length (lru s))) by (subst s2; cbn; now rewrite e2).
  destruct (negb (max_idle cfg =? 0)%Z && (max_idle cfg <? Z.of_nat (length (lru s2)))%Z) eqn:EV.
  2:{ cbn [fst snd]. split; [|discriminate]. split; auto. intros P. apply andb_false_iff in EV.
      destruct EV as [EV|EV]; [apply negb_false_iff, Z.eqb_eq in EV; lia|apply Z.ltb_ge in EV; auto]. }
  cbn [fst snd]. split; [|discriminate].
  assert (NE : lru s2 <> []) by (intro X; rewrite X in L2; discriminate).
  destruct (evict_A0 s2 I2 NE) as [I3 L3]. split; auto.
  intros P. specialize (T P). nlia.
Qed.

Lemma put_or_dead_A : forall s c, invA s -> cloc s c = LLoose -> invA (put_or_dead cfg s c).
Proof.
  intros s c I L. unfold put_or_dead. destruct (try_put_A s c I L) as [I' L'].
  destruct (try_put cfg s c) as [s' ok]; cbn in *. destruct ok; auto.
  apply reloc_dead_A; auto.
Qed.

(* a connection that is not idle changes hands: cloc, wres, wheld move together *)
Lemma reloc_A : forall s c L1 wres' wheld',
  invA s -> cloc s c <> LIdle -> cloc s c <> LDead -> L1 <> LIdle ->
  (forall w c' b, wres' w = Some (c', b) ->
     (c' = c /\ L1 = LChan w) \/ (c' <> c /\ wres s w = Some (c', b))) ->
  (forall w c', wheld' w = Some c' ->
     (c' = c /\ L1 = LHeld w) \/ (c' <> c /\ wheld s w = Some c')) ->
  invA (set_cloc (upd (cloc s) c L1) (set_wres wres' (set_wheld wheld' s))).
Proof.
  intros s c L1 wr wh [[] T] N1 N2 N3 HR HH. split; [|exact T]. constructor; cbn; intros.
  - destruct (A_idle_loc0 _ _ H). updt; [congruence|auto].
  - auto.
  - destruct (HR _ _ _ H) as [[-> ->]|[N E]]; updt; try congruence. eauto.
  - destruct (HH _ _ H) as [[-> ->]|[N E]]; updt; try congruence. eauto.
  - auto.
  - eauto.
  - specialize (A_lru_loc0 _ H). updt; congruence.
  - auto.
  - specialize (A_fresh0 _ H). updt; congruence.
Qed.

Lemma new_want_A : forall s k, invA s -> invA (new_want s (next_want s) k).
Proof.
  intros s k [[] T]. split; [|exact T]. unfold new_want. constructor; cbn; intros.
  - auto.
  - auto.
  - updt; [discriminate|eauto].
  - updt; [discriminate|eauto].
  - auto.
  - eauto.
  - auto.
  - auto.
  - auto.
Qed.

Lemma new_conn_A : forall s k, invA s -> invA (new_conn s (next_conn s) k) /\ cloc (new_conn s (next_conn s) k) (next_conn s) = LLoose.
Proof.
  intros s k [[] T]. split; [|cbn; apply upd_same]. split; [|exact T].
  assert (F : cloc s (next_conn s) = LDead) by auto.
  unfold new_conn. constructor; cbn; intros.
  - destruct (A_idle_loc0 _ _ H). updt; auto; congruence.
  - auto.
  - specialize (A_res_loc0 _ _ _ H). updt; congruence.
  - specialize (A_held_loc0 _ _ H). updt; congruence.
  - auto.
  - eauto.
  - specialize (A_lru_loc0 _ H). updt; congruence.
  - auto.
  - updt; [lia|apply A_fresh0; lia].
Qed.

(* queueForIdleConn replaces idle[k] by a sub-list, possibly taking one connection out for w *)
Lemma shrink_idle_A : forall s k l', invA s ->
  (forall x, In x l' -> In x (idle s k)) -> NoDup l' -> length l' <= length (idle s k) ->
  invA (set_idle (upd (idle s) k l') s).
Proof.
  intros s k l' [[] T] SUB ND LEN. split; [|exact T]. constructor; cbn; intros.
  - updt; auto.
  - updt; auto.
  - eauto.
  - eauto.
  - auto.
  - updt; eauto.
  - auto.
  - updt; auto. eapply Nat.le_trans; [exact LEN|auto].
  - auto.
Qed.

Lemma take_idle_A : forall s k c l' w b, invA s -> In c (idle s k) ->
  (forall x, In x l' -> In x (idle s k)) -> NoDup l' -> ~ In c l' -> length l' <= length (idle s k) ->
  invA (set_lru (remove1 c (lru s))
         (set_idle (upd (idle s) k l')
           (set_cloc (upd (cloc s) c (LChan w)) (set_wres (upd (wres s) w (Some (c, b))) s)))).
Proof.
  intros s k c l' w b [[] T] IN SUB ND NI LEN.
  destruct (A_idle_loc0 _ _ IN) as [LC KC].
  split.
  2:{ intros P; specialize (T P); cbn. pose proof (remove1_length c (lru s)). nlia. }
  constructor; cbn; intros.
  - updt.
    + tauto.
    + destruct (A_idle_loc0 _ _ H); congruence.
    + auto.
    + auto.
  - updt; auto.
  - updt; try (inversion H; subst; congruence); specialize (A_res_loc0 _ _ _ H); congruence.
  - specialize (A_held_loc0 _ _ H). updt; congruence.
  - apply remove1_NoDup; auto.
  - assert (c0 <> c).
    { intro; subst c0. updt; [tauto|]. destruct (A_idle_loc0 _ _ H); congruence. }
    apply remove1_In_other; auto. updt; eauto.
  - assert (c0 <> c) by (intro; subst; eapply remove1_not_In; [|exact H]; auto).
    apply remove1_In in H. updt; [congruence|auto].
  - updt; auto. eapply Nat.le_trans; [exact LEN|auto].
  - specialize (A_fresh0 _ H). updt; congruence.
Qed.

Lemma get_idle_A : forall s w k, invA s -> invA (get_idle cfg s w k).
Proof.
  intros s w k I. unfold get_idle.
  destruct (no_keepalive cfg); [eapply invA_same; [|exact I]; unfold Asame; cbn; tauto|].
  assert (I1 : invA (set_close_idle false s)) by (eapply invA_same; [|exact I]; unfold Asame; cbn; tauto).
  cbn [closed set_close_idle idle].
  destruct (scan_idle (closed s) (rev (idle s k))) as [[c|] rest] eqn:SC.
  - destruct (scan_idle_spec _ _ _ _ SC) as (IN & CL & SUB & ND & LEN).
    apply in_rev in IN. rewrite rev_length in LEN.
    assert (NDr : NoDup (rev (idle s k))) by (apply NoDup_rev, I).
    destruct (ND NDr) as [ND1 NI1].
    unfold deliver. cbn [wdone set_close_idle].
    destruct (wdone s w).
    + eapply invA_same with (s := set_idle (upd (idle s) k (rev (c :: rest))) s); [unfold Asame; cbn; tauto|].
      apply shrink_idle_A; auto.
      * intros x H. apply in_rev in H. destruct H; [subst; auto|apply in_rev, SUB; auto].
      * apply NoDup_rev. constructor; auto.
      * rewrite rev_length; cbn; lia.
    + eapply invA_same; [|apply (take_idle_A s k c (rev rest) w true I IN)].
      * unfold Asame; cbn; tauto.
      * intros x H. apply in_rev in H. apply in_rev, SUB; auto.
      * apply NoDup_rev; auto.
      * intro H; apply in_rev in H; auto.
      * rewrite rev_length; lia.
  - eapply invA_same with (s := set_idle (upd (idle s) k []) s); [unfold Asame; cbn; tauto|].
    apply shrink_idle_A; auto; cbn; [tauto|constructor|lia].
Qed.

Theorem step_A : forall s e, invA s -> invA (step cfg s e).
Proof.
  intros s e I. destruct e; cbn [step].
  - (* EGet *) apply get_idle_A, new_want_A, I.
  - (* EQueueDial *) destruct (wneed s w); auto. unfold queue_dial.
    eapply invA_same; [|exact I]. cbn [wk set_wneed per_host].
    destruct (negb (host_limited cfg)); [unfold Asame; cbn; tauto|].
    destruct (_ <? _)%Z; unfold Asame; cbn; tauto.
  - (* EDialBegin *) destruct (wdial s w); auto. eapply invA_same; [|exact I]. unfold Asame; cbn; tauto.
  - (* EDialEnd *) destruct (wdial s w); auto. destruct ok.
    + destruct (new_conn_A s (wk s w) I) as [I1 L1].
      apply deliver_A; [|exact L1].
      eapply invA_same; [|exact I1]. unfold Asame; cbn; tauto.
    + eapply invA_same; [|exact I]. unfold Asame; cbn; tauto.
  - (* EDialDec *) destruct (wdial s w); auto.
    eapply invA_same; [apply dec_conns_same|]. eapply invA_same; [|exact I]. unfold Asame; cbn; tauto.
  - (* ERecv *) destruct (wres s w) as [[c b]|] eqn:R; auto.
    pose proof (A_res_loc _ (proj1 I) _ _ _ R) as LC.
    apply (reloc_A s c (LHeld w) (upd (wres s) w None) (upd (wheld s) w (Some c))); auto; try congruence.
    + intros w' c' b' H. right. updt; [discriminate|].
      split; auto. intro; subst. pose proof (A_res_loc _ (proj1 I) _ _ _ H). congruence.
    + intros w' c' H. updt; [inversion H; auto|].
      right; split; auto. intro; subst. pose proof (A_held_loc _ (proj1 I) _ _ H). congruence.
  - (* ECancel *) destruct (wres s w) as [[c b]|] eqn:R.
    + pose proof (A_res_loc _ (proj1 I) _ _ _ R) as LC.
      eapply invA_same with (s := set_cloc (upd (cloc s) c LLoose) (set_wres (upd (wres s) w None) (set_wheld (wheld s) s)));
        [unfold Asame; cbn; tauto|].
      apply reloc_A; auto; try congruence.
      * intros w' c' b' H. right. updt; [discriminate|].
        split; auto. intro; subst. pose proof (A_res_loc _ (proj1 I) _ _ _ H). congruence.
      * intros w' c' H. right; split; auto. intro; subst. pose proof (A_held_loc _ (proj1 I) _ _ H). congruence.
    + eapply invA_same; [|exact I]. unfold Asame; cbn; tauto.
  - (* EPutLoose *) destruct (cloc s c) eqn:L; auto. apply put_or_dead_A; auto.
  - (* EFinish *) destruct (wheld s w) as [c|] eqn:R; auto.
    pose proof (A_held_loc _ (proj1 I) _ _ R) as LC.
    assert (G : forall L1, L1 = LLoose \/ L1 = LDead ->
              invA (set_cloc (upd (cloc s) c L1) (set_wheld (upd (wheld s) w None) s))).
    { intros L1 HL.
      eapply invA_same with (s := set_cloc (upd (cloc s) c L1) (set_wres (wres s) (set_wheld (upd (wheld s) w None) s)));
        [unfold Asame; cbn; tauto|].
      apply reloc_A; auto; try congruence.
      - destruct HL; congruence.
      - intros w' c' b' H. right. split; auto. intro; subst. pose proof (A_res_loc _ (proj1 I) _ _ _ H). congruence.
      - intros w' c' H. right. updt; [discriminate|]. split; auto.
        intro; subst. pose proof (A_held_loc _ (proj1 I) _ _ H). congruence. }
    destruct (recycle_ok r); [|apply G; auto].
    apply put_or_dead_A; [apply G; auto|cbn; apply upd_same].
  - (* EConnClose *) destruct (c <? next_conn s); auto. eapply invA_same; [apply close_conn_same|exact I].
  - (* ERemoveIdle *) apply remove_idle_A; auto.
  - (* EIdleTimeout *) destruct (memb c (lru s)); auto.
    eapply invA_same; [apply close_conn_same|]. apply remove_idle_A; auto.
  - (* ECloseIdle *) destruct I as [[] T]. split.
    + constructor; cbn; intros; eauto; try tauto; try constructor; lia.
    + intros P; cbn; lia.
Qed.

Theorem run_A : forall evs, invA (run cfg evs).
Proof.
  intros evs. unfold run. rewrite <- fold_left_rev_right.
  induction (rev evs) as [|e l IH]; cbn; [apply invA_init|apply step_A, IH].
Qed.
End InvA.

(* ---------- group B: per-host accounting (connsPerHost, connsPerHostWait) ---------- *)

Lemma countb_ext : forall p q n, (forall i, i < n -> p i = q i) -> countb p n = countb q n.
Proof.
  induction n as [|n IH]; cbn; intros H; auto. rewrite IH, H; auto.
Qed.
Lemma countb_on : forall p q n i, i < n -> p i = false -> q i = true ->
  (forall j, j <> i -> q j = p j) -> countb q n = S (countb p n).
Proof.
  induction n as [|n IH]; cbn; intros i L P Q H; [lia|].
  destruct (Nat.eq_dec i n) as [->|N].
  - rewrite P, Q. rewrite (countb_ext q p n); [lia|]. intros j Hj; apply H; lia.
  - rewrite (IH i), (H n); auto; lia.
Qed.
Lemma countb_off : forall p q n i, i < n -> p i = true -> q i = false ->
  (forall j, j <> i -> q j = p j) -> countb p n = S (countb q n).
Proof.
  intros. apply (countb_on q p n i); auto. intros; symmetry; auto.
Qed.

Section InvB.
Variable cfg : config.

Record invBd (d : key -> nat) (s : state) : Prop := mkInvB {
  B_acc : host_limited cfg = true ->
          forall k, per_host s k = dialing_count s k + live_count s k + d k;
  B_le : host_limited cfg = true -> forall k, (Z.of_nat (per_host s k) <= max_host cfg)%Z;
  B_wait_full : forall k, dial_wait s k <> [] ->
          host_limited cfg = true /\ Z.of_nat (per_host s k) = max_host cfg;
  B_wait_phase : forall k w, In w (dial_wait s k) -> wdial s w = DWait /\ wk s w = k /\ w < next_want s;
  B_wait_nodup : forall k, NoDup (dial_wait s k);
  B_need : forall w, wneed s w = true -> wdial s w = DNone /\ w < next_want s;
  B_fresh : forall w, next_want s <= w -> wdial s w = DNone;
  B_unlimited : host_limited cfg = false -> forall k, per_host s k = 0;
  B_nopanic : panicked s = false }.

Definition invB := invBd (fun _ => 0).
Definition debt (k : key) : key -> nat := fun k' => if Nat.eqb k' k then 1 else 0.

Definition Bsame (s s' : state) : Prop :=
  per_host s' = per_host s /\ dial_wait s' = dial_wait s /\ wdial s' = wdial s /\ wk s' = wk s /\
  closed s' = closed s /\ ck s' = ck s /\ next_conn s' = next_conn s /\ next_want s' = next_want s /\
  wneed s' = wneed s /\ panicked s' = panicked s.

Lemma invB_same : forall d s s', Bsame s s' -> invBd d s -> invBd d s'.
Proof.
  intros d s s' (e1 & e2 & e3 & e4 & e5 & e6 & e7 & e8 & e9 & e10) [].
  constructor; unfold dialing_count, live_count in *;
    rewrite ?e1, ?e2, ?e3, ?e4, ?e5, ?e6, ?e7, ?e8, ?e9, ?e10; auto.
Qed.

Lemma invB_init : invB init.
Proof.
  constructor; cbn; intros; try tauto; try discriminate; try constructor; auto; try lia.
  unfold host_limited in H. apply Z.ltb_lt in H. lia.
Qed.

(* decConnsPerHost, called by a goroutine that has just given up one counted slot of key k *)
Lemma dec_conns_B : forall s k, invBd (debt k) s -> invB (dec_conns cfg s k).
Proof.
  intros s k I. unfold dec_conns.
  destruct (host_limited cfg) eqn:HL; cbn [negb].
  2:{ destruct I. constructor; intros; try congruence; eauto. }
  pose proof (B_acc _ _ I HL k) as ACC. unfold debt in ACC. rewrite Nat.eqb_refl in ACC.
  destruct (per_host s k) as [|n'] eqn:PH; [lia|].
  destruct (drop_done (wdone s) (dial_wait s k)) as [|w q'] eqn:Q.
  - destruct I. constructor; cbn; intros; try discriminate; auto.
    + specialize (B_acc0 H k0). unfold debt in B_acc0. unfold dialing_count, live_count in *; cbn.
      updt; lia.
    + specialize (B_le0 H k0). updt; lia.
    + updt; [congruence|]. auto.
    + updt; [destruct H|]. auto.
    + updt; [constructor|]. auto.
    + congruence.
  - destruct (drop_done_head _ _ _ _ Q) as (DW & INW & SUB).
    pose proof (drop_done_NoDup (wdone s) _ (B_wait_nodup _ _ I k)) as ND. rewrite Q in ND.
    inversion ND as [|? ? NIq NDq]; subst.
    destruct (B_wait_phase _ _ I _ _ INW) as (PW & KW & LW).
    destruct I. constructor; cbn; intros; try discriminate; auto.
    + specialize (B_acc0 H k0). unfold debt in B_acc0. unfold dialing_count, live_count in *; cbn.
      rewrite <- KW in B_acc0.
      destruct (Nat.eqb_spec k0 (wk s w)).
      * subst k0. rewrite (countb_on (fun w0 => Nat.eqb (wk s w0) (wk s w) && is_counted (wdial s w0))
                                     (fun w0 => Nat.eqb (wk s w0) (wk s w) && is_counted (upd (wdial s) w DPermitted w0))
                                     (next_want s) w); auto.
        -- lia.
        -- rewrite PW; cbn. apply andb_false_r.
        -- rewrite upd_same, Nat.eqb_refl; auto.
        -- intros j N. now rewrite upd_other.
      * rewrite (countb_ext (fun w0 => Nat.eqb (wk s w0) k0 && is_counted (upd (wdial s) w DPermitted w0))
                            (fun w0 => Nat.eqb (wk s w0) k0 && is_counted (wdial s w0))); [lia|].
        intros i Hi. destruct (Nat.eq_dec i w) as [->|N]; [|now rewrite upd_other].
        destruct (Nat.eqb_spec (wk s w) k0); [congruence|auto].
    + updt; [|auto]. apply B_wait_full0. intro X; rewrite X in INW; inversion INW.
    + updt; try (exfalso; apply NIq; assumption);
        try (destruct (B_wait_phase0 _ _ H) as (_ & K1 & _); congruence);
        try (apply B_wait_phase0; auto).
    + updt; auto.
    + specialize (B_need0 _ H). updt; [|auto]. destruct B_need0; congruence.
    + specialize (B_fresh0 _ H). updt; [lia|auto].
Qed.

(* closing a live connection gives its slot back *)
Lemma close_conn_B : forall s c, invB s -> c < next_conn s -> invB (close_conn cfg s c).
Proof.
  intros s c I LT. unfold close_conn. destruct (closed s c) eqn:CL; auto.
  apply dec_conns_B. destruct I. constructor; cbn; intros; auto.
  specialize (B_acc0 H k). unfold dialing_count, live_count, debt in *; cbn.
  destruct (Nat.eqb_spec k (ck s c)).
  - subst k.
    rewrite (countb_off (fun c0 => Nat.eqb (ck s c0) (ck s c) && negb (closed s c0))
                        (fun c0 => Nat.eqb (ck s c0) (ck s c) && negb (upd (closed s) c true c0))
                        (next_conn s) c) in B_acc0; auto.
    + lia.
    + now rewrite Nat.eqb_refl, CL.
    + rewrite upd_same. apply andb_false_r.
    + intros j N. now rewrite upd_other.
  - rewrite (countb_ext (fun c0 => Nat.eqb (ck s c0) k && negb (upd (closed s) c true c0))
                        (fun c0 => Nat.eqb (ck s c0) k && negb (closed s c0))); [lia|].
    intros i Hi. destruct (Nat.eq_dec i c) as [->|N]; [|now rewrite upd_other].
    destruct (Nat.eqb_spec (ck s c) k); [congruence|auto].
Qed.

Lemma lru_lt_next : forall s c, invA cfg s -> In c (lru s) -> c < next_conn s.
Proof.
  intros s c [I _] H. destruct (Nat.lt_ge_cases c (next_conn s)); auto.
  pose proof (A_fresh _ _ I _ H0). pose proof (A_lru_loc _ _ I _ H). congruence.
Qed.

Lemma try_put_B : forall s c, invA cfg s -> cloc s c = LLoose -> invB s -> invB (fst (try_put cfg s c)).
Proof.
  intros s c IA L IB. unfold try_put.
  destruct (keepalive_off cfg); [cbn; auto|].
  destruct (closed s c); [cbn; auto|].
  cbn [ck set_reused idle_wait wdone close_idle idle lru].
  destruct (drop_done (wdone s) (idle_wait s (ck s c))) as [|w q'] eqn:Q.
  2:{ cbn [fst]. unfold deliver. cbn [wdone set_idle_wait set_reused].
      destruct (wdone s w); cbn [fst]; (eapply invB_same; [|exact IB]); unfold Bsame; cbn; tauto. }
  cbn [close_idle set_idle_wait set_reused].
  destruct (close_idle s); [cbn [fst]; (eapply invB_same; [|exact IB]); unfold Bsame; cbn; tauto|].
  cbn [idle set_idle_wait set_reused].
  destruct (idle_cap cfg <=? length (idle s (ck s c)));
    [cbn [fst]; (eapply invB_same; [|exact IB]); unfold Bsame; cbn; tauto|].
  assert (NI : memb c (idle s (ck s c)) = false).
  { apply memb_false. intros H. destruct (A_idle_loc _ _ (proj1 IA) _ _ H). congruence. }
  assert (NL : memb c (lru s) = false).
  { apply memb_false. intros H. pose proof (A_lru_loc _ _ (proj1 IA) _ H). congruence. }
  cbn [lru set_idle_wait set_reused]. rewrite NI, NL. cbn [orb].
  set (s2 := set_cloc _ _).
  assert (B2 : invB s2) by (subst s2; (eapply invB_same; [|exact IB]); unfold Bsame; cbn; tauto).
  destruct (negb (max_idle cfg =? 0)%Z && (max_idle cfg <? Z.of_nat (length (lru s2)))%Z); [|exact B2].
  cbn [fst].
  set (o := last (lru s2) 0).
  assert (LO : o < next_conn s).
  { subst o s2. cbn [lru set_cloc set_lru set_idle set_idle_wait set_reused].
    assert (IN : In (last (c :: lru s) 0) (c :: lru s)).
    { destruct (exists_last (l := c :: lru s)) as (l' & a & E); [discriminate|].
      rewrite E, last_last. apply in_or_app; right; left; auto. }
    destruct IN as [E|IN].
    - rewrite <- E. destruct (Nat.lt_ge_cases c (next_conn s)); auto.
      pose proof (A_fresh _ _ (proj1 IA) _ H). congruence.
    - eapply lru_lt_next; eauto. }
  eapply invB_same with (s := close_conn cfg (set_lru (removelast (lru s2)) s2) o).
  { unfold remove_idle, Bsame; cbn; tauto. }
  apply close_conn_B; [|subst s2; cbn; exact LO].
  eapply invB_same; [|exact B2]. unfold Bsame; cbn; tauto.
Qed.

Lemma put_or_dead_B : forall s c, invA cfg s -> cloc s c = LLoose -> invB s -> invB (put_or_dead cfg s c).
Proof.
  intros s c IA L IB. unfold put_or_dead. pose proof (try_put_B s c IA L IB) as H.
  destruct (try_put cfg s c) as [s' ok]; cbn in *. destruct ok; auto.
  eapply invB_same; [|exact H]. unfold Bsame; cbn; tauto.
Qed.

Lemma get_idle_Bsame : forall s w k, wdial s w = DNone -> w < next_want s ->
  invB s -> invB (get_idle cfg s w k).
Proof.
  intros s w k PW LW I. unfold get_idle.
  assert (G : forall s', per_host s' = per_host s -> dial_wait s' = dial_wait s -> wdial s' = wdial s ->
              wk s' = wk s -> closed s' = closed s -> ck s' = ck s -> next_conn s' = next_conn s ->
              next_want s' = next_want s -> panicked s' = panicked s ->
              (forall w', wneed s' w' = true -> w' = w \/ wneed s w' = true) -> invB s').
  { intros s' e1 e2 e3 e4 e5 e6 e7 e8 e10 HN. destruct I.
    constructor; unfold dialing_count, live_count in *;
      rewrite ?e1, ?e2, ?e3, ?e4, ?e5, ?e6, ?e7, ?e8, ?e10; auto.
    intros w' H. destruct (HN _ H) as [->|H']; auto. }
  destruct (no_keepalive cfg).
  - apply G; auto. cbn; intros w' H. updt; auto.
  - cbn [closed set_close_idle idle].
    destruct (scan_idle (closed s) (rev (idle s k))) as [[c|] rest].
    + unfold deliver. cbn [wdone set_close_idle]. destruct (wdone s w); apply G; auto; cbn; intros w' H; updt; auto.
    + apply G; auto. cbn; intros w' H. updt; auto.
Qed.

Theorem step_B : forall s e, invA cfg s -> invB s -> invB (step cfg s e).
Proof.
  intros s e IA I. destruct e; cbn [step].
  - (* EGet *) apply get_idle_Bsame; [cbn; apply upd_same|cbn; lia|].
    destruct I. unfold new_want. constructor; cbn; intros; auto.
    + specialize (B_acc0 H k0). unfold dialing_count, live_count in *; cbn.
      rewrite !upd_same. cbn [is_counted]. rewrite andb_false_r.
      rewrite (countb_ext (fun w => Nat.eqb (upd (wk s) (next_want s) k w) k0 && is_counted (upd (wdial s) (next_want s) DNone w))
                          (fun w => Nat.eqb (wk s w) k0 && is_counted (wdial s w))); [lia|].
      intros i Hi. rewrite !upd_other; auto; lia.
    + destruct (B_wait_phase0 _ _ H) as (a & b & c). rewrite !upd_other; try lia. auto.
    + updt; [discriminate|]. destruct (B_need0 _ H); auto.
    + updt; auto. apply B_fresh0; lia.
  - (* EQueueDial *) destruct (wneed s w) eqn:NW; auto.
    destruct (B_need _ _ I _ NW) as [PW LW].
    unfold queue_dial. cbn [wk set_wneed per_host dial_wait wdone wdial].
    destruct (host_limited cfg) eqn:HL; cbn [negb].
    2:{ destruct I. constructor; cbn; intros; try congruence; auto.
        - destruct (B_wait_phase0 _ _ H) as (a & b & c). updt; [congruence|auto].
        - updt; [discriminate|]. destruct (B_need0 _ H). updt; auto.
        - updt; [lia|auto]. }
    destruct (Z.of_nat (per_host s (wk s w)) <? max_host cfg)%Z eqn:LT.
    + apply Z.ltb_lt in LT. destruct I. constructor; cbn; intros; try congruence; auto.
      * specialize (B_acc0 H k). unfold dialing_count, live_count in *; cbn.
        destruct (Nat.eqb_spec k (wk s w)).
        -- subst k. rewrite upd_same.
           rewrite (countb_on (fun w0 => Nat.eqb (wk s w0) (wk s w) && is_counted (wdial s w0))
                              (fun w0 => Nat.eqb (wk s w0) (wk s w) && is_counted (upd (wdial s) w DPermitted w0))
                              (next_want s) w); auto.
           ++ lia.
           ++ rewrite PW; apply andb_false_r.
           ++ now rewrite upd_same, Nat.eqb_refl.
           ++ intros j N; now rewrite upd_other.
        -- rewrite upd_other; auto.
           rewrite (countb_ext (fun w0 => Nat.eqb (wk s w0) k && is_counted (upd (wdial s) w DPermitted w0))
                               (fun w0 => Nat.eqb (wk s w0) k && is_counted (wdial s w0))); [lia|].
           intros i Hi. destruct (Nat.eq_dec i w) as [->|N]; [|now rewrite upd_other].
           destruct (Nat.eqb_spec (wk s w) k); [congruence|auto].
      * specialize (B_le0 H k). updt; lia.
      * updt; [|auto]. destruct (B_wait_full0 _ H). lia.
      * destruct (B_wait_phase0 _ _ H) as (a & b & c). updt; [congruence|auto].
      * updt; [discriminate|]. destruct (B_need0 _ H). updt; auto.
      * updt; [lia|auto].
    + apply Z.ltb_ge in LT. pose proof (B_le _ _ I HL (wk s w)) as LE.
      assert (NIW : forall k, ~ In w (dial_wait s k)).
      { intros k H. destruct (B_wait_phase _ _ I _ _ H). congruence. }
      destruct I. constructor; cbn; intros; try congruence; auto.
      * specialize (B_acc0 H k). unfold dialing_count, live_count in *; cbn.
        rewrite (countb_ext (fun w0 => Nat.eqb (wk s w0) k && is_counted (upd (wdial s) w DWait w0))
                            (fun w0 => Nat.eqb (wk s w0) k && is_counted (wdial s w0))); [lia|].
        intros i Hi. destruct (Nat.eq_dec i w) as [->|N]; [|now rewrite upd_other].
        rewrite upd_same, PW. reflexivity.
      * updt; [split; auto; lia|auto].
      * updt.
        -- auto.
        -- exfalso; eapply NIW; eauto.
        -- apply in_app_or in H. destruct H as [H|[H|[]]]; [|congruence].
           apply drop_done_In in H. apply B_wait_phase0; auto.
        -- auto.
      * updt; auto. apply NoDup_snoc; [apply drop_done_NoDup; auto|].
        intro H; apply drop_done_In in H. eapply NIW; eauto.
      * updt; [discriminate|]. destruct (B_need0 _ H). updt; auto.
      * updt; [lia|auto].
  - (* EDialBegin *) destruct (wdial s w) eqn:PW; auto.
    assert (LW : w < next_want s).
    { destruct (Nat.lt_ge_cases w (next_want s)); auto. rewrite (B_fresh _ _ I _ H) in PW. discriminate. }
    destruct I. constructor; cbn; intros; try congruence; auto.
    + specialize (B_acc0 H k). unfold dialing_count, live_count in *; cbn.
      rewrite (countb_ext (fun w0 => Nat.eqb (wk s w0) k && is_counted (upd (wdial s) w (if wdone s w then DMustDec else DDialing) w0))
                          (fun w0 => Nat.eqb (wk s w0) k && is_counted (wdial s w0))); [lia|].
      intros i Hi. destruct (Nat.eq_dec i w) as [->|N]; [|now rewrite upd_other].
      rewrite upd_same, PW. destruct (wdone s w); reflexivity.
    + destruct (B_wait_phase0 _ _ H) as (a & b & c). updt; [congruence|auto].
    + destruct (B_need0 _ H). updt; [congruence|auto].
    + updt; [lia|auto].
  - (* EDialEnd *) destruct (wdial s w) eqn:PW; auto.
    assert (LW : w < next_want s).
    { destruct (Nat.lt_ge_cases w (next_want s)); auto. rewrite (B_fresh _ _ I _ H) in PW. discriminate. }
    destruct ok.
    + unfold deliver. cbn [wdone set_wdial new_conn set_next_conn set_cloc set_reused set_closed set_ck].
      match goal with |- invB (fst (if ?b then _ else _)) => destruct b end; cbn [fst];
      (eapply invB_same with (s := set_wdial (upd (wdial s) w DOver) (new_conn s (next_conn s) (wk s w)));
        [unfold Bsame; cbn; tauto|]);
      (destruct I; unfold new_conn; constructor; cbn; intros; try congruence; auto;
       [ specialize (B_acc0 H k); unfold dialing_count, live_count in *; cbn;
         rewrite !upd_same; cbn;
         rewrite (countb_ext (fun c => Nat.eqb (upd (ck s) (next_conn s) (wk s w) c) k && negb (upd (closed s) (next_conn s) false c))
                             (fun c => Nat.eqb (ck s c) k && negb (closed s c)) (next_conn s))
           by (intros i Hi; rewrite !upd_other; auto; lia);
         destruct (Nat.eqb_spec (wk s w) k) as [E|E]; cbn;
         [ subst k;
           rewrite (countb_off (fun w0 => Nat.eqb (wk s w0) (wk s w) && is_counted (wdial s w0))
                               (fun w0 => Nat.eqb (wk s w0) (wk s w) && is_counted (upd (wdial s) w DOver w0))
                               (next_want s) w) in B_acc0; auto;
           [ lia | now rewrite PW, Nat.eqb_refl | rewrite upd_same; apply andb_false_r | intros j N; now rewrite upd_other ]
         | rewrite (countb_ext (fun w0 => Nat.eqb (wk s w0) k && is_counted (upd (wdial s) w DOver w0))
                               (fun w0 => Nat.eqb (wk s w0) k && is_counted (wdial s w0))); [lia|];
           intros i Hi; destruct (Nat.eq_dec i w) as [->|N]; [|now rewrite upd_other];
           destruct (Nat.eqb_spec (wk s w) k); [congruence|auto] ]
       | destruct (B_wait_phase0 _ _ H) as (a & b & c); updt; [congruence|auto]
       | destruct (B_need0 _ H); updt; [congruence|auto]
       | updt; [lia|auto] ]).
    + eapply invB_same with (s := set_wdial (upd (wdial s) w DMustDec) s); [unfold Bsame; cbn; tauto|].
      destruct I. constructor; cbn; intros; try congruence; auto.
      * specialize (B_acc0 H k). unfold dialing_count, live_count in *; cbn.
        rewrite (countb_ext (fun w0 => Nat.eqb (wk s w0) k && is_counted (upd (wdial s) w DMustDec w0))
                            (fun w0 => Nat.eqb (wk s w0) k && is_counted (wdial s w0))); [lia|].
        intros i Hi. destruct (Nat.eq_dec i w) as [->|N]; [|now rewrite upd_other].
        rewrite upd_same, PW. reflexivity.
      * destruct (B_wait_phase0 _ _ H) as (a & b & c). updt; [congruence|auto].
      * destruct (B_need0 _ H). updt; [congruence|auto].
      * updt; [lia|auto].
  - (* EDialDec *) destruct (wdial s w) eqn:PW; auto.
    assert (LW : w < next_want s).
    { destruct (Nat.lt_ge_cases w (next_want s)); auto. rewrite (B_fresh _ _ I _ H) in PW. discriminate. }
    apply dec_conns_B. destruct I. constructor; cbn; intros; try congruence; auto.
    + specialize (B_acc0 H k). unfold dialing_count, live_count, debt in *; cbn.
      destruct (Nat.eqb_spec k (wk s w)).
      * subst k.
        rewrite (countb_off (fun w0 => Nat.eqb (wk s w0) (wk s w) && is_counted (wdial s w0))
                            (fun w0 => Nat.eqb (wk s w0) (wk s w) && is_counted (upd (wdial s) w DOver w0))
                            (next_want s) w) in B_acc0; auto.
        -- lia.
        -- now rewrite PW, Nat.eqb_refl.
        -- rewrite upd_same; apply andb_false_r.
        -- intros j N; now rewrite upd_other.
      * rewrite (countb_ext (fun w0 => Nat.eqb (wk s w0) k && is_counted (upd (wdial s) w DOver w0))
                            (fun w0 => Nat.eqb (wk s w0) k && is_counted (wdial s w0))); [lia|].
        intros i Hi. destruct (Nat.eq_dec i w) as [->|N]; [|now rewrite upd_other].
        destruct (Nat.eqb_spec (wk s w) k); [congruence|auto].
    + destruct (B_wait_phase0 _ _ H) as (a & b & c). updt; [congruence|auto].
    + destruct (B_need0 _ H). updt; [congruence|auto].
    + updt; [lia|auto].
  - (* ERecv *) destruct (wres s w) as [[c b]|]; auto. eapply invB_same; [|exact I]. unfold Bsame; cbn; tauto.
  - (* ECancel *) destruct (wres s w) as [[c b]|]; (eapply invB_same; [|exact I]); unfold Bsame; cbn; tauto.
  - (* EPutLoose *) destruct (cloc s c) eqn:L; auto. apply put_or_dead_B; auto.
  - (* EFinish *) destruct (wheld s w) as [c|] eqn:R; auto.
    pose proof (step_A cfg s (EFinish w r) IA) as IA'. cbn [step] in IA'. rewrite R in IA'.
    destruct (recycle_ok r).
    + apply put_or_dead_B.
      * pose proof (A_held_loc _ _ (proj1 IA) _ _ R) as LC.
        eapply invA_same with (s := set_cloc (upd (cloc s) c LLoose) (set_wres (wres s) (set_wheld (upd (wheld s) w None) s)));
          [unfold Asame; cbn; tauto|].
        apply reloc_A; auto; try congruence.
        -- intros w' c' b' H. right. split; auto. intro; subst. pose proof (A_res_loc _ _ (proj1 IA) _ _ _ H). congruence.
        -- intros w' c' H. right. updt; [discriminate|]. split; auto.
           intro; subst. pose proof (A_held_loc _ _ (proj1 IA) _ _ H). congruence.
      * cbn; apply upd_same.
      * eapply invB_same; [|exact I]. unfold Bsame; cbn; tauto.
    + eapply invB_same; [|exact I]. unfold Bsame; cbn; tauto.
  - (* EConnClose *) destruct (c <? next_conn s) eqn:LT; auto. apply Nat.ltb_lt in LT. apply close_conn_B; auto.
  - (* ERemoveIdle *) eapply invB_same; [|exact I]. unfold remove_idle, Bsame; cbn; tauto.
  - (* EIdleTimeout *) destruct (memb c (lru s)) eqn:M; auto. apply memb_In in M.
    apply close_conn_B.
    + eapply invB_same; [|exact I]. unfold remove_idle, Bsame; cbn; tauto.
    + unfold remove_idle; cbn. eapply lru_lt_next; eauto.
  - (* ECloseIdle *) eapply invB_same; [|exact I]. unfold Bsame; cbn; tauto.
Qed.

Theorem run_AB : forall evs, invA cfg (run cfg evs) /\ invB (run cfg evs).
Proof.
  intros evs. unfold run. rewrite <- fold_left_rev_right.
  induction (rev evs) as [|e l [IA IB]]; cbn; [split; [apply invA_init|apply invB_init]|].
  split; [apply step_A; auto|apply step_B; auto].
Qed.
End InvB.

(* ---------- the statements used by Properties/C09.v ---------- *)

Lemma nodupb_NoDup : forall l, NoDup l -> nodupb l = true.
Proof.
  induction l as [|x r IH]; cbn; auto; intros H; inversion H; subst.
  rewrite IH; auto. apply memb_false in H2. now rewrite H2.
Qed.

Section Top.
Variable cfg : config.

Theorem exclusive_ownership : forall evs, let s := run cfg evs in
  (forall w1 w2 c b1 b2, wres s w1 = Some (c, b1) -> wres s w2 = Some (c, b2) -> w1 = w2) /\
  (forall w1 w2 c, wheld s w1 = Some c -> wheld s w2 = Some c -> w1 = w2) /\
  (forall w1 w2 c b, wres s w1 = Some (c, b) -> wheld s w2 <> Some c) /\
  (forall w c k, wheld s w = Some c \/ (exists b, wres s w = Some (c, b)) -> ~ In c (idle s k)).
Proof.
  intros evs s. destruct (run_A cfg evs) as [I _]. fold s in I. repeat split.
  - intros. pose proof (A_res_loc _ _ I _ _ _ H). pose proof (A_res_loc _ _ I _ _ _ H0). congruence.
  - intros. pose proof (A_held_loc _ _ I _ _ H). pose proof (A_held_loc _ _ I _ _ H0). congruence.
  - intros w1 w2 c b H H0. pose proof (A_res_loc _ _ I _ _ _ H). pose proof (A_held_loc _ _ I _ _ H0). congruence.
  - intros w c k H IN. destruct (A_idle_loc _ _ I _ _ IN) as [L _].
    destruct H as [H|[b H]]; [pose proof (A_held_loc _ _ I _ _ H)|pose proof (A_res_loc _ _ I _ _ _ H)]; congruence.
Qed.

Theorem no_duplicate_idle : forall evs, let s := run cfg evs in
  (forall k, NoDup (idle s k)) /\
  (forall k1 k2 c, In c (idle s k1) -> In c (idle s k2) -> k1 = k2) /\
  NoDup (lru s) /\ (forall k c, In c (idle s k) -> In c (lru s)).
Proof.
  intros evs s. destruct (run_A cfg evs) as [I _]. fold s in I. repeat split.
  - apply I.
  - intros. destruct (A_idle_loc _ _ I _ _ H), (A_idle_loc _ _ I _ _ H0). congruence.
  - apply I.
  - apply I.
Qed.

Lemma concat_idle_NoDup : forall s ks, invA0 cfg s -> NoDup ks -> NoDup (concat (map (idle s) ks)).
Proof.
  intros s ks I. induction ks as [|k r IH]; cbn; intros N; [constructor|].
  inversion N; subst.
  assert (D : forall x, In x (idle s k) -> ~ In x (concat (map (idle s) r))).
  { intros x Hx H. apply in_concat in H. destruct H as (l & Hl & Hxl).
    apply in_map_iff in Hl. destruct Hl as (k' & <- & Hk').
    destruct (A_idle_loc _ _ I _ _ Hx), (A_idle_loc _ _ I _ _ Hxl). congruence. }
  revert D. generalize (IH H2). generalize (A_idle_nodup _ _ I k).
  generalize (concat (map (idle s) r)). induction (idle s k) as [|x l IHl]; cbn; auto.
  intros m N1 N2 D. inversion N1; subst. constructor.
  - intro X. apply in_app_or in X. destruct X; [auto|]. eapply D; eauto.
  - apply IHl; auto.
Qed.

Lemma concat_idle_incl : forall s ks, invA0 cfg s -> incl (concat (map (idle s) ks)) (lru s).
Proof.
  intros s ks I x H. apply in_concat in H. destruct H as (l & Hl & Hxl).
  apply in_map_iff in Hl. destruct Hl as (k' & <- & Hk'). eapply A_idle_lru; eauto.
Qed.

(* per host <= MaxIdleConnsPerHost (default 2); over any set of distinct hosts <= MaxIdleConns *)
Theorem idle_limits : forall evs, let s := run cfg evs in
  (forall k, length (idle s k) <= idle_cap cfg) /\
  (forall ks, NoDup ks -> length (concat (map (idle s) ks)) <= length (lru s)) /\
  ((0 < max_idle cfg)%Z -> forall ks, NoDup ks ->
     (Z.of_nat (length (concat (map (idle s) ks))) <= max_idle cfg)%Z).
Proof.
  intros evs s. destruct (run_A cfg evs) as [I T]. fold s in I, T.
  assert (G : forall ks, NoDup ks -> length (concat (map (idle s) ks)) <= length (lru s)).
  { intros ks N. apply NoDup_incl_length; [apply concat_idle_NoDup|apply concat_idle_incl]; auto. }
  repeat split; auto.
  - apply I.
  - intros P ks N. specialize (G ks N). specialize (T P). nlia.
Qed.

Theorem per_host_limit : forall evs, host_limited cfg = true -> let s := run cfg evs in
  forall k, (Z.of_nat (per_host s k) <= max_host cfg)%Z /\
            per_host s k = dialing_count s k + live_count s k /\
            (dial_wait s k <> [] -> Z.of_nat (per_host s k) = max_host cfg).
Proof.
  intros evs HL s k. destruct (run_AB cfg evs) as [_ I]. fold s in I. repeat split.
  - apply I; auto.
  - rewrite (B_acc _ _ _ I HL k). lia.
  - intros H. apply (B_wait_full _ _ _ I k H).
Qed.

Theorem per_host_unlimited : forall evs, host_limited cfg = false -> let s := run cfg evs in
  forall k, per_host s k = 0 /\ dial_wait s k = [].
Proof.
  intros evs HL s k. destruct (run_AB cfg evs) as [_ I]. fold s in I. split.
  - apply I; auto.
  - destruct (dial_wait s k) eqn:E; auto.
    destruct (B_wait_full _ _ _ I k); congruence.
Qed.

(* decConnsPerHost never sees a zero count, tryPutIdleConn never sees a duplicate *)
Theorem count_never_underflows : forall evs, panicked (run cfg evs) = false.
Proof. intros evs. destruct (run_AB cfg evs) as [_ I]. apply I. Qed.

(* a connection re-enters the pool (idle list or a waiting getConn) at the end of an exchange
   only if readLoop's recycle decision held: in particular only after the body was read to EOF *)
Theorem idle_only_after_full_read : forall evs w r c, let s := run cfg evs in
  wheld s w = Some c ->
  let s' := step cfg s (EFinish w r) in
  ((exists k, In c (idle s' k)) \/ (exists w' b, wres s' w' = Some (c, b))) ->
  recycle_ok r = true /\ (r_has_body r = true -> r_body_eof r = true) /\ closed s c = false.
Proof.
  intros evs w r c s H s' OUT.
  assert (I' : invA cfg s') by (apply step_A, run_A).
  assert (ND : cloc s' c <> LDead).
  { destruct OUT as [[k IN]|(w' & b & R)].
    - destruct (A_idle_loc _ _ (proj1 I') _ _ IN); congruence.
    - pose proof (A_res_loc _ _ (proj1 I') _ _ _ R); congruence. }
  subst s'. cbn [step] in ND. rewrite H in ND.
  destruct (recycle_ok r) eqn:RO.
  2:{ exfalso; apply ND; cbn; apply upd_same. }
  split; auto. split.
  - unfold recycle_ok in RO. intros HB. rewrite HB in RO. cbn in RO.
    destruct (r_alive r), (r_body_eof r); cbn in RO; auto; discriminate.
  - unfold put_or_dead, try_put in ND.
    destruct (keepalive_off cfg); [exfalso; apply ND; cbn; apply upd_same|].
    cbn [closed set_cloc set_wheld] in ND.
    destruct (closed s c); auto. exfalso; apply ND; cbn; apply upd_same.
Qed.

(* a connection delivered to a getConn that gave up is handed to putOrCloseIdleConn, and from
   there it is idle again, handed to another waiter, or dead - never left dangling *)
Theorem delivered_conn_is_used_or_returned : forall evs w c b, let s := run cfg evs in
  wres s w = Some (c, b) ->
  (let s1 := step cfg s (ERecv w) in wheld s1 w = Some c /\ wres s1 w = None /\ cloc s1 c = LHeld w) /\
  (let s2 := step cfg s (ECancel w) in wres s2 w = None /\ cloc s2 c = LLoose /\
     let s3 := step cfg s2 (EPutLoose c) in
     cloc s3 c = LIdle \/ (exists w', cloc s3 c = LChan w') \/ cloc s3 c = LDead).
Proof.
  intros evs w c b s R. split.
  - cbn [step]. rewrite R. cbn. rewrite !upd_same. auto.
  - cbn [step]. rewrite R. cbn [wres set_cloc set_wres cloc].
    rewrite !upd_same. split; auto. split; auto.
    set (s2 := set_cloc _ _). unfold put_or_dead, try_put.
    destruct (keepalive_off cfg); [cbn; rewrite upd_same; auto|].
    destruct (closed s2 c); [cbn; rewrite upd_same; auto|].
    cbn [ck set_reused idle_wait wdone close_idle idle lru].
    destruct (drop_done (wdone s2) (idle_wait s2 (ck s2 c))) as [|w' q'] eqn:Q.
    + cbn [close_idle set_idle_wait set_reused]. destruct (close_idle s2); [cbn; rewrite upd_same; auto|].
      cbn [idle set_idle_wait set_reused]. destruct (_ <=? _); [cbn; rewrite upd_same; auto|].
      left. match goal with |- context [if ?b then set_panicked true ?x else ?y] =>
        set (s1 := if b then set_panicked true x else y) end.
      set (s4 := set_cloc _ _).
      assert (L4 : cloc s4 c = LIdle) by (subst s4; cbn; apply upd_same).
      destruct (_ && _); [|exact L4].
      cbn [fst snd]. unfold remove_idle. cbn [cloc set_idle set_lru].
      destruct (close_conn_same cfg (set_lru (removelast (lru s4)) s4) (last (lru s4) 0)) as (_ & _ & e3 & _).
      rewrite e3. exact L4.
    + right; left. exists w'. cbn [fst snd]. destruct (drop_done_head _ _ _ _ Q) as (DW & _ & _).
      unfold deliver. cbn [wdone set_idle_wait set_reused]. rewrite DW. cbn. apply upd_same.
Qed.

(* the boolean invariants evaluated on snapshots of the real pool hold in every reachable
   state of the model, for every list of distinct keys *)
Theorem reachable_snapshot_ok : forall evs ks, NoDup ks ->
  snap_ok cfg (snapshot_of (run cfg evs) ks) = true.
Proof.
  intros evs ks N. destruct (run_AB cfg evs) as [[IA T] IB]. set (s := run cfg evs) in *.
  unfold snap_ok, snapshot_of; cbn [sn_idle sn_lru_len sn_per_host sn_dial_wait].
  repeat (apply andb_true_intro; split).
  - apply forallb_forall. intros l H. apply in_map_iff in H. destruct H as (k & <- & _).
    apply Nat.leb_le, IA.
  - apply nodupb_NoDup, concat_idle_NoDup; auto.
  - apply Nat.leb_le. apply NoDup_incl_length; [apply concat_idle_NoDup|apply concat_idle_incl]; auto.
  - destruct (max_idle cfg <=? 0)%Z eqn:E; auto. apply Z.leb_gt in E. cbn. apply Z.leb_le, T; auto.
  - destruct (host_limited cfg) eqn:HL.
    + apply andb_true_intro; split.
      * apply forallb_forall. intros n H. apply in_map_iff in H. destruct H as (k & <- & _).
        apply Z.leb_le. apply IB; auto.
      * clear N. induction ks as [|k r IH]; cbn; auto. rewrite IH, andb_true_r.
        destruct (dial_wait s k) eqn:E; cbn; auto.
        destruct (B_wait_full _ _ _ IB k) as [_ F]; [congruence|]. apply Z.eqb_eq; auto.
    + apply andb_true_intro; split; apply forallb_forall; intros n H; apply in_map_iff in H;
        destruct H as (k & <- & _); apply Nat.eqb_eq.
      * apply IB; auto.
      * destruct (dial_wait s k) eqn:E; auto. destruct (B_wait_full _ _ _ IB k); congruence.
Qed.
End Top.
