(* Proofs/MultipartProofs.v - multipart bodies round-trip (C17). *)
From Coq Require Import Lia.
From ReqV Require Import Lib.Bytes Lib.BytesFacts Model.Multipart.

(* ---------- delimiter search ---------- *)

Lemma find_delim_here d r : find_delim d (d ++ r) = Some ([], r).
Proof.
  destruct (d ++ r) eqn:E; cbn [find_delim]; rewrite <- E;
    now rewrite has_prefix_refl_app, skipn_app_exact.
Qed.

Lemma has_prefix_cons_neq c d x s : beqb c x = false -> has_prefix (c :: d) (x :: s) = false.
Proof. intro H. cbn [has_prefix]. now rewrite H. Qed.

(* the first byte of the delimiter does not occur in the text before it *)
Lemma find_delim_simple c d' a r :
  mem_byte c a = false -> find_delim (c :: d') (a ++ (c :: d') ++ r) = Some (a, r).
Proof.
  induction a as [|x a IH]; intro H.
  - rewrite app_nil_l. apply find_delim_here.
  - rewrite mem_byte_cons in H. apply Bool.orb_false_iff in H as (H1 & H2).
    rewrite <- app_comm_cons. cbn [find_delim]. rewrite has_prefix_cons_neq by exact H1.
    now rewrite (IH H2).
Qed.

Lemma occurs_cons_false d x a :
  occurs d (x :: a) = false -> has_prefix d (x :: a) = false /\ occurs d a = false.
Proof.
  unfold occurs. cbn [find_delim]. destruct (has_prefix d (x :: a)); [discriminate|].
  destruct (find_delim d a) as [[? ?]|]; [discriminate|auto].
Qed.

(* a delimiter whose first byte occurs nowhere else in it cannot straddle the end of the text *)
Lemma no_straddle c d' x a r :
  mem_byte c d' = false ->
  has_prefix (c :: d') ((x :: a) ++ (c :: d') ++ r) = true -> has_prefix (c :: d') (x :: a) = true.
Proof.
  intros Hc H. apply has_prefix_spec in H as [t H].
  apply app_eq_app in H as [l [[H1 H2]|[H1 H2]]].
  - (* x :: a = (c :: d') ++ l *)
    apply has_prefix_spec. exists l. exact H1.
  - (* c :: d' = (x :: a) ++ l, (c :: d') ++ r = l ++ t *)
    destruct l as [|y l].
    + rewrite app_nil_r in H1. rewrite H1. apply has_prefix_spec. exists []. now rewrite app_nil_r.
    + exfalso. cbn in H2. injection H2 as Hy _. subst y. cbn in H1. injection H1 as _ H1.
      apply mem_byte_false_In in Hc. apply Hc. rewrite H1. apply in_or_app. right. now left.
Qed.

Lemma find_delim_first c d' a r :
  mem_byte c d' = false -> occurs (c :: d') a = false ->
  find_delim (c :: d') (a ++ (c :: d') ++ r) = Some (a, r).
Proof.
  intros Hc. induction a as [|x a IH]; intro H.
  - rewrite app_nil_l. apply find_delim_here.
  - apply occurs_cons_false in H as (H1 & H2).
    rewrite <- app_comm_cons. cbn [find_delim].
    destruct (has_prefix (c :: d') (x :: a ++ (c :: d') ++ r)) eqn:E.
    + rewrite app_comm_cons in E. apply no_straddle in E; [congruence|exact Hc].
    + now rewrite (IH H2).
Qed.

(* ---------- header block ---------- *)

Lemma find_crlf a r : mem_byte cr a = false -> find_delim crlf (a ++ crlf ++ r) = Some (a, r).
Proof. exact (find_delim_simple cr [lf] a r). Qed.

Lemma find_colon_sp a r :
  mem_byte ":"%byte a = false -> find_delim colon_sp (a ++ colon_sp ++ r) = Some (a, r).
Proof. exact (find_delim_simple ":"%byte [" "%byte] a r). Qed.

Definition header_ok (h : bytes * bytes) : bool :=
  negb (mem_byte ":"%byte (fst h)) && forallb valid_hv (fst h ++ colon_sp ++ snd h).

Lemma valid_hv_no_cr l : forallb valid_hv l = true -> mem_byte cr l = false.
Proof.
  induction l as [|x l IH]; [reflexivity|]. cbn [forallb]. intro H.
  apply andb_prop in H as (H1 & H2). rewrite mem_byte_cons, (IH H2).
  destruct x; try reflexivity; discriminate H1.
Qed.

Lemma headers_length hs rest :
  length hs < length (flat_map render_header hs ++ crlf ++ rest).
Proof.
  induction hs as [|h hs IH]; cbn [flat_map length app]; [cbn; lia|].
  rewrite <- app_assoc, app_length.
  assert (1 <= length (render_header h)) by (unfold render_header; rewrite !app_length; cbn; lia).
  lia.
Qed.

Lemma parse_headers_render hs : forall fuel rest,
  length hs < fuel -> forallb header_ok hs = true ->
  parse_headers fuel (flat_map render_header hs ++ crlf ++ rest) = Some (hs, rest).
Proof.
  induction hs as [|[k v] hs IH]; intros fuel rest Hf Hok.
  - destruct fuel; [lia|]. cbn [flat_map app parse_headers].
    change (cr :: lf :: rest) with (crlf ++ rest). now rewrite find_delim_here.
  - destruct fuel; [lia|]. cbn [forallb] in Hok. apply andb_prop in Hok as (Hh & Hok).
    unfold header_ok in Hh. cbn [fst snd] in Hh. apply andb_prop in Hh as (Hk & Hv).
    apply Bool.negb_true_iff in Hk.
    cbn [flat_map parse_headers]. unfold render_header at 1. cbn [fst snd].
    replace (((k ++ colon_sp ++ v ++ crlf) ++ flat_map render_header hs) ++ crlf ++ rest)
      with ((k ++ colon_sp ++ v) ++ crlf ++ (flat_map render_header hs ++ crlf ++ rest))
      by (now rewrite <- !app_assoc).
    rewrite find_crlf by now apply valid_hv_no_cr.
    destruct (k ++ colon_sp ++ v) eqn:E.
    { destruct k; discriminate E. }
    rewrite Hv, <- E.
    rewrite find_colon_sp by exact Hk.
    rewrite IH; [reflexivity|cbn [length] in Hf; lia|exact Hok].
Qed.

(* ---------- parts ---------- *)

Definition part_ok (b : bytes) (p : mpart) : bool :=
  forallb header_ok (p_headers p) && negb (occurs (delimiter b) (p_body p)).

Fixpoint after_text (b : bytes) (ps : list mpart) : bytes :=
  match ps with
  | [] => dash2 ++ crlf
  | p :: r => crlf ++ flat_map render_header (p_headers p) ++ crlf ++ p_body p ++
              delimiter b ++ after_text b r
  end.

Lemma render_parts_false b ps :
  render_parts false b ps ++ delimiter b ++ dash2 ++ crlf = delimiter b ++ after_text b ps.
Proof.
  induction ps as [|p r IH]; [reflexivity|].
  cbn [render_parts after_text]. unfold render_part. rewrite <- !app_assoc, IH.
  unfold delimiter. now rewrite <- !app_assoc.
Qed.

Lemma crlf_render_multipart b ps :
  crlf ++ render_multipart b ps =
  match ps with
  | [] => crlf ++ delimiter b ++ after_text b []
  | _ => delimiter b ++ after_text b ps
  end.
Proof.
  unfold render_multipart. destruct ps as [|p r].
  - cbn [render_parts after_text]. unfold delimiter. now rewrite <- !app_assoc.
  - rewrite <- render_parts_false. cbn [render_parts]. unfold render_part, delimiter.
    now rewrite <- !app_assoc.
Qed.

Lemma boundary_chars_no_cr b : boundary_chars b = true -> mem_byte cr b = false.
Proof.
  induction b as [|c b IH]; [reflexivity|]. intro H. rewrite mem_byte_cons.
  destruct b as [|c' b].
  - cbn [boundary_chars] in H. destruct c; try discriminate H; reflexivity.
  - cbn [boundary_chars] in H. apply andb_prop in H as (H1 & H2). rewrite (IH H2).
    destruct c; try discriminate H1; reflexivity.
Qed.

Lemma delimiter_shape b :
  boundary_chars b = true ->
  delimiter b = cr :: (lf :: dash2 ++ b) /\ mem_byte cr (lf :: dash2 ++ b) = false.
Proof.
  intro H. split; [reflexivity|].
  rewrite mem_byte_cons, mem_byte_app, (boundary_chars_no_cr _ H). reflexivity.
Qed.

Lemma parse_after_text b ps : forall fuel,
  boundary_chars b = true -> length ps < fuel -> forallb (part_ok b) ps = true ->
  parse_after fuel (delimiter b) (after_text b ps) = Some ps.
Proof.
  induction ps as [|[hs body] r IH]; intros fuel Hb Hf Hok.
  - destruct fuel; [lia|]. reflexivity.
  - destruct fuel; [lia|]. cbn [forallb] in Hok. apply andb_prop in Hok as (Hp & Hok).
    unfold part_ok in Hp. cbn [p_headers p_body] in Hp. apply andb_prop in Hp as (Hh & Ho).
    apply Bool.negb_true_iff in Ho.
    cbn [after_text parse_after p_headers p_body].
    change (has_prefix dash2 (crlf ++ _)) with false. cbv iota.
    change (has_prefix crlf (crlf ++ ?x)) with true.
    cbn [crlf app skipn].
    change (cr :: lf :: body ++ delimiter b ++ after_text b r)
      with (crlf ++ body ++ delimiter b ++ after_text b r).
    rewrite parse_headers_render; [|apply headers_length|exact Hh].
    destruct (delimiter_shape b Hb) as (Hd & Hc). rewrite Hd in *.
    rewrite find_delim_first by assumption.
    rewrite <- Hd. rewrite IH; [reflexivity|exact Hb|cbn [length] in Hf; lia|exact Hok].
Qed.

Lemma render_parts_length b ps : forall first, length ps <= length (render_parts first b ps).
Proof.
  induction ps as [|p r IH]; intro first; cbn [render_parts length]; [lia|].
  rewrite app_length. specialize (IH false).
  assert (1 <= length (render_part first b p))
    by (unfold render_part; rewrite !app_length; cbn; lia).
  lia.
Qed.

Lemma render_length b ps : length ps <= length (render_multipart b ps).
Proof.
  unfold render_multipart. rewrite app_length. pose proof (render_parts_length b ps true). lia.
Qed.

Lemma occurs_crlf_delim b : occurs (delimiter b) crlf = false.
Proof. unfold occurs, delimiter. cbn. destruct b; reflexivity. Qed.

(* every sequence of parts the writer emits is read back exactly, in order *)
Theorem parse_render b ps :
  boundary_chars b = true -> forallb (part_ok b) ps = true ->
  parse_multipart b (render_multipart b ps) = Some ps.
Proof.
  intros Hb Hok. unfold parse_multipart. rewrite crlf_render_multipart.
  destruct (delimiter_shape b Hb) as (Hd & Hc).
  assert (length ps < S (length (render_multipart b ps))) as Hf
      by (pose proof (render_length b ps); lia).
  destruct ps as [|p r].
  - rewrite Hd. rewrite find_delim_first; [|exact Hc|rewrite <- Hd; apply occurs_crlf_delim].
    reflexivity.
  - rewrite find_delim_here. now apply parse_after_text.
Qed.

(* ---------- names ---------- *)

Definition plain (c : byte) : bool :=
  negb (beqb c dquote) && negb (beqb c bslash) && negb (beqb c cr) && negb (beqb c lf).
Definition high (c : byte) : bool := (128 <=? bN c)%N.

Definition prepend (l : bytes) (o : option (bytes * bytes)) : option (bytes * bytes) :=
  match o with Some (v, t) => Some (l ++ v, t) | None => None end.

Lemma prepend_app a b o : prepend (a ++ b) o = prepend a (prepend b o).
Proof. destruct o as [[v t]|]; cbn; [now rewrite app_assoc|reflexivity]. Qed.

Lemma unquote_plain_cons c r : plain c = true -> unquote (c :: r) = prepend [c] (unquote r).
Proof.
  unfold plain. intro H. repeat (apply andb_prop in H as (H & ?)).
  repeat match goal with Hn : negb _ = true |- _ => apply Bool.negb_true_iff in Hn end.
  cbn [unquote]. rewrite H, H2, H1, H0. cbn [orb]. destruct (unquote r) as [[v t]|]; reflexivity.
Qed.

Lemma unquote_plain_app l r : forallb plain l = true -> unquote (l ++ r) = prepend l (unquote r).
Proof.
  induction l as [|c l IH]; intro H; cbn [app].
  - destruct (unquote r) as [[v t]|]; reflexivity.
  - cbn [forallb] in H. apply andb_prop in H as (H1 & H2).
    rewrite unquote_plain_cons by exact H1. rewrite (IH H2).
    destruct (unquote r) as [[v t]|]; reflexivity.
Qed.

(* a backslash that does not precede a tspecial stays a backslash *)
Lemma unquote_bslash_literal x rest :
  is_tspecial x = false -> unquote (bslash :: x :: rest) = prepend [bslash] (unquote (x :: rest)).
Proof.
  intro H. remember (x :: rest) as l eqn:El. cbn [unquote].
  change (beqb bslash dquote) with false. change (beqb bslash bslash) with true. cbv iota.
  rewrite El at 1. cbv iota. rewrite H. destruct (unquote l) as [[v t]|]; reflexivity.
Qed.

Lemma unquote_escape_text x tl r :
  is_tspecial x = false -> forallb plain (x :: tl) = true ->
  unquote ((bslash :: x :: tl) ++ r) = prepend (bslash :: x :: tl) (unquote r).
Proof.
  intros H P. cbn [app]. rewrite unquote_bslash_literal by exact H.
  change (x :: tl ++ r) with ((x :: tl) ++ r). rewrite unquote_plain_app by exact P.
  destruct (unquote r) as [[v t]|]; reflexivity.
Qed.

Lemma lhex_cases n : In (lhex n) lowerhex.
Proof.
  unfold lhex. destruct (Nat.lt_ge_cases (N.to_nat n) (length lowerhex)) as [L|L].
  - now apply nth_In.
  - rewrite nth_overflow by exact L. cbn. auto.
Qed.

Lemma lhex_plain n : plain (lhex n) = true /\ valid_hv (lhex n) = true /\ is_tspecial (lhex n) = false.
Proof.
  pose proof (lhex_cases n) as H. remember (lhex n) as h eqn:Eh. clear Eh. cbn in H.
  repeat (destruct H as [<-|H]; [repeat split; reflexivity|]). contradiction.
Qed.

Lemma hex4_plain r : forallb plain (hex4 r) = true /\ forallb valid_hv (hex4 r) = true.
Proof.
  unfold hex4. cbn [forallb].
  destruct (lhex_plain (r / 4096 mod 16)) as (a1 & b1 & _), (lhex_plain (r / 256 mod 16)) as (a2 & b2 & _),
           (lhex_plain (r / 16 mod 16)) as (a3 & b3 & _), (lhex_plain (r mod 16)) as (a4 & b4 & _).
  rewrite a1, a2, a3, a4, b1, b2, b3, b4. split; reflexivity.
Qed.

Lemma unquote_rune_escape rn r : unquote (rune_escape rn ++ r) = prepend (rune_escape rn) (unquote r).
Proof.
  unfold rune_escape. destruct (rn <? 65536)%N.
  - apply unquote_escape_text; [reflexivity|]. cbn [forallb].
    destruct (hex4_plain rn) as (H & _). now rewrite H.
  - apply unquote_escape_text; [reflexivity|]. cbn [forallb]. rewrite forallb_app.
    destruct (hex4_plain (rn / 65536)) as (H1 & _), (hex4_plain (rn mod 65536)) as (H2 & _).
    now rewrite H1, H2.
Qed.

Lemma unquote_byte_escape c r : unquote (byte_escape c ++ r) = prepend (byte_escape c) (unquote r).
Proof.
  unfold byte_escape. apply unquote_escape_text; [reflexivity|]. cbn [forallb].
  destruct (lhex_plain (bN c / 16)) as (a & _), (lhex_plain (bN c mod 16)) as (b & _).
  now rewrite a, b.
Qed.

Lemma unquote_quote_ascii c r :
  (bN c <? 128)%N = true -> unquote (quote_byte c ++ r) = prepend (image_byte c) (unquote r).
Proof.
  destruct c; intro H; try discriminate H; cbn; destruct (unquote r) as [[? ?]|]; reflexivity.
Qed.

Lemma high_facts c : high c = true -> plain c = true /\ valid_hv c = true.
Proof. destruct c; intro H; try discriminate H; split; reflexivity. Qed.

Lemma cont_high b : cont_byte b = true -> high b = true.
Proof. unfold cont_byte, high. intro H. now apply andb_prop in H as (H & _). Qed.

Lemma in_range_high lo hi b : (128 <= lo)%N -> in_range lo hi b = true -> high b = true.
Proof.
  unfold in_range, high. intros L H. apply andb_prop in H as (H & _).
  apply N.leb_le in H. apply N.leb_le. lia.
Qed.

(* the decoder consumes between 1 and 4 bytes, all of them >= 0x80 *)
Lemma decode_rune_spec s rn w :
  decode_rune s = Some (rn, w) ->
  1 <= w /\ w <= 4 /\ w <= length s /\ forallb high (firstn w s) = true.
Proof.
  unfold decode_rune. destruct s as [|b0 rest]; [discriminate|].
  destruct (bN b0 <? 194)%N eqn:L0; [discriminate|]. apply N.ltb_ge in L0.
  assert (high b0 = true) as H0 by (unfold high; apply N.leb_le; lia).
  destruct (bN b0 <=? 223)%N.
  { destruct rest as [|b1 rest]; [discriminate|].
    destruct (cont_byte b1) eqn:C1; [|discriminate]. intro E. inversion E; subst.
    cbn [firstn forallb length]. rewrite H0, (cont_high _ C1). repeat split; lia. }
  destruct (bN b0 <=? 239)%N.
  { destruct rest as [|b1 [|b2 rest]]; try discriminate.
    match goal with |- context [in_range ?lo ?hi b1] => destruct (in_range lo hi b1) eqn:R1 end; [|discriminate].
    destruct (cont_byte b2) eqn:C2; [|discriminate]. cbn [andb]. intro E. inversion E; subst.
    cbn [firstn forallb length]. rewrite H0, (cont_high _ C2).
    assert (high b1 = true) as H1
      by (eapply in_range_high; [|exact R1]; destruct (bN b0 =? 224)%N; lia).
    rewrite H1. repeat split; lia. }
  destruct (bN b0 <=? 244)%N; [|discriminate].
  destruct rest as [|b1 [|b2 [|b3 rest]]]; try discriminate.
  match goal with |- context [in_range ?lo ?hi b1] => destruct (in_range lo hi b1) eqn:R1 end; [|discriminate].
  destruct (cont_byte b2) eqn:C2; [|discriminate]. destruct (cont_byte b3) eqn:C3; [|discriminate].
  cbn [andb]. intro E. inversion E; subst.
  cbn [firstn forallb length]. rewrite H0, (cont_high _ C2), (cont_high _ C3).
  assert (high b1 = true) as H1
    by (eapply in_range_high; [|exact R1]; destruct (bN b0 =? 240)%N; lia).
  rewrite H1. repeat split; lia.
Qed.

Lemma forallb_high_plain l : forallb high l = true -> forallb plain l = true /\ forallb valid_hv l = true.
Proof.
  induction l as [|c l IH]; [split; reflexivity|]. cbn [forallb]. intro H.
  apply andb_prop in H as (H1 & H2). destruct (high_facts c H1) as (a & b), (IH H2) as (x & y).
  now rewrite a, b, x, y.
Qed.

Lemma quote_byte_valid c : forallb valid_hv (quote_byte c) = true.
Proof. destruct c; reflexivity. Qed.

Lemma rune_escape_valid rn : forallb valid_hv (rune_escape rn) = true.
Proof.
  unfold rune_escape. destruct (rn <? 65536)%N; cbn [forallb]; rewrite ?forallb_app.
  - destruct (hex4_plain rn) as (_ & H). now rewrite H.
  - destruct (hex4_plain (rn / 65536)) as (_ & H1), (hex4_plain (rn mod 65536)) as (_ & H2). now rewrite H1, H2.
Qed.

Lemma byte_escape_valid c : forallb valid_hv (byte_escape c) = true.
Proof.
  unfold byte_escape. cbn [forallb].
  destruct (lhex_plain (bN c / 16)) as (_ & a & _), (lhex_plain (bN c mod 16)) as (_ & b & _).
  now rewrite a, b.
Qed.

Lemma image_byte_len c :
  1 <= length (image_byte c) /\ (is_ctl c = true -> 2 <= length (image_byte c)) /\
  (is_ctl c = false -> image_byte c = [c]).
Proof. destruct c; cbn; repeat split; try lia; try discriminate; reflexivity. Qed.

Lemma rune_escape_len rn : 6 <= length (rune_escape rn).
Proof. unfold rune_escape. destruct (rn <? 65536)%N; cbn [length hex4 app]; lia. Qed.

Section WithOracles.
  Variable is_print : N -> bool.
  Variable sniff : bytes -> bytes.

  (* what the server's quoted-string reader makes of a %q-quoted name: for EVERY byte string *)
  Lemma unquote_quote_body fuel : forall s r,
    length s <= fuel ->
    unquote (quote_body is_print fuel s ++ dquote :: r) = Some (name_image is_print fuel s, r).
  Proof.
    induction fuel as [|f IH]; intros s r L.
    - destruct s; [|cbn in L; lia]. reflexivity.
    - destruct s as [|c s']; [reflexivity|].
      cbn [quote_body name_image]. cbn [length] in L.
      destruct (bN c <? 128)%N eqn:A.
      + rewrite <- app_assoc, unquote_quote_ascii by exact A. rewrite IH by lia. reflexivity.
      + destruct (decode_rune (c :: s')) as [[rn w]|] eqn:D.
        * destruct (decode_rune_spec _ _ _ D) as (W1 & _ & W2 & H).
          assert (length (skipn w (c :: s')) <= f) as L' by (rewrite skipn_length; cbn [length] in *; lia).
          rewrite <- app_assoc. destruct (is_print rn).
          -- rewrite unquote_plain_app by (apply forallb_high_plain, H). rewrite IH by exact L'. reflexivity.
          -- rewrite unquote_rune_escape, IH by exact L'. reflexivity.
        * rewrite <- app_assoc, unquote_byte_escape, IH by lia. reflexivity.
  Qed.

  (* ... and it never contains a byte a header value may not carry *)
  Lemma quote_body_valid fuel : forall s, forallb valid_hv (quote_body is_print fuel s) = true.
  Proof.
    induction fuel as [|f IH]; intro s; [reflexivity|].
    destruct s as [|c s']; [reflexivity|]. cbn [quote_body].
    destruct (bN c <? 128)%N.
    - now rewrite forallb_app, quote_byte_valid, IH.
    - destruct (decode_rune (c :: s')) as [[rn w]|] eqn:D.
      + destruct (decode_rune_spec _ _ _ D) as (_ & _ & _ & H). rewrite forallb_app, IH.
        destruct (is_print rn); [destruct (forallb_high_plain _ H) as (_ & V); now rewrite V|].
        now rewrite rune_escape_valid.
      + now rewrite forallb_app, byte_escape_valid, IH.
  Qed.

  Lemma go_quote_valid s : forallb valid_hv (go_quote is_print s) = true.
  Proof.
    unfold go_quote. cbn [forallb]. rewrite forallb_app, quote_body_valid. reflexivity.
  Qed.

  (* the recovered name is the supplied one exactly when the guard holds *)
  Lemma image_guard fuel : forall s,
    length s <= fuel ->
    length s <= length (name_image is_print fuel s) /\
    (name_guard is_print fuel s = true -> name_image is_print fuel s = s) /\
    (name_guard is_print fuel s = false -> length s < length (name_image is_print fuel s)).
  Proof.
    induction fuel as [|f IH]; intros s L.
    - destruct s; [|cbn in L; lia]. cbn. repeat split; try lia; discriminate.
    - destruct s as [|c s']; [cbn; repeat split; try lia; discriminate|].
      cbn [name_image name_guard]. cbn [length] in L.
      destruct (bN c <? 128)%N.
      + destruct (IH s' ltac:(lia)) as (I1 & I2 & I3).
        destruct (image_byte_len c) as (B1 & B2 & B3). rewrite app_length. cbn [length].
        destruct (is_ctl c) eqn:C; cbn [negb andb].
        * specialize (B2 eq_refl). repeat split; try lia; discriminate.
        * rewrite (B3 eq_refl). cbn [length app]. repeat split; [lia| |].
          -- intro G. now rewrite (I2 G).
          -- intro G. specialize (I3 G). lia.
      + destruct (decode_rune (c :: s')) as [[rn w]|] eqn:D.
        * destruct (decode_rune_spec _ _ _ D) as (W1 & W4 & W2 & _).
          assert (length (skipn w (c :: s')) <= f) as L' by (rewrite skipn_length; cbn [length] in *; lia).
          destruct (IH _ L') as (I1 & I2 & I3). rewrite skipn_length in *. rewrite app_length.
          cbn [length] in *. destruct (is_print rn); cbn [andb].
          -- rewrite firstn_length_le by (cbn [length]; lia). repeat split; [lia| |].
             ++ intro G. rewrite (I2 G). apply firstn_skipn.
             ++ intro G. specialize (I3 G). lia.
          -- pose proof (rune_escape_len rn). repeat split; try lia; discriminate.
        * destruct (IH s' ltac:(lia)) as (I1 & _ & _). rewrite app_length.
          unfold byte_escape. cbn [length]. repeat split; try lia; discriminate.
  Qed.

  Theorem file_name_recovered s r :
    unquote (quote_body is_print (length s) s ++ dquote :: r) = Some (name_image is_print (length s) s, r) /\
    (name_image is_print (length s) s = s <-> quotable is_print s = true).
  Proof.
    split; [now apply unquote_quote_body|]. unfold quotable.
    destruct (image_guard (length s) s (Nat.le_refl _)) as (_ & G1 & G2). split.
    - intro E. destruct (name_guard is_print (length s) s) eqn:G; [reflexivity|].
      specialize (G2 eq_refl). rewrite E in G2. lia.
    - exact G1.
  Qed.

  Lemma unquote_quotable s r :
    quotable is_print s = true ->
    unquote (quote_body is_print (length s) s ++ dquote :: r) = Some (s, r).
  Proof.
    intro Q. destruct (file_name_recovered s r) as (U & I). rewrite U. f_equal. f_equal. now apply I.
  Qed.

  (* field names go through mime/multipart's escapeQuotes *)
  Lemma unquote_escq_byte c r :
    (negb (is_ctl c) || beqb c x09) = true -> unquote (escq_byte c ++ r) = prepend [c] (unquote r).
  Proof. destruct c; intro H; try discriminate H; cbn; destruct (unquote r) as [[? ?]|]; reflexivity. Qed.

  Lemma escq_byte_valid c :
    (negb (is_ctl c) || beqb c x09) = true -> forallb valid_hv (escq_byte c) = true.
  Proof. destruct c; intro H; try discriminate H; reflexivity. Qed.

  Lemma unquote_escape_quotes s r :
    field_name_ok s = true -> unquote (escape_quotes s ++ dquote :: r) = Some (s, r).
  Proof.
    induction s as [|c s IH]; intro H.
    - reflexivity.
    - cbn [field_name_ok forallb] in H. apply andb_prop in H as (H1 & H2).
      unfold escape_quotes in *. cbn [flat_map]. rewrite <- app_assoc, unquote_escq_byte by exact H1.
      fold (field_name_ok s) in H2. now rewrite (IH H2).
  Qed.

  Lemma escape_quotes_valid s : field_name_ok s = true -> forallb valid_hv (escape_quotes s) = true.
  Proof.
    induction s as [|c s IH]; intro H; [reflexivity|].
    cbn [field_name_ok forallb] in H. apply andb_prop in H as (H1 & H2).
    unfold escape_quotes in *. cbn [flat_map]. rewrite forallb_app, escq_byte_valid by exact H1.
    now apply IH.
  Qed.

  (* ---------- Content-Disposition ---------- *)

  Lemma parse_param_step key qb v rest fuel :
    mem_byte "="%byte key = false ->
    unquote (qb ++ dquote :: rest) = Some (v, rest) ->
    parse_params (S fuel) (bs "; " ++ key ++ bs "=" ++ (dquote :: qb ++ [dquote]) ++ rest) =
    match parse_params fuel rest with Some kv => Some ((key, v) :: kv) | None => None end.
  Proof.
    intros Hk Hv. cbn [parse_params].
    assert (bs "; " ++ key ++ bs "=" ++ (dquote :: qb ++ [dquote]) ++ rest =
            ";"%byte :: " "%byte :: key ++ ("="%byte :: [dquote]) ++ (qb ++ dquote :: rest)) as E.
    { cbn. rewrite <- !app_assoc. reflexivity. }
    rewrite E. cbv beta iota. change (has_prefix (bs "; ") (";"%byte :: " "%byte :: ?x)) with true.
    cbn [skipn]. change (bs "=""") with ("="%byte :: [dquote]).
    rewrite find_delim_simple by exact Hk.
    now rewrite Hv.
  Qed.

  Lemma field_cd_parse name :
    field_name_ok name = true -> parse_cd (field_cd name) = Some [(bs "name", name)].
  Proof.
    intro H. unfold parse_cd, field_cd.
    change (bs "form-data; name=""") with (bs "form-data" ++ bs "; " ++ bs "name" ++ bs "=" ++ [dquote]).
    rewrite <- !app_assoc. change (has_prefix (bs "form-data") (bs "form-data" ++ ?x)) with true.
    cbv iota. change (skipn 9 (bs "form-data" ++ ?x)) with x.
    remember (length (bs "form-data" ++ bs "; " ++ bs "name" ++ bs "=" ++ [dquote] ++
                      escape_quotes name ++ [dquote])) as n eqn:En.
    destruct n as [|m]; [rewrite app_length in En; cbn in En; discriminate En|].
    replace ([dquote] ++ escape_quotes name ++ [dquote]) with ((dquote :: escape_quotes name ++ [dquote]) ++ [])
      by (cbn; now rewrite app_nil_r).
    rewrite (parse_param_step (bs "name") (escape_quotes name) name [] (S m))
      by (reflexivity || now apply unquote_escape_quotes). reflexivity.
  Qed.

  Definition params_ok (kv : list (bytes * bytes)) : bool :=
    forallb (fun p => negb (mem_byte "="%byte (fst p)) && quotable is_print (snd p)) kv.

  Lemma parse_params_cd kv : forall fuel,
    length kv < fuel -> params_ok kv = true -> parse_params fuel (cd_params is_print kv) = Some kv.
  Proof.
    induction kv as [|[k v] kv IH]; intros fuel Hf Hok.
    - destruct fuel; [lia|]. reflexivity.
    - destruct fuel; [lia|]. cbn [params_ok forallb fst snd] in Hok.
      apply andb_prop in Hok as (H1 & Hok). apply andb_prop in H1 as (Hk & Hv).
      apply Bool.negb_true_iff in Hk.
      unfold cd_params. cbn [flat_map fst snd]. rewrite <- !app_assoc. unfold go_quote at 1.
      rewrite (parse_param_step k (quote_body is_print (length v) v) v) by (exact Hk || now apply unquote_quotable).
      fold (cd_params is_print kv). rewrite IH; [reflexivity|cbn [length] in Hf; lia|exact Hok].
  Qed.

  Lemma cd_params_length kv : length kv <= length (cd_params is_print kv).
  Proof.
    induction kv as [|p kv IH]; [cbn; lia|].
    unfold cd_params in *. cbn [flat_map]. rewrite app_length.
    assert (1 <= length (bs "; " ++ fst p ++ bs "=" ++ go_quote is_print (snd p)))
      by (rewrite app_length; cbn; lia).
    change (length (p :: kv)) with (S (length kv)).
    exact (Nat.add_le_mono _ _ _ _ H IH).
  Qed.

  Lemma parse_cd_params kv :
    params_ok kv = true -> parse_cd (bs "form-data" ++ cd_params is_print kv) = Some kv.
  Proof.
    intro H. unfold parse_cd. rewrite has_prefix_refl_app.
    change (skipn 9 (bs "form-data" ++ ?x)) with x.
    apply parse_params_cd; [|exact H].
    rewrite app_length. pose proof (cd_params_length kv). lia.
  Qed.

  (* ---------- what a handler sees ---------- *)

  Definition nonempty (s : bytes) : bool := match s with [] => false | _ => true end.

  (* field names: exactly the names writeMultipartField accepts *)
  Definition field_ok (b : bytes) (kv : bytes * bytes) : bool :=
    field_name_ok (fst kv) && negb (occurs (delimiter b) (snd kv)).

  (* extra Content-Disposition parameters: keys are header-safe and contain no '=', values are
     quotable (the handler still finds name and filename first) *)
  Definition extra_ok (kv : list (bytes * bytes)) : bool :=
    params_ok kv && forallb (fun p => forallb valid_hv (fst p)) kv.

  Definition file_ok (b : bytes) (f : file_upload) : bool :=
    nonempty (f_param f) && nonempty (f_name f) &&
    extra_ok (f_extra f) &&
    quotable is_print (f_param f) && quotable is_print (f_name f) &&
    forallb valid_hv (effective_ctype sniff f) &&
    negb (occurs (delimiter b) (f_content f)).

  Lemma view_field kv :
    field_name_ok (fst kv) = true -> view_part (field_part kv) = Some (field_view kv).
  Proof.
    intro H. unfold view_part, field_part, field_headers. cbn [p_headers p_body assoc].
    change (bytes_eqb cd_key cd_key) with true. cbv iota.
    rewrite field_cd_parse by exact H. reflexivity.
  Qed.

  Lemma file_cd_shape f :
    nonempty (f_param f) = true -> nonempty (f_name f) = true ->
    file_cd is_print f = bs "form-data" ++
                cd_params is_print ((bs "name", f_param f) :: (bs "filename", f_name f) :: f_extra f).
  Proof.
    intros H1 H2. unfold file_cd.
    destruct (f_param f); [discriminate|]. destruct (f_name f); [discriminate|]. reflexivity.
  Qed.

  Lemma view_file f :
    nonempty (f_param f) = true -> nonempty (f_name f) = true -> extra_ok (f_extra f) = true ->
    quotable is_print (f_param f) = true -> quotable is_print (f_name f) = true ->
    view_part (file_part is_print sniff f) = Some (file_view sniff f).
  Proof.
    intros H1 H2 H3 H4 H5. unfold view_part, file_part, file_headers. cbn [p_headers p_body assoc].
    change (bytes_eqb cd_key cd_key) with true. cbv iota.
    rewrite file_cd_shape by assumption.
    unfold extra_ok in H3. apply andb_prop in H3 as (H3 & H3').
    rewrite parse_cd_params
      by (unfold params_ok in *; cbn [forallb fst snd]; rewrite H4, H5, H3; reflexivity).
    cbn [assoc]. change (bytes_eqb (bs "name") (bs "name")) with true.
    change (bytes_eqb (bs "name") (bs "filename")) with false.
    change (bytes_eqb (bs "filename") (bs "filename")) with true. cbv iota.
    unfold file_view. f_equal. f_equal.
    destruct (is_blank (effective_ctype sniff f)); cbn [assoc].
    - reflexivity.
    - change (bytes_eqb ct_key ct_key) with true. reflexivity.
  Qed.

  Lemma field_part_ok b kv : field_ok b kv = true -> part_ok b (field_part kv) = true.
  Proof.
    unfold field_ok, part_ok, field_part, field_headers. intro H. apply andb_prop in H as (H1 & H2).
    cbn [p_headers p_body forallb]. rewrite H2, !Bool.andb_true_r.
    unfold header_ok. cbn [fst snd]. change (mem_byte ":"%byte cd_key) with false. cbn [negb andb].
    unfold field_cd. rewrite !forallb_app, escape_quotes_valid by exact H1. reflexivity.
  Qed.

  Lemma cd_params_valid kv :
    forallb (fun p => forallb valid_hv (fst p)) kv = true ->
    forallb valid_hv (cd_params is_print kv) = true.
  Proof.
    induction kv as [|p kv IH]; [reflexivity|]. cbn [forallb]. intro H. apply andb_prop in H as (H1 & H2).
    unfold cd_params in *. cbn [flat_map]. rewrite !forallb_app, H1, (IH H2), go_quote_valid.
    reflexivity.
  Qed.

  Lemma file_part_ok b f : file_ok b f = true -> part_ok b (file_part is_print sniff f) = true.
  Proof.
    unfold file_ok. intro H.
    repeat (apply andb_prop in H as (H & ?)).
    match goal with He : extra_ok _ = true |- _ => unfold extra_ok in He; apply andb_prop in He as (Hx1 & Hx2) end.
    unfold part_ok, file_part, file_headers. cbn [p_headers p_body forallb].
    match goal with Ho : negb (occurs _ _) = true |- _ => rewrite Ho end.
    rewrite Bool.andb_true_r.
    assert (header_ok (cd_key, file_cd is_print f) = true) as Hcd.
    { unfold header_ok. cbn [fst snd]. change (mem_byte ":"%byte cd_key) with false. cbn [negb andb].
      rewrite file_cd_shape by assumption.
      rewrite !forallb_app, cd_params_valid by (cbn [forallb fst]; rewrite Hx2; reflexivity).
      reflexivity. }
    rewrite Hcd. destruct (is_blank (effective_ctype sniff f)); [reflexivity|].
    cbn [forallb]. rewrite Bool.andb_true_r. unfold header_ok. cbn [fst snd].
    change (mem_byte ":"%byte ct_key) with false. cbn [negb andb].
    rewrite !forallb_app.
    match goal with Hv : forallb valid_hv (effective_ctype _ _) = true |- _ => rewrite Hv end.
    reflexivity.
  Qed.
End WithOracles.

Lemma map_opt_app {A B} (f : A -> option B) l1 l2 r1 r2 :
  map_opt f l1 = Some r1 -> map_opt f l2 = Some r2 -> map_opt f (l1 ++ l2) = Some (r1 ++ r2).
Proof.
  revert r1. induction l1 as [|x l1 IH]; intros r1 H1 H2.
  - cbn in H1. inversion H1. exact H2.
  - cbn [map_opt app] in *. destruct (f x); [|discriminate].
    destruct (map_opt f l1) eqn:E; [|discriminate]. inversion H1; subst.
    now rewrite (IH l eq_refl H2).
Qed.

Lemma map_opt_map {A B C} (f : B -> option C) (g : A -> B) (h : A -> C) (P : A -> bool) l :
  (forall x, P x = true -> f (g x) = Some (h x)) -> forallb P l = true ->
  map_opt f (map g l) = Some (map h l).
Proof.
  intros Hp. induction l as [|x l IH]; [reflexivity|]. cbn [forallb map map_opt]. intro H.
  apply andb_prop in H as (H1 & H2). now rewrite (Hp x H1), (IH H2).
Qed.

Lemma forallb_map_impl {A B} (P : A -> bool) (Q : B -> bool) (g : A -> B) l :
  (forall x, P x = true -> Q (g x) = true) -> forallb P l = true -> forallb Q (map g l) = true.
Proof.
  intro Hp. induction l as [|x l IH]; [reflexivity|]. cbn [forallb map]. intro H.
  apply andb_prop in H as (H1 & H2). now rewrite (Hp x H1), (IH H2).
Qed.

(* the multipart body is read back as exactly the fields, then the files in order, with the
   names, file names, content types and bytes supplied *)
(* the multipart body is read back as exactly the fields, then the files in order, with the
   names, file names, content types and bytes supplied *)
Theorem multipart_roundtrip is_print sniff b fields files :
  boundary_chars b = true ->
  forallb (field_ok b) fields = true ->
  forallb (file_ok is_print sniff b) files = true ->
  parse_form_parts b (multipart_body is_print sniff b fields files) =
  Some (map field_view fields ++ map (file_view sniff) files).
Proof.
  intros Hb Hf Hg. unfold parse_form_parts, multipart_body.
  rewrite parse_render; [|exact Hb|].
  - apply map_opt_app.
    + apply map_opt_map with (P := field_ok b); [|exact Hf].
      intros kv H. apply view_field. unfold field_ok in H. now apply andb_prop in H as (H & _).
    + apply map_opt_map with (P := file_ok is_print sniff b); [|exact Hg].
      intros f H. unfold file_ok in H. repeat (apply andb_prop in H as (H & ?)).
      now apply view_file.
  - rewrite forallb_app. apply andb_true_intro. split.
    + apply forallb_map_impl with (P := field_ok b); [apply field_part_ok|exact Hf].
    + apply forallb_map_impl with (P := file_ok is_print sniff b); [apply file_part_ok|exact Hg].
Qed.

(* the boundary named in the request's Content-Type is the one used in the body *)
Lemma unquote_plain s : forallb (fun c => negb (beqb c dquote) && negb (beqb c bslash) &&
                                          negb (beqb c cr) && negb (beqb c lf)) s = true ->
  unquote (s ++ [dquote]) = Some (s, []).
Proof.
  induction s as [|c s IH]; [reflexivity|]. cbn [forallb]. intro H.
  apply andb_prop in H as (H1 & H2). repeat (apply andb_prop in H1 as (H1 & ?)).
  cbn [app unquote]. 
  repeat match goal with Hn : negb _ = true |- _ => apply Bool.negb_true_iff in Hn; rewrite Hn end.
  cbn [orb]. now rewrite (IH H2).
Qed.

Lemma boundary_chars_plain b : boundary_chars b = true ->
  forallb (fun c => negb (beqb c dquote) && negb (beqb c bslash) &&
                    negb (beqb c cr) && negb (beqb c lf)) b = true.
Proof.
  induction b as [|c b IH]; [reflexivity|]. intro H. cbn [forallb].
  destruct b as [|c' b].
  - cbn [boundary_chars] in H. destruct c; try discriminate H; reflexivity.
  - cbn [boundary_chars] in H. apply andb_prop in H as (H1 & H2). rewrite (IH H2).
    destruct c; try discriminate H1; reflexivity.
Qed.

Theorem content_type_names_boundary b :
  valid_boundary b = true -> parse_boundary_param (form_data_content_type b) = Some b.
Proof.
  unfold valid_boundary. intro H. apply andb_prop in H as (H & Hc). apply andb_prop in H as (Hl & _).
  unfold parse_boundary_param, form_data_content_type.
  rewrite has_prefix_refl_app, skipn_app_exact.
  destruct (needs_quote b) eqn:Q.
  - cbn [app]. change (beqb dquote dquote) with true. cbv iota.
    rewrite unquote_plain by now apply boundary_chars_plain. reflexivity.
  - destruct b as [|c r]; [discriminate Hl|].
    destruct (beqb c dquote) eqn:E; [|reflexivity].
    apply beqb_eq in E. subst c. discriminate Q.
Qed.
