(* Proofs/MultipartProofs.v - multipart bodies round-trip (C17). *)
From Coq Require Import Lia.
From ReqV Require Import Lib.Bytes Lib.BytesFacts Model.Multipart.

(* ---------- delimiter search ---------- *)

Lemma find_delim_here d r : find_delim d (d ++ r) = Some ([], r).
Proof.
  destruct (d ++ r) eqn:E; cbn [find_delim]; rewrite <- E;
    now rewrite has_prefix_refl_app, skipn_app_exact.
Qed.

Lemma has_prefix_cons_neq c d x s : beqb c x = false -> has_prefix (c :: d) (x :: s) = false.
Proof. intro H. cbn [has_prefix]. now rewrite H. Qed.

(* the first byte of the delimiter does not occur in the text before it *)
Lemma find_delim_simple c d' a r :
  mem_byte c a = false -> find_delim (c :: d') (a ++ (c :: d') ++ r) = Some (a, r).
Proof.
  induction a as [|x a IH]; intro H.
  - rewrite app_nil_l. apply find_delim_here.
  - rewrite mem_byte_cons in H. apply Bool.orb_false_iff in H as (H1 & H2).
    rewrite <- app_comm_cons. cbn [find_delim]. rewrite has_prefix_cons_neq by exact H1.
    now rewrite (IH H2).
Qed.

Lemma occurs_cons_false d x a :
  occurs d (x :: a) = false -> has_prefix d (x :: a) = false /\ occurs d a = false.
Proof.
  unfold occurs. cbn [find_delim]. destruct (has_prefix d (x :: a)); [discriminate|].
  destruct (find_delim d a) as [[? ?]|]; [discriminate|auto].
Qed.

(* a delimiter whose first byte occurs nowhere else in it cannot straddle the end of the text *)
Lemma no_straddle c d' x a r :
  mem_byte c d' = false ->
  has_prefix (c :: d') ((x :: a) ++ (c :: d') ++ r) = true -> has_prefix (c :: d') (x :: a) = true.
Proof.
  intros Hc H. apply has_prefix_spec in H as [t H].
  apply app_eq_app in H as [l [[H1 H2]|[H1 H2]]].
  - (* x :: a = (c :: d') ++ l *)
    apply has_prefix_spec. exists l. exact H1.
  - (* c :: d' = (x :: a) ++ l, (c :: d') ++ r = l ++ t *)
    destruct l as [|y l].
    + rewrite app_nil_r in H1. rewrite H1. apply has_prefix_spec. exists []. now rewrite app_nil_r.
    + exfalso. cbn in H2. injection H2 as Hy _. subst y. cbn in H1. injection H1 as _ H1.
      apply mem_byte_false_In in Hc. apply Hc. rewrite H1. apply in_or_app. right. now left.
Qed.

Lemma find_delim_first c d' a r :
  mem_byte c d' = false -> occurs (c :: d') a = false ->
  find_delim (c :: d') (a ++ (c :: d') ++ r) = Some (a, r).
Proof.
  intros Hc. induction a as [|x a IH]; intro H.
  - rewrite app_nil_l. apply find_delim_here.
  - apply occurs_cons_false in H as (H1 & H2).
    rewrite <- app_comm_cons. cbn [find_delim].
    destruct (has_prefix (c :: d') (x :: a ++ (c :: d') ++ r)) eqn:E.
    + rewrite app_comm_cons in E. apply no_straddle in E; [congruence|exact Hc].
    + now rewrite (IH H2).
Qed.

(* ---------- header block ---------- *)

Lemma find_crlf a r : mem_byte cr a = false -> find_delim crlf (a ++ crlf ++ r) = Some (a, r).
Proof. exact (find_delim_simple cr [lf] a r). Qed.

Lemma find_colon_sp a r :
  mem_byte ":"%byte a = false -> find_delim colon_sp (a ++ colon_sp ++ r) = Some (a, r).
Proof. exact (find_delim_simple ":"%byte [" "%byte] a r). Qed.

Definition header_ok (h : bytes * bytes) : bool :=
  negb (mem_byte ":"%byte (fst h)) && forallb valid_hv (fst h ++ colon_sp ++ snd h).

Lemma valid_hv_no_cr l : forallb valid_hv l = true -> mem_byte cr l = false.
Proof.
  induction l as [|x l IH]; [reflexivity|]. cbn [forallb]. intro H.
  apply andb_prop in H as (H1 & H2). rewrite mem_byte_cons, (IH H2).
  destruct x; try reflexivity; discriminate H1.
Qed.

Lemma headers_length hs rest :
  length hs < length (flat_map render_header hs ++ crlf ++ rest).
Proof.
  induction hs as [|h hs IH]; cbn [flat_map length app]; [cbn; lia|].
  rewrite <- app_assoc, app_length.
  assert (1 <= length (render_header h)) by (unfold render_header; rewrite !app_length; cbn; lia).
  lia.
Qed.

Lemma parse_headers_render hs : forall fuel rest,
  length hs < fuel -> forallb header_ok hs = true ->
  parse_headers fuel (flat_map render_header hs ++ crlf ++ rest) = Some (hs, rest).
Proof.
  induction hs as [|[k v] hs IH]; intros fuel rest Hf Hok.
  - destruct fuel; [lia|]. cbn [flat_map app parse_headers].
    change (cr :: lf :: rest) with (crlf ++ rest). now rewrite find_delim_here.
  - destruct fuel; [lia|]. cbn [forallb] in Hok. apply andb_prop in Hok as (Hh & Hok).
    unfold header_ok in Hh. cbn [fst snd] in Hh. apply andb_prop in Hh as (Hk & Hv).
    apply Bool.negb_true_iff in Hk.
    cbn [flat_map parse_headers]. unfold render_header at 1. cbn [fst snd].
    replace (((k ++ colon_sp ++ v ++ crlf) ++ flat_map render_header hs) ++ crlf ++ rest)
      with ((k ++ colon_sp ++ v) ++ crlf ++ (flat_map render_header hs ++ crlf ++ rest))
      by (now rewrite <- !app_assoc).
    rewrite find_crlf by now apply valid_hv_no_cr.
    destruct (k ++ colon_sp ++ v) eqn:E.
    { destruct k; discriminate E. }
    rewrite Hv, <- E.
    rewrite find_colon_sp by exact Hk.
    rewrite IH; [reflexivity|cbn [length] in Hf; lia|exact Hok].
Qed.

(* ---------- parts ---------- *)

Definition part_ok (b : bytes) (p : mpart) : bool :=
  forallb header_ok (p_headers p) && negb (occurs (delimiter b) (p_body p)).

Fixpoint after_text (b : bytes) (ps : list mpart) : bytes :=
  match ps with
  | [] => dash2 ++ crlf
  | p :: r => crlf ++ flat_map render_header (p_headers p) ++ crlf ++ p_body p ++
              delimiter b ++ after_text b r
  end.

Lemma render_parts_false b ps :
  render_parts false b ps ++ delimiter b ++ dash2 ++ crlf = delimiter b ++ after_text b ps.
Proof.
  induction ps as [|p r IH]; [reflexivity|].
  cbn [render_parts after_text]. unfold render_part. rewrite <- !app_assoc, IH.
  unfold delimiter. now rewrite <- !app_assoc.
Qed.

Lemma crlf_render_multipart b ps :
  crlf ++ render_multipart b ps =
  match ps with
  | [] => crlf ++ delimiter b ++ after_text b []
  | _ => delimiter b ++ after_text b ps
  end.
Proof.
  unfold render_multipart. destruct ps as [|p r].
  - cbn [render_parts after_text]. unfold delimiter. now rewrite <- !app_assoc.
  - rewrite <- render_parts_false. cbn [render_parts]. unfold render_part, delimiter.
    now rewrite <- !app_assoc.
Qed.

Lemma boundary_chars_no_cr b : boundary_chars b = true -> mem_byte cr b = false.
Proof.
  induction b as [|c b IH]; [reflexivity|]. intro H. rewrite mem_byte_cons.
  destruct b as [|c' b].
  - cbn [boundary_chars] in H. destruct c; try discriminate H; reflexivity.
  - cbn [boundary_chars] in H. apply andb_prop in H as (H1 & H2). rewrite (IH H2).
    destruct c; try discriminate H1; reflexivity.
Qed.

Lemma delimiter_shape b :
  boundary_chars b = true ->
  delimiter b = cr :: (lf :: dash2 ++ b) /\ mem_byte cr (lf :: dash2 ++ b) = false.
Proof.
  intro H. split; [reflexivity|].
  rewrite mem_byte_cons, mem_byte_app, (boundary_chars_no_cr _ H). reflexivity.
Qed.

Lemma parse_after_text b ps : forall fuel,
  boundary_chars b = true -> length ps < fuel -> forallb (part_ok b) ps = true ->
  parse_after fuel (delimiter b) (after_text b ps) = Some ps.
Proof.
  induction ps as [|[hs body] r IH]; intros fuel Hb Hf Hok.
  - destruct fuel; [lia|]. reflexivity.
  - destruct fuel; [lia|]. cbn [forallb] in Hok. apply andb_prop in Hok as (Hp & Hok).
    unfold part_ok in Hp. cbn [p_headers p_body] in Hp. apply andb_prop in Hp as (Hh & Ho).
    apply Bool.negb_true_iff in Ho.
    cbn [after_text parse_after p_headers p_body].
    change (has_prefix dash2 (crlf ++ _)) with false. cbv iota.
    change (has_prefix crlf (crlf ++ ?x)) with true.
    cbn [crlf app skipn].
    change (cr :: lf :: body ++ delimiter b ++ after_text b r)
      with (crlf ++ body ++ delimiter b ++ after_text b r).
    rewrite parse_headers_render; [|apply headers_length|exact Hh].
    destruct (delimiter_shape b Hb) as (Hd & Hc). rewrite Hd in *.
    rewrite find_delim_first by assumption.
    rewrite <- Hd. rewrite IH; [reflexivity|exact Hb|cbn [length] in Hf; lia|exact Hok].
Qed.

Lemma render_parts_length b ps : forall first, length ps <= length (render_parts first b ps).
Proof.
  induction ps as [|p r IH]; intro first; cbn [render_parts length]; [lia|].
  rewrite app_length. specialize (IH false).
  assert (1 <= length (render_part first b p))
    by (unfold render_part; rewrite !app_length; cbn; lia).
  lia.
Qed.

Lemma render_length b ps : length ps <= length (render_multipart b ps).
Proof.
  unfold render_multipart. rewrite app_length. pose proof (render_parts_length b ps true). lia.
Qed.

Lemma occurs_crlf_delim b : occurs (delimiter b) crlf = false.
Proof. unfold occurs, delimiter. cbn. destruct b; reflexivity. Qed.

(* every sequence of parts the writer emits is read back exactly, in order *)
Theorem parse_render b ps :
  boundary_chars b = true -> forallb (part_ok b) ps = true ->
  parse_multipart b (render_multipart b ps) = Some ps.
Proof.
  intros Hb Hok. unfold parse_multipart. rewrite crlf_render_multipart.
  destruct (delimiter_shape b Hb) as (Hd & Hc).
  assert (length ps < S (length (render_multipart b ps))) as Hf
      by (pose proof (render_length b ps); lia).
  destruct ps as [|p r].
  - rewrite Hd. rewrite find_delim_first; [|exact Hc|rewrite <- Hd; apply occurs_crlf_delim].
    reflexivity.
  - rewrite find_delim_here. now apply parse_after_text.
Qed.

(* ---------- names ---------- *)

Definition name_ok (s : bytes) : bool := forallb (fun c => negb (is_ctl c)) s.

Lemma unquote_quote_byte c r :
  is_ctl c = false ->
  unquote (quote_byte c ++ r) =
  match unquote r with Some (v, t) => Some (c :: v, t) | None => None end.
Proof.
  destruct c; intro H; try discriminate H; cbn; destruct (unquote r) as [[? ?]|]; reflexivity.
Qed.

Lemma unquote_quote s r :
  name_ok s = true -> unquote (flat_map quote_byte s ++ dquote :: r) = Some (s, r).
Proof.
  induction s as [|c s IH]; intro H.
  - cbn. reflexivity.
  - cbn [name_ok forallb] in H. apply andb_prop in H as (H1 & H2).
    apply Bool.negb_true_iff in H1.
    cbn [flat_map]. rewrite <- app_assoc, unquote_quote_byte by exact H1.
    fold (name_ok s) in H2. now rewrite (IH H2).
Qed.

Lemma escq_is_quote c : is_ctl c = false -> escq_byte c = quote_byte c.
Proof. destruct c; intro H; try discriminate H; reflexivity. Qed.

Lemma escape_quotes_quote s : name_ok s = true -> escape_quotes s = flat_map quote_byte s.
Proof.
  induction s as [|c s IH]; intro H; [reflexivity|].
  cbn [name_ok forallb] in H. apply andb_prop in H as (H1 & H2). apply Bool.negb_true_iff in H1.
  unfold escape_quotes in *. cbn [flat_map]. rewrite escq_is_quote by exact H1.
  f_equal. now apply IH.
Qed.

(* quoted names never contain CR, LF or any other control byte: the part structure cannot be
   changed through a file name, whatever bytes it holds *)
Lemma quote_byte_valid c : forallb valid_hv (quote_byte c) = true.
Proof. destruct c; reflexivity. Qed.

Lemma go_quote_valid s : forallb valid_hv (go_quote s) = true.
Proof.
  unfold go_quote. cbn [forallb]. rewrite forallb_app. cbn.
  rewrite Bool.andb_true_r. induction s as [|c s IH]; [reflexivity|].
  cbn [flat_map]. now rewrite forallb_app, quote_byte_valid, IH.
Qed.

Lemma name_ok_valid s : name_ok s = true -> forallb valid_hv s = true.
Proof.
  induction s as [|c s IH]; [reflexivity|]. cbn [name_ok forallb]. intro H.
  apply andb_prop in H as (H1 & H2). rewrite (IH H2). unfold valid_hv. now rewrite H1.
Qed.

(* ---------- Content-Disposition ---------- *)

Lemma parse_param_step key v rest fuel :
  mem_byte "="%byte key = false -> name_ok v = true ->
  parse_params (S fuel) (bs "; " ++ key ++ bs "=" ++ go_quote v ++ rest) =
  match parse_params fuel rest with Some kv => Some ((key, v) :: kv) | None => None end.
Proof.
  intros Hk Hv. cbn [parse_params].
  assert (bs "; " ++ key ++ bs "=" ++ go_quote v ++ rest =
          ";"%byte :: " "%byte :: key ++ ("="%byte :: [dquote]) ++ (flat_map quote_byte v ++ dquote :: rest)) as E.
  { unfold go_quote. cbn. rewrite <- !app_assoc. reflexivity. }
  rewrite E. cbv beta iota. change (has_prefix (bs "; ") (";"%byte :: " "%byte :: ?x)) with true.
  cbn [skipn]. change (bs "=""") with ("="%byte :: [dquote]).
  rewrite find_delim_simple by exact Hk.
  now rewrite unquote_quote.
Qed.

Lemma field_cd_parse name :
  name_ok name = true -> parse_cd (field_cd name) = Some [(bs "name", name)].
Proof.
  intro H. unfold parse_cd, field_cd.
  change (bs "form-data; name=""") with (bs "form-data" ++ bs "; " ++ bs "name" ++ bs "=" ++ [dquote]).
  rewrite <- !app_assoc. change (has_prefix (bs "form-data") (bs "form-data" ++ ?x)) with true.
  cbv iota. change (skipn 9 (bs "form-data" ++ ?x)) with x.
  remember (length (bs "form-data" ++ bs "; " ++ bs "name" ++ bs "=" ++ [dquote] ++
                    escape_quotes name ++ [dquote])) as n eqn:En.
  destruct n as [|m]; [rewrite app_length in En; cbn in En; discriminate En|].
  rewrite escape_quotes_quote by exact H.
  replace ([dquote] ++ flat_map quote_byte name ++ [dquote]) with (go_quote name ++ [])
    by (unfold go_quote; cbn; now rewrite app_nil_r).
  rewrite parse_param_step by (reflexivity || exact H). reflexivity.
Qed.

Lemma quote_bytes_valid s : forallb valid_hv (flat_map quote_byte s) = true.
Proof.
  induction s as [|c s IH]; [reflexivity|].
  cbn [flat_map]. now rewrite forallb_app, quote_byte_valid, IH.
Qed.

Definition params_ok (kv : list (bytes * bytes)) : bool :=
  forallb (fun p => negb (mem_byte "="%byte (fst p)) && name_ok (snd p)) kv.

Lemma parse_params_cd kv : forall fuel,
  length kv < fuel -> params_ok kv = true -> parse_params fuel (cd_params kv) = Some kv.
Proof.
  induction kv as [|[k v] kv IH]; intros fuel Hf Hok.
  - destruct fuel; [lia|]. reflexivity.
  - destruct fuel; [lia|]. cbn [params_ok forallb fst snd] in Hok.
    apply andb_prop in Hok as (H1 & Hok). apply andb_prop in H1 as (Hk & Hv).
    apply Bool.negb_true_iff in Hk.
    unfold cd_params. cbn [flat_map fst snd]. rewrite <- !app_assoc.
    rewrite parse_param_step by assumption.
    fold (cd_params kv). rewrite IH; [reflexivity|cbn [length] in Hf; lia|exact Hok].
Qed.

Lemma cd_params_length kv : length kv <= length (cd_params kv).
Proof.
  induction kv as [|p kv IH]; [cbn; lia|].
  unfold cd_params in *. cbn [flat_map]. rewrite app_length.
  assert (1 <= length (bs "; " ++ fst p ++ bs "=" ++ go_quote (snd p)))
    by (rewrite app_length; cbn; lia).
  change (length (p :: kv)) with (S (length kv)).
  exact (Nat.add_le_mono _ _ _ _ H IH).
Qed.

Lemma parse_cd_params kv :
  params_ok kv = true -> parse_cd (bs "form-data" ++ cd_params kv) = Some kv.
Proof.
  intro H. unfold parse_cd. rewrite has_prefix_refl_app.
  change (skipn 9 (bs "form-data" ++ ?x)) with x.
  apply parse_params_cd; [|exact H].
  rewrite app_length. pose proof (cd_params_length kv). lia.
Qed.

(* ---------- what a handler sees ---------- *)

Definition nonempty (s : bytes) : bool := match s with [] => false | _ => true end.

Definition field_ok (b : bytes) (kv : bytes * bytes) : bool :=
  name_ok (fst kv) && negb (occurs (delimiter b) (snd kv)).

(* extra Content-Disposition parameters: keys are header-safe and contain no '=', values carry
   no control bytes (the handler still finds name and filename first) *)
Definition extra_ok (kv : list (bytes * bytes)) : bool :=
  params_ok kv && forallb (fun p => forallb valid_hv (fst p)) kv.

Definition file_ok (sniff : bytes -> bytes) (b : bytes) (f : file_upload) : bool :=
  nonempty (f_param f) && nonempty (f_name f) &&
  extra_ok (f_extra f) &&
  name_ok (f_param f) && name_ok (f_name f) &&
  forallb valid_hv (effective_ctype sniff f) &&
  negb (occurs (delimiter b) (f_content f)).

Lemma view_field kv : name_ok (fst kv) = true -> view_part (field_part kv) = Some (field_view kv).
Proof.
  intro H. unfold view_part, field_part, field_headers. cbn [p_headers p_body assoc].
  change (bytes_eqb cd_key cd_key) with true. cbv iota.
  rewrite field_cd_parse by exact H. reflexivity.
Qed.

Lemma file_cd_shape f :
  nonempty (f_param f) = true -> nonempty (f_name f) = true ->
  file_cd f = bs "form-data" ++
              cd_params ((bs "name", f_param f) :: (bs "filename", f_name f) :: f_extra f).
Proof.
  intros H1 H2. unfold file_cd.
  destruct (f_param f); [discriminate|]. destruct (f_name f); [discriminate|]. reflexivity.
Qed.

Lemma view_file sniff f :
  nonempty (f_param f) = true -> nonempty (f_name f) = true -> extra_ok (f_extra f) = true ->
  name_ok (f_param f) = true -> name_ok (f_name f) = true ->
  view_part (file_part sniff f) = Some (file_view sniff f).
Proof.
  intros H1 H2 H3 H4 H5. unfold view_part, file_part, file_headers. cbn [p_headers p_body assoc].
  change (bytes_eqb cd_key cd_key) with true. cbv iota.
  rewrite file_cd_shape by assumption.
  unfold extra_ok in H3. apply andb_prop in H3 as (H3 & H3').
  rewrite parse_cd_params
    by (unfold params_ok in *; cbn [forallb fst snd]; rewrite H4, H5, H3; reflexivity).
  cbn [assoc]. change (bytes_eqb (bs "name") (bs "name")) with true.
  change (bytes_eqb (bs "name") (bs "filename")) with false.
  change (bytes_eqb (bs "filename") (bs "filename")) with true. cbv iota.
  unfold file_view. f_equal. f_equal.
  destruct (is_blank (effective_ctype sniff f)); cbn [assoc].
  - reflexivity.
  - change (bytes_eqb ct_key ct_key) with true. reflexivity.
Qed.

Lemma field_part_ok b kv : field_ok b kv = true -> part_ok b (field_part kv) = true.
Proof.
  unfold field_ok, part_ok, field_part, field_headers. intro H. apply andb_prop in H as (H1 & H2).
  cbn [p_headers p_body forallb]. rewrite H2, !Bool.andb_true_r.
  unfold header_ok. cbn [fst snd]. change (mem_byte ":"%byte cd_key) with false. cbn [negb andb].
  unfold field_cd. rewrite !forallb_app, escape_quotes_quote by exact H1.
  now rewrite quote_bytes_valid.
Qed.

Lemma cd_params_valid kv :
  forallb (fun p => forallb valid_hv (fst p)) kv = true -> forallb valid_hv (cd_params kv) = true.
Proof.
  induction kv as [|p kv IH]; [reflexivity|]. cbn [forallb]. intro H. apply andb_prop in H as (H1 & H2).
  unfold cd_params in *. cbn [flat_map]. rewrite !forallb_app, H1, (IH H2), go_quote_valid.
  reflexivity.
Qed.

Lemma file_part_ok sniff b f : file_ok sniff b f = true -> part_ok b (file_part sniff f) = true.
Proof.
  unfold file_ok. intro H.
  repeat (apply andb_prop in H as (H & ?)).
  match goal with He : extra_ok _ = true |- _ => unfold extra_ok in He; apply andb_prop in He as (Hx1 & Hx2) end.
  unfold part_ok, file_part, file_headers. cbn [p_headers p_body forallb].
  match goal with Ho : negb (occurs _ _) = true |- _ => rewrite Ho end.
  rewrite Bool.andb_true_r.
  assert (header_ok (cd_key, file_cd f) = true) as Hcd.
  { unfold header_ok. cbn [fst snd]. change (mem_byte ":"%byte cd_key) with false. cbn [negb andb].
    rewrite file_cd_shape by assumption.
    rewrite !forallb_app, cd_params_valid by (cbn [forallb fst]; rewrite Hx2; reflexivity).
    reflexivity. }
  rewrite Hcd. destruct (is_blank (effective_ctype sniff f)); [reflexivity|].
  cbn [forallb]. rewrite Bool.andb_true_r. unfold header_ok. cbn [fst snd].
  change (mem_byte ":"%byte ct_key) with false. cbn [negb andb].
  rewrite !forallb_app.
  match goal with Hv : forallb valid_hv (effective_ctype _ _) = true |- _ => rewrite Hv end.
  reflexivity.
Qed.

Lemma map_opt_app {A B} (f : A -> option B) l1 l2 r1 r2 :
  map_opt f l1 = Some r1 -> map_opt f l2 = Some r2 -> map_opt f (l1 ++ l2) = Some (r1 ++ r2).
Proof.
  revert r1. induction l1 as [|x l1 IH]; intros r1 H1 H2.
  - cbn in H1. inversion H1. exact H2.
  - cbn [map_opt app] in *. destruct (f x); [|discriminate].
    destruct (map_opt f l1) eqn:E; [|discriminate]. inversion H1; subst.
    now rewrite (IH l eq_refl H2).
Qed.

Lemma map_opt_map {A B C} (f : B -> option C) (g : A -> B) (h : A -> C) (P : A -> bool) l :
  (forall x, P x = true -> f (g x) = Some (h x)) -> forallb P l = true ->
  map_opt f (map g l) = Some (map h l).
Proof.
  intros Hp. induction l as [|x l IH]; [reflexivity|]. cbn [forallb map map_opt]. intro H.
  apply andb_prop in H as (H1 & H2). now rewrite (Hp x H1), (IH H2).
Qed.

Lemma forallb_map_impl {A B} (P : A -> bool) (Q : B -> bool) (g : A -> B) l :
  (forall x, P x = true -> Q (g x) = true) -> forallb P l = true -> forallb Q (map g l) = true.
Proof.
  intro Hp. induction l as [|x l IH]; [reflexivity|]. cbn [forallb map]. intro H.
  apply andb_prop in H as (H1 & H2). now rewrite (Hp x H1), (IH H2).
Qed.

(* the multipart body is read back as exactly the fields, then the files in order, with the
   names, file names, content types and bytes supplied *)
Theorem multipart_roundtrip sniff b fields files :
  boundary_chars b = true ->
  forallb (field_ok b) fields = true ->
  forallb (file_ok sniff b) files = true ->
  parse_form_parts b (multipart_body sniff b fields files) =
  Some (map field_view fields ++ map (file_view sniff) files).
Proof.
  intros Hb Hf Hg. unfold parse_form_parts, multipart_body.
  rewrite parse_render; [|exact Hb|].
  - apply map_opt_app.
    + apply map_opt_map with (P := field_ok b); [|exact Hf].
      intros kv H. apply view_field. unfold field_ok in H. now apply andb_prop in H as (H & _).
    + apply map_opt_map with (P := file_ok sniff b); [|exact Hg].
      intros f H. unfold file_ok in H. repeat (apply andb_prop in H as (H & ?)).
      now apply view_file.
  - rewrite forallb_app. apply andb_true_intro. split.
    + apply forallb_map_impl with (P := field_ok b); [apply field_part_ok|exact Hf].
    + apply forallb_map_impl with (P := file_ok sniff b); [apply file_part_ok|exact Hg].
Qed.

(* the boundary named in the request's Content-Type is the one used in the body *)
Lemma unquote_plain s : forallb (fun c => negb (beqb c dquote) && negb (beqb c bslash) &&
                                          negb (beqb c cr) && negb (beqb c lf)) s = true ->
  unquote (s ++ [dquote]) = Some (s, []).
Proof.
  induction s as [|c s IH]; [reflexivity|]. cbn [forallb]. intro H.
  apply andb_prop in H as (H1 & H2). repeat (apply andb_prop in H1 as (H1 & ?)).
  cbn [app unquote]. 
  repeat match goal with Hn : negb _ = true |- _ => apply Bool.negb_true_iff in Hn; rewrite Hn end.
  cbn [orb]. now rewrite (IH H2).
Qed.

Lemma boundary_chars_plain b : boundary_chars b = true ->
  forallb (fun c => negb (beqb c dquote) && negb (beqb c bslash) &&
                    negb (beqb c cr) && negb (beqb c lf)) b = true.
Proof.
  induction b as [|c b IH]; [reflexivity|]. intro H. cbn [forallb].
  destruct b as [|c' b].
  - cbn [boundary_chars] in H. destruct c; try discriminate H; reflexivity.
  - cbn [boundary_chars] in H. apply andb_prop in H as (H1 & H2). rewrite (IH H2).
    destruct c; try discriminate H1; reflexivity.
Qed.

Theorem content_type_names_boundary b :
  valid_boundary b = true -> parse_boundary_param (form_data_content_type b) = Some b.
Proof.
  unfold valid_boundary. intro H. apply andb_prop in H as (H & Hc). apply andb_prop in H as (Hl & _).
  unfold parse_boundary_param, form_data_content_type.
  rewrite has_prefix_refl_app, skipn_app_exact.
  destruct (needs_quote b) eqn:Q.
  - cbn [app]. change (beqb dquote dquote) with true. cbv iota.
    rewrite unquote_plain by now apply boundary_chars_plain. reflexivity.
  - destruct b as [|c r]; [discriminate Hl|].
    destruct (beqb c dquote) eqn:E; [|reflexivity].
    apply beqb_eq in E. subst c. discriminate Q.
Qed.
