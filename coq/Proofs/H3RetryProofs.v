(* Proofs/H3RetryProofs.v - one call sends its request at most twice (C07) *)
From ReqV Require Import Lib.Bytes Model.H3Retry.
From Coq Require Import Lia.

Lemma fresh_no_retry c f : retry_allowed true c false false f = false.
Proof. destruct f; cbn; reflexivity. Qed.

(* whatever the peer does to every attempt, whatever the request: at most two attempts, and a
   fresh connection is never followed by another dial *)
Theorem h3_at_most_two_attempts c reused fails fuel :
  2 <= fuel -> exists n, attempts true c fuel reused fails = Some n /\ n <= 2 /\ (reused = false -> n = 1).
Proof.
  intros Hf. destruct fuel as [|[|f]]; try lia. cbn [attempts].
  destruct fails as [|x r]; [exists 1; repeat split; lia|].
  destruct (retry_allowed true c reused false x) eqn:E.
  - destruct r as [|y r']; [exists 2; repeat split; try lia|].
    + intros ->. now rewrite fresh_no_retry in E.
    + rewrite fresh_no_retry. exists 2. repeat split; try lia. intros ->. now rewrite fresh_no_retry in E.
  - exists 1. repeat split; lia.
Qed.

(* the variant whose replay branch is not guarded by isReused never stops against a peer that closes
   every connection: for every fuel it is still retrying *)
Theorem h3_unguarded_replay_refuted fuel :
  attempts false {| r_replayable := true; r_only_cached := false |} fuel false (repeat FConnClosed fuel) = None.
Proof. induction fuel as [|f IH]; cbn; [reflexivity|]. now rewrite IH. Qed.
