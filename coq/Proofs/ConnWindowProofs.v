(* Proofs/ConnWindowProofs.v - C02 (round 5): no connection-level flow-control credit is ever
   lost, whatever the callers of earlier exchanges did with their bodies. *)
From ReqV Require Import Model.ConnWindow.
From Coq Require Import ZArith Bool List Lia ZifyBool.
Import ListNotations.
Local Open Scope Z_scope.

Definition cw_inv (w : Z) (s : cwin) : Prop :=
  cw_avail s + cw_unsent s + cw_buf s = w /\ 0 <= cw_unsent s < min_refresh /\ 0 <= cw_buf s /\ 0 <= cw_avail s.

Lemma cw_add_inv w s n s' a :
  0 <= n -> 0 <= cw_unsent s < min_refresh -> 0 <= cw_buf s -> 0 <= cw_avail s ->
  cw_avail s + cw_unsent s + cw_buf s + n = w -> cw_add s n = (s', a) -> cw_inv w s'.
Proof.
  intros Hn Hu Hb Ha Hs E. unfold cw_add in E.
  destruct ((cw_unsent s + n <? min_refresh) && (cw_unsent s + n <? cw_avail s)) eqn:C;
    inversion E; subst; unfold cw_inv; cbn [cw_avail cw_unsent cw_buf]; unfold min_refresh in *; lia.
Qed.

Lemma cw_step_inv w s o s' a : cw_inv w s -> cw_step s o = Some (s', a) -> cw_inv w s'.
Proof.
  intros (Hs & Hu & Hb & Ha) E. destruct o as [n pad|k|u|n]; cbn [cw_step] in E.
  - destruct ((n <? 0) || (pad <? 0) || (cw_avail s <? n + pad)) eqn:C; [discriminate|].
    inversion E as [E']. eapply cw_add_inv in E'; [exact E'|..]; cbn [cw_avail cw_unsent cw_buf]; lia.
  - destruct ((k <? 0) || (cw_buf s <? k)) eqn:C; [discriminate|].
    inversion E as [E']. eapply cw_add_inv in E'; [exact E'|..]; cbn [cw_avail cw_unsent cw_buf]; lia.
  - destruct ((u <? 0) || (cw_buf s <? u)) eqn:C; [discriminate|].
    inversion E as [E']. eapply cw_add_inv in E'; [exact E'|..]; cbn [cw_avail cw_unsent cw_buf]; lia.
  - destruct ((n <? 0) || (cw_avail s <? n)) eqn:C; [discriminate|].
    inversion E as [E']. eapply cw_add_inv in E'; [exact E'|..]; cbn [cw_avail cw_unsent cw_buf]; lia.
Qed.

(* For EVERY sequence of DATA frames (any padding), caller reads, early Closes with unread
   bytes and dropped frames, over any number of exchanges of the connection: window available
   to the peer + credit pending + bytes still buffered unread = the initial window. *)
Theorem conn_window_conserved w : forall ops s s' a,
  cw_inv w s -> cw_run s ops = Some (s', a) -> cw_inv w s'.
Proof.
  induction ops as [|o ops IH]; intros s s' a Hi E; cbn [cw_run] in E.
  - inversion E; subst. exact Hi.
  - destruct (cw_step s o) as [[s1 a1]|] eqn:E1; [|discriminate].
    destruct (cw_run s1 ops) as [[s2 a2]|] eqn:E2; [|discriminate]. inversion E; subst.
    eapply IH; [|exact E2]. eapply cw_step_inv; eassumption.
Qed.

Lemma cw_init_inv w : 0 <= w -> cw_inv w (cw_init w).
Proof. intros H. unfold cw_inv, cw_init, min_refresh. cbn. lia. Qed.

(* ... so at every quiescent point (every body read to its end or closed: nothing buffered)
   the peer may send all but less than inflowMinRefresh bytes of the initial window again: a
   later response is never starved by what happened to earlier ones *)
Theorem quiescent_window_restored w ops s a :
  0 <= w -> cw_run (cw_init w) ops = Some (s, a) -> cw_buf s = 0 ->
  quiescent_ok w (cw_avail s) = true /\ w - cw_avail s = cw_unsent s.
Proof.
  intros Hw E Hb. destruct (conn_window_conserved w ops _ _ _ (cw_init_inv w Hw) E) as (Hs & Hu & _ & Ha).
  unfold quiescent_ok, min_refresh in *. split; lia.
Qed.

(* closing a fully received, unread body gives its bytes back (the behaviour a "nothing to
   return once the peer has ended the stream" shortcut would break) *)
Theorem close_unread_returns_credit w n :
  min_refresh <= n <= w ->
  cw_run (cw_init w) [CData n 0; CClose n] = Some ({| cw_avail := w; cw_unsent := 0; cw_buf := 0 |}, n).
Proof.
  intros H. unfold min_refresh in H. cbn [cw_run cw_step cw_init cw_avail cw_unsent cw_buf].
  destruct ((n <? 0) || (0 <? 0) || (w <? n + 0)) eqn:C1; [lia|].
  unfold cw_add at 1. cbn [cw_avail cw_unsent cw_buf].
  destruct ((0 + 0 <? min_refresh) && (0 + 0 <? w - (n + 0))) eqn:C2.
  - cbn [cw_avail cw_unsent cw_buf]. destruct ((n <? 0) || (0 + n <? n)) eqn:C3; [lia|].
    unfold cw_add. cbn [cw_avail cw_unsent cw_buf].
    destruct ((0 + 0 + n <? min_refresh) && (0 + 0 + n <? w - (n + 0))) eqn:C4; [unfold min_refresh in *; lia|].
    repeat f_equal; lia.
  - cbn [cw_avail cw_unsent cw_buf]. destruct ((n <? 0) || (0 + n <? n)) eqn:C3; [lia|].
    unfold cw_add. cbn [cw_avail cw_unsent cw_buf].
    destruct ((0 + n <? min_refresh) && (0 + n <? w - (n + 0) + (0 + 0))) eqn:C4; [unfold min_refresh in *; lia|].
    repeat f_equal; lia.
Qed.
