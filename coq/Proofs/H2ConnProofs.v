(* Proofs/H2ConnProofs.v - every frame the client machine (Model/H2Conn.v) can emit, in any
   interleaving of its events, is admissible for the strict peer-side monitor
   (Model/H2Monitor.v).  One simulation invariant R, one case per event. *)
From Coq Require Import ZArith Bool Lia ZifyBool List.
From ReqV Require Import Lib.GoInt Gen.H2Flow Model.H2Flow Model.H2Monitor Model.H2Conn
                         Proofs.GoIntFacts Proofs.H2FlowProofs.
Import ListNotations.
Open Scope Z_scope.

Fixpoint mon_steps (m : mon) (evs : list ev) : option mon :=
  match evs with
  | [] => Some m
  | e :: r => match monitor_step m e with inl m' => mon_steps m' r | inr _ => None end
  end.

Lemma mon_steps_app : forall a b m,
  mon_steps m (a ++ b) = match mon_steps m a with Some m' => mon_steps m' b | None => None end.
Proof.
  induction a as [|e a IH]; intros b m; simpl; [reflexivity|].
  destruct (monitor_step m e); [apply IH|reflexivity].
Qed.

Lemma monitor_run_steps : forall evs m m' k,
  mon_steps m evs = Some m' -> monitor_run m evs k = (None, m').
Proof.
  induction evs as [|e r IH]; intros m m' k H; simpl in *.
  - inversion H; reflexivity.
  - destruct (monitor_step m e); [apply IH; exact H|discriminate].
Qed.

Definition cs_done (s : cstream) : bool := cs_end_sent s || cs_reset s.

(* per-stream relation between the client's and the strict peer's bookkeeping *)
Definition SR (init : Z) (cs : cstream) (ms : mstream) : Prop :=
  cs_id cs = ms_id ms /\
  ms_cli_closed ms = cs_done cs /\
  (cs_reset cs = true -> ms_cli_reset ms = true) /\
  (cs_peer_ended cs = true -> ms_peer_ended ms = true) /\
  (cs_peer_reset cs = true -> ms_peer_reset ms = true) /\
  (cs_forgotten cs = true -> ms_closed ms = true) /\
  (ms_closed ms = false -> cs_flow cs <= ms_win ms) /\
  cs_flow cs <= 2147483647 /\
  (cs_forgotten cs = false -> init - 2147483647 <= cs_flow cs).

(* stream ids strictly decrease along the list (newest first): ids are unique *)
Fixpoint desc (b : Z) (l : list cstream) : Prop :=
  match l with
  | [] => True
  | s :: r => cs_id s < b /\ desc (cs_id s) r
  end.

Definition R (c : conn) (m : mon) : Prop :=
  m_hdr_open m = 0 /\ m_pending m = [] /\
  m_max_frame m = cc_max_frame c /\ m_init_win m = cc_init_win c /\
  (forall v, m_max_streams m = Some v -> v = cc_max_streams c) /\
  Forall2 (SR (cc_init_win c)) (cc_streams c) (m_streams m) /\
  0 <= cc_flow c /\ cc_flow c <= m_conn_win m /\ cc_flow c <= 2147483647 /\
  0 <= cc_init_win c <= 2147483647 /\
  0 <= m_last_sid m /\ m_last_sid m < cc_next_id c /\ Z.odd (cc_next_id c) = true /\
  Forall (fun ms => ms_id ms <= m_last_sid m) (m_streams m) /\
  Forall (fun ms => 0 < ms_id ms) (m_streams m) /\
  1 <= cc_max_frame c /\ 0 <= cc_prio_len c /\
  desc (cc_next_id c) (cc_streams c) /\
  (cc_seen_settings c = false -> m_max_streams m = None).

(* ---- list lemmas ---- *)
Lemma F2_find_none : forall i cs ms sid, Forall2 (SR i) cs ms ->
  find_cs sid cs = None -> find_ms sid ms = None.
Proof.
  induction 1 as [|c0 m0 cs ms H0 H IH]; simpl; intros; [reflexivity|].
  destruct H0 as [Hid _]. rewrite <- Hid. destruct (cs_id c0 =? sid); [discriminate|auto].
Qed.

Lemma F2_find_some : forall i cs ms sid c0, Forall2 (SR i) cs ms ->
  find_cs sid cs = Some c0 -> exists m0, find_ms sid ms = Some m0 /\ SR i c0 m0 /\ cs_id c0 = sid.
Proof.
  induction 1 as [|c1 m1 cs ms H0 H IH]; simpl; intros Hf; [discriminate|].
  pose proof H0 as [Hid _]. rewrite <- Hid. destruct (cs_id c1 =? sid) eqn:E.
  - inversion Hf; subst. exists m1. split; [reflexivity|split; [exact H0|lia]].
  - auto.
Qed.

Lemma F2_upd : forall i sid f g cs ms, Forall2 (SR i) cs ms ->
  (forall c0 m0, SR i c0 m0 -> cs_id c0 = sid -> SR i (f c0) (g m0)) ->
  Forall2 (SR i) (upd_cs sid f cs) (upd_ms sid g ms).
Proof.
  induction 1 as [|c0 m0 cs ms H0 H IH]; intros Hfg; simpl; constructor; auto.
  pose proof H0 as [Hid _]. rewrite <- Hid.
  destruct (cs_id c0 =? sid) eqn:E; auto. apply Hfg; auto; lia.
Qed.

Lemma F2_upd_left : forall i sid f cs ms, Forall2 (SR i) cs ms ->
  (forall c0 m0, SR i c0 m0 -> cs_id c0 = sid -> SR i (f c0) m0) ->
  Forall2 (SR i) (upd_cs sid f cs) ms.
Proof.
  induction 1 as [|c0 m0 cs ms H0 H IH]; intros Hfg; simpl; constructor; auto.
  destruct (cs_id c0 =? sid) eqn:E; auto. apply Hfg; auto; lia.
Qed.

Lemma F2_map2 : forall (P Q : cstream -> mstream -> Prop) f g cs ms, Forall2 P cs ms ->
  (forall c0 m0, P c0 m0 -> Q (f c0) (g m0)) -> Forall2 Q (map f cs) (map g ms).
Proof. induction 1; intros; simpl; constructor; auto. Qed.

Lemma F2_count : forall i cs ms, Forall2 (SR i) cs ms -> open_count ms <= active_count cs.
Proof.
  unfold open_count, active_count.
  induction 1 as [|c0 m0 cs ms H0 H IH]; simpl; [lia|].
  destruct H0 as (_ & _ & _ & _ & _ & Hf & _).
  destruct (cs_forgotten c0) eqn:E; simpl.
  - rewrite Hf by reflexivity. simpl. exact IH.
  - destruct (ms_closed m0); simpl; rewrite ?Nat2Z.inj_succ; lia.
Qed.

Lemma Forall_upd_ms : forall (Q : mstream -> Prop) sid g l, Forall Q l ->
  (forall s, Q s -> Q (g s)) -> Forall Q (upd_ms sid g l).
Proof.
  induction 1; intros; simpl; constructor; auto. destruct (ms_id x =? sid); auto.
Qed.

(* ---- the generated flow functions as used by the machine ---- *)
Lemma out_add_stream_eq : forall n cn d, in32 n -> in32 d ->
  out_add_stream n cn d = (in32b (n + d), if in32b (n + d) then n + d else n).
Proof.
  intros. unfold out_add_stream. rewrite outflow_add_spec by assumption.
  destruct (in32b (n + d)); reflexivity.
Qed.

Lemma out_add_conn_eq : forall n d, in32 n -> in32 d ->
  out_add_conn n d = (in32b (n + d), if in32b (n + d) then n + d else n).
Proof.
  intros. unfold out_add_conn. rewrite outflow_add_spec by assumption.
  destruct (in32b (n + d)); reflexivity.
Qed.

Lemma out_avail_stream_eq : forall n cn, out_avail_stream n cn = Z.min n cn.
Proof. intros. unfold out_avail_stream. rewrite outflow_available_spec. reflexivity. Qed.

Lemma out_take_stream_eq : forall n cn t, in32 n -> in32 cn -> 0 <= t <= Z.min n cn ->
  out_take_stream n cn t = Some (n - t, cn - t).
Proof.
  intros n cn t Hn Hc Ht. unfold out_take_stream.
  rewrite outflow_take_spec by (unfold in32 in *; try assumption; lia).
  replace (t >? Z.min n cn) with false by lia. reflexivity.
Qed.

Ltac dR H :=
  destruct H as (Rhdr & Rpend & Rmf & Riw & Rms & Rst & Rf0 & Rfw & Rfmax & Riwr & Rl0 & Rlast & Rodd & Rids & Rpos & Rmf1 & Rprio & Rdesc & Rseen).

(* ---- one lemma per event ---- *)
Definition step_ok (c : conn) (m : mon) (e : cev) : Prop :=
  exists m', mon_steps m (snd (conn_step c e)) = Some m' /\ R (fst (conn_step c e)) m'.

Lemma noop_ok : forall c m, R c m -> exists m', mon_steps m [] = Some m' /\ R c m'.
Proof. intros; exists m; split; [reflexivity|assumption]. Qed.


Lemma desc_weaken : forall l b b', desc b l -> b <= b' -> desc b' l.
Proof. destruct l; simpl; intros; [exact I|]. destruct H; split; [lia|assumption]. Qed.

Lemma desc_upd_noop : forall l b sid f, desc b l -> b <= sid -> upd_cs sid f l = l.
Proof.
  induction l as [|s r IH]; simpl; intros b sid f H Hb; [reflexivity|].
  destruct H as [H1 H2]. replace (cs_id s =? sid) with false by lia.
  f_equal. apply (IH (cs_id s)); [assumption|lia].
Qed.

Lemma desc_find_none : forall l b sid, desc b l -> b <= sid -> find_cs sid l = None.
Proof.
  induction l as [|s r IH]; simpl; intros b sid H Hb; [reflexivity|].
  destruct H as [H1 H2]. replace (cs_id s =? sid) with false by lia.
  apply (IH (cs_id s)); [assumption|lia].
Qed.

Lemma upd_ms_noop : forall i cs ms b sid g, Forall2 (SR i) cs ms -> desc b cs -> b <= sid ->
  upd_ms sid g ms = ms.
Proof.
  intros i cs ms b sid g H. revert b.
  induction H as [|c0 m0 cs ms H0 H IH]; simpl; intros b Hd Hb; [reflexivity|].
  destruct Hd as [H1 H2]. destruct H0 as [Hid _]. rewrite <- Hid.
  replace (cs_id c0 =? sid) with false by lia. f_equal. apply (IH (cs_id c0)); [exact H2|lia].
Qed.

Lemma desc_upd : forall l b sid f, desc b l -> (forall s, cs_id (f s) = cs_id s) -> desc b (upd_cs sid f l).
Proof.
  induction l as [|s r IH]; simpl; intros b sid f H Hf; [exact I|].
  destruct H as [H1 H2]. destruct (cs_id s =? sid).
  - rewrite Hf. split; [assumption|]. apply IH; assumption.
  - split; [assumption|]. apply IH; assumption.
Qed.

Lemma desc_map : forall l b f, desc b l -> (forall s, cs_id (f s) = cs_id s) -> desc b (map f l).
Proof.
  induction l as [|s r IH]; simpl; intros b f H Hf; [exact I|].
  destruct H as [H1 H2]. rewrite Hf. split; [assumption|]. apply IH; assumption.
Qed.

(* updating the (unique) stream found under sid on both sides *)
Lemma F2_upd_found : forall i b sid f g s cs ms, Forall2 (SR i) cs ms -> desc b cs ->
  find_cs sid cs = Some s ->
  (forall m0, SR i s m0 -> SR i (f s) (g m0)) ->
  Forall2 (SR i) (upd_cs sid f cs) (upd_ms sid g ms).
Proof.
  intros i b sid f g s cs ms H. revert b.
  induction H as [|c0 m0 cs ms H0 H IH]; intros b Hd Hf Hfg; simpl in *; [constructor|].
  destruct Hd as [H1 H2]. pose proof H0 as [Hid _]. rewrite <- Hid.
  destruct (cs_id c0 =? sid) eqn:E.
  - inversion Hf; subst c0. constructor; [apply Hfg; exact H0|].
    rewrite (desc_upd_noop cs (cs_id s) sid f H2) by lia.
    rewrite (upd_ms_noop i cs ms (cs_id s) sid g H H2) by lia. exact H.
  - constructor; [exact H0|]. apply (IH (cs_id c0)); assumption.
Qed.

Lemma upd_ms_id : forall sid l, upd_ms sid (fun x => x) l = l.
Proof. induction l as [|s r IH]; simpl; [reflexivity|]. rewrite IH. destruct (ms_id s =? sid); reflexivity. Qed.

Lemma F2_upd_found_left : forall i b sid f s cs ms, Forall2 (SR i) cs ms -> desc b cs ->
  find_cs sid cs = Some s ->
  (forall m0, SR i s m0 -> SR i (f s) m0) ->
  Forall2 (SR i) (upd_cs sid f cs) ms.
Proof.
  intros. rewrite <- (upd_ms_id sid ms). eapply F2_upd_found; eauto.
Qed.

Lemma step_forget : forall c m sid, R c m -> step_ok c m (EForget sid).
Proof.
  intros c m sid HR. unfold step_ok. cbn [conn_step].
  destruct (find_cs sid (cc_streams c)) as [s|] eqn:Ef; [|apply noop_ok; exact HR].
  destruct (negb (cs_forgotten s) && (cs_end_sent s && cs_peer_ended s || cs_peer_reset s)) eqn:G;
    [|apply noop_ok; exact HR].
  cbn [fst snd]. exists m. split; [reflexivity|].
  dR HR. unfold R. cbn. repeat split; auto; try lia.
  - eapply F2_upd_found_left; eauto.
    intros m0 (H1 & H2 & H3 & H4 & H5 & H6 & H7 & H8 & H9).
    unfold SR, cs_done in *. cbn. repeat split; auto; try (intros; discriminate).
    intros _. unfold ms_closed. rewrite H2.
    destruct (cs_end_sent s), (cs_peer_ended s), (cs_peer_reset s), (cs_reset s), (cs_forgotten s); simpl in *;
      try discriminate; rewrite ?H4, ?H5 by reflexivity; rewrite ?orb_true_r; reflexivity.
  - apply desc_upd; [assumption|reflexivity].
Qed.

Lemma SR_ms_same : forall i s m0 m1, SR i s m0 ->
  ms_id m1 = ms_id m0 -> ms_win m1 = ms_win m0 -> ms_cli_closed m1 = ms_cli_closed m0 ->
  (ms_cli_reset m0 = true -> ms_cli_reset m1 = true) ->
  (ms_peer_ended m0 = true -> ms_peer_ended m1 = true) ->
  (ms_peer_reset m0 = true -> ms_peer_reset m1 = true) ->
  SR i s m1.
Proof.
  intros i s m0 m1 (H1 & H2 & H3 & H4 & H5 & H6 & H7 & H8 & H9) E1 E2 E3 E4 E5 E6.
  assert (Hc : ms_closed m0 = true -> ms_closed m1 = true).
  { unfold ms_closed. rewrite E3. intros H.
    destruct (ms_cli_reset m0); [rewrite E4 by reflexivity; reflexivity|].
    destruct (ms_peer_reset m0); [rewrite E6 by reflexivity; apply orb_true_iff; left; apply orb_true_r|].
    simpl in H. apply andb_true_iff in H as [Ha Hb]. rewrite Ha, E5 by assumption.
    simpl. apply orb_true_r. }
  unfold SR. rewrite E1, E2, E3. repeat split; auto.
  intros Hn. apply H7. destruct (ms_closed m0); [rewrite Hc in Hn by reflexivity; discriminate|reflexivity].
Qed.

Lemma step_peer_rst : forall c m sid, R c m -> step_ok c m (EPeerRst sid).
Proof.
  intros c m sid HR. unfold step_ok. cbn [conn_step fst snd mon_steps monitor_step ok mon_peer].
  eexists. split; [reflexivity|].
  dR HR. unfold R. cbn. repeat split; auto; try lia.
  - apply F2_upd; [exact Rst|]. intros c0 m0 HS Hid.
    assert (HS' : SR (cc_init_win c) c0 (ms_set_peer_reset m0)) by (eapply SR_ms_same; eauto).
    destruct (cs_forgotten c0) eqn:Ef; [exact HS'|].
    destruct HS' as (H1 & H2 & H3 & H4 & H5 & H6 & H7 & H8 & H9).
    unfold SR, cs_done in *. cbn in *. repeat split; auto.
  - apply Forall_upd_ms; auto.
  - apply Forall_upd_ms; auto.
  - apply desc_upd; [assumption|]. intros s. destruct (cs_forgotten s); reflexivity.
Qed.

Lemma step_goaway : forall c m last, R c m -> step_ok c m (EGoAway last).
Proof.
  intros c m last HR. unfold step_ok. cbn [conn_step fst snd mon_steps monitor_step ok mon_peer].
  eexists. split; [reflexivity|]. dR HR. unfold R. cbn. repeat split; auto; lia.
Qed.

Lemma step_reset : forall c m sid, R c m -> step_ok c m (EReset sid).
Proof.
  intros c m sid HR. unfold step_ok. cbn [conn_step].
  destruct (find_cs sid (cc_streams c)) as [s|] eqn:Ef; [|apply noop_ok; exact HR].
  destruct (negb (cs_forgotten s) && negb (cs_reset s)) eqn:G; [|apply noop_ok; exact HR].
  pose proof HR as HR0. dR HR.
  destruct (F2_find_some _ _ _ _ _ Rst Ef) as (m0 & Hfm & HS & Hid).
  cbn [fst snd mon_steps monitor_step]. unfold mon_client.
  rewrite Rhdr. cbn [Z.eqb negb andb frame_len]. rewrite Hfm. cbn [ok mon_steps].
  eexists. split; [reflexivity|].
  unfold R. cbn. repeat split; auto; try lia.
  - eapply F2_upd_found; eauto.
    intros m1 (H1 & H2 & H3 & H4 & H5 & H6 & H7 & H8 & H9).
    unfold SR, cs_done, ms_closed in *. cbn. repeat split; auto; try (intros; discriminate);
      try (symmetry; apply orb_true_r).
  - apply Forall_upd_ms; auto.
  - apply Forall_upd_ms; auto.
  - apply desc_upd; [assumption|reflexivity].
Qed.

Lemma SR_in32 : forall i s m0, 0 <= i -> SR i s m0 -> cs_forgotten s = false -> in32 (cs_flow s).
Proof. intros i s m0 Hi (_ & _ & _ & _ & _ & _ & _ & H8 & H9) Hf. specialize (H9 Hf). unfold in32. lia. Qed.

Lemma mon_client_open0 : forall m f, m_hdr_open m = 0 -> m_pending m = [] ->
  match frame_len f with Some l => l <= m_max_frame m | None => True end ->
  mon_client m f =
  match f with
  | FSettings kvs => ok (fold_left apply_client_setting kvs m)
  | FSettingsAck => bad V_SPURIOUS_ACK
  | FWindowUpdate sid inc =>
      if sid =? 0 then ok (set_c_conn_win m (m_c_conn_win m + inc))
      else ok (set_streams m (upd_ms sid (ms_add_recv inc) (m_streams m)))
  | FPriority _ => ok m
  | FPing true =>
      match m_pings m with
      | [] => ok m
      | mark :: rest =>
          if m_acked m <? mark then bad V_SETTINGS_NOT_ACKED
          else ok (mkMon (m_max_frame m) (m_init_win m) (m_max_streams m) (m_pending m) (m_conn_win m) (m_streams m)
                         (m_last_sid m) (m_hdr_open m) (m_sent m) (m_acked m) rest (m_c_conn_win m) (m_c_init_win m))
      end
  | FPing false => ok m
  | FRst sid =>
      match find_ms sid (m_streams m) with
      | None => bad V_IDLE_STREAM
      | Some _ => ok (set_streams m (upd_ms sid ms_set_cli_reset (m_streams m)))
      end
  | FHeaders sid len eh es =>
      match find_ms sid (m_streams m) with
      | Some s =>
          if ms_cli_closed s then bad V_CLOSED_STREAM
          else
            let m1 := if es then set_streams m (upd_ms sid ms_set_cli_closed (m_streams m)) else m in
            ok (if eh then m1 else set_hdr_open m1 sid)
      | None =>
          if Z.even sid || (sid <=? m_last_sid m) then bad V_STREAM_ID
          else if negb (streams_allowed m) then bad V_TOO_MANY_STREAMS
          else
            let s := mkMS sid (m_init_win m) (m_c_init_win m) es false false false in
            ok (mkMon (m_max_frame m) (m_init_win m) (m_max_streams m) (m_pending m) (m_conn_win m) (s :: m_streams m)
                      sid (if eh then 0 else sid) (m_sent m) (m_acked m) (m_pings m) (m_c_conn_win m) (m_c_init_win m))
      end
  | FContinuation sid len eh => bad V_HEADER_BLOCK
  | FData sid len es =>
      match find_ms sid (m_streams m) with
      | None => bad V_IDLE_STREAM
      | Some s =>
          if ms_cli_closed s then bad V_CLOSED_STREAM
          else
            let cw := m_conn_win m - len in
            if (0 <? len) && negb (ms_closed s) && (ms_win s - len <? 0) then bad V_STREAM_WINDOW
            else if (0 <? len) && (cw <? 0) then bad V_CONN_WINDOW
            else
              let upd s0 := let s1 := if ms_closed s0 then s0 else ms_add_win (- len) s0 in
                            if es then ms_set_cli_closed s1 else s1 in
              ok (set_streams (set_conn_win m cw) (upd_ms sid upd (m_streams m)))
      end
  | FGoAway _ code => if code =? 0 then ok m else bad V_CLIENT_KILLED_CONN
  | FOther _ _ _ => ok m
  end.
Proof.
  intros m f H0 Hp Hl. unfold mon_client. rewrite H0. cbn [Z.eqb negb andb].
  unfold max_frame_allowed. rewrite Hp. cbn [pending_max].
  destruct f; cbn [frame_len] in *; try reflexivity;
    try (replace (m_max_frame m <? len) with false by lia; try reflexivity);
    try (rewrite Hp; reflexivity); try (rewrite H0; reflexivity).
Qed.

Lemma SR_end_sent : forall i s m1, SR i s m1 -> SR i (cs_set_end_sent s) (ms_set_cli_closed m1).
Proof.
  intros i s m1 (H1 & H2 & H3 & H4 & H5 & H6 & H7 & H8 & H9).
  unfold SR, cs_done, ms_closed in *. cbn.
  repeat split; auto.
  - intros Hf. specialize (H6 Hf).
    destruct (ms_cli_reset m1), (ms_peer_reset m1), (ms_peer_ended m1), (ms_cli_closed m1); simpl in *; auto.
  - intros Hc. apply H7.
    destruct (ms_cli_reset m1), (ms_peer_reset m1), (ms_peer_ended m1), (ms_cli_closed m1); simpl in *; auto.
Qed.

Lemma step_send_data : forall c m sid want fin, R c m -> step_ok c m (ESendData sid want fin).
Proof.
  intros c m sid want fin HR. unfold step_ok. cbn [conn_step].
  destruct (find_cs sid (cc_streams c)) as [s|] eqn:Ef; [|apply noop_ok; exact HR].
  rewrite out_avail_stream_eq.
  destruct (negb (cs_forgotten s) && negb (cs_end_sent s) && negb (cs_reset s) && (1 <=? want)
            && (0 <? Z.min (cs_flow s) (cc_flow c))) eqn:G; [|apply noop_ok; exact HR].
  pose proof HR as HR0. dR HR.
  destruct (F2_find_some _ _ _ _ _ Rst Ef) as (m0 & Hfm & HS & Hid).
  assert (Hnf : cs_forgotten s = false) by (destruct (cs_forgotten s); [discriminate|reflexivity]).
  assert (Hes : cs_end_sent s = false) by (destruct (cs_end_sent s); [rewrite andb_false_r in G; discriminate|reflexivity]).
  assert (Hrs : cs_reset s = false) by (destruct (cs_reset s); [rewrite ?andb_false_r in G; simpl in G; rewrite ?andb_false_r in G; discriminate|reflexivity]).
  pose proof (SR_in32 _ _ _ (proj1 Riwr) HS Hnf) as Hin.
  set (take := Z.min (Z.min (Z.min (cs_flow s) (cc_flow c)) want) (cc_max_frame c)).
  assert (Htk : 1 <= take /\ take <= cs_flow s /\ take <= cc_flow c /\ take <= cc_max_frame c) by (unfold take; lia).
  rewrite out_take_stream_eq by (unfold in32 in *; lia).
  cbn [fst snd mon_steps monitor_step].
  rewrite mon_client_open0 by (cbn [frame_len]; auto; lia).
  rewrite Hfm.
  pose proof HS as (H1 & H2 & H3 & H4 & H5 & H6 & H7 & H8 & H9).
  replace (ms_cli_closed m0) with false by (rewrite H2; unfold cs_done; rewrite Hes, Hrs; reflexivity).
  cbv zeta.
  assert (Hw : (0 <? take) && negb (ms_closed m0) && (ms_win m0 - take <? 0) = false).
  { destruct (ms_closed m0) eqn:Ec; [rewrite andb_false_r; reflexivity|]. specialize (H7 eq_refl). lia. }
  rewrite Hw. replace ((0 <? take) && (m_conn_win m - take <? 0)) with false by lia.
  cbn [ok mon_steps]. eexists. split; [reflexivity|].
  unfold R. cbn. repeat split; auto; try lia.
  - eapply F2_upd_found; eauto.
    intros m1 (G1 & G2 & G3 & G4 & G5 & G6 & G7 & G8 & G9).
    assert (SR (cc_init_win c) (cs_set_flow s (cs_flow s - take))
               (if ms_closed m1 then m1 else ms_add_win (- take) m1)).
    { unfold SR, cs_done in *. destruct (ms_closed m1) eqn:Ec; cbn; rewrite ?Ec; repeat split; auto; try lia;
        try (intros; discriminate). }
    destruct (fin && (take =? want)); [|exact H].
    apply (SR_end_sent _ _ _ H).
  - apply Forall_upd_ms; auto. intros s0 Hs0. destruct (ms_closed s0), (fin && (take =? want)); cbn; exact Hs0.
  - apply Forall_upd_ms; auto. intros s0 Hs0. destruct (ms_closed s0), (fin && (take =? want)); cbn; exact Hs0.
  - apply desc_upd; [assumption|]. intros s0. destruct (fin && (take =? want)); reflexivity.
Qed.

(* ---- header blocks ---- *)
Lemma cont_ok : forall fuel m sid rest,
  0 < rest <= Z.of_nat fuel -> m_hdr_open m = sid -> sid <> 0 -> m_pending m = [] -> 1 <= m_max_frame m ->
  mon_steps m (cl (cont_frames fuel sid rest (m_max_frame m))) = Some (set_hdr_open m 0).
Proof.
  induction fuel as [|k IH]; intros m sid rest Hr Hh Hs Hp Hm; [simpl in Hr; lia|].
  cbn [cont_frames]. replace (rest <=? 0) with false by lia.
  cbn [cl map mon_steps monitor_step]. unfold mon_client.
  rewrite Hh. replace (sid =? 0) with false by lia.
  cbn [negb andb is_continuation_on]. rewrite Z.eqb_refl. cbn [negb andb frame_len].
  unfold max_frame_allowed. rewrite Hp. cbn [pending_max].
  replace (m_max_frame m <? Z.min rest (m_max_frame m)) with false by lia.
  cbn [ok].
  destruct (rest - Z.min rest (m_max_frame m) <=? 0) eqn:E.
  - (* last fragment *)
    destruct k; cbn [cont_frames cl map mon_steps]; [reflexivity|].
    rewrite E. reflexivity.
  - fold (cl (cont_frames k sid (rest - Z.min rest (m_max_frame m)) (m_max_frame m))).
    apply IH; auto. rewrite Nat2Z.inj_succ in Hr. lia.
Qed.

Lemma R_hdr_irrelevant : forall c m, R c (set_hdr_open m 0) -> m_hdr_open m = 0 -> R c m.
Proof. intros c m H H0. destruct m; cbn in *. subst. exact H. Qed.

(* a complete header block for stream sid, starting from a monitor state m1 = state after the
   HEADERS frame with hdr_open possibly set *)
Lemma hdr_tail_ok : forall m sid hlen chunk,
  m_hdr_open m = 0 -> m_pending m = [] -> 1 <= m_max_frame m -> sid <> 0 ->
  0 <= chunk <= hlen ->
  (hlen - chunk <=? 0) = false ->
  mon_steps (set_hdr_open m sid) (cl (cont_frames (Z.to_nat hlen) sid (hlen - chunk) (m_max_frame m))) = Some m.
Proof.
  intros m sid hlen chunk H0 Hp Hm Hs Hc E.
  replace (m_max_frame m) with (m_max_frame (set_hdr_open m sid)) by reflexivity.
  rewrite cont_ok; cbn; auto; try lia.
  destruct m; cbn in *; subst; reflexivity.
Qed.

Lemma Forall_le_weaken : forall (l : list mstream) a b, Forall (fun ms => ms_id ms <= a) l -> a <= b ->
  Forall (fun ms => ms_id ms <= b) l.
Proof. intros l a b H Hab. eapply Forall_impl; [|exact H]. simpl. intros. lia. Qed.

Lemma odd_plus2 : forall z, Z.odd z = true -> Z.odd (z + 2) = true.
Proof. intros. rewrite Z.odd_add. rewrite H. reflexivity. Qed.

Lemma odd_not_even : forall z, Z.odd z = true -> Z.even z = false.
Proof. intros. rewrite <- Z.negb_odd. rewrite H. reflexivity. Qed.

Lemma step_open : forall c m hlen es, R c m -> step_ok c m (EOpen hlen es).
Proof.
  intros c m hlen es HR. unfold step_ok. cbn [conn_step].
  destruct (negb (cc_dead c) && (active_count (cc_streams c) <? cc_max_streams c) && (1 <=? hlen)
            && (cc_prio_len c <? cc_max_frame c) && (cc_next_id c <? 2147483647)) eqn:G;
    [|apply noop_ok; exact HR].
  pose proof HR as HR0. dR HR.
  assert (Hcnt : active_count (cc_streams c) < cc_max_streams c) by lia.
  assert (Hh : 1 <= hlen) by lia.
  assert (Hp : cc_prio_len c < cc_max_frame c) by lia.
  set (sid := cc_next_id c) in *.
  assert (Hsid : sid <> 0) by lia.
  cbn [fst snd]. unfold hdr_frames.
  set (chunk := Z.min hlen (cc_max_frame c - cc_prio_len c)).
  assert (Hchunk : 1 <= chunk <= hlen /\ chunk + cc_prio_len c <= cc_max_frame c) by (unfold chunk; lia).
  cbn [cl map mon_steps monitor_step].
  rewrite mon_client_open0 by (cbn [frame_len]; auto; lia).
  assert (Hnone : find_ms sid (m_streams m) = None).
  { eapply F2_find_none; [exact Rst|]. eapply desc_find_none; [exact Rdesc|]. unfold sid. lia. }
  rewrite Hnone. rewrite (odd_not_even _ Rodd). replace (sid <=? m_last_sid m) with false by (unfold sid; lia).
  cbn [orb].
  assert (Hallow : streams_allowed m = true).
  { unfold streams_allowed. destruct (m_max_streams m) as [v|] eqn:Ev; [|reflexivity].
    rewrite Rpend. cbn [pending_max]. pose proof (Rms v eq_refl). pose proof (F2_count _ _ _ Rst). lia. }
  rewrite Hallow. cbn [negb ok]. cbv zeta.
  assert (Hflow : snd (out_add_stream 0 (cc_flow c) (wrap32 (cc_init_win c))) = cc_init_win c).
  { rewrite wrap32_id by (unfold in32; lia). rewrite out_add_stream_eq by (unfold in32; lia).
    cbn [snd]. replace (in32b (0 + cc_init_win c)) with true by (symmetry; apply in32b_true; unfold in32; lia).
    lia. }
  rewrite Hflow.
  (* the state after the whole block has hdr_open = 0 *)
  set (M := mkMon (m_max_frame m) (m_init_win m) (m_max_streams m) (m_pending m) (m_conn_win m)
                  (mkMS sid (m_init_win m) (m_c_init_win m) es false false false :: m_streams m)
                  sid 0 (m_sent m) (m_acked m) (m_pings m) (m_c_conn_win m) (m_c_init_win m)).
  exists M. split.
  - destruct (hlen - chunk <=? 0) eqn:E.
    + (* single HEADERS frame *)
      replace (cont_frames (Z.to_nat hlen) sid (hlen - chunk) (cc_max_frame c)) with (@nil frame).
      * reflexivity.
      * destruct (Z.to_nat hlen); cbn [cont_frames]; [reflexivity|]. rewrite E. reflexivity.
    + change (mkMon (m_max_frame m) (m_init_win m) (m_max_streams m) (m_pending m) (m_conn_win m)
                  (mkMS sid (m_init_win m) (m_c_init_win m) es false false false :: m_streams m)
                  sid sid (m_sent m) (m_acked m) (m_pings m) (m_c_conn_win m) (m_c_init_win m))
        with (set_hdr_open M sid).
      rewrite <- Rmf. change (m_max_frame m) with (m_max_frame M).
      apply hdr_tail_ok; cbn; auto; try lia.
  - unfold R, M. cbn. repeat split; auto; try lia.
    + constructor; [|exact Rst].
      unfold SR, cs_done, ms_closed. cbn. rewrite Riw. repeat split; auto; try lia;
        try (intros; discriminate). rewrite orb_false_r. reflexivity.
    + apply odd_plus2; assumption.
    + constructor; [cbn; lia|]. eapply Forall_le_weaken; [exact Rids|]. unfold sid. lia.
    + constructor; [cbn; lia|]. exact Rpos.
Qed.

Lemma find_ms_In : forall sid l m0, find_ms sid l = Some m0 -> In m0 l /\ ms_id m0 = sid.
Proof.
  induction l as [|s r IH]; simpl; intros m0 H; [discriminate|].
  destruct (ms_id s =? sid) eqn:E.
  - inversion H; subst. split; [left; reflexivity|lia].
  - destruct (IH _ H). split; [right; assumption|assumption].
Qed.

Lemma guard3 : forall a b c d : bool, negb a && negb b && negb c && d = true ->
  a = false /\ b = false /\ c = false /\ d = true.
Proof. intros [] [] [] []; simpl; intros; try discriminate; auto. Qed.

Lemma step_send_end : forall c m sid tlen, R c m -> step_ok c m (ESendEnd sid tlen).
Proof.
  intros c m sid tlen HR. unfold step_ok. cbn [conn_step].
  destruct (find_cs sid (cc_streams c)) as [s|] eqn:Ef; [|apply noop_ok; exact HR].
  destruct (negb (cs_forgotten s) && negb (cs_end_sent s) && negb (cs_reset s) && (cc_prio_len c <? cc_max_frame c)) eqn:G;
    [|apply noop_ok; exact HR].
  apply guard3 in G as (Hnf & Hes & Hrs & Hp).
  pose proof HR as HR0. dR HR.
  destruct (F2_find_some _ _ _ _ _ Rst Ef) as (m0 & Hfm & HS & Hid).
  pose proof HS as (H1 & H2 & H3 & H4 & H5 & H6 & H7 & H8 & H9).
  assert (Hcc : ms_cli_closed m0 = false) by (rewrite H2; unfold cs_done; rewrite Hes, Hrs; reflexivity).
  assert (Hsid : sid <> 0).
  { destruct (find_ms_In _ _ _ Hfm) as [Hin Hi]. rewrite Forall_forall in Rpos. specialize (Rpos _ Hin). lia. }
  (* R after the client side of the stream is closed *)
  assert (HRend : forall g, (forall x, SR (cc_init_win c) s x -> SR (cc_init_win c) (cs_set_end_sent s) (g x)) ->
                   (forall x, ms_id (g x) = ms_id x) ->
                   R (set_cstreams c (upd_cs sid cs_set_end_sent (cc_streams c)))
                     (set_streams m (upd_ms sid g (m_streams m)))).
  { intros g Hg Hgid. unfold R. cbn. repeat split; auto; try lia.
    - eapply F2_upd_found; eauto.
    - apply Forall_upd_ms; auto. intros x Hx. rewrite Hgid. exact Hx.
    - apply Forall_upd_ms; auto. intros x Hx. rewrite Hgid. exact Hx.
    - apply desc_upd; [assumption|reflexivity]. }
  cbn [fst snd].
  destruct (tlen <=? 0) eqn:Et.
  - (* empty DATA frame with END_STREAM *)
    cbn [mon_steps monitor_step].
    rewrite mon_client_open0 by (cbn [frame_len]; auto; lia).
    rewrite Hfm, Hcc. cbv zeta. cbn [Z.ltb Z.compare andb ok mon_steps].
    eexists. split; [reflexivity|].
    replace (m_conn_win m - 0) with (m_conn_win m) by lia.
    assert (Hsame : set_conn_win m (m_conn_win m) = m) by (destruct m; reflexivity).
    rewrite Hsame. apply HRend.
    + intros x Hx. apply SR_end_sent.
      destruct (ms_closed x) eqn:Ec; [exact Hx|].
      eapply SR_ms_same; [exact Hx| | | | | |]; cbn; auto; lia.
    + intros x. destruct (ms_closed x); reflexivity.
  - (* trailers: a header block with END_STREAM on the open stream *)
    unfold hdr_frames.
    set (chunk := Z.min tlen (cc_max_frame c - cc_prio_len c)).
    assert (Hchunk : 1 <= chunk <= tlen /\ chunk + cc_prio_len c <= cc_max_frame c) by (unfold chunk; lia).
    cbn [cl map mon_steps monitor_step].
    rewrite mon_client_open0 by (cbn [frame_len]; auto; lia).
    rewrite Hfm, Hcc. cbv zeta. cbn [ok].
    set (M := set_streams m (upd_ms sid ms_set_cli_closed (m_streams m))).
    exists M. split.
    + destruct (tlen - chunk <=? 0) eqn:E.
      * replace (cont_frames (Z.to_nat tlen) sid (tlen - chunk) (cc_max_frame c)) with (@nil frame).
        -- reflexivity.
        -- destruct (Z.to_nat tlen); cbn [cont_frames]; [reflexivity|]. rewrite E. reflexivity.
      * rewrite <- Rmf. change (m_max_frame m) with (m_max_frame M).
        apply hdr_tail_ok; cbn; auto; try lia.
    + apply HRend; [|reflexivity]. intros x Hx. apply SR_end_sent. exact Hx.
Qed.

Lemma SR_set_flow : forall i' i s m0 m1 f', SR i s m0 ->
  ms_id m1 = ms_id m0 -> ms_cli_closed m1 = ms_cli_closed m0 -> ms_cli_reset m1 = ms_cli_reset m0 ->
  ms_peer_ended m1 = ms_peer_ended m0 -> ms_peer_reset m1 = ms_peer_reset m0 ->
  f' <= 2147483647 -> (cs_forgotten s = false -> i' - 2147483647 <= f') ->
  (ms_closed m1 = false -> f' <= ms_win m1) ->
  SR i' (cs_set_flow s f') m1.
Proof.
  intros i' i s m0 m1 f' (H1 & H2 & H3 & H4 & H5 & H6 & H7 & H8 & H9) E1 E2 E3 E4 E5 F1 F2 F3.
  assert (Hc : ms_closed m1 = ms_closed m0) by (unfold ms_closed; rewrite E2, E3, E4, E5; reflexivity).
  unfold SR, cs_done in *. cbn. rewrite E1, E2, E3, E4, E5, Hc in *. repeat split; auto.
Qed.

Lemma step_window_update : forall c m sid inc, R c m -> step_ok c m (EWindowUpdate sid inc).
Proof.
  intros c m sid inc HR. unfold step_ok. cbn [conn_step].
  destruct ((1 <=? inc) && (inc <=? 2147483647)) eqn:G; [|apply noop_ok; exact HR].
  pose proof HR as HR0. dR HR.
  destruct (sid =? 0) eqn:E0.
  - rewrite out_add_conn_eq by (unfold in32; lia).
    cbn [fst snd mon_steps monitor_step ok mon_peer Z.eqb].
    eexists. split; [destruct (in32b (cc_flow c + inc)); reflexivity|].
    destruct (in32b (cc_flow c + inc)) eqn:Eb.
    + apply in32b_true in Eb. unfold in32 in Eb. unfold R. cbn. repeat split; auto; lia.
    + unfold R. cbn. repeat split; auto; lia.
  - cbn [fst snd mon_steps monitor_step ok mon_peer]. rewrite E0.
    eexists. split; [reflexivity|].
    unfold R. cbn. repeat split; auto; try lia.
    + apply F2_upd; [exact Rst|]. intros c0 m0 HS Hid.
      pose proof HS as (H1 & H2 & H3 & H4 & H5 & H6 & H7 & H8 & H9).
      destruct (cs_forgotten c0) eqn:Ef.
      * (* forgotten => closed at the peer: its window no longer matters *)
        assert (Hc : ms_closed (ms_add_win inc m0) = true) by (unfold ms_closed in *; cbn; auto).
        unfold SR, cs_done in *. cbn. rewrite Ef. repeat split; auto; try (intros; discriminate).
        unfold ms_closed in *; cbn in *. intros Hn. rewrite Hc in Hn. discriminate.
      * pose proof (SR_in32 _ _ _ (proj1 Riwr) HS Ef) as Hin.
        rewrite out_add_stream_eq by (unfold in32 in *; lia). cbn [snd].
        eapply SR_set_flow; [exact HS| | | | | | | |]; cbn; auto.
        -- destruct (in32b (cs_flow c0 + inc)) eqn:Eb; [apply in32b_true in Eb; unfold in32 in Eb; lia|lia].
        -- intros _. specialize (H9 eq_refl). destruct (in32b (cs_flow c0 + inc)); lia.
        -- intros Hc. assert (ms_closed m0 = false) by (unfold ms_closed in *; cbn in *; exact Hc).
           specialize (H7 H). destruct (in32b (cs_flow c0 + inc)); lia.
    + apply Forall_upd_ms; auto.
    + apply Forall_upd_ms; auto.
    + apply desc_upd; [assumption|]. intros s0. destruct (cs_forgotten s0); reflexivity.
Qed.

(* ---- SETTINGS ---- *)
Definition kv_valid (kv : Z * Z) : bool :=
  if fst kv =? S_INITIAL_WINDOW_SIZE then (0 <=? snd kv) && (snd kv <=? 2147483647)
  else if fst kv =? S_MAX_FRAME_SIZE then (16384 <=? snd kv) && (snd kv <=? 16777215)
  else (0 <=? snd kv) && (snd kv <=? 4294967295).

(* R without the clause about the first SETTINGS frame (temporarily false inside the fold) *)
Definition R0 (c : conn) (m : mon) : Prop :=
  m_hdr_open m = 0 /\ m_pending m = [] /\
  m_max_frame m = cc_max_frame c /\ m_init_win m = cc_init_win c /\
  (forall v, m_max_streams m = Some v -> v = cc_max_streams c) /\
  Forall2 (SR (cc_init_win c)) (cc_streams c) (m_streams m) /\
  0 <= cc_flow c /\ cc_flow c <= m_conn_win m /\ cc_flow c <= 2147483647 /\
  0 <= cc_init_win c <= 2147483647 /\
  0 <= m_last_sid m /\ m_last_sid m < cc_next_id c /\ Z.odd (cc_next_id c) = true /\
  Forall (fun ms => ms_id ms <= m_last_sid m) (m_streams m) /\
  Forall (fun ms => 0 < ms_id ms) (m_streams m) /\
  1 <= cc_max_frame c /\ 0 <= cc_prio_len c /\
  desc (cc_next_id c) (cc_streams c).

Lemma R_R0 : forall c m, R c m -> R0 c m.
Proof. intros c m H. dR H. unfold R0. repeat split; auto; lia. Qed.

Lemma Forall_map_ms : forall (Q : mstream -> Prop) g l, Forall Q l -> (forall s, Q s -> Q (g s)) -> Forall Q (map g l).
Proof. induction 1; intros; simpl; constructor; auto. Qed.

Lemma setting_ok : forall c m kv, R0 c m -> kv_valid kv = true ->
  R0 (client_setting c kv) (apply_setting m kv) /\
  cc_seen_settings (client_setting c kv) = cc_seen_settings c /\
  (fst kv <> S_MAX_CONCURRENT_STREAMS -> m_max_streams (apply_setting m kv) = m_max_streams m) /\
  (fst kv = S_MAX_CONCURRENT_STREAMS -> cc_max_streams (client_setting c kv) = snd kv).
Proof.
  intros c m [id v] H Hv. unfold kv_valid in Hv. cbn [fst snd] in *.
  destruct H as (Rhdr & Rpend & Rmf & Riw & Rms & Rst & Rf0 & Rfw & Rfmax & Riwr & Rl0 & Rlast & Rodd & Rids & Rpos & Rmf1 & Rprio & Rdesc).
  unfold client_setting, apply_setting, S_MAX_FRAME_SIZE, S_MAX_CONCURRENT_STREAMS, S_INITIAL_WINDOW_SIZE in *.
  destruct (id =? 5) eqn:E5.
  { replace (id =? 4) with false in Hv by lia.
    split; [|cbn; repeat split; auto; intros; lia].
    unfold R0. cbn. repeat split; auto; lia. }
  destruct (id =? 3) eqn:E3.
  { split; [|cbn; repeat split; auto; intros; lia].
    unfold R0. cbn. repeat split; auto; try lia. intros v0 Hv0. inversion Hv0. reflexivity. }
  destruct (id =? 4) eqn:E4; [|split; [unfold R0; repeat split; auto; lia|repeat split; auto; intros; lia]].
  split; [|cbn; repeat split; auto; intros; lia].
  assert (Hd : wrap32 (wrap32 v - wrap32 (cc_init_win c)) = v - cc_init_win c).
  { rewrite (wrap32_id v) by (unfold in32; lia). rewrite (wrap32_id (cc_init_win c)) by (unfold in32; lia).
    apply wrap32_id. unfold in32. lia. }
  rewrite Hd. rewrite Riw.
  set (d := v - cc_init_win c).
  unfold R0. cbn. repeat split; auto; try lia.
  - eapply F2_map2; [exact Rst|]. intros c0 m0 HS.
    pose proof HS as (H1 & H2 & H3 & H4 & H5 & H6 & H7 & H8 & H9).
    destruct (cs_forgotten c0) eqn:Ef.
    + rewrite (H6 eq_refl). unfold SR in *. rewrite Ef. repeat split; auto. intros; discriminate.
    + pose proof (SR_in32 _ _ _ (proj1 Riwr) HS Ef) as Hin. specialize (H9 eq_refl).
      rewrite out_add_stream_eq by (unfold in32 in *; unfold d; lia). cbn [snd].
      assert (Hfl : let f' := if in32b (cs_flow c0 + d) then cs_flow c0 + d else cs_flow c0 in
                    f' <= 2147483647 /\ v - 2147483647 <= f' /\ (cs_flow c0 <= ms_win m0 -> f' <= ms_win m0 + d)).
      { cbv zeta. destruct (in32b (cs_flow c0 + d)) eqn:Eb.
        - apply in32b_true in Eb. unfold in32 in Eb. unfold d in *. lia.
        - apply in32b_false in Eb. unfold in32 in *. unfold d in *. lia. }
      cbv zeta in Hfl. destruct Hfl as (F1 & F2 & F3).
      destruct (ms_closed m0) eqn:Ec.
      * eapply SR_set_flow; [exact HS| | | | | | | |]; auto. rewrite Ec. intros; discriminate.
      * eapply SR_set_flow; [exact HS| | | | | | | |]; cbn; auto.
  - apply Forall_map_ms; auto. intros s0 Hs0. destruct (ms_closed s0); cbn; exact Hs0.
  - apply Forall_map_ms; auto. intros s0 Hs0. destruct (ms_closed s0); cbn; exact Hs0.
  - apply desc_map; [assumption|]. intros s0. destruct (cs_forgotten s0); reflexivity.
Qed.

Lemma settings_fold_ok : forall kvs c m, R0 c m -> forallb kv_valid kvs = true ->
  R0 (fold_left client_setting kvs c) (fold_left apply_setting kvs m) /\
  cc_seen_settings (fold_left client_setting kvs c) = cc_seen_settings c /\
  (has_setting S_MAX_CONCURRENT_STREAMS kvs = false ->
     m_max_streams (fold_left apply_setting kvs m) = m_max_streams m).
Proof.
  induction kvs as [|kv r IH]; intros c m H Hv; cbn [fold_left].
  - split; [exact H|split; [reflexivity|intros; reflexivity]].
  - cbn [forallb] in Hv. apply andb_true_iff in Hv as [Hv1 Hv2].
    destruct (setting_ok c m kv H Hv1) as (A & B & C0 & D).
    destruct (IH _ _ A Hv2) as (A' & B' & C').
    split; [exact A'|split; [congruence|]].
    unfold has_setting in *. cbn [existsb]. intros Hn. apply orb_false_iff in Hn as [Hn1 Hn2].
    rewrite C' by exact Hn2. apply C0. lia.
Qed.

Lemma settings_valid_kv : forall kvs, settings_valid kvs = true -> forallb kv_valid kvs = true.
Proof. intros. exact H. Qed.

Lemma step_settings : forall c m kvs, R c m -> step_ok c m (ESettings kvs).
Proof.
  intros c m kvs HR. unfold step_ok. cbn [conn_step].
  destruct (settings_valid kvs) eqn:Ev; [|apply noop_ok; exact HR].
  pose proof HR as HR0. dR HR.
  cbn [fst snd mon_steps monitor_step ok mon_peer]. unfold mon_client. cbn.
  rewrite Rhdr, Rpend. cbn.
  set (m1 := mkMon (m_max_frame m) (m_init_win m) (m_max_streams m) [] (m_conn_win m) (m_streams m)
                   (m_last_sid m) 0 (m_sent m + 1) (m_acked m + 1) (m_pings m) (m_c_conn_win m) (m_c_init_win m)).
  assert (H1 : R0 c m1).
  { unfold R0, m1. cbn. repeat split; auto; lia. }
  destruct (settings_fold_ok kvs c m1 H1 (settings_valid_kv _ Ev)) as (A & B & C0).
  unfold apply_settings.
  eexists. split; [reflexivity|].
  destruct A as (A1 & A2 & A3 & A4 & A5 & A6 & A7 & A8 & A9 & A10 & A11 & A12 & A13 & A14 & A15 & A16 & A17 & A18).
  unfold R. cbn. repeat split; auto; try lia; try (intros; discriminate).
  intros v Hv.
  destruct (negb (cc_seen_settings c) && negb (has_setting S_MAX_CONCURRENT_STREAMS kvs)) eqn:G.
  - apply andb_true_iff in G as [G1 G2].
    rewrite C0 in Hv by (destruct (has_setting S_MAX_CONCURRENT_STREAMS kvs); [discriminate|reflexivity]).
    unfold m1 in Hv. cbn in Hv. rewrite Rseen in Hv by (destruct (cc_seen_settings c); [discriminate|reflexivity]).
    discriminate.
  - apply A5. exact Hv.
Qed.

(* ---- receive side: P DATA, application reads / close; WINDOW_UPDATEs written by the client ---- *)
Definition send_same (s s' : cstream) : Prop :=
  cs_id s' = cs_id s /\ cs_flow s' = cs_flow s /\ cs_end_sent s' = cs_end_sent s /\ cs_reset s' = cs_reset s /\
  cs_peer_ended s' = cs_peer_ended s /\ cs_peer_reset s' = cs_peer_reset s /\ cs_forgotten s' = cs_forgotten s.

Lemma SR_send_same : forall i s s' m0, SR i s m0 -> send_same s s' -> SR i s' m0.
Proof.
  intros i s s' m0 H (E1 & E2 & E3 & E4 & E5 & E6 & E7). unfold SR, cs_done in *.
  rewrite E1, E2, E3, E4, E5, E6, E7. exact H.
Qed.

Lemma F2_map_left : forall i h cs ms, Forall2 (SR i) cs ms -> (forall s, send_same s (h s)) ->
  Forall2 (SR i) (map h cs) ms.
Proof. induction 1; intros Hh; simpl; constructor; auto. eapply SR_send_same; eauto. Qed.

Lemma R_map_recv : forall c m h fin, R c m -> (forall s, send_same s (h s)) ->
  R (set_cstreams (set_cin c fin) (map h (cc_streams c))) m.
Proof.
  intros c m h fin HR Hh. dR HR. unfold R. cbn. repeat split; auto; try lia.
  - apply F2_map_left; assumption.
  - apply desc_map; auto. intros s. apply (Hh s).
Qed.

Lemma F2_upd_right : forall i sid g cs ms, Forall2 (SR i) cs ms ->
  (forall c0 m0, SR i c0 m0 -> SR i c0 (g m0)) -> Forall2 (SR i) cs (upd_ms sid g ms).
Proof. induction 1 as [|c0 m0 cs ms H0 H IH]; intros Hg; simpl; constructor; auto. destruct (ms_id m0 =? sid); auto. Qed.

Lemma R_upd_ms_right : forall c m sid g, R c m ->
  (forall i c0 m0, SR i c0 m0 -> SR i c0 (g m0)) -> (forall s, ms_id (g s) = ms_id s) ->
  R c (set_streams m (upd_ms sid g (m_streams m))).
Proof.
  intros c m sid g HR Hg Hid. dR HR. unfold R. cbn. repeat split; auto; try lia.
  - apply F2_upd_right; auto.
  - apply Forall_upd_ms; auto. intros s Hs. rewrite Hid. exact Hs.
  - apply Forall_upd_ms; auto. intros s Hs. rewrite Hid. exact Hs.
Qed.

Lemma R_set_c_conn_win : forall c m w, R c m -> R c (set_c_conn_win m w).
Proof. intros c m w HR. dR HR. unfold R. cbn. repeat split; auto; lia. Qed.

(* the monitor state after the (possibly absent) WINDOW_UPDATE the client writes *)
Definition mon_wu (m : mon) (sid n : Z) : mon :=
  if 0 <? n then
    if sid =? 0 then set_c_conn_win m (m_c_conn_win m + n)
    else set_streams m (upd_ms sid (ms_add_recv n) (m_streams m))
  else m.

Lemma mon_steps_wu : forall m sid n, m_hdr_open m = 0 -> m_pending m = [] ->
  mon_steps m (wu sid n) = Some (mon_wu m sid n).
Proof.
  intros m sid n H0 Hp. unfold wu, mon_wu. destruct (0 <? n); [|reflexivity].
  cbn [mon_steps monitor_step]. rewrite mon_client_open0 by (cbn [frame_len]; auto).
  destruct (sid =? 0); reflexivity.
Qed.

Lemma SR_add_recv : forall i c0 m0 d, SR i c0 m0 -> SR i c0 (ms_add_recv d m0).
Proof. intros. eapply SR_ms_same; eauto. Qed.

Lemma R_mon_wu : forall c m sid n, R c m -> R c (mon_wu m sid n).
Proof.
  intros c m sid n HR. unfold mon_wu. destruct (0 <? n); [|exact HR].
  destruct (sid =? 0); [apply R_set_c_conn_win; exact HR|].
  apply R_upd_ms_right; auto.
Qed.

Lemma mon_wu_quiet : forall m sid n, m_hdr_open (mon_wu m sid n) = m_hdr_open m /\ m_pending (mon_wu m sid n) = m_pending m.
Proof. intros. unfold mon_wu. destruct (0 <? n); [destruct (sid =? 0)|]; split; reflexivity. Qed.

Lemma wu2_ok : forall c m s1 n1 s2 n2, R c m ->
  mon_steps m (wu s1 n1 ++ wu s2 n2) = Some (mon_wu (mon_wu m s1 n1) s2 n2) /\ R c (mon_wu (mon_wu m s1 n1) s2 n2).
Proof.
  intros c m s1 n1 s2 n2 HR. pose proof HR as HR0. dR HR.
  rewrite mon_steps_app, mon_steps_wu by assumption.
  destruct (mon_wu_quiet m s1 n1) as [Q1 Q2].
  rewrite mon_steps_wu by congruence.
  split; [reflexivity|]. apply R_mon_wu, R_mon_wu. exact HR0.
Qed.

Lemma send_same_recv : forall s f b, send_same s (cs_set_recv s f b).
Proof. intros. unfold send_same. cbn. repeat split. Qed.

Lemma upd_cs_map : forall sid f l, upd_cs sid f l = map (fun s => if cs_id s =? sid then f s else s) l.
Proof. reflexivity. Qed.

Lemma step_app_read : forall c m sid n eof, R c m -> step_ok c m (EAppRead sid n eof).
Proof.
  intros c m sid n eof HR. unfold step_ok. cbn [conn_step].
  destruct (find_cs sid (cc_streams c)) as [s|] eqn:Ef; [|apply noop_ok; exact HR].
  destruct ((1 <=? n) && (n <=? cs_buf s) && negb (cs_app_closed s) && negb (cs_read_failed s));
    [|apply noop_ok; exact HR].
  destruct (in_add_ret (cc_in c) n) as [rc f2].
  destruct (if eof then (0, cs_in s) else in_add_ret (cs_in s) n) as [rs g2].
  cbn [fst snd].
  assert (HR' : R (set_cstreams (set_cin c f2)
                     (upd_cs sid (fun s0 => let s1 := cs_set_recv s0 g2 (cs_buf s - n) in
                                            if eof then cs_set_read_failed s1 else s1) (cc_streams c))) m).
  { rewrite upd_cs_map. apply R_map_recv; [exact HR|]. intros s0. cbv zeta.
    destruct (cs_id s0 =? sid); [|unfold send_same; repeat split].
    destruct eof; unfold send_same; cbn; repeat split. }
  destruct (wu2_ok _ m 0 rc sid rs HR') as [E HR2].
  eexists. split; [exact E|exact HR2].
Qed.

Lemma send_same_app_closed : forall s, send_same s (cs_set_app_closed s).
Proof. intros. unfold send_same. cbn. repeat split. Qed.

Lemma step_app_close : forall c m sid, R c m -> step_ok c m (EAppClose sid).
Proof.
  intros c m sid HR. unfold step_ok. cbn [conn_step].
  destruct (find_cs sid (cc_streams c)) as [s|] eqn:Ef; [|apply noop_ok; exact HR].
  destruct (negb (cs_app_closed s)); [|apply noop_ok; exact HR].
  destruct (if 0 <? cs_buf s then in_add_ret (cc_in c) (cs_buf s) else (0, cc_in c)) as [rc f2].
  cbn [fst snd].
  assert (HR' : R (set_cstreams (set_cin c f2) (upd_cs sid cs_set_app_closed (cc_streams c))) m).
  { rewrite upd_cs_map. apply R_map_recv; [exact HR|]. intros s0. destruct (cs_id s0 =? sid); [apply send_same_app_closed|].
    unfold send_same. repeat split. }
  pose proof HR' as HR0. dR HR0.
  rewrite mon_steps_wu by assumption.
  eexists. split; [reflexivity|]. apply R_mon_wu. exact HR'.
Qed.

(* the peer's DATA frame as the strict peer books it *)
Definition mon_pdata (m : mon) (sid len : Z) (es : bool) : mon :=
  mon_peer m (FData sid len es).

Lemma SR_peer_data_right : forall i c0 m0 len es, SR i c0 m0 ->
  (es = true -> cs_forgotten c0 = true \/ cs_peer_reset c0 = true) ->
  SR i c0 (let s1 := ms_add_recv (- len) m0 in if es then ms_set_peer_ended s1 else s1).
Proof.
  intros i c0 m0 len es HS Hes. cbv zeta. destruct es.
  - eapply SR_ms_same; [exact HS| | | | | |]; cbn; auto.
  - apply SR_add_recv. exact HS.
Qed.

Lemma SR_peer_ended : forall i s m1, SR i s m1 -> SR i (cs_set_peer_ended s) (ms_set_peer_ended m1).
Proof.
  intros i s m1 (H1 & H2 & H3 & H4 & H5 & H6 & H7 & H8 & H9).
  unfold SR, cs_done, ms_closed in *. cbn.
  repeat split; auto.
  - intros Hf. specialize (H6 Hf).
    destruct (ms_cli_reset m1), (ms_peer_reset m1), (ms_peer_ended m1), (ms_cli_closed m1); simpl in *; auto.
  - intros Hc. apply H7.
    destruct (ms_cli_reset m1), (ms_peer_reset m1), (ms_peer_ended m1), (ms_cli_closed m1); simpl in *; auto.
Qed.

Lemma step_peer_data : forall c m sid len pad es, R c m -> step_ok c m (EPeerData sid len pad es).
Proof.
  intros c m sid len pad es HR. unfold step_ok. cbn [conn_step].
  destruct ((0 <=? pad) && (pad <=? len) && (len <=? 16777215)); [|apply noop_ok; exact HR].
  destruct (find_cs sid (cc_streams c)) as [s|] eqn:Ef; [|apply noop_ok; exact HR].
  pose proof HR as HRk. dR HRk.
  destruct (cs_forgotten s || cs_peer_reset s) eqn:Edead.
  - (* the stream is gone for the read loop: connection credit returned at once *)
    destruct (in_take (cc_in c) len) as [[[|]|] f1]; try (apply noop_ok; exact HR).
    destruct (in_add_ret f1 len) as [r f2]. cbn [fst snd].
    cbn [mon_steps monitor_step ok].
    set (m1 := mon_peer m (FData sid len es)).
    assert (HR1 : R (set_cin c f2) m1).
    { unfold m1. cbn [mon_peer].
      assert (Hc : R (set_cin c f2) m).
      { unfold R. cbn. repeat split; auto; lia. }
      apply R_upd_ms_right; [apply R_set_c_conn_win; exact Hc| |].
      - intros i c0 m0 HS. cbv zeta. destruct es; [|apply SR_add_recv; exact HS].
        eapply SR_ms_same; [exact HS| | | | | |]; cbn; auto.
      - intros s0. cbv zeta. destruct es; reflexivity. }
    pose proof HR1 as (Q1 & Q2 & _).
    rewrite mon_steps_wu by assumption.
    eexists. split; [reflexivity|]. apply R_mon_wu. exact HR1.
  - destruct (cs_peer_ended s) eqn:Epe; [apply noop_ok; exact HR|].
    destruct (in_take2 (cc_in c) (cs_in s) len) as [[[|]|] [f1 g1]]; try (apply noop_ok; exact HR).
    destruct (in_add_ret f1 (pad + (if cs_app_closed s then len - pad else 0))) as [rc f2].
    destruct (if cs_app_closed s then (0, g1) else in_add_ret g1 (pad + (if cs_app_closed s then len - pad else 0))) as [rs g2].
    cbn [fst snd]. cbn [mon_steps monitor_step ok].
    set (buf' := if cs_app_closed s then cs_buf s else cs_buf s + (len - pad)).
    set (m1 := mon_peer m (FData sid len es)).
    set (c1 := set_cstreams (set_cin c f2)
                 (upd_cs sid (fun s0 => let s1 := cs_set_recv s0 g2 buf' in if es then cs_set_peer_ended s1 else s1) (cc_streams c))).
    assert (HR1 : R c1 m1).
    { unfold m1, c1. cbn [mon_peer]. unfold R. cbn. repeat split; auto; try lia.
      - eapply F2_upd_found; eauto.
        intros m0 HS. cbv zeta.
        assert (HS1 : SR (cc_init_win c) (cs_set_recv s g2 buf') (ms_add_recv (- len) m0)).
        { apply SR_add_recv. eapply SR_send_same; [exact HS|apply send_same_recv]. }
        destruct es; [|exact HS1]. apply SR_peer_ended. exact HS1.
      - apply Forall_upd_ms; auto. intros s0 Hs0. cbv zeta. destruct es; cbn; exact Hs0.
      - apply Forall_upd_ms; auto. intros s0 Hs0. cbv zeta. destruct es; cbn; exact Hs0.
      - apply desc_upd; [assumption|]. intros s0. cbv zeta. destruct es; reflexivity. }
    destruct (wu2_ok _ m1 0 rc sid rs HR1) as [E HR2].
    eexists. split; [exact E|exact HR2].
Qed.

Lemma step_peer_headers : forall c m sid es, R c m -> step_ok c m (EPeerHeaders sid es).
Proof.
  intros c m sid es HR. unfold step_ok. cbn [conn_step].
  destruct (find_cs sid (cc_streams c)) as [s|] eqn:Ef; [|apply noop_ok; exact HR].
  destruct (cs_forgotten s || cs_peer_reset s || cs_peer_ended s); [apply noop_ok; exact HR|].
  cbn [fst snd mon_steps monitor_step ok mon_peer]. eexists. split; [reflexivity|].
  pose proof HR as HR0. dR HR0. destruct es.
  - unfold R. cbn. repeat split; auto; try lia.
    + eapply F2_upd_found; eauto. intros m0 HS. apply SR_peer_ended. exact HS.
    + apply Forall_upd_ms; auto.
    + apply Forall_upd_ms; auto.
    + apply desc_upd; [assumption|reflexivity].
  - unfold R. cbn. repeat split; auto; try lia.
    + rewrite <- (upd_ms_id sid (m_streams m)). eapply F2_upd_found; eauto.
    + apply desc_upd; [assumption|reflexivity].
Qed.

Lemma step_open_refused : forall c m, R c m -> step_ok c m EOpenRefused.
Proof.
  intros c m HR. unfold step_ok. cbn [conn_step].
  destruct (negb (cc_dead c) && (active_count (cc_streams c) <? cc_max_streams c) && (cc_next_id c <? 2147483647));
    [|apply noop_ok; exact HR].
  cbn [fst snd]. exists m. split; [reflexivity|]. dR HR. unfold R. cbn. repeat split; auto; try lia.
  - apply odd_plus2; assumption.
  - eapply desc_weaken; [exact Rdesc|lia].
Qed.

Theorem step_ok_all : forall c m e, R c m -> step_ok c m e.
Proof.
  intros c m e HR. destruct e.
  - apply step_open; assumption.
  - apply step_send_data; assumption.
  - apply step_send_end; assumption.
  - apply step_reset; assumption.
  - apply step_forget; assumption.
  - apply step_settings; assumption.
  - apply step_window_update; assumption.
  - apply step_peer_rst; assumption.
  - apply step_goaway; assumption.
  - apply step_peer_data; assumption.
  - apply step_app_read; assumption.
  - apply step_app_close; assumption.
  - apply step_peer_headers; assumption.
  - apply step_open_refused; assumption.
Qed.
