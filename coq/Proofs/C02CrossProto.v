(* Proofs/C02CrossProto.v - C02: one abstract response, three protocols, one result. *)
From ReqV Require Import Lib.Bytes Lib.BytesFacts Model.H1Resp Model.H1Render Model.RespRender
  Model.StreamBody Model.RespAPI Model.H1Client Model.MuxResp
  Proofs.H1RespProofs Proofs.RespRenderProofs Proofs.H1RoundTrip Proofs.MuxRespProofs.
From Coq Require Import Lia ZifyBool ZifyNat ZifyN.

Lemma values_of_app k a b : values_of k (a ++ b) = values_of k a ++ values_of k b.
Proof. unfold values_of. now rewrite filter_app, map_app. Qed.

Lemma without_app k a b : without k (a ++ b) = without k a ++ without k b.
Proof. unfold without. apply filter_app. Qed.

Lemma end_to_end_named k fs :
  h1_reserved k = true -> end_to_end fs = true -> none_named k fs.
Proof.
  intros Hk H. unfold end_to_end in H. rewrite forallb_forall in H.
  apply Forall_forall. intros f Hf. specialize (H f Hf). apply negb_true_iff in H.
  unfold named. destruct (bytes_eqb (canon_name (fst f)) k) eqn:E; [|reflexivity].
  apply bytes_eqb_eq in E. rewrite E in H. congruence.
Qed.

Lemma none_named_values k fs : none_named k fs -> values_of k fs = [].
Proof. induction 1 as [|f fs Hf _ IH]; [reflexivity|]. now rewrite values_of_cons, Hf. Qed.

Lemma none_named_without k fs : none_named k fs -> without k fs = fs.
Proof. intros H. apply without_absent. now apply none_named_values. Qed.

Definition te_chunked : wfield :=
  {| wf_name := K_TE; wf_pre := [SP]; wf_value := bs "chunked"; wf_post := [] |}.

Section Cross.
  Variable a : aresp.
  Variable fs : list wfield.            (* the end-to-end fields as written on an HTTP/1.1 wire *)
  Variable cs : list (bytes * bytes).   (* HTTP/1.1 chunks *)
  Variable l0 : bytes.                  (* last-chunk size line *)
  Variable fr : list h2frame.           (* HTTP/2 DATA frames (any padding), all but the last *)
  Variable last : h2frame.
  Variable parts : list bytes.          (* HTTP/3 DATA frames *)
  Variable m : mode.
  Variable sizes : list nat.

  Hypothesis Hcode : (100 <= a_code a <= 999)%Z.
  Hypothesis Hallow : body_allowed_for_status (a_code a) = true.
  Hypothesis Hreason : reason_ok (a_reason a) = true.
  Hypothesis Hfs : fields_ok fs.
  Hypothesis Hfields : map field_of fs = a_fields a.
  Hypothesis He2e : end_to_end (a_fields a) = true.
  Hypothesis Hchunks : chunks_ok br_size 0 cs.
  Hypothesis Hl0 : size_line_ok br_size l0 0.
  Hypothesis Hb1 : concat (map snd cs) = a_body a.
  Hypothesis Hopen : open_frames fr.
  Hypothesis Hlast : fd_end last = true.
  Hypothesis Hb2 : payload (fr ++ [last]) = a_body a.
  Hypothesis Hb3 : concat parts = a_body a.

  Let expected : api_obs := run_mode m (a_code a) sizes {| rd_rem := a_body a; rd_end := BEof |}.

  Let h1_wire : bytes :=
    render_head (a_code a) (a_reason a) (fs ++ [te_chunked]) ++
    H1Render.render_chunks cs ++ l0 ++ H1Render.CRLF ++ render_wfields [] ++ H1Render.CRLF ++ [].

  Lemma tokens : token_names (a_fields a).
  Proof.
    rewrite <- Hfields. apply Forall_forall. intros f Hf. apply in_map_iff in Hf as (w & <- & Hw).
    unfold fields_ok in Hfs. rewrite Forall_forall in Hfs.
    destruct (wfield_ok_parts w (Hfs w Hw)) as (_ & Ht & _). exact Ht.
  Qed.

  Lemma not_1xx : is_1xx_nonterminal (a_code a) = false.
  Proof.
    unfold is_1xx_nonterminal. unfold body_allowed_for_status in Hallow.
    apply negb_true_iff in Hallow. apply orb_false_iff in Hallow as [H _].
    apply orb_false_iff in H as [H _]. now rewrite H.
  Qed.

  Theorem h1_view :
    exists r b,
      h1_exchange (bs "GET") m sizes h1_wire = Some {| d_resp := r; d_body := b; d_api := expected |} /\
      r_code r = a_code a /\ r_header r = collect (a_fields a) /\ b_trailer b = [] /\
      b_data b = a_body a.
  Proof.
    set (F := map field_of (fs ++ [te_chunked])).
    assert (EF : F = a_fields a ++ [(K_TE, bs "chunked")]).
    { unfold F. rewrite map_app, Hfields. reflexivity. }
    assert (Nte := end_to_end_named K_TE _ eq_refl He2e).
    assert (Ncl := end_to_end_named K_CL _ eq_refl He2e).
    assert (Ntr := end_to_end_named K_TRAILER _ eq_refl He2e).
    assert (Nco := end_to_end_named K_CONNECTION _ eq_refl He2e).
    assert (Npr := end_to_end_named K_PRAGMA _ eq_refl He2e).
    assert (Vte : values_of K_TE F = [bs "chunked"]).
    { rewrite EF, values_of_app, (none_named_values _ _ Nte). reflexivity. }
    assert (Vcl : no_field K_CL F).
    { unfold no_field. rewrite EF, values_of_app, (none_named_values _ _ Ncl). reflexivity. }
    assert (Vtr : values_of K_TRAILER F = []).
    { rewrite EF, values_of_app, (none_named_values _ _ Ntr). reflexivity. }
    assert (Vco : values_of K_CONNECTION F = []).
    { rewrite EF, values_of_app, (none_named_values _ _ Nco). reflexivity. }
    assert (Vpr : values_of K_PRAGMA F = []).
    { rewrite EF, values_of_app, (none_named_values _ _ Npr). reflexivity. }
    assert (Hok : fields_ok (fs ++ [te_chunked])).
    { apply Forall_app. split; [exact Hfs|]. constructor; [reflexivity|constructor]. }
    assert (Hbad : existsb bad_trailer_key (declared_keys F) = false).
    { unfold declared_keys. rewrite Vtr. reflexivity. }
    pose proof (h1_chunked_round_trip (bs "GET") br_size (a_code a) (a_reason a) (fs ++ [te_chunked])
                  Hcode Hreason Hok (pragma_neutral_no_pragma _ Vpr) [] (bs "chunked") cs l0 []
                  eq_refl Hallow Vte eq_refl Vcl Hbad Hchunks Hl0 (Forall_nil _) (or_introl eq_refl)) as P.
    fold F in P.
    eexists. eexists. split.
    - unfold h1_wire. pose proof (h1_delivery (bs "GET") m sizes [] _ _ _ (Forall_nil _) ltac:(cbn; lia) P) as D.
      cbn [render_interims flat_map app] in D. rewrite D by (cbn [r_code]; apply not_1xx).
      cbn [r_code body_reader b_data b_end berr_clean]. unfold expected. rewrite Hb1. reflexivity.
    - cbn [r_code r_header b_trailer b_data].
      split; [reflexivity|]. split; [|split; [|first [reflexivity|exact Hb1]]].
      + unfold after_conn, wants_close, conn_values. rewrite Vco. cbn [header_values_contain_token existsb].
        rewrite EF, !without_app, (none_named_without _ _ Nte), (none_named_without _ _ Ntr).
        cbn. now rewrite app_nil_r.
      + unfold declared_trailer, declared_keys. rewrite Vtr. reflexivity.
  Qed.

  Theorem h2_view :
    h2_exchange false
      [{| hh_status := code_text (a_code a); hh_fields := lower_fields (a_fields a); hh_end := false |}]
      (fr ++ [last]) None m sizes =
    Some {| m_code := a_code a; m_header := collect (a_fields a); m_cl := -1; m_trailer := [];
            m_api := expected |}.
  Proof.
    pose proof (code_ok_all _ Hcode) as Ok. unfold code_ok in Ok.
    apply andb_true_iff in Ok as [Ok _]. apply andb_true_iff in Ok as [Ok _].
    apply andb_true_iff in Ok as [_ Hat].
    destruct (atoi (code_text (a_code a))) as [n|] eqn:Ea; [|discriminate]. apply Z.eqb_eq in Hat. subst n.
    unfold h2_exchange. cbn [h2_final hh_status hh_end hh_fields]. rewrite Ea.
    pose proof not_1xx as N1. unfold is_1xx_nonterminal in N1.
    assert (Hn : ((100 <=? a_code a)%Z && (a_code a <=? 199)%Z) = false).
    { unfold body_allowed_for_status in Hallow. apply negb_true_iff in Hallow.
      apply orb_false_iff in Hallow as [H _]. apply orb_false_iff in H as [H _]. exact H. }
    rewrite Hn. cbn [hh_status hh_end hh_fields].
    rewrite h2_header_collect; [|apply tokens|apply (end_to_end_named K_TRAILER _ eq_refl He2e)].
    unfold h2_content_length. rewrite hget_collect.
    rewrite (none_named_values _ _ (end_to_end_named K_CL _ eq_refl He2e)).
    cbn [andb negb Z.ltb Z.compare]. cbn [Z.to_N].
    rewrite h2_body_concat; [|assumption|assumption|now left].
    cbn [h2err_clean]. unfold expected. rewrite Hb2. reflexivity.
  Qed.

  Theorem h3_view :
    h3_exchange false
      [{| h3_status := code_text (a_code a); h3_flds := lower_fields (a_fields a) |}]
      parts None m sizes =
    Some {| m_code := a_code a; m_header := collect (a_fields a); m_cl := -1; m_trailer := [];
            m_api := expected |}.
  Proof.
    pose proof (code_ok_all _ Hcode) as Ok. unfold code_ok in Ok.
    apply andb_true_iff in Ok as [Ok _]. apply andb_true_iff in Ok as [Ok _].
    apply andb_true_iff in Ok as [_ Hat].
    destruct (atoi (code_text (a_code a))) as [n|] eqn:Ea; [|discriminate]. apply Z.eqb_eq in Hat. subst n.
    unfold h3_exchange. cbn [h3_final h3_status h3_flds]. rewrite Ea.
    assert (Hn : ((100 <=? a_code a)%Z && (a_code a <=? 199)%Z) = false).
    { unfold body_allowed_for_status in Hallow. apply negb_true_iff in Hallow.
      apply orb_false_iff in Hallow as [H _]. apply orb_false_iff in H as [H _]. exact H. }
    rewrite Hn. cbn [andb h3_status h3_flds].
    rewrite h3_header_collect; [|apply tokens|apply (end_to_end_named K_CL _ eq_refl He2e)
                                |apply (end_to_end_named K_TRAILER _ eq_refl He2e)].
    cbn [Z.ltb Z.compare andb orb Z.eqb].
    assert (H204 : (a_code a =? 204)%Z = false).
    { unfold body_allowed_for_status in Hallow. apply negb_true_iff in Hallow.
      apply orb_false_iff in Hallow as [H _]. apply orb_false_iff in H as [_ H]. exact H. }
    assert (H12 : ((100 <=? a_code a)%Z && (a_code a <? 200)%Z) = false).
    { destruct (Z.leb_spec 100 (a_code a)); destruct (Z.ltb_spec (a_code a) 200); try reflexivity.
      destruct (Z.leb_spec (a_code a) 199); [discriminate Hn|lia]. }
    rewrite H12, H204. cbn [orb andb].
    rewrite h3_body_concat by (now left). cbn [h3err_clean]. unfold expected. rewrite Hb3. reflexivity.
  Qed.
End Cross.
