(* Proofs/C02CrossProto.v - C02: one abstract response, three protocols, one result. *)
From ReqV Require Import Lib.Bytes Lib.BytesFacts Model.H1Resp Model.H1Render Model.RespRender
  Model.StreamBody Model.RespAPI Model.H1Client Model.MuxResp
  Proofs.H1RespProofs Proofs.RespRenderProofs Proofs.H1RoundTrip Proofs.MuxRespProofs.
From Coq Require Import Lia ZifyBool ZifyNat ZifyN.

Lemma values_of_app k a b : values_of k (a ++ b) = values_of k a ++ values_of k b.
Proof. unfold values_of. now rewrite filter_app, map_app. Qed.

Lemma without_app k a b : without k (a ++ b) = without k a ++ without k b.
Proof. unfold without. apply filter_app. Qed.

Lemma end_to_end_named k fs :
  h1_reserved k = true -> end_to_end fs = true -> none_named k fs.
Proof.
  intros Hk H. unfold end_to_end in H. rewrite forallb_forall in H.
  apply Forall_forall. intros f Hf. specialize (H f Hf). apply negb_true_iff in H.
  unfold named. destruct (bytes_eqb (canon_name (fst f)) k) eqn:E; [|reflexivity].
  apply bytes_eqb_eq in E. rewrite E in H. congruence.
Qed.

Lemma none_named_values k fs : none_named k fs -> values_of k fs = [].
Proof. induction 1 as [|f fs Hf _ IH]; [reflexivity|]. now rewrite values_of_cons, Hf. Qed.

Lemma none_named_without k fs : none_named k fs -> without k fs = fs.
Proof. intros H. apply without_absent. now apply none_named_values. Qed.

Definition te_chunked : wfield :=
  {| wf_name := K_TE; wf_pre := [SP]; wf_value := bs "chunked"; wf_post := [] |}.

(* ---------- header multimaps built by Header.Add have distinct keys ---------- *)

Definition keys (m : hmap) : list bytes := map fst m.

Lemma hget_none_notin k m : ~ In k (keys m) -> hget k m = None.
Proof.
  induction m as [|[k0 vs] m IH]; cbn [keys map fst hget In]; [reflexivity|]. intros H.
  destruct (bytes_eqb k k0) eqn:E.
  - apply bytes_eqb_eq in E. subst. exfalso. apply H. now left.
  - apply IH. intros Hin. apply H. now right.
Qed.

Lemma hset_fresh k vs m : hget k m = None -> hset k vs m = m ++ [(k, vs)].
Proof.
  induction m as [|[k0 vs0] m IH]; cbn [hget hset app]; [reflexivity|].
  destruct (bytes_eqb k k0); [discriminate|]. intros H. now rewrite IH.
Qed.

Lemma set_all_nodup m : forall acc, NoDup (keys (acc ++ m)) -> set_all acc m = acc ++ m.
Proof.
  induction m as [|[k vs] m IH]; intros acc H.
  - cbn. now rewrite app_nil_r.
  - unfold set_all. cbn [fold_left fst snd]. fold (set_all (hset k vs acc) m).
    assert (Hk : ~ In k (keys acc)).
    { unfold keys in H. rewrite map_app in H. cbn [map fst] in H.
      apply NoDup_remove_2 in H. intros Hin. apply H. apply in_or_app. now left. }
    rewrite hset_fresh by (now apply hget_none_notin).
    rewrite IH; [now rewrite <- app_assoc|]. now rewrite <- app_assoc.
Qed.

Lemma in_keys_hadd x k v m : In x (keys (hadd k v m)) -> x = k \/ In x (keys m).
Proof.
  induction m as [|[k0 vs] m IH]; cbn [hadd keys map fst In].
  - intros [->|[]]. now left.
  - destruct (bytes_eqb k k0); cbn [keys map fst In].
    + intros [->|H]; [right; now left|right; now right].
    + intros [->|H]; [right; now left|]. destruct (IH H) as [->|H']; [now left|right; now right].
Qed.

Lemma hadd_nodup k v m : NoDup (keys m) -> NoDup (keys (hadd k v m)).
Proof.
  induction m as [|[k0 vs] m IH]; cbn [hadd keys map fst]; intros H.
  - constructor; [intros []|constructor].
  - destruct (bytes_eqb k k0) eqn:E; cbn [keys map fst]; [exact H|].
    inversion H as [|? ? Hn Hd]; subst. constructor; [|now apply IH].
    intros Hin. destruct (in_keys_hadd _ _ _ _ Hin) as [->|H']; [|contradiction].
    rewrite bytes_eqb_refl in E. discriminate.
Qed.

Lemma collect_from_nodup fs : forall m, NoDup (keys m) -> NoDup (keys (collect_from m fs)).
Proof.
  induction fs as [|f fs IH]; intros m H; [exact H|]. cbn [collect_from fold_left].
  apply IH. now apply hadd_nodup.
Qed.

(* copyTrailers on top of an empty announcement = the trailer multimap itself *)
Lemma set_all_collect T : set_all [] (collect T) = collect T.
Proof. apply set_all_nodup. cbn [app]. apply collect_from_nodup. constructor. Qed.

(* ---------- one abstract response over the three protocols ---------- *)

Definition expected_api (a : aresp) (m : mode) (sizes : list nat) : api_obs :=
  run_mode m (a_code a) sizes {| rd_rem := a_body a; rd_end := BEof |}.

(* well-formed abstract response with a body: any three-digit status that allows one, any
   end-to-end header fields (written on the HTTP/1.1 wire as [fs], any optional whitespace),
   any trailer fields (written as [tfs]), any body *)
Definition aresp_ok (a : aresp) (fs tfs : list wfield) : Prop :=
  (100 <= a_code a <= 999)%Z /\ body_allowed_for_status (a_code a) = true /\
  reason_ok (a_reason a) = true /\
  fields_ok fs /\ map field_of fs = a_fields a /\ end_to_end (a_fields a) = true /\
  fields_ok tfs /\ map field_of tfs = a_trailers a.

Lemma tokens_of fs F : fields_ok fs -> map field_of fs = F -> token_names F.
Proof.
  intros Hfs <-. apply Forall_forall. intros f Hf. apply in_map_iff in Hf as (w & <- & Hw).
  unfold fields_ok in Hfs. rewrite Forall_forall in Hfs.
  destruct (wfield_ok_parts w (Hfs w Hw)) as (_ & Ht & _). exact Ht.
Qed.

Lemma allowed_not_1xx code : body_allowed_for_status code = true ->
  ((100 <=? code)%Z && (code <=? 199)%Z) = false /\ (code =? 204)%Z = false.
Proof.
  unfold body_allowed_for_status. intros H. apply negb_true_iff in H.
  apply orb_false_iff in H as [H _]. apply orb_false_iff in H as [H1 H2]. auto.
Qed.

Lemma atoi_code_text code : (100 <= code <= 999)%Z -> atoi (code_text code) = Some code.
Proof.
  intros Hc. pose proof (code_ok_all _ Hc) as Ok. unfold code_ok in Ok.
  apply andb_true_iff in Ok as [Ok _]. apply andb_true_iff in Ok as [Ok _].
  apply andb_true_iff in Ok as [_ Hat].
  destruct (atoi (code_text code)) as [n|]; [|discriminate]. apply Z.eqb_eq in Hat. now subst.
Qed.

(* HTTP/1.1: chunked with ANY partition / size-line spelling, trailer section *)
Theorem cross_h1 a fs tfs cs l0 m sizes :
  aresp_ok a fs tfs ->
  chunks_ok br_size 0 cs -> size_line_ok br_size l0 0 -> concat (map snd cs) = a_body a ->
  trailer_fits br_size tfs ->
  exists r b,
    h1_exchange (bs "GET") m sizes
      (render_head (a_code a) (a_reason a) (fs ++ [te_chunked]) ++ H1Render.render_chunks cs ++
       l0 ++ H1Render.CRLF ++ render_wfields tfs ++ H1Render.CRLF ++ []) =
      Some {| d_resp := r; d_body := b; d_api := expected_api a m sizes |} /\
    r_code r = a_code a /\ r_header r = collect (a_fields a) /\
    b_trailer b = collect (a_trailers a) /\ b_data b = a_body a.
Proof.
  intros (Hcode & Hallow & Hreason & Hfs & Hfields & He2e & Htfs & Htr) Hchunks Hl0 Hb1 Hfit.
  set (F := map field_of (fs ++ [te_chunked])).
  assert (EF : F = a_fields a ++ [(K_TE, bs "chunked")]).
  { unfold F. rewrite map_app, Hfields. reflexivity. }
  assert (Nte := end_to_end_named K_TE _ eq_refl He2e).
  assert (Ncl := end_to_end_named K_CL _ eq_refl He2e).
  assert (Ntr := end_to_end_named K_TRAILER _ eq_refl He2e).
  assert (Nco := end_to_end_named K_CONNECTION _ eq_refl He2e).
  assert (Npr := end_to_end_named K_PRAGMA _ eq_refl He2e).
  assert (Vte : values_of K_TE F = [bs "chunked"]).
  { rewrite EF, values_of_app, (none_named_values _ _ Nte). reflexivity. }
  assert (Vcl : no_field K_CL F).
  { unfold no_field. rewrite EF, values_of_app, (none_named_values _ _ Ncl). reflexivity. }
  assert (Vtr : values_of K_TRAILER F = []).
  { rewrite EF, values_of_app, (none_named_values _ _ Ntr). reflexivity. }
  assert (Vco : values_of K_CONNECTION F = []).
  { rewrite EF, values_of_app, (none_named_values _ _ Nco). reflexivity. }
  assert (Vpr : values_of K_PRAGMA F = []).
  { rewrite EF, values_of_app, (none_named_values _ _ Npr). reflexivity. }
  assert (Hok : fields_ok (fs ++ [te_chunked])).
  { apply Forall_app. split; [exact Hfs|]. constructor; [reflexivity|constructor]. }
  assert (Hbad : existsb bad_trailer_key (declared_keys F) = false).
  { unfold declared_keys. rewrite Vtr. reflexivity. }
  pose proof (h1_chunked_round_trip (bs "GET") br_size (a_code a) (a_reason a) (fs ++ [te_chunked])
                Hcode Hreason Hok (pragma_neutral_no_pragma _ Vpr) tfs (bs "chunked") cs l0 []
                eq_refl Hallow Vte eq_refl Vcl Hbad Hchunks Hl0 Htfs Hfit) as P.
  fold F in P.
  assert (N1 : (a_code a < 100 \/ 199 < a_code a)%Z).
  { destruct (allowed_not_1xx _ Hallow) as [Hn _].
    destruct (Z.leb_spec 100 (a_code a)); destruct (Z.leb_spec (a_code a) 199); lia. }
  eexists. eexists. split.
  - pose proof (h1_delivery (bs "GET") m sizes [] _ _ _ (Forall_nil _) ltac:(cbn; lia) P) as D.
    cbn [render_interims flat_map app] in D. rewrite D by (cbn [r_code]; exact N1).
    cbn [r_code body_reader b_data b_end berr_clean]. unfold expected_api. rewrite Hb1. reflexivity.
  - cbn [r_code r_header b_trailer b_data].
    split; [reflexivity|]. split; [|split; [|first [reflexivity|exact Hb1]]].
    + unfold after_conn, wants_close, conn_values. rewrite Vco. cbn [header_values_contain_token existsb].
      rewrite EF, !without_app, (none_named_without _ _ Nte), (none_named_without _ _ Ntr).
      cbn. now rewrite app_nil_r.
    + unfold declared_trailer, declared_keys. rewrite Vtr. cbn [flat_map map fold_left merge_set_header is_nil].
      now rewrite Htr.
Qed.

(* HTTP/2: ANY DATA partition with ANY padding, END_STREAM on the trailer block *)
Theorem cross_h2 a fs tfs fr m sizes :
  aresp_ok a fs tfs -> open_frames fr -> payload fr = a_body a ->
  h2_exchange false
    [{| hh_status := code_text (a_code a); hh_fields := lower_fields (a_fields a); hh_end := false |}]
    fr (Some (lower_fields (a_trailers a))) m sizes =
  Some {| m_code := a_code a; m_header := collect (a_fields a); m_cl := -1;
          m_trailer := collect (a_trailers a); m_api := expected_api a m sizes |}.
Proof.
  intros (Hcode & Hallow & Hreason & Hfs & Hfields & He2e & Htfs & Htr) Hopen Hb2.
  unfold h2_exchange, h2_exchange_after. rewrite app_nil_r.
  cbn [h2_final hh_status hh_end hh_fields]. rewrite atoi_code_text by assumption.
  destruct (allowed_not_1xx _ Hallow) as [Hn H204]. rewrite Hn. cbn [hh_status hh_end hh_fields].
  rewrite h2_header_collect; [|apply (tokens_of fs _ Hfs Hfields)|apply (end_to_end_named K_TRAILER _ eq_refl He2e)].
  unfold h2_content_length. rewrite hget_collect.
  rewrite (none_named_values _ _ (end_to_end_named K_CL _ eq_refl He2e)).
  cbn [andb negb Z.ltb Z.compare]. cbn [Z.to_N].
  rewrite h2_body_concat_trailers; [|assumption|now left].
  cbn [h2err_clean andb negb]. rewrite add_all_collect by (apply (tokens_of tfs _ Htfs Htr)).
  rewrite set_all_collect. unfold expected_api. rewrite Hb2. reflexivity.
Qed.

(* HTTP/3: ANY DATA partition, trailer section, FIN *)
Theorem cross_h3 a fs tfs parts m sizes :
  aresp_ok a fs tfs -> concat parts = a_body a ->
  h3_exchange false
    [{| h3_status := code_text (a_code a); h3_flds := lower_fields (a_fields a) |}]
    parts (Some (lower_fields (a_trailers a))) m sizes =
  Some {| m_code := a_code a; m_header := collect (a_fields a); m_cl := -1;
          m_trailer := collect (a_trailers a); m_api := expected_api a m sizes |}.
Proof.
  intros (Hcode & Hallow & Hreason & Hfs & Hfields & He2e & Htfs & Htr) Hb3.
  unfold h3_exchange, h3_exchange_evs. cbn [h3_final h3_status h3_flds]. rewrite atoi_code_text by assumption.
  destruct (allowed_not_1xx _ Hallow) as [Hn H204]. rewrite Hn. cbn [andb h3_status h3_flds].
  rewrite h3_header_collect; [|apply (tokens_of fs _ Hfs Hfields)|apply (end_to_end_named K_CL _ eq_refl He2e)
                              |apply (end_to_end_named K_TRAILER _ eq_refl He2e)].
  cbn [Z.ltb Z.compare andb orb Z.eqb].
  assert (H12 : ((100 <=? a_code a)%Z && (a_code a <? 200)%Z) = false).
  { destruct (Z.leb_spec 100 (a_code a)); destruct (Z.ltb_spec (a_code a) 200); try reflexivity.
    destruct (Z.leb_spec (a_code a) 199); [discriminate Hn|lia]. }
  rewrite H12, H204. cbn [orb andb].
  rewrite h3_body_concat by (now left). cbn [h3err_clean].
  rewrite add_all_collect by (apply (tokens_of tfs _ Htfs Htr)).
  unfold expected_api. rewrite Hb3. reflexivity.
Qed.

(* cross_protocol_response: the three deliveries of one abstract response coincide *)
Theorem cross_protocol_response a fs tfs cs l0 fr parts m sizes :
  aresp_ok a fs tfs ->
  chunks_ok br_size 0 cs -> size_line_ok br_size l0 0 -> concat (map snd cs) = a_body a ->
  trailer_fits br_size tfs ->
  open_frames fr -> payload fr = a_body a -> concat parts = a_body a ->
  exists r b d2 d3,
    h1_exchange (bs "GET") m sizes
      (render_head (a_code a) (a_reason a) (fs ++ [te_chunked]) ++ H1Render.render_chunks cs ++
       l0 ++ H1Render.CRLF ++ render_wfields tfs ++ H1Render.CRLF ++ []) =
      Some {| d_resp := r; d_body := b; d_api := expected_api a m sizes |} /\
    h2_exchange false
      [{| hh_status := code_text (a_code a); hh_fields := lower_fields (a_fields a); hh_end := false |}]
      fr (Some (lower_fields (a_trailers a))) m sizes = Some d2 /\
    h3_exchange false
      [{| h3_status := code_text (a_code a); h3_flds := lower_fields (a_fields a) |}]
      parts (Some (lower_fields (a_trailers a))) m sizes = Some d3 /\
    (* status *)  r_code r = a_code a /\ m_code d2 = a_code a /\ m_code d3 = a_code a /\
    (* header *)  r_header r = collect (a_fields a) /\ m_header d2 = collect (a_fields a) /\
                  m_header d3 = collect (a_fields a) /\
    (* trailer *) b_trailer b = collect (a_trailers a) /\ m_trailer d2 = collect (a_trailers a) /\
                  m_trailer d3 = collect (a_trailers a) /\
    (* body through the read mode *)
                  m_api d2 = expected_api a m sizes /\ m_api d3 = expected_api a m sizes.
Proof.
  intros Hok Hc Hl Hb1 Hfit Ho Hb2 Hb3.
  destruct (cross_h1 a fs tfs cs l0 m sizes Hok Hc Hl Hb1 Hfit) as (r & b & E1 & R1 & R2 & R3 & _).
  exists r, b. eexists. eexists.
  split; [exact E1|]. split; [apply (cross_h2 a fs tfs fr m sizes Hok Ho Hb2)|].
  split; [apply (cross_h3 a fs tfs parts m sizes Hok Hb3)|].
  cbn [m_code m_header m_trailer m_api]. repeat split; assumption.
Qed.

(* ====================================================================== *)
(* every trailer field sent is delivered, whatever was announced          *)
(* ====================================================================== *)

Lemma hget_hset k k' vs m : hget k (hset k' vs m) = if bytes_eqb k k' then Some vs else hget k m.
Proof.
  induction m as [|[k0 v0] m IH]; cbn [hset hget].
  - destruct (bytes_eqb k k'); reflexivity.
  - destruct (bytes_eqb k' k0) eqn:E0; cbn [hget].
    + apply bytes_eqb_eq in E0. subst k0. destruct (bytes_eqb k k'); reflexivity.
    + destruct (bytes_eqb k k0) eqn:E1.
      * apply bytes_eqb_eq in E1. subst k0. destruct (bytes_eqb k k') eqn:E; [|reflexivity].
        apply bytes_eqb_eq in E. subst. rewrite bytes_eqb_refl in E0. discriminate.
      * exact IH.
Qed.

Lemma hget_set_all k s : forall d, NoDup (keys s) ->
  hget k (set_all d s) = match hget k s with Some v => Some v | None => hget k d end.
Proof.
  induction s as [|[k1 v1] s IH]; intros d Hn; [reflexivity|].
  unfold set_all. cbn [fold_left fst snd]. fold (set_all (hset k1 v1 d) s).
  inversion Hn as [|? ? Hk Hs]; subst. rewrite IH by exact Hs. cbn [hget].
  destruct (bytes_eqb k k1) eqn:E.
  - apply bytes_eqb_eq in E. subst k1. rewrite (hget_none_notin k s Hk). rewrite hget_hset, bytes_eqb_refl. reflexivity.
  - destruct (hget k s); [reflexivity|]. now rewrite hget_hset, E.
Qed.

(* what the Trailer header announced (any set of keys: a subset of the fields sent, a superset,
   disjoint from them, nothing) never hides a field that was sent: under every key that occurs in
   the trailer section the caller finds exactly the values sent, in order; a key that was only
   announced stays as announced *)
Theorem trailers_sent_are_delivered k declared T :
  hget k (merge_set_header declared (collect T)) =
    match values_of k T with
    | [] => hget k declared
    | vs => Some vs
    end /\
  hget k (set_all declared (collect T)) =
    match values_of k T with
    | [] => hget k declared
    | vs => Some vs
    end.
Proof.
  assert (S : hget k (set_all declared (collect T)) =
              match values_of k T with [] => hget k declared | vs => Some vs end).
  { rewrite hget_set_all by (apply collect_from_nodup; constructor).
    rewrite hget_collect. destruct (values_of k T); reflexivity. }
  split; [|exact S].
  unfold merge_set_header. destruct declared as [|d0 dr] eqn:Ed; cbn [is_nil].
  - rewrite hget_collect. destruct (values_of k T); reflexivity.
  - exact S.
Qed.
