(* Proofs/ProgressProofs.v - progress callbacks are truthful for every chunking and clock (C17). *)
From Coq Require Import Lia ZArith.
From ReqV Require Import Lib.Bytes Model.Progress.
Open Scope Z_scope.

(* strictly increasing, everything above lo *)
Fixpoint incr_above (lo : Z) (l : list Z) : Prop :=
  match l with
  | [] => True
  | x :: r => lo < x /\ incr_above x r
  end.

Lemma incr_above_weaken lo lo' l : lo' <= lo -> incr_above lo l -> incr_above lo' l.
Proof. destruct l; cbn [incr_above]; [auto|]. intros H [A B]. split; [lia|exact B]. Qed.

Lemma pos_nonneg n : 0 <= pos n.
Proof. unfold pos. lia. Qed.

Lemma written_total_nonneg evs : 0 <= written_total evs.
Proof.
  induction evs as [|e r IH]; cbn [written_total fold_right]; [lia|].
  fold (written_total r). pose proof (pos_nonneg (fst e)). lia.
Qed.

Lemma read_total_nonneg evs : 0 <= read_total evs.
Proof.
  induction evs as [|e r IH]; cbn [read_total fold_right]; [lia|].
  fold (read_total r). pose proof (pos_nonneg (fst (fst e))). lia.
Qed.

(* ---------- callbackWriter ---------- *)

Lemma writer_step_cases total iv st n now :
  match writer_step total iv st (n, now) with
  | (st', out) =>
      w_written st' = w_written st + pos n /\
      (out = [] \/ (out = [w_written st'] /\ 0 < n)) /\
      (0 < n -> w_written st + n = total -> out = [total])
  end.
Proof.
  unfold writer_step, pos. destruct (n <=? 0) eqn:E.
  - apply Z.leb_le in E. repeat split; [lia|now left|lia].
  - apply Z.leb_gt in E. destruct (w_written st + n =? total) eqn:T.
    + apply Z.eqb_eq in T. cbn [w_written]. repeat split; [lia|right; split; [reflexivity|lia]|].
      intros _ _. now rewrite T.
    + apply Z.eqb_neq in T. destruct (iv <=? now - w_last st); cbn [w_written].
      * repeat split; [lia|right; split; [reflexivity|lia]|lia].
      * repeat split; [lia|now left|lia].
Qed.

(* counts strictly increase and never exceed what was really written *)
Lemma writer_reports total iv evs : forall st,
  incr_above (w_written st) (run_writer total iv st evs) /\
  Forall (fun r => r <= w_written st + written_total evs) (run_writer total iv st evs).
Proof.
  induction evs as [|[n now] evs IH]; intro st; cbn [run_writer written_total fold_right fst].
  - split; [exact I|constructor].
  - pose proof (writer_step_cases total iv st n now) as C.
    destruct (writer_step total iv st (n, now)) as [st' out].
    destruct C as (W & O & _). destruct (IH st') as (A & B).
    pose proof (pos_nonneg n). pose proof (written_total_nonneg evs).
    fold (written_total evs). rewrite W in *.
    destruct O as [->|[-> P]]; cbn [app].
    + split; [eapply incr_above_weaken; [|exact A]; lia|].
      eapply Forall_impl; [|exact B]. cbn. intros; lia.
    + unfold pos in *. split; [split; [lia|exact A]|].
      constructor; [lia|]. eapply Forall_impl; [|exact B]. cbn. intros; lia.
Qed.

Lemma run_writer_nothing total iv evs : forall st,
  written_total evs = 0 -> run_writer total iv st evs = [].
Proof.
  induction evs as [|[n now] evs IH]; intros st H; [reflexivity|].
  cbn [written_total fold_right fst] in H. fold (written_total evs) in H.
  pose proof (pos_nonneg n). pose proof (written_total_nonneg evs).
  cbn [run_writer]. unfold writer_step. unfold pos in *.
  destruct (n <=? 0) eqn:E; [|apply Z.leb_gt in E; lia].
  cbn [app]. apply IH. lia.
Qed.

(* an upload whose declared size is the true size ends with a report of exactly that size *)
Lemma writer_final total iv evs : forall st,
  w_written st + written_total evs = total -> 0 < written_total evs ->
  exists p, run_writer total iv st evs = p ++ [total].
Proof.
  induction evs as [|[n now] evs IH]; intros st H P; cbn [written_total fold_right fst] in *.
  - lia.
  - fold (written_total evs) in *.
    pose proof (writer_step_cases total iv st n now) as C. cbn [run_writer].
    destruct (writer_step total iv st (n, now)) as [st' out].
    destruct C as (W & O & F).
    pose proof (pos_nonneg n). pose proof (written_total_nonneg evs).
    destruct (Z.eq_dec (written_total evs) 0) as [Z0|NZ].
    + (* nothing more is written after this event: it is the one that reaches the total *)
      rewrite (run_writer_nothing total iv evs st' Z0), app_nil_r.
      assert (0 < n) as Pn by (unfold pos in *; lia).
      exists []. cbn [app]. apply F; [exact Pn|unfold pos in *; lia].
    + destruct (IH st') as [p Hp]; [lia|lia|]. rewrite Hp. exists (out ++ p). now rewrite app_assoc.
Qed.

(* ---------- callbackReader ---------- *)

Lemma reader_step_cases iv st n eof now :
  r_lastread st <= r_read st ->
  match reader_step iv st (n, eof, now) with
  | (st', out) =>
      r_read st' = r_read st + pos n /\
      ((out = [] /\ r_lastread st' = r_lastread st) \/
       (out = [r_read st'] /\ r_lastread st' = r_read st' /\ r_lastread st < r_read st')) /\
      (eof = true -> r_lastread st' = r_read st')
  end.
Proof.
  intro L. unfold reader_step, pos. destruct (n <=? 0) eqn:E.
  - apply Z.leb_le in E. destruct eof; cbn [andb].
    + destruct (r_lastread st <? r_read st) eqn:T.
      * apply Z.ltb_lt in T. cbn [r_read r_lastread].
        split; [lia|]. split; [right; repeat split; lia|reflexivity].
      * apply Z.ltb_ge in T. split; [lia|]. split; [now left|intros _; lia].
    + split; [lia|]. split; [now left|discriminate].
  - apply Z.leb_gt in E. destruct eof.
    + cbn [r_read r_lastread]. split; [lia|]. split; [right; repeat split; lia|reflexivity].
    + destruct (iv <=? now - r_last st); cbn [r_read r_lastread].
      * split; [lia|]. split; [right; repeat split; lia|discriminate].
      * split; [lia|]. split; [now left|discriminate].
Qed.

Lemma reader_reports iv evs : forall st,
  r_lastread st <= r_read st ->
  incr_above (r_lastread st) (run_reader iv st evs) /\
  Forall (fun r => r <= r_read st + read_total evs) (run_reader iv st evs).
Proof.
  induction evs as [|[[n eof] now] evs IH]; intros st L; cbn [run_reader read_total fold_right fst].
  - split; [exact I|constructor].
  - pose proof (reader_step_cases iv st n eof now L) as C.
    destruct (reader_step iv st (n, eof, now)) as [st' out].
    destruct C as (R & O & _). fold (read_total evs).
    pose proof (pos_nonneg n). pose proof (read_total_nonneg evs).
    destruct O as [[-> Q]|(-> & Q & S)]; cbn [app].
    + destruct (IH st') as (A & B); [lia|]. rewrite Q in A. split; [exact A|].
      eapply Forall_impl; [|exact B]. cbn. intros; lia.
    + destruct (IH st') as (A & B); [lia|]. rewrite Q in A. split; [split; [lia|exact A]|].
      constructor; [lia|]. eapply Forall_impl; [|exact B]. cbn. intros; lia.
Qed.

(* a body read to EOF: the last report is the number of bytes delivered (if any were) *)
Lemma reader_final iv pre : forall st n now,
  r_lastread st <= r_read st ->
  let evs := pre ++ [(n, true, now)] in
  let T := r_read st + read_total evs in
  (r_lastread st < T -> exists p, run_reader iv st evs = p ++ [T]) /\
  (r_lastread st = T -> run_reader iv st evs = []).
Proof.
  induction pre as [|[[m eof] t] pre IH]; intros st n now L; cbn zeta.
  - cbn [app run_reader read_total fold_right fst].
    pose proof (reader_step_cases iv st n true now L) as C.
    destruct (reader_step iv st (n, true, now)) as [st' out].
    destruct C as (R & O & F). specialize (F eq_refl). rewrite Z.add_0_r, app_nil_r.
    destruct O as [[-> Q]|(-> & Q & S)].
    + split; [intro; lia|reflexivity].
    + split; [intros _; exists []; cbn; f_equal; lia|intro; lia].
  - cbn [app run_reader read_total fold_right fst].
    fold (read_total (pre ++ [(n, true, now)])).
    pose proof (reader_step_cases iv st m eof t L) as C.
    destruct (reader_step iv st (m, eof, t)) as [st' out].
    destruct C as (R & O & _).
    pose proof (pos_nonneg m). pose proof (read_total_nonneg (pre ++ [(n, true, now)])).
    assert (r_lastread st' <= r_read st') as L' by (destruct O as [[_ Q]|(_ & Q & _)]; lia).
    destruct (IH st' n now L') as (I1 & I2). cbn zeta in I1, I2.
    replace (r_read st + (pos m + read_total (pre ++ [(n, true, now)])))
      with (r_read st' + read_total (pre ++ [(n, true, now)])) by lia.
    destruct O as [[-> Q]|(-> & Q & S)]; cbn [app].
    + rewrite Q in *. split; [exact I1|exact I2].
    + split; [|intro; lia]. intros _.
      destruct (Z.eq_dec (r_lastread st') (r_read st' + read_total (pre ++ [(n, true, now)]))) as [E|NE].
      * rewrite (I2 E). exists []. cbn. f_equal. lia.
      * destruct I1 as [p Hp]; [lia|]. rewrite Hp. exists (r_read st' :: p). reflexivity.
Qed.

(* ---------- what can be said without seeing the clock ---------- *)

(* whatever the clock does, the reports are a sub-sequence of the running totals *)
Lemma writer_subseq total iv evs : forall st,
  subseq (run_writer total iv st evs) (running (w_written st) (map fst evs)) = true.
Proof.
  induction evs as [|[n now] evs IH]; intro st; cbn [run_writer map running fst]; [reflexivity|].
  pose proof (writer_step_cases total iv st n now) as C.
  pose proof (writer_reports total iv evs) as RP.
  destruct (writer_step total iv st (n, now)) as [st' out] eqn:WS.
  destruct C as (W & O & _). unfold pos in W.
  destruct (n <=? 0) eqn:E.
  - apply Z.leb_le in E. unfold writer_step in WS. apply Z.leb_le in E. rewrite E in WS.
    inversion WS; subst. cbn [app]. apply IH.
  - apply Z.leb_gt in E. replace (w_written st + n) with (w_written st') by lia.
    destruct O as [->|[-> _]]; cbn [app].
    + destruct (RP st') as (A & _). specialize (IH st').
      destruct (run_writer total iv st' evs) as [|x r]; [reflexivity|].
      cbn [subseq]. destruct A as (A & _).
      destruct (x =? w_written st') eqn:X; [apply Z.eqb_eq in X; lia|exact IH].
    + cbn [subseq]. rewrite Z.eqb_refl. apply IH.
Qed.

Lemma reader_reports_ge iv evs : forall st,
  r_lastread st <= r_read st -> Forall (fun r => r_read st <= r) (run_reader iv st evs).
Proof.
  induction evs as [|[[n eof] now] evs IH]; intros st L; cbn [run_reader]; [constructor|].
  pose proof (reader_step_cases iv st n eof now L) as C.
  destruct (reader_step iv st (n, eof, now)) as [st' out].
  destruct C as (R & O & _). pose proof (pos_nonneg n).
  assert (r_lastread st' <= r_read st') as L' by (destruct O as [[_ Q]|(_ & Q & _)]; lia).
  specialize (IH st' L').
  assert (Forall (fun r => r_read st <= r) (run_reader iv st' evs)) as F
      by (eapply Forall_impl; [|exact IH]; cbn; intros; lia).
  destruct O as [[-> _]|(-> & _ & _)]; cbn [app]; [exact F|]. constructor; [lia|exact F].
Qed.

Definition pending (st : rstate) : list Z :=
  if r_lastread st <? r_read st then [r_read st] else [].

Lemma reader_subseq iv evs : forall st,
  r_lastread st <= r_read st ->
  subseq (run_reader iv st evs)
         (pending st ++ running (r_read st) (map (fun e => fst (fst e)) evs)) = true.
Proof.
  induction evs as [|[[n eof] now] evs IH]; intros st L; cbn [run_reader map running fst];
    [destruct (pending st ++ []); reflexivity|].
  pose proof (reader_step_cases iv st n eof now L) as C.
  pose proof (reader_reports_ge iv evs) as GE.
  destruct (reader_step iv st (n, eof, now)) as [st' out] eqn:RS.
  destruct C as (R & O & _). unfold pos in R.
  assert (r_lastread st' <= r_read st') as L' by (destruct O as [[_ Q]|(_ & Q & _)]; lia).
  specialize (IH st' L'). specialize (GE st' L'). unfold pending in *.
  destruct (n <=? 0) eqn:E.
  - apply Z.leb_le in E. assert (r_read st' = r_read st) as Eq by lia. rewrite Eq in *.
    destruct O as [[-> Q]|(-> & Q & S)]; cbn [app].
    + unfold pending in *. rewrite Q in IH. exact IH.
    + unfold pending in *. replace (r_lastread st <? r_read st) with true by (symmetry; apply Z.ltb_lt; lia).
      replace (r_lastread st' <? r_read st) with false in IH by (symmetry; apply Z.ltb_ge; lia).
      cbn [app subseq]. rewrite Z.eqb_refl. exact IH.
  - apply Z.leb_gt in E. replace (r_read st + n) with (r_read st') by lia.
    destruct O as [[-> Q]|(-> & Q & S)]; cbn [app].
    + (* no report: the new total is pending *)
      unfold pending in IH. replace (r_lastread st' <? r_read st') with true in IH
        by (symmetry; apply Z.ltb_lt; lia).
      cbn [app] in IH. unfold pending. destruct (r_lastread st <? r_read st); cbn [app]; [|exact IH].
      destruct (run_reader iv st' evs) as [|x r]; [reflexivity|].
      inversion GE; subst. cbn [subseq].
      destruct (x =? r_read st) eqn:X; [apply Z.eqb_eq in X; lia|exact IH].
    + unfold pending in IH. replace (r_lastread st' <? r_read st') with false in IH
        by (symmetry; apply Z.ltb_ge; lia).
      cbn [app] in IH. unfold pending. destruct (r_lastread st <? r_read st); cbn [app subseq].
      * destruct (r_read st' =? r_read st) eqn:X; [apply Z.eqb_eq in X; lia|].
        rewrite Z.eqb_refl. exact IH.
      * rewrite Z.eqb_refl. exact IH.
Qed.

(* ---------- the statements from the initial state ---------- *)

Theorem upload_progress_final total interval t0 evs :
  written_total evs = total -> 0 < total ->
  exists p, run_writer total interval (w0 t0) evs = p ++ [total].
Proof.
  intros H P.
  apply (writer_final total interval evs (w0 t0)); cbn [w0 w_written]; [rewrite Z.add_0_l; exact H|now rewrite H].
Qed.

Theorem download_progress_final interval t0 pre n now :
  let evs := pre ++ [(n, true, now)] in
  0 < read_total evs ->
  exists p, run_reader interval (r0 t0) evs = p ++ [read_total evs].
Proof.
  intros evs P.
  destruct (reader_final interval pre (r0 t0) n now) as (A & _); [cbn; apply Z.le_refl|].
  cbn [r0 r_read r_lastread] in A. rewrite Z.add_0_l in A. exact (A P).
Qed.

Theorem download_any_clock interval t0 evs :
  subseq (run_reader interval (r0 t0) evs) (running 0 (map (fun e => fst (fst e)) evs)) = true.
Proof. exact (reader_subseq interval evs (r0 t0) (Z.le_refl 0)). Qed.

Theorem upload_progress_monotone_bounded total interval evs st :
  incr_above (w_written st) (run_writer total interval st evs) /\
  Forall (fun r => r <= w_written st + written_total evs) (run_writer total interval st evs).
Proof. exact (writer_reports total interval evs st). Qed.

Theorem download_progress_monotone_bounded interval evs st :
  r_lastread st <= r_read st ->
  incr_above (r_lastread st) (run_reader interval st evs) /\
  Forall (fun r => r <= r_read st + read_total evs) (run_reader interval st evs).
Proof. exact (reader_reports interval evs st). Qed.

Theorem upload_any_clock total interval evs st :
  subseq (run_writer total interval st evs) (running (w_written st) (map fst evs)) = true.
Proof. exact (writer_subseq total interval evs st). Qed.

(* ---------- int64 ---------- *)
(* Go's counters are int64; the model counts in Z.  As long as fewer than 2^63 bytes are moved in
   total, every value the Go code computes (the running count after each call, hence every
   reported count) lies in [0, 2^63): no wrap-around, the model is exact. *)

Lemma incr_above_forall lo l : incr_above lo l -> Forall (fun r => lo < r) l.
Proof.
  revert lo. induction l as [|x l IH]; intros lo H; constructor.
  - now destruct H.
  - destruct H as (A & B). eapply Forall_impl; [|apply (IH x B)]. cbn. intros; lia.
Qed.

Theorem upload_counts_fit_int64 total interval evs st :
  0 <= w_written st -> w_written st + written_total evs < 2 ^ 63 ->
  Forall (fun r => 0 < r < 2 ^ 63) (run_writer total interval st evs).
Proof.
  intros H0 H1. destruct (writer_reports total interval evs st) as (A & B).
  apply incr_above_forall in A. rewrite Forall_forall in *. intros r Hr.
  specialize (A r Hr). specialize (B r Hr). cbn in B. lia.
Qed.

Theorem download_counts_fit_int64 interval evs st :
  0 <= r_lastread st <= r_read st -> r_read st + read_total evs < 2 ^ 63 ->
  Forall (fun r => 0 < r < 2 ^ 63) (run_reader interval st evs).
Proof.
  intros H0 H1. destruct (reader_reports interval evs st) as (A & B); [lia|].
  apply incr_above_forall in A. rewrite Forall_forall in *. intros r Hr.
  specialize (A r Hr). specialize (B r Hr). cbn in B. lia.
Qed.

(* ---------- several response bodies in one call ---------- *)

(* the reports made for a body depend on that body alone: not on the bodies read before it in the
   same call (redirect pages drained by the http client, the body of an attempt that is retried),
   nor on those read after it *)
Theorem body_reports_independent interval pre post pre' post' b :
  nth (length pre) (run_bodies interval (pre ++ b :: post)) [] =
  nth (length pre') (run_bodies interval (pre' ++ b :: post')) [].
Proof.
  unfold run_bodies. rewrite !map_app. cbn [map].
  rewrite <- (map_length (fun b0 : body_run => run_reader interval (r0 (fst b0)) (snd b0)) pre) at 1.
  rewrite <- (map_length (fun b0 : body_run => run_reader interval (r0 (fst b0)) (snd b0)) pre') at 1.
  now rewrite !nth_middle.
Qed.

Theorem body_reports_are_own interval pre post b :
  nth (length pre) (run_bodies interval (pre ++ b :: post)) [] = run_reader interval (r0 (fst b)) (snd b).
Proof.
  unfold run_bodies. rewrite map_app. cbn [map].
  rewrite <- (map_length (fun b0 : body_run => run_reader interval (r0 (fst b0)) (snd b0)) pre) at 1.
  now rewrite nth_middle.
Qed.

(* what the caller is told concerns the saved body only, whatever was drained before it *)
Theorem call_reports_last interval pre b :
  call_reports interval (pre ++ [b]) = run_reader interval (r0 (fst b)) (snd b).
Proof. unfold call_reports, run_bodies. rewrite map_app. cbn [map]. apply last_last. Qed.

Theorem call_progress_truthful interval pre t0 evs :
  let rs := call_reports interval (pre ++ [(t0, evs)]) in
  incr_above 0 rs /\ Forall (fun r => r <= read_total evs) rs /\
  (forall evs' n now, evs = evs' ++ [(n, true, now)] -> 0 < read_total evs ->
     exists p, rs = p ++ [read_total evs]).
Proof.
  cbn zeta. rewrite call_reports_last. cbn [fst snd].
  destruct (reader_reports interval evs (r0 t0)) as (A & B); [cbn; lia|].
  split; [exact A|]. split; [exact B|].
  intros evs' n now E P. subst evs. now apply download_progress_final.
Qed.

(* one shared callbackReader for the whole call (its ReadCloser swapped per body) is NOT truthful:
   the second body's reports start at the first body's size *)
Theorem shared_counter_refuted :
  exists interval bodies,
    let own := nth 1 bodies (0, []) in
    nth 1 (run_bodies_shared interval (r0 0) bodies) [] = [250] /\
    read_total (snd own) = 100 /\
    nth 1 (run_bodies interval bodies) [] = [100].
Proof.
  exists 0, [(0, [(150, false, 0); (0, true, 0)]); (0, [(100, false, 0); (0, true, 0)])].
  cbn zeta. repeat split; vm_compute; reflexivity.
Qed.
Close Scope Z_scope.
