(* Proofs/RetrySlicesProofs.v - C10: with the deep retryOption.Clone the client's and every
   request's condition/hook lists are independent of each other, for every sequence of setter
   calls and every growth policy of append; with a shallow Clone they are not. *)
From ReqV Require Import Lib.Bytes Model.RetrySlices.
From Coq Require Import Lia.

(* ---------- set_nth ---------- *)

Lemma set_nth_length {A} n (x : A) l : length (set_nth n x l) = length l.
Proof. revert n. induction l as [|y r IH]; intros [|n]; cbn; try reflexivity. rewrite IH. reflexivity. Qed.

Lemma nth_set_nth_eq {A} n (x d : A) l : n < length l -> nth n (set_nth n x l) d = x.
Proof.
  revert n. induction l as [|y r IH]; intros [|n] H; cbn in *; try lia; [reflexivity|]. apply IH. lia.
Qed.

Lemma nth_set_nth_neq {A} n m (x d : A) l : n <> m -> nth m (set_nth n x l) d = nth m l d.
Proof.
  revert n m. induction l as [|y r IH]; intros [|n] [|m] H; cbn; try reflexivity; try lia. apply IH. lia.
Qed.

Lemma firstn_set_nth_S {A} n (x : A) l : n < length l -> firstn (S n) (set_nth n x l) = firstn n l ++ [x].
Proof.
  revert n. induction l as [|y r IH]; intros [|n] H; cbn in *; try lia; [reflexivity|].
  f_equal. apply IH. lia.
Qed.

Lemma map_set_nth {A B} (f : A -> B) k s l : map f (set_nth k s l) = set_nth k (f s) (map f l).
Proof. revert k. induction l as [|y r IH]; intros [|k]; cbn; try reflexivity. rewrite IH. reflexivity. Qed.

Lemma map_ext_nth {A B} (f g : A -> B) d l :
  (forall j, j < length l -> f (nth j l d) = g (nth j l d)) -> map f l = map g l.
Proof.
  induction l as [|y r IH]; intros H; cbn; [reflexivity|]. f_equal.
  - apply (H 0). cbn. lia.
  - apply IH. intros j Hj. apply (H (S j)). cbn. lia.
Qed.

Lemma set_nth_map_others {A B} (f g : A -> B) d k y l :
  (forall j, j <> k -> j < length l -> f (nth j l d) = g (nth j l d)) ->
  set_nth k y (map f l) = set_nth k y (map g l).
Proof.
  revert k. induction l as [|z r IH]; intros k H; [destruct k; reflexivity|].
  destruct k as [|k]; cbn.
  - f_equal. apply (map_ext_nth f g d). intros j Hj. apply (H (S j)); cbn; lia.
  - f_equal.
    + apply (H 0); cbn; lia.
    + apply IH. intros j Hn Hj. apply (H (S j)); cbn; lia.
Qed.

(* ---------- the invariant ---------- *)

Definition slice_ok (h : heap) (s : slice) : Prop :=
  sl_arr s < length h /\ sl_len s <= sl_cap s /\ sl_cap s <= length (nth (sl_arr s) h []).

(* two slices cannot see each other's writes *)
Definition separate (s t : slice) : Prop := sl_cap s = 0 \/ sl_cap t = 0 \/ sl_arr s <> sl_arr t.

Definition inv (w : world) : Prop :=
  0 < length (fst w) /\
  Forall (slice_ok (fst w)) (snd w) /\
  forall i j, i < length (snd w) -> j < length (snd w) -> i <> j ->
              separate (nth i (snd w) nil_slice) (nth j (snd w) nil_slice).

Lemma view_cap0 h s : sl_len s <= sl_cap s -> sl_cap s = 0 -> sl_view h s = [].
Proof. intros H1 H2. unfold sl_view. replace (sl_len s) with 0 by lia. reflexivity. Qed.

Lemma slice_ok_app h e s : slice_ok h s -> slice_ok (h ++ e) s.
Proof.
  unfold slice_ok. intros (H1 & H2 & H3). rewrite app_length, app_nth1 by exact H1. repeat split; lia.
Qed.

Lemma view_app h e s : sl_arr s < length h -> sl_view (h ++ e) s = sl_view h s.
Proof. intros H. unfold sl_view. rewrite app_nth1 by exact H. reflexivity. Qed.

Lemma view_length h s : slice_ok h s -> length (sl_view h s) = sl_len s.
Proof. unfold slice_ok, sl_view. intros (H1 & H2 & H3). apply firstn_length_le. lia. Qed.

(* a write into array [a] that keeps its length *)
Lemma slice_ok_write h a arr' t :
  a < length h -> length arr' = length (nth a h []) -> slice_ok h t -> slice_ok (set_nth a arr' h) t.
Proof.
  unfold slice_ok. intros Ha Hl (H1 & H2 & H3). rewrite set_nth_length.
  repeat split; try assumption.
  destruct (Nat.eq_dec a (sl_arr t)) as [E|E].
  - subst a. rewrite nth_set_nth_eq by exact H1. lia.
  - rewrite nth_set_nth_neq by exact E. exact H3.
Qed.

Lemma view_write_other h a arr' t : sl_arr t <> a -> sl_view (set_nth a arr' h) t = sl_view h t.
Proof. intros H. unfold sl_view. rewrite nth_set_nth_neq by (intro E; apply H; symmetry; exact E). reflexivity. Qed.

Lemma Forall_set_nth {A} (P : A -> Prop) k x l : Forall P l -> P x -> Forall P (set_nth k x l).
Proof.
  revert k. induction l as [|y r IH]; intros [|k] Hl Hx; cbn; try exact Hl.
  - inversion Hl; subst. constructor; assumption.
  - inversion Hl; subst. constructor; [assumption|]. apply IH; assumption.
Qed.

Lemma Forall_nth_in {A} (P : A -> Prop) l d k : Forall P l -> k < length l -> P (nth k l d).
Proof. intros H Hk. rewrite Forall_forall in H. apply H, nth_In, Hk. Qed.

Section Steps.
Variable grow : nat -> nat -> nat.

(* one operation keeps the invariant and does to the views what the caller means *)
Lemma wstep_deep w op :
  inv w -> inv (wstep grow CloneDeep w op) /\ views (wstep grow CloneDeep w op) = pstep (views w) op.
Proof.
  destruct w as [h ws]. unfold inv, views. cbn [fst snd]. intros (Hh & Hok & Hsep).
  destruct op as [k x|k x|]; cbn [wstep pstep fst snd]; rewrite ?map_length.
  - (* Add *)
    destruct (k <? length ws)%nat eqn:Ek; [|cbn [fst snd]; auto].
    apply Nat.ltb_lt in Ek.
    set (s := nth k ws nil_slice).
    pose proof (Forall_nth_in _ ws nil_slice k Hok Ek) as Hs. fold s in Hs.
    pose proof Hs as (Hs1 & Hs2 & Hs3).
    unfold sl_append. destruct (sl_len s <? sl_cap s)%nat eqn:El; cbn [fst snd].
    + (* in place *)
      apply Nat.ltb_lt in El.
      set (arr := nth (sl_arr s) h []). fold arr in Hs3.
      set (arr' := set_nth (sl_len s) x arr).
      set (h' := set_nth (sl_arr s) arr' h).
      set (s' := mkSl (sl_arr s) (S (sl_len s)) (sl_cap s)).
      assert (Hl' : length arr' = length arr) by apply set_nth_length.
      assert (Hok' : Forall (slice_ok h') ws).
      { rewrite Forall_forall in *. intros t Ht. apply slice_ok_write; [exact Hs1|exact Hl'|apply Hok, Ht]. }
      assert (Hs' : slice_ok h' s').
      { unfold slice_ok, s', h'. cbn [sl_arr sl_len sl_cap]. rewrite set_nth_length, nth_set_nth_eq by exact Hs1.
        repeat split; lia. }
      split; [split; [unfold h'; rewrite set_nth_length; exact Hh|split]|].
      * apply Forall_set_nth; assumption.
      * rewrite set_nth_length. intros i j Hi Hj Hij.
        assert (Hsame : forall n, sl_arr (nth n (set_nth k s' ws) nil_slice) = sl_arr (nth n ws nil_slice) /\
                                  sl_cap (nth n (set_nth k s' ws) nil_slice) = sl_cap (nth n ws nil_slice)).
        { intros n. destruct (Nat.eq_dec k n) as [E|E].
          - subst n. rewrite nth_set_nth_eq by exact Ek. fold s. split; reflexivity.
          - rewrite nth_set_nth_neq by exact E. split; reflexivity. }
        unfold separate. destruct (Hsame i) as [-> ->]. destruct (Hsame j) as [-> ->].
        apply Hsep; assumption.
      * rewrite map_set_nth.
        assert (Hv : sl_view h' s' = sl_view h s ++ [x]).
        { unfold sl_view, s', h'. cbn [sl_arr sl_len]. rewrite nth_set_nth_eq by exact Hs1.
          unfold arr'. apply firstn_set_nth_S. fold arr. lia. }
        rewrite Hv.
        change [] with (sl_view h nil_slice) at 2. rewrite map_nth. fold s.
        apply (set_nth_map_others _ _ nil_slice). intros j Hjk Hj.
        pose proof (Forall_nth_in _ ws nil_slice j Hok Hj) as (Ht1 & Ht2 & Ht3).
        destruct (Hsep j k Hj Ek Hjk) as [E|[E|E]].
        -- rewrite (view_cap0 h' _ Ht2 E), (view_cap0 h _ Ht2 E). reflexivity.
        -- fold s in E. lia.
        -- fold s in E. apply view_write_other. exact E.
    + (* a new array *)
      apply Nat.ltb_ge in El.
      set (nc := Nat.max (S (sl_len s)) (grow (sl_cap s) (S (sl_len s)))).
      set (e := [sl_view h s ++ [x] ++ repeat 0%Z (nc - S (sl_len s))]).
      set (s' := mkSl (length h) (S (sl_len s)) nc).
      assert (Hs' : slice_ok (h ++ e) s').
      { unfold slice_ok, s', e. cbn [sl_arr sl_len sl_cap]. rewrite app_length, nth_middle. cbn [length].
        rewrite !app_length, (view_length h s Hs), repeat_length. cbn [length]. repeat split; lia. }
      split; [split; [rewrite app_length; lia|split]|].
      * apply Forall_set_nth; [|exact Hs'].
        rewrite Forall_forall in *. intros t Ht. apply slice_ok_app, Hok, Ht.
      * rewrite set_nth_length. intros i j Hi Hj Hij. unfold separate.
        destruct (Nat.eq_dec k i) as [Ei|Ei]; destruct (Nat.eq_dec k j) as [Ej|Ej]; try lia.
        -- subst i. rewrite nth_set_nth_eq by exact Ek. rewrite nth_set_nth_neq by exact Ej.
           pose proof (Forall_nth_in _ ws nil_slice j Hok Hj) as (Ht1 & _). right; right.
           unfold s'. cbn [sl_arr]. lia.
        -- subst j. rewrite nth_set_nth_eq by exact Ek. rewrite nth_set_nth_neq by exact Ei.
           pose proof (Forall_nth_in _ ws nil_slice i Hok Hi) as (Ht1 & _). right; right.
           unfold s'. cbn [sl_arr]. lia.
        -- rewrite !nth_set_nth_neq by assumption. apply Hsep; assumption.
      * rewrite map_set_nth.
        assert (Hv : sl_view (h ++ e) s' = sl_view h s ++ [x]).
        { unfold sl_view at 1, s', e. cbn [sl_arr sl_len]. rewrite nth_middle.
          assert (Hlen : length (sl_view h s ++ [x]) = S (sl_len s))
            by (rewrite app_length, (view_length h s Hs); cbn [length]; lia).
          rewrite app_assoc, firstn_app, Hlen, Nat.sub_diag, firstn_O, app_nil_r.
          apply firstn_all2. lia. }
        rewrite Hv.
        change [] with (sl_view h nil_slice) at 2. rewrite map_nth. fold s.
        apply (set_nth_map_others _ _ nil_slice). intros j Hjk Hj.
        pose proof (Forall_nth_in _ ws nil_slice j Hok Hj) as (Ht1 & _).
        apply view_app. exact Ht1.
  - (* Set *)
    destruct (k <? length ws)%nat eqn:Ek; [|cbn [fst snd]; auto].
    apply Nat.ltb_lt in Ek. unfold sl_single. cbn [fst snd].
    set (s' := mkSl (length h) 1 1).
    assert (Hs' : slice_ok (h ++ [[x]]) s').
    { unfold slice_ok, s'. cbn [sl_arr sl_len sl_cap]. rewrite app_length, nth_middle. cbn. repeat split; lia. }
    split; [split; [rewrite app_length; lia|split]|].
    + apply Forall_set_nth; [|exact Hs'].
      rewrite Forall_forall in *. intros t Ht. apply slice_ok_app, Hok, Ht.
    + rewrite set_nth_length. intros i j Hi Hj Hij. unfold separate.
      destruct (Nat.eq_dec k i) as [Ei|Ei]; destruct (Nat.eq_dec k j) as [Ej|Ej]; try lia.
      * subst i. rewrite nth_set_nth_eq by exact Ek. rewrite nth_set_nth_neq by exact Ej.
        pose proof (Forall_nth_in _ ws nil_slice j Hok Hj) as (Ht1 & _). right; right.
        unfold s'. cbn [sl_arr]. lia.
      * subst j. rewrite nth_set_nth_eq by exact Ek. rewrite nth_set_nth_neq by exact Ei.
        pose proof (Forall_nth_in _ ws nil_slice i Hok Hi) as (Ht1 & _). right; right.
        unfold s'. cbn [sl_arr]. lia.
      * rewrite !nth_set_nth_neq by assumption. apply Hsep; assumption.
    + rewrite map_set_nth.
      assert (Hv : sl_view (h ++ [[x]]) s' = [x]).
      { unfold sl_view, s'. cbn [sl_arr sl_len]. rewrite nth_middle. reflexivity. }
      rewrite Hv.
      apply (set_nth_map_others _ _ nil_slice). intros j Hjk Hj.
      pose proof (Forall_nth_in _ ws nil_slice j Hok Hj) as (Ht1 & _).
      apply view_app. exact Ht1.
  - (* New: Client.R() *)
    set (s := nth 0 ws nil_slice).
    assert (Hs : slice_ok h s).
    { destruct ws as [|s0 r]; [unfold s, slice_ok; cbn; lia|].
      unfold s. cbn [nth]. inversion Hok; assumption. }
    pose proof Hs as (Hs1 & Hs2 & Hs3).
    assert (Hp0 : nth 0 (map (sl_view h) ws) [] = sl_view h s).
    { change [] with (sl_view h nil_slice). rewrite map_nth. reflexivity. }
    rewrite Hp0.
    unfold sl_clone, sl_copy. destruct (sl_len s) as [|n] eqn:Eln; cbn [fst snd].
    + (* an empty source: nil *)
      assert (Hnil : slice_ok h nil_slice) by (unfold slice_ok; cbn; lia).
      split; [split; [exact Hh|split]|].
      * apply Forall_app. split; [exact Hok|]. constructor; [exact Hnil|constructor].
      * rewrite app_length. cbn [length]. intros i j Hi Hj Hij. unfold separate.
        destruct (Nat.eq_dec i (length ws)) as [Ei|Ei].
        -- subst i. rewrite nth_middle. left. reflexivity.
        -- destruct (Nat.eq_dec j (length ws)) as [Ej|Ej].
           ++ subst j. rewrite nth_middle. right; left. reflexivity.
           ++ rewrite !app_nth1 by lia. apply Hsep; lia.
      * rewrite map_app. cbn [map]. f_equal. f_equal. unfold sl_view. rewrite Eln. reflexivity.
    + (* a fresh copy *)
      set (nc := Nat.max (S n) (grow 0 (S n))).
      set (e := [sl_view h s ++ repeat 0%Z (nc - S n)]).
      set (s' := mkSl (length h) (S n) nc).
      assert (Hvl : length (sl_view h s) = S n) by (rewrite (view_length h s Hs); exact Eln).
      assert (Hs' : slice_ok (h ++ e) s').
      { unfold slice_ok, s', e. cbn [sl_arr sl_len sl_cap]. rewrite app_length, nth_middle. cbn [length].
        rewrite app_length, Hvl, repeat_length. repeat split; lia. }
      split; [split; [rewrite app_length; lia|split]|].
      * apply Forall_app. split; [|constructor; [exact Hs'|constructor]].
        rewrite Forall_forall in *. intros t Ht. apply slice_ok_app, Hok, Ht.
      * rewrite app_length. cbn [length]. intros i j Hi Hj Hij. unfold separate.
        destruct (Nat.eq_dec i (length ws)) as [Ei|Ei].
        -- subst i. rewrite nth_middle. rewrite app_nth1 by lia.
           pose proof (Forall_nth_in _ ws nil_slice j Hok ltac:(lia)) as (Ht1 & _).
           right; right. unfold s'. cbn [sl_arr]. lia.
        -- destruct (Nat.eq_dec j (length ws)) as [Ej|Ej].
           ++ subst j. rewrite nth_middle. rewrite app_nth1 by lia.
              pose proof (Forall_nth_in _ ws nil_slice i Hok ltac:(lia)) as (Ht1 & _).
              right; right. unfold s'. cbn [sl_arr]. lia.
           ++ rewrite !app_nth1 by lia. apply Hsep; lia.
      * rewrite map_app. cbn [map]. f_equal.
        -- apply (map_ext_nth _ _ nil_slice). intros j Hj.
           pose proof (Forall_nth_in _ ws nil_slice j Hok Hj) as (Ht1 & _). apply view_app. exact Ht1.
        -- f_equal. unfold sl_view at 1, s', e. cbn [sl_arr sl_len]. rewrite nth_middle.
           rewrite firstn_app, Hvl. replace (S n - S n) with 0 by lia. rewrite firstn_O, app_nil_r.
           apply firstn_all2. lia.
Qed.

Lemma inv_world0 : inv world0.
Proof.
  unfold inv, world0. cbn [fst snd]. split; [cbn; lia|split].
  - constructor; [unfold slice_ok; cbn; lia|constructor].
  - cbn [length]. intros i j Hi Hj Hij. lia.
Qed.

(* every sequence of setter calls and Client.R() calls: the heap-and-slices implementation
   with the deep Clone gives every slot exactly the list its caller built, whatever the other
   slots did and whatever the growth policy *)
Theorem request_options_independent ops : forall w,
  inv w -> inv (wrun grow CloneDeep ops w) /\ views (wrun grow CloneDeep ops w) = prun ops (views w).
Proof.
  unfold wrun, prun. induction ops as [|op ops IH]; intros w Hw; cbn [fold_left]; [split; [exact Hw|reflexivity]|].
  destruct (wstep_deep w op Hw) as [Hi Hv]. destruct (IH _ Hi) as [Hi2 Hv2].
  split; [exact Hi2|]. rewrite Hv2, Hv. reflexivity.
Qed.

Corollary request_options_independent_from_start ops :
  views (wrun grow CloneDeep ops world0) = prun ops [[]].
Proof. destruct (request_options_independent ops world0 inv_world0) as [_ H]. exact H. Qed.

End Steps.

(* what that means for one request: an Add on another slot does not change its list *)
Lemma prun_app ops1 ops2 p : prun (ops1 ++ ops2) p = prun ops2 (prun ops1 p).
Proof. unfold prun. apply fold_left_app. Qed.

Lemma nth_set_nth_neq_list {A} n m (x : A) d l : n <> m -> nth m (set_nth n x l) d = nth m l d.
Proof. apply nth_set_nth_neq. Qed.

Theorem foreign_setter_is_invisible p k j x :
  j <> k -> nth j (pstep p (SAdd k x)) [] = nth j p [] /\ nth j (pstep p (SSet k x)) [] = nth j p [].
Proof.
  intros H. cbn [pstep]. destruct (k <? length p)%nat; split; try reflexivity; apply nth_set_nth_neq; intro E; apply H; symmetry; exact E.
Qed.

(* the shallow Clone (o := *ro) does not have the property: client with three conditions
   (len 3, cap 4), two requests, each adds one: the first request's own condition is
   overwritten by the second's *)
Definition shallow_witness : list sop :=
  [SAdd 0 1; SAdd 0 2; SAdd 0 3; SNew; SAdd 1 10; SNew; SAdd 2 20]%Z.

Theorem shallow_clone_refuted :
  views (wrun go_grow CloneShallow shallow_witness world0) = [[1; 2; 3]; [1; 2; 3; 20]; [1; 2; 3; 20]]%Z /\
  prun shallow_witness [[]] = [[1; 2; 3]; [1; 2; 3; 10]; [1; 2; 3; 20]]%Z /\
  views (wrun go_grow CloneDeep shallow_witness world0) = [[1; 2; 3]; [1; 2; 3; 10]; [1; 2; 3; 20]]%Z.
Proof. vm_compute. repeat split. Qed.
