(* Proofs/H1FastProofs.v - C02: the linear-time copies of Model/H1Fast.v are the readers of
   Model/H1Resp.v / Model/H1Client.v, for all inputs. *)
From ReqV Require Import Lib.Bytes Model.H1Resp Model.RespAPI Model.H1Client Model.H1Fast.

Lemma frev_rev l : frev l = rev l.
Proof. unfold frev. symmetry. apply rev_alt. Qed.

Lemma ftrim_sp_tab_eq s : ftrim_sp_tab s = trim_sp_tab s.
Proof.
  unfold ftrim_sp_tab, ftrim, ftrim_right, trim_sp_tab, trim, trim_right. now rewrite !frev_rev.
Qed.

Lemma cont_lines_f_eq fuel : forall bufsize buf s, cont_lines_f fuel bufsize buf s = cont_lines fuel bufsize buf s.
Proof.
  induction fuel as [|f IH]; intros bufsize buf s; [reflexivity|].
  cbn [cont_lines_f cont_lines]. destruct s as [|x s']; [reflexivity|].
  destruct (is_sp_tab x); [|reflexivity].
  destruct (read_line bufsize (drop_while is_sp_tab (x :: s'))) as [[l r]|]; [|reflexivity].
  now rewrite ftrim_sp_tab_eq, IH.
Qed.

Lemma mime_loop_f_eq fuel : forall bufsize m s, mime_loop_f fuel bufsize m s = mime_loop fuel bufsize m s.
Proof.
  induction fuel as [|f IH]; intros bufsize m s; [reflexivity|].
  cbn [mime_loop_f mime_loop]. destruct (read_line bufsize s) as [[line r]|]; [|reflexivity].
  destruct (is_nil line); [reflexivity|]. destruct (negb (mem_byte COLON line)); [reflexivity|].
  rewrite ftrim_sp_tab_eq, cont_lines_f_eq.
  destruct (cont_lines (S (length r)) bufsize (trim_sp_tab line) r) as [[kv r']|]; [|reflexivity].
  destruct (cut_byte COLON kv) as [[k v]|]; [|reflexivity].
  destruct (canonical_key k); [|reflexivity].
  destruct (forallb valid_value_byte v); [|reflexivity]. apply IH.
Qed.

Lemma read_mime_header_f_eq bufsize s : read_mime_header_f bufsize s = read_mime_header bufsize s.
Proof. unfold read_mime_header_f, read_mime_header. destruct s; now rewrite ?mime_loop_f_eq. Qed.

Lemma read_trailer_f_eq bufsize s : read_trailer_f bufsize s = read_trailer bufsize s.
Proof.
  unfold read_trailer_f, read_trailer. destruct s as [|c1 [|c2 rest]]; try reflexivity.
  now rewrite read_mime_header_f_eq.
Qed.

Lemma read_body_f_eq bufsize r s : read_body_f bufsize r s = read_body bufsize r s.
Proof.
  unfold read_body_f, read_body. destruct (r_framing r); try reflexivity.
  destruct (dechunk_all bufsize s) as [d [rest|e]]; [|reflexivity]. now rewrite read_trailer_f_eq.
Qed.

Lemma read_response_head_f_eq meth bufsize s :
  read_response_head_f meth bufsize s = read_response_head meth bufsize s.
Proof.
  unfold read_response_head_f, read_response_head.
  destruct (read_line bufsize s) as [[line s1]|]; [|reflexivity].
  destruct (parse_status_line line); [reflexivity|]. now rewrite read_mime_header_f_eq.
Qed.

Lemma read_final_f_eq fuel : forall meth bufsize k s,
  read_final_f fuel meth bufsize k s = read_final fuel meth bufsize k s.
Proof.
  induction fuel as [|f IH]; intros; [reflexivity|]. cbn [read_final_f read_final].
  rewrite read_response_head_f_eq.
  destruct (read_response_head meth bufsize s) as [e|[r rest]]; [reflexivity|].
  destruct (is_1xx_nonterminal (r_code r)); [|reflexivity].
  destruct (max_1xx <? S k); [reflexivity|apply IH].
Qed.

(* the function the correspondence check evaluates is the function the theorems are about *)
Theorem h1_exchange_f_eq meth m sizes s : h1_exchange_f meth m sizes s = h1_exchange meth m sizes s.
Proof.
  unfold h1_exchange_f, h1_exchange, read_final_response. rewrite read_final_f_eq.
  destruct (read_final (S (S max_1xx)) meth br_size 0 s); try reflexivity.
  unfold final_body. now rewrite read_body_f_eq.
Qed.

Theorem interim_heads_f_eq fuel : forall meth bufsize s,
  interim_heads_f fuel meth bufsize s = interim_heads fuel meth bufsize s.
Proof.
  induction fuel as [|f IH]; intros; [reflexivity|]. cbn [interim_heads_f interim_heads].
  rewrite read_response_head_f_eq.
  destruct (read_response_head meth bufsize s) as [e|[r rest]]; [reflexivity|].
  destruct (is_1xx_nonterminal (r_code r)); [|reflexivity]. now rewrite IH.
Qed.

Theorem heads_fit_f_eq fuel : forall meth bufsize lim s,
  heads_fit_f fuel meth bufsize lim s = heads_fit fuel meth bufsize lim s.
Proof.
  induction fuel as [|f IH]; intros; [reflexivity|]. cbn [heads_fit_f heads_fit].
  rewrite read_response_head_f_eq.
  destruct (read_response_head meth bufsize s) as [e|[r rest]]; [reflexivity|].
  destruct (is_1xx_nonterminal (r_code r)); [|reflexivity]. now rewrite IH.
Qed.
