(* Proofs/CarriedProofs.v - theorems about state carried across exchanges (Model/Carried.v). *)
From Coq Require Import List Arith Bool Lia.
From ReqV Require Import Lib.Bytes Model.Pool Model.Carried Model.H2Pool.
Import ListNotations.

(* ---------- 1. Expect: 100-continue / request framing ---------- *)

(* a connection that goes back to the pool carried the whole announced request body *)
Theorem expect_recycle_complete : forall got100 rc qc other n r,
  r_alive r = alive_of rc qc other -> recycle_ok r = true ->
  body_written (expect_signal got100 rc qc) n = n.
Proof.
  intros got100 rc qc other n r Ha Hr. unfold recycle_ok in Hr.
  repeat (apply andb_prop in Hr; destruct Hr as [Hr ?]).
  rewrite Ha in Hr. unfold alive_of in Hr. apply andb_prop in Hr. destruct Hr as [Hr _].
  apply negb_true_iff in Hr. unfold expect_signal. rewrite Hr. destruct got100; reflexivity.
Qed.

(* the seeded variant (always skip the body after a final status without 100) is refuted: the
   connection is recyclable although nothing of the announced body was written *)
Theorem expect_always_skip_refuted :
  let sig := SigSkip in   (* what the variant tells the write loop for got100 = false *)
  exists r n, r_alive r = alive_of false false true /\ recycle_ok r = true /\ body_written sig n <> n.
Proof.
  exists (mkRecycle true true true false true), 5. repeat split; simpl; discriminate.
Qed.

Lemma take_items_exact : forall (b : bytes) rest,
  take_items (length b) (map WByte b ++ rest) = (map WByte b, rest).
Proof.
  induction b as [|x b IH]; intros rest; simpl.
  - destruct rest; reflexivity.
  - rewrite IH. reflexivity.
Qed.

(* the origin, framing by Content-Length, sees exactly the requests that were sent - each with
   its own body - provided every request wrote as many body bytes as it announced *)
Theorem srv_parse_aligned : forall reqs : list wreq,
  (forall tag n b, In (tag, n, b) reqs -> length b = n) ->
  srv_parse (length reqs) (flat_map emit_req reqs) =
  map (fun r : wreq => let '(tag, n, b) := r in (tag, map WByte b)) reqs.
Proof.
  induction reqs as [|[[tag n] b] reqs IH]; intros H; simpl; [reflexivity|].
  assert (Hn : length b = n) by (apply (H tag n b); left; reflexivity). subst n.
  rewrite take_items_exact. f_equal. apply IH. intros; eapply H; right; eauto.
Qed.

(* a request that announced a body and did not write it: the origin takes the header section of
   the NEXT request for that body *)
Theorem srv_parse_misaligned :
  srv_parse 2 (flat_map emit_req [(1, 1, []); (2, 0, [])]) = [(1, [WHead 2 0])].
Proof. reflexivity. Qed.

(* ---------- 2. HPACK decoding context ---------- *)

Lemma account_trunc : forall em remain acc, account remain true acc em = (remain, true, acc).
Proof. destruct em; reflexivity. Qed.

Lemma account_spec : forall em remain acc r' t' acc',
  account remain false acc em = (r', t', acc') -> t' = false -> acc' = acc ++ em.
Proof.
  induction em as [|f em IH]; simpl; intros remain acc r' t' acc' H Ht.
  - inversion H; subst. rewrite app_nil_r. reflexivity.
  - destruct (remain <? snd f).
    + rewrite account_trunc in H. inversion H; subst; discriminate.
    + apply IH in H; auto. rewrite H, <- app_assoc. reflexivity.
Qed.

Lemma meta_frags_trunc : forall frs tbl remain acc o t,
  meta_frags tbl remain true acc frs = (o, t) -> forall fs, o <> HDelivered fs.
Proof.
  induction frs as [|[len ops] frs IH]; simpl; intros tbl remain acc o t H fs.
  - inversion H; subst. discriminate.
  - match type of H with context [if ?c then _ else _] => destruct c end; [inversion H; subst; discriminate|].
    destruct (dec_ops tbl ops) as [em tbl'] eqn:E. rewrite account_trunc in H. eapply IH; eauto.
Qed.

Lemma meta_frags_spec : forall frs tbl remain trunc acc o t,
  meta_frags tbl remain trunc acc frs = (o, t) -> o <> HConnErr ->
  t = enc_after tbl frs /\ (forall fs, o = HDelivered fs -> fs = acc ++ meant tbl frs).
Proof.
  induction frs as [|[len ops] frs IH]; simpl; intros tbl remain trunc acc o t H Hne.
  - inversion H; subst. split; auto. intros fs E. destruct trunc; inversion E. rewrite app_nil_r; reflexivity.
  - match type of H with context [if ?c then _ else _] => destruct c end; [inversion H; subst; congruence|].
    destruct (dec_ops tbl ops) as [em tbl'] eqn:E. simpl.
    destruct (account remain trunc acc em) as [[r' t'] acc'] eqn:Ea.
    pose proof (IH _ _ _ _ _ _ H Hne) as [H1 H2]. split; auto.
    intros fs Ef. specialize (H2 fs Ef). subst fs.
    destruct trunc.
    + rewrite account_trunc in Ea. inversion Ea; subst.
      exfalso. eapply meta_frags_trunc; eauto.
    + destruct t'.
      * exfalso. eapply meta_frags_trunc; eauto.
      * apply account_spec in Ea; auto. subst acc'. rewrite <- app_assoc. reflexivity.
Qed.

(* what the decoder delivers for a block is what the sender meant, block after block *)
Fixpoint outcomes_ok (e : list hfield) (bs : list hblock) (os : list houtcome) : Prop :=
  match bs, os with
  | [], [] => True
  | b :: bs', o :: os' =>
      (forall fs, o = HDelivered fs -> fs = meant e b) /\ outcomes_ok (enc_after e b) bs' os'
  | _, _ => False
  end.

Lemma hconn_run_dead : forall limit bs s, hdead s = true ->
  outcomes_ok (enc_tbl s) bs (hconn_run (hconn_step limit) s bs) /\
  Forall (fun o => o = HConnErr) (hconn_run (hconn_step limit) s bs).
Proof.
  induction bs as [|b bs IH]; intros s Hd; simpl; [split; auto|].
  unfold hconn_step at 1 3. rewrite Hd. simpl.
  destruct (IH (mkHC (enc_after (enc_tbl s) b) (dec_tbl s) true) eq_refl) as [A B].
  split; [split; [intros fs E; discriminate | exact A] | constructor; auto].
Qed.

Lemma hconn_run_sync : forall limit bs s, hdead s = false -> dec_tbl s = enc_tbl s ->
  outcomes_ok (enc_tbl s) bs (hconn_run (hconn_step limit) s bs).
Proof.
  induction bs as [|b bs IH]; intros s Hd Hs; simpl; [auto|].
  unfold hconn_step at 1. rewrite Hd.
  destruct (meta_frags (dec_tbl s) limit false [] b) as [o d'] eqn:E.
  destruct o as [fs| |].
  - apply meta_frags_spec in E; [|discriminate]. destruct E as [E1 E2]. simpl. split.
    + intros fs' Ef. inversion Ef; subst fs'. rewrite (E2 fs eq_refl), Hs. reflexivity.
    + apply (IH (mkHC (enc_after (enc_tbl s) b) d' false)); simpl; auto. rewrite E1, Hs; reflexivity.
  - apply meta_frags_spec in E; [|discriminate]. destruct E as [E1 _]. simpl. split.
    + intros fs' Ef; discriminate.
    + apply (IH (mkHC (enc_after (enc_tbl s) b) d' false)); simpl; auto. rewrite E1, Hs; reflexivity.
  - simpl. split; [intros fs' Ef; discriminate|].
    apply (hconn_run_dead limit bs (mkHC (enc_after (enc_tbl s) b) d' true) eq_refl).
Qed.

Theorem h2_delivered_fields_are_the_senders : forall limit bs,
  outcomes_ok [] bs (hconn_run (hconn_step limit) hconn_init bs).
Proof. intros. apply (hconn_run_sync limit bs hconn_init); reflexivity. Qed.

Theorem h2_nothing_delivered_after_conn_error : forall limit bs s, hdead s = true ->
  Forall (fun o => o = HConnErr) (hconn_run (hconn_step limit) s bs).
Proof. intros. apply hconn_run_dead; auto. Qed.

(* the seeded variant: the skipped block inserted (8,5); the next block's index 0 means (8,5)
   to the sender and (7,5) - a field of an EARLIER response - to the receiver *)
Theorem h2_skipping_refuted :
  let bs := [[(5, [HIns (7, 5)])]; [(100, [HIns (8, 5)])]; [(3, [HRef 0])]] in
  hconn_run (hconn_step_skipping 10) hconn_init bs = [HDelivered [(7, 5)]; HStreamErr; HDelivered [(7, 5)]] /\
  ~ outcomes_ok [] bs (hconn_run (hconn_step_skipping 10) hconn_init bs) /\
  hconn_run (hconn_step 10) hconn_init bs = [HDelivered [(7, 5)]; HConnErr; HConnErr].
Proof.
  vm_compute. repeat split.
  intros (_ & _ & H & _). specialize (H [(7, 5)] eq_refl). discriminate.
Qed.

(* ---------- 3. the asynchronous dumper's queue ---------- *)

Lemma q_run_gen : forall evs s,
  q_out (fold_left q_step evs s) ++ q_tasks (fold_left q_step evs s) =
  q_out s ++ q_tasks s ++ q_handed (q_bufs s) evs.
Proof.
  induction evs as [|e evs IH]; intros s; simpl.
  - rewrite app_nil_r. reflexivity.
  - rewrite IH. destruct e; simpl.
    + reflexivity.
    + rewrite <- !app_assoc. reflexivity.
    + destruct (q_tasks s) as [|t r] eqn:E; simpl.
      * rewrite E. reflexivity.
      * rewrite <- !app_assoc. reflexivity.
Qed.

(* for EVERY interleaving of buffer overwrites, DumpTo calls and dumper progress, the dump
   receives exactly what was handed to DumpTo at the moment of each call, in order *)
Theorem async_dump_is_snapshot : forall evs, q_final evs = q_handed (fun _ => []) evs.
Proof. intros evs. unfold q_final, q_run. rewrite q_run_gen. reflexivity. Qed.

Lemma q_handed_stream : forall chunks bufs, q_handed bufs (async_dump_events chunks) = chunks.
Proof.
  induction chunks as [|c chunks IH]; intros bufs; simpl; [reflexivity|].
  unfold upd at 1. rewrite Nat.eqb_refl. f_equal. apply IH.
Qed.

(* a body streamed through one reused buffer is dumped intact *)
Theorem async_dump_stream_intact : forall chunks,
  concat (q_final (async_dump_events chunks)) = concat chunks.
Proof. intros. rewrite async_dump_is_snapshot, q_handed_stream. reflexivity. Qed.

(* the seeded variant (the queued task aliases the caller's buffer) is refuted *)
Theorem async_alias_refuted :
  let evs := [QWrite 0 (bs "first"); QDump 0; QWrite 0 (bs "SECND"); QDump 0; QDrain; QDrain] in
  q_final evs = [bs "first"; bs "SECND"] /\ qa_final evs = [bs "SECND"; bs "SECND"].
Proof. vm_compute. split; reflexivity. Qed.

(* ---------- 4. (round 5) the pool key ---------- *)

(* two connect methods with the same pool key, one of which is a socket tied to one origin
   (direct, socks5, CONNECT tunnel), address the same origin: a tunnel is never filed under a
   key that a request for another origin looks up *)
Theorem cm_key_separates_tunnels : forall a b,
  cm_key a = cm_key b -> socket_bound_to_target a = true -> cm_target a = cm_target b.
Proof.
  intros [pa ia ha ta oa] [pb ib hb tb ob]. unfold cm_key, socket_bound_to_target. simpl.
  intros H Hs. inversion H; subst. clear H.
  destruct pb; simpl in *; try (destruct hb; simpl in *); try discriminate; congruence.
Qed.

(* plain http through an http(s) proxy: the socket (to the proxy) serves every origin - and
   only there the target is left out of the key *)
Theorem cm_key_shares_only_proxy_sockets : forall a b,
  cm_key a = cm_key b -> cm_target a <> cm_target b ->
  socket_bound_to_target a = false /\ socket_bound_to_target b = false.
Proof.
  intros a b H Hne. split.
  - destruct (socket_bound_to_target a) eqn:E; auto. exfalso. apply Hne. apply cm_key_separates_tunnels; auto.
  - destruct (socket_bound_to_target b) eqn:E; auto. exfalso. apply Hne. symmetry.
    apply cm_key_separates_tunnels; auto.
Qed.

Theorem cm_key_shared_refuted :
  let a := mkCM PHttp 1 true 10 true in let b := mkCM PHttp 1 true 20 true in
  cm_key_shared a = cm_key_shared b /\ socket_bound_to_target a = true /\ cm_target a <> cm_target b /\
  cm_key a <> cm_key b.
Proof. simpl. repeat split; discriminate. Qed.

(* ---------- 5. (round 5) a shared dial ---------- *)

(* a request that joined another request's dial is not failed by that request's context: it
   goes back to GetClientConn's scan (and dials for itself) *)
Theorem waiter_survives_owner_context : forall s r k cl e,
  r_phase s r = RWaitDial k cl -> call_res s cl = Some None ->
  e = DErrCanceled \/ e = DErrDeadline ->
  r_phase (h2_step s (H2Wake r (should_retry_dial false e true))) r = RScan k.
Proof.
  intros s r k cl e Hp Hc He. simpl. rewrite Hp, Hc.
  destruct He; subst e; simpl; unfold upd; rewrite Nat.eqb_refl; reflexivity.
Qed.

(* ... while the request whose context it was, and everybody when the dial failed for a reason
   of its own, gets the error *)
Theorem dial_error_goes_to_its_owner : forall s r k cl e done,
  r_phase s r = RWaitDial k cl -> call_res s cl = Some None -> e <> DErrNone ->
  r_phase (h2_step s (H2Wake r (should_retry_dial true e done))) r = RDone false /\
  r_phase (h2_step s (H2Wake r (should_retry_dial false DErrOther done))) r = RDone false.
Proof.
  intros s r k cl e done Hp Hc He. simpl. rewrite Hp, Hc.
  split; [destruct e; try congruence|]; simpl; unfold upd; rewrite Nat.eqb_refl; reflexivity.
Qed.

Theorem retry_without_deadline_refuted : forall s r k cl,
  r_phase s r = RWaitDial k cl -> call_res s cl = Some None ->
  r_phase (h2_step s (H2Wake r (should_retry_dial_no_deadline false DErrDeadline true))) r = RDone false.
Proof.
  intros s r k cl Hp Hc. simpl. rewrite Hp, Hc. simpl. unfold upd. rewrite Nat.eqb_refl. reflexivity.
Qed.

(* ---------- 6. (round 6) the HPACK encoding context ---------- *)

Definition decoded_as_meant (o : option (list hfield * list hfield)) : Prop :=
  match o with Some (m, d) => d = m | None => True end.

Lemma hsend_run_sync : forall peer_max bs s, cl_tbl s = sv_tbl s ->
  Forall decoded_as_meant (hsend_run (hsend_step peer_max) s bs).
Proof.
  induction bs as [|b bs IH]; intros s Hs; simpl; [constructor|].
  unfold hsend_step at 1. destruct (peer_max <? list_size (meant (cl_tbl s) b)) eqn:E.
  - constructor; [exact I | apply IH; auto].
  - constructor; [simpl; rewrite Hs; reflexivity|].
    apply (IH (mkHS (enc_after (cl_tbl s) b) (enc_after (sv_tbl s) b))). simpl. rewrite Hs; reflexivity.
Qed.

(* for EVERY sequence of requests on a connection - within the peer's header-list limit or
   refused because of it - the peer decodes, for each request that is sent, exactly the fields
   the client's encoder stands for: a refused request leaves the shared HPACK encoder untouched *)
Theorem h2_requests_decoded_as_meant : forall peer_max bs,
  Forall decoded_as_meant (hsend_run (hsend_step peer_max) hsend_init bs).
Proof. intros. apply (hsend_run_sync peer_max bs hsend_init). reflexivity. Qed.

(* a refused request changes nothing: the run is the run without it *)
Theorem h2_refused_request_is_invisible : forall peer_max s b,
  peer_max < list_size (meant (cl_tbl s) b) -> hsend_step peer_max s b = (s, None).
Proof. intros peer_max s b H. unfold hsend_step. apply Nat.ltb_lt in H. rewrite H. reflexivity. Qed.

(* the seeded variant: the refused request inserted (8,5); the later index 1 stands for (8,5)
   in the client's table, but the peer, which never saw that block, resolves it to (7,5) - a
   field of an EARLIER request *)
Theorem h2_late_size_check_refuted :
  let bs := [[(0, [HIns (7, 5)])]; [(0, [HIns (8, 5); HLit (1, 100)])]; [(0, [HIns (9, 5)])]; [(0, [HRef 1])]] in
  hsend_run (hsend_step_late 20) hsend_init bs =
    [Some ([(7, 5)], [(7, 5)]); None; Some ([(9, 5)], [(9, 5)]); Some ([(8, 5)], [(7, 5)])] /\
  ~ Forall decoded_as_meant (hsend_run (hsend_step_late 20) hsend_init bs) /\
  hsend_run (hsend_step 20) hsend_init bs =
    [Some ([(7, 5)], [(7, 5)]); None; Some ([(9, 5)], [(9, 5)]); Some ([(7, 5)], [(7, 5)])].
Proof.
  split; [vm_compute; reflexivity|]. split; [|vm_compute; reflexivity].
  vm_compute. intro H.
  inversion H as [|? ? _ H1]; subst. inversion H1 as [|? ? _ H2]; subst.
  inversion H2 as [|? ? _ H3]; subst. inversion H3 as [|? ? H4 _]; subst. discriminate H4.
Qed.

(* ---------- 7. (round 7) GOAWAY sequences ---------- *)

Lemma goaway_fold_spec : forall lasts kept resent kept' resent',
  fold_left goaway_step lasts (kept, resent) = (kept', resent') ->
  (forall id, In id kept' <-> In id kept /\ forall l, In l lasts -> id <= l) /\
  (forall id, In id resent' <-> In id resent \/ (In id kept /\ exists l, In l lasts /\ l < id)).
Proof.
  induction lasts as [|l lasts IH]; simpl; intros kept resent kept' resent' H.
  - inversion H; subst. split; intros id; split; intros X; try tauto.
    + destruct X as [X|[_ [l [[] _]]]]; auto.
  - apply IH in H. destruct H as [H1 H2]. split; intros id.
    + rewrite H1. rewrite filter_In. rewrite Nat.leb_le. split.
      * intros [[A B] C]. split; auto. intros l' [E|E]; subst; auto.
      * intros [A B]. repeat split; auto.
    + rewrite H2. rewrite in_app_iff. rewrite !filter_In. rewrite negb_true_iff, Nat.leb_gt, Nat.leb_le. split.
      * intros [[A|[A B]]|[[A B] [l' [C D]]]]; auto.
        -- right. split; auto. exists l; auto.
        -- right. split; auto. exists l'; auto.
      * intros [A|[A [l' [[E|E] D]]]]; auto.
        -- subst. left. right. auto.
        -- destruct (le_lt_dec id l) as [L|L].
           ++ right. split; auto. exists l'; auto.
           ++ left. right. auto.
Qed.

(* for EVERY sequence of GOAWAY frames: an outstanding stream stays on the connection iff its id
   is at or below every announced last-stream-id, and is sent again elsewhere iff it is above
   one of them - whichever frame of the sequence that is; no outstanding request is lost *)
Theorem goaway_every_frame_counts : forall open lasts,
  let '(kept, resent) := goaway_run open lasts in
  (forall id, In id kept <-> In id open /\ forall l, In l lasts -> id <= l) /\
  (forall id, In id resent <-> In id open /\ exists l, In l lasts /\ l < id) /\
  (forall id, In id open -> In id kept \/ In id resent).
Proof.
  intros open lasts. unfold goaway_run.
  destruct (fold_left goaway_step lasts (open, [])) as [kept resent] eqn:E.
  apply goaway_fold_spec in E. destruct E as [H1 H2].
  split; [exact H1|]. split.
  - intros id. rewrite H2. split.
    + intros [[]|X]; exact X.
    + intros X; right; exact X.
  - intros id Hin.
    destruct (forallb (fun l => id <=? l) lasts) eqn:F.
    + left. apply H1. split; auto. intros l Hl. rewrite forallb_forall in F. apply Nat.leb_le. auto.
    + right. apply H2. right. split; auto.
      assert (X : existsb (fun l => negb (id <=? l)) lasts = true).
      { clear - F. induction lasts as [|l r IH]; simpl in *; [discriminate|].
        destruct (id <=? l); simpl in *; auto. }
      apply existsb_exists in X. destruct X as [l [Hl Hn]]. exists l. split; auto.
      apply negb_true_iff, Nat.leb_gt in Hn. auto.
Qed.

(* the seeded variant: graceful shutdown 2^31-1 then 3 with streams 1, 3, 5 outstanding:
   stream 5 stays on a connection whose peer will never answer it *)
Theorem goaway_first_only_refuted :
  goaway_run [1; 3; 5] [goaway_max; 3] = ([1; 3], [5]) /\
  goaway_run_first_only [1; 3; 5] [goaway_max; 3] = ([1; 3; 5], []).
Proof. vm_compute. split; reflexivity. Qed.

(* ---------- 8. (round 8) wroteRequest ---------- *)

(* a connection whose write loop has not reported is never recycled, whatever else holds *)
Theorem unreported_write_never_recycled : forall alive has_body eof saw_eof,
  recycle_ok (mkRecycle alive has_body eof saw_eof (wrote_request WNotYet)) = false.
Proof. intros. unfold recycle_ok. simpl. rewrite !andb_false_r. reflexivity. Qed.

Theorem lenient_wrote_request_refuted :
  recycle_ok (mkRecycle true true true false (wrote_request_lenient WNotYet)) = true.
Proof. reflexivity. Qed.

(* ---------- 9. (round 8) the connection-level receive window ---------- *)

Fixpoint f_total (n : nat) (b : nat -> nat) : nat :=
  match n with 0 => 0 | S m => f_total m b + b m end.

Lemma f_total_upd : forall n b i v, i < n -> f_total n (upd b i v) + b i = f_total n b + v.
Proof.
  induction n as [|n IH]; intros b i v Hi; [lia|]. simpl. unfold upd at 2.
  destruct (Nat.eqb_spec n i).
  - subst. assert (E : f_total i (upd b i v) = f_total i b).
    { clear. assert (G : forall m, m <= i -> f_total m (upd b i v) = f_total m b).
      { induction m; intros; simpl; auto. rewrite IHm by lia. unfold upd.
        destruct (Nat.eqb_spec m i); [lia | reflexivity]. }
      apply G; lia. }
    rewrite E. lia.
  - assert (i < n) by lia. specialize (IH b i v H). lia.
Qed.

(* window + everything buffered = the initial window, for EVERY sequence of DATA / Read / Close
   on streams below n in which the peer respects the window: nothing leaks *)
Theorem conn_window_conserved : forall n evs s,
  (forall e, In e evs -> match e with FData i _ | FRead i _ | FClose i => i < n end) ->
  f_respects s evs = true ->
  let s' := fold_left f_step evs s in
  f_window s' + f_total n (f_buffered s') = f_window s + f_total n (f_buffered s).
Proof.
  intros n evs. induction evs as [|e evs IH]; intros s Hn Hr; simpl in *; [reflexivity|].
  apply andb_prop in Hr. destruct Hr as [Hr1 Hr2].
  rewrite IH; auto; [|intros; apply Hn; auto].
  assert (Hi := Hn e (or_introl eq_refl)). destruct e as [i k|i k|i]; simpl.
  - apply Nat.leb_le in Hr1. pose proof (f_total_upd n (f_buffered s) i (f_buffered s i + k) Hi). lia.
  - pose proof (f_total_upd n (f_buffered s) i (f_buffered s i - Nat.min k (f_buffered s i)) Hi).
    pose proof (Nat.le_min_r k (f_buffered s i)). lia.
  - pose proof (f_total_upd n (f_buffered s) i 0 Hi). lia.
Qed.

(* in particular: once every body has been read or closed, the whole window is back *)
Theorem conn_window_restored : forall n w evs,
  (forall e, In e evs -> match e with FData i _ | FRead i _ | FClose i => i < n end) ->
  f_respects (mkFS w (fun _ => 0)) evs = true ->
  (forall i, i < n -> f_buffered (f_run f_step w evs) i = 0) ->
  f_window (f_run f_step w evs) = w.
Proof.
  intros n w evs Hn Hr Hz. pose proof (conn_window_conserved n evs (mkFS w (fun _ => 0)) Hn Hr) as H.
  simpl in H. unfold f_run.
  assert (Z : forall m b, (forall i, i < m -> b i = 0) -> f_total m b = 0).
  { induction m; intros b Hb; simpl; auto. rewrite IHm by (intros; apply Hb; lia). rewrite Hb; lia. }
  rewrite (Z n (f_buffered (fold_left f_step evs (mkFS w (fun _ => 0))))) in H by exact Hz.
  rewrite (Z n (fun _ => 0)) in H by reflexivity. lia.
Qed.

(* the seeded variant: two bodies closed with 60 bytes buffered each shrink a window of 128 to
   8 for good *)
Theorem close_without_refund_refuted :
  f_window (f_run f_step 128 [FData 0 60; FClose 0; FData 1 60; FClose 1]) = 128 /\
  f_window (f_run f_step_noreturn 128 [FData 0 60; FClose 0; FData 1 60; FClose 1]) = 8.
Proof. vm_compute. split; reflexivity. Qed.
