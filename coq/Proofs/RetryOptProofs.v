(* Proofs/RetryOptProofs.v - C10: the retry-option setters (Set vs Add, client vs request
   level) and the built-in backoff interval of Model/Retry.v. *)
From ReqV Require Import Lib.Bytes Model.Retry.
From Coq Require Import Lia ZArith.

(* ---------- setters ---------- *)

Definition count_step (acc : Z) (op : rop) : Z := match op with SetCount n => n | _ => acc end.
Definition interval_step (acc : Z) (op : rop) : Z := match op with SetInterval i => i | _ => acc end.
Definition conds_step (acc : list cond) (op : rop) : list cond :=
  match op with SetCond cd => [cd] | AddCond cd => acc ++ [cd] | _ => acc end.
Definition hooks_step (acc : list hook) (op : rop) : list hook :=
  match op with SetHook h => [h] | AddHook h => acc ++ [h] | _ => acc end.

Definition fold_ropt (r : ropt) (ops : list rop) : ropt :=
  mkRopt (fold_left count_step ops (ro_max r)) (fold_left interval_step ops (ro_interval r))
         (fold_left conds_step ops (ro_conds r)) (fold_left hooks_step ops (ro_hooks r)).

Definition rop_step (r : ropt) (op : rop) : ropt :=
  match op with
  | SetCount n => mkRopt n (ro_interval r) (ro_conds r) (ro_hooks r)
  | SetInterval i => mkRopt (ro_max r) i (ro_conds r) (ro_hooks r)
  | SetCond c => mkRopt (ro_max r) (ro_interval r) [c] (ro_hooks r)
  | AddCond c => mkRopt (ro_max r) (ro_interval r) (ro_conds r ++ [c]) (ro_hooks r)
  | SetHook h => mkRopt (ro_max r) (ro_interval r) (ro_conds r) [h]
  | AddHook h => mkRopt (ro_max r) (ro_interval r) (ro_conds r) (ro_hooks r ++ [h])
  end.

Lemma apply_rop_some r op : apply_rop (Some r) op = Some (rop_step r op).
Proof. destruct op; reflexivity. Qed.

Lemma apply_rop_none op : apply_rop None op = Some (rop_step default_ropt op).
Proof. destruct op; reflexivity. Qed.

Lemma apply_rops_some ops : forall r, apply_rops (Some r) ops = Some (fold_ropt r ops).
Proof.
  unfold apply_rops, fold_ropt. induction ops as [|op ops IH]; intros r; cbn [fold_left].
  - destruct r; reflexivity.
  - rewrite apply_rop_some, IH. destruct op; reflexivity.
Qed.

Lemma apply_rops_none op ops : apply_rops None (op :: ops) = Some (fold_ropt default_ropt (op :: ops)).
Proof.
  unfold apply_rops. cbn [fold_left]. rewrite apply_rop_none.
  fold (apply_rops (Some (rop_step default_ropt op)) ops). rewrite apply_rops_some.
  unfold fold_ropt. cbn [fold_left]. destruct op; reflexivity.
Qed.

(* the request starts from a clone of the client's option: request-level setters simply
   continue the client-level sequence *)
Lemma effective_is_sequence cops rops : effective_ropt cops rops = apply_rops None (cops ++ rops).
Proof. unfold effective_ropt, apply_rops. rewrite fold_left_app. reflexivity. Qed.

Theorem effective_none_iff cops rops : effective_ropt cops rops = None <-> cops = [] /\ rops = [].
Proof.
  rewrite effective_is_sequence. split.
  - destruct (cops ++ rops) as [|op ops] eqn:E.
    + intros _. apply app_eq_nil in E. exact E.
    + rewrite apply_rops_none. discriminate.
  - intros [-> ->]. reflexivity.
Qed.

Theorem effective_fold cops rops : cops ++ rops <> [] ->
  effective_ropt cops rops = Some (fold_ropt default_ropt (cops ++ rops)).
Proof.
  intros H. rewrite effective_is_sequence. destruct (cops ++ rops) as [|op ops]; [contradiction H; reflexivity|].
  apply apply_rops_none.
Qed.

Definition is_setcond (op : rop) : bool := match op with SetCond _ => true | _ => false end.
Definition is_sethook (op : rop) : bool := match op with SetHook _ => true | _ => false end.
Definition is_setcount (op : rop) : bool := match op with SetCount _ => true | _ => false end.
Definition is_setinterval (op : rop) : bool := match op with SetInterval _ => true | _ => false end.
Definition added_conds (ops : list rop) : list cond :=
  flat_map (fun op => match op with AddCond cd => [cd] | _ => [] end) ops.
Definition added_hooks (ops : list rop) : list hook :=
  flat_map (fun op => match op with AddHook h => [h] | _ => [] end) ops.

Lemma fold_conds_no_set ops : forall acc, existsb is_setcond ops = false ->
  fold_left conds_step ops acc = acc ++ added_conds ops.
Proof.
  induction ops as [|op ops IH]; intros acc H; cbn [fold_left added_conds flat_map]; [rewrite app_nil_r; reflexivity|].
  cbn [existsb] in H. apply orb_false_iff in H. destruct H as [H1 H2].
  rewrite IH by exact H2. fold (added_conds ops).
  destruct op; cbn [conds_step app]; try reflexivity; [discriminate H1|rewrite <- app_assoc; reflexivity].
Qed.

Lemma fold_hooks_no_set ops : forall acc, existsb is_sethook ops = false ->
  fold_left hooks_step ops acc = acc ++ added_hooks ops.
Proof.
  induction ops as [|op ops IH]; intros acc H; cbn [fold_left added_hooks flat_map]; [rewrite app_nil_r; reflexivity|].
  cbn [existsb] in H. apply orb_false_iff in H. destruct H as [H1 H2].
  rewrite IH by exact H2. fold (added_hooks ops).
  destruct op; cbn [hooks_step app]; try reflexivity; [discriminate H1|rewrite <- app_assoc; reflexivity].
Qed.

Lemma fold_count_no_set ops : forall acc, existsb is_setcount ops = false -> fold_left count_step ops acc = acc.
Proof.
  induction ops as [|op ops IH]; intros acc H; cbn [fold_left]; [reflexivity|].
  cbn [existsb] in H. apply orb_false_iff in H. destruct H as [H1 H2].
  rewrite IH by exact H2. destruct op; try reflexivity. discriminate H1.
Qed.

Lemma fold_interval_no_set ops : forall acc, existsb is_setinterval ops = false -> fold_left interval_step ops acc = acc.
Proof.
  induction ops as [|op ops IH]; intros acc H; cbn [fold_left]; [reflexivity|].
  cbn [existsb] in H. apply orb_false_iff in H. destruct H as [H1 H2].
  rewrite IH by exact H2. destruct op; try reflexivity. discriminate H1.
Qed.

Lemma app_cons_not_nil {A} (l1 : list A) x l2 l0 : l0 ++ l1 ++ x :: l2 <> [].
Proof. destruct l0; [destruct l1|]; discriminate. Qed.

(* Set* replaces everything registered before it - at client or request level -, Add* appends *)
Theorem set_condition_replaces cops pre cd post :
  existsb is_setcond post = false ->
  exists o, effective_ropt cops (pre ++ SetCond cd :: post) = Some o /\ ro_conds o = cd :: added_conds post.
Proof.
  intros H. rewrite effective_fold by apply app_cons_not_nil.
  eexists. split; [reflexivity|]. unfold fold_ropt. cbn [ro_conds].
  rewrite app_assoc, fold_left_app. cbn [fold_left conds_step].
  rewrite fold_conds_no_set by exact H. reflexivity.
Qed.

Theorem set_hook_replaces cops pre h post :
  existsb is_sethook post = false ->
  exists o, effective_ropt cops (pre ++ SetHook h :: post) = Some o /\ ro_hooks o = h :: added_hooks post.
Proof.
  intros H. rewrite effective_fold by apply app_cons_not_nil.
  eexists. split; [reflexivity|]. unfold fold_ropt. cbn [ro_hooks].
  rewrite app_assoc, fold_left_app. cbn [fold_left hooks_step].
  rewrite fold_hooks_no_set by exact H. reflexivity.
Qed.

(* without a request-level Set*, the request keeps the client's list and appends its own *)
Theorem add_condition_appends cops rops : cops ++ rops <> [] ->
  existsb is_setcond rops = false ->
  exists o, effective_ropt cops rops = Some o /\
            ro_conds o = fold_left conds_step cops [] ++ added_conds rops.
Proof.
  intros Hne H. rewrite effective_fold by exact Hne.
  eexists. split; [reflexivity|]. unfold fold_ropt. cbn [ro_conds default_ropt].
  rewrite fold_left_app. apply fold_conds_no_set, H.
Qed.

Theorem add_hook_appends cops rops : cops ++ rops <> [] ->
  existsb is_sethook rops = false ->
  exists o, effective_ropt cops rops = Some o /\
            ro_hooks o = fold_left hooks_step cops [] ++ added_hooks rops.
Proof.
  intros Hne H. rewrite effective_fold by exact Hne.
  eexists. split; [reflexivity|]. unfold fold_ropt. cbn [ro_hooks default_ropt].
  rewrite fold_left_app. apply fold_hooks_no_set, H.
Qed.

(* the last count / interval function set - at either level - is the effective one *)
Theorem last_count_wins cops pre n post :
  existsb is_setcount post = false ->
  exists o, effective_ropt cops (pre ++ SetCount n :: post) = Some o /\ ro_max o = n.
Proof.
  intros H. rewrite effective_fold by apply app_cons_not_nil.
  eexists. split; [reflexivity|]. unfold fold_ropt. cbn [ro_max].
  rewrite app_assoc, fold_left_app. cbn [fold_left count_step].
  apply fold_count_no_set, H.
Qed.

Theorem last_interval_wins cops pre i post :
  existsb is_setinterval post = false ->
  exists o, effective_ropt cops (pre ++ SetInterval i :: post) = Some o /\ ro_interval o = i.
Proof.
  intros H. rewrite effective_fold by apply app_cons_not_nil.
  eexists. split; [reflexivity|]. unfold fold_ropt. cbn [ro_interval].
  rewrite app_assoc, fold_left_app. cbn [fold_left interval_step].
  apply fold_interval_no_set, H.
Qed.

(* a count set at client level only reaches the request unchanged *)
Theorem client_count_inherited cops rops n post :
  existsb is_setcount post = false -> existsb is_setcount rops = false ->
  exists o, effective_ropt (cops ++ SetCount n :: post) rops = Some o /\ ro_max o = n.
Proof.
  intros H1 H2. rewrite effective_fold by (rewrite <- app_assoc; apply (app_cons_not_nil _ _ _ [])).
  eexists. split; [reflexivity|]. unfold fold_ropt. cbn [ro_max].
  rewrite !fold_left_app. cbn [fold_left count_step].
  rewrite (fold_count_no_set rops) by exact H2. apply fold_count_no_set, H1.
Qed.

(* ---------- backoff ---------- *)

Ltac Zify.zify_post_hook ::= Z.to_euclidean_division_equations.

Lemma pow2_pos a : (0 <= a -> 0 < 2 ^ a)%Z.
Proof. intros H. apply Z.pow_pos_nonneg; lia. Qed.

(* the repaired function never exceeds the configured maximum, whatever the settings *)
Theorem backoff_le_max mn mx a u : (backoff mn mx a u <= mx)%Z.
Proof.
  unfold backoff, backoff_half, backoff_temp. set (t := Z.min mx (mn * 2 ^ a)).
  assert (Ht : (t <= mx)%Z) by (unfold t; lia).
  destruct (Z.quot t 2 <=? 0)%Z eqn:E; [exact Ht|].
  assert (0 < Z.quot t 2)%Z by lia.
  pose proof (Z.mod_pos_bound u (Z.quot t 2) ltac:(lia)).
  assert (2 * Z.quot t 2 <= t)%Z by lia. lia.
Qed.

(* for non-negative settings: between half the capped exponential and the capped exponential *)
Theorem backoff_bounds mn mx a u :
  (0 <= mn)%Z -> (0 <= mx)%Z -> (0 <= a)%Z ->
  let t := Z.min mx (mn * 2 ^ a) in
  (t / 2 <= backoff mn mx a u <= t)%Z /\ (0 <= backoff mn mx a u <= mx)%Z.
Proof.
  intros Hmn Hmx Ha t. unfold backoff, backoff_half, backoff_temp. fold t.
  pose proof (pow2_pos a Ha) as Hp.
  assert (H0 : (0 <= t)%Z) by (unfold t; nia).
  assert (Ht : (t <= mx)%Z) by (unfold t; lia).
  rewrite Z.quot_div_nonneg by lia.
  destruct (t / 2 <=? 0)%Z eqn:E.
  - split; [split; [|lia]|lia]. lia.
  - assert (0 < t / 2)%Z by lia.
    pose proof (Z.mod_pos_bound u (t / 2) ltac:(lia)).
    assert (2 * (t / 2) <= t)%Z by lia. lia.
Qed.

(* once the exponential has reached the cap, the interval lies in [max/2, max] *)
Theorem backoff_capped mn mx a u :
  (0 <= mn)%Z -> (0 <= mx)%Z -> (0 <= a)%Z -> (mx <= mn * 2 ^ a)%Z ->
  (mx / 2 <= backoff mn mx a u <= mx)%Z.
Proof.
  intros Hmn Hmx Ha Hc. destruct (backoff_bounds mn mx a u Hmn Hmx Ha) as [H _]. cbv zeta in H.
  replace (Z.min mx (mn * 2 ^ a)) with mx in H by lia. exact H.
Qed.

(* the pinned function (no guard) panics exactly when the halved interval is not positive ... *)
Theorem backoff_pinned_panics_iff mn mx a u :
  backoff_pinned mn mx a u = None <-> (backoff_half mn mx a <= 0)%Z.
Proof.
  unfold backoff_pinned. destruct (backoff_half mn mx a <=? 0)%Z eqn:E; split; try discriminate; lia || reflexivity.
Qed.

(* ... in particular for a zero minimum and for every maximum below 2ns *)
Theorem backoff_pinned_refuted :
  (forall mx a u, (0 <= a)%Z -> backoff_pinned 0 mx a u = None) /\
  (forall mn mx a u, (mx < 2)%Z -> backoff_pinned mn mx a u = None).
Proof.
  split; intros; apply backoff_pinned_panics_iff; unfold backoff_half, backoff_temp.
  - rewrite Z.mul_0_l. assert (Z.min mx 0 <= 0)%Z by lia. lia.
  - assert (Z.min mx (mn * 2 ^ a) < 2)%Z by lia. lia.
Qed.

(* where the pinned function returns, the repaired one returns the same value *)
Theorem backoff_agrees_with_pinned mn mx a u d :
  backoff_pinned mn mx a u = Some d -> backoff mn mx a u = d.
Proof.
  unfold backoff_pinned, backoff. destruct (backoff_half mn mx a <=? 0)%Z; [discriminate|].
  intros H. injection H as <-. reflexivity.
Qed.
