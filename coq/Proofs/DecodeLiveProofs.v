(* Proofs/DecodeLiveProofs.v - the decision reads the configuration of the moment (C14). *)
From ReqV Require Import Lib.Bytes Model.Decode Model.DecodeLive Proofs.DecodeProofs.

(* any connection (opened under any settings, any number of exchanges old), any list of exchanges each
   under its own current settings: every exchange is answered as `respond` under the settings current at
   that exchange - nothing of the history, nothing of the settings at opening time *)
Lemma live_run_current st : forall steps lc,
  live_run (live_exchange st) lc steps =
  map (fun x : live_step =>
         let '(cur, q, ended, r) := x in respond st (cfg_under cur q) (set_auto cur) ended r) steps.
Proof.
  induction steps as [|[[[cur q] ended] r] rest IH]; intros lc; [reflexivity|].
  cbn [live_run live_exchange map]. now rewrite IH.
Qed.

Lemma live_run_history_independent st steps lc1 lc2 :
  live_run (live_exchange st) lc1 steps = live_run (live_exchange st) lc2 steps.
Proof. now rewrite !live_run_current. Qed.

(* the stacks agree on live connections too, whatever each was opened under *)
Lemma live_stacks_agree lc1 lc2 lc3 cur q r :
  r_cl r <> 0%Z ->
  fst (live_exchange H1 lc1 cur q false r) = fst (live_exchange H2 lc2 cur q false r) /\
  fst (live_exchange H2 lc2 cur q false r) = fst (live_exchange H3 lc3 cur q false r).
Proof. intros H. cbn [live_exchange fst]. now apply stacks_agree. Qed.

(* HTTP/2 deciding on AutoDecompression as it was when the connection was opened (NOT the code): a
   deflate answer after EnableAutoDecompress() on an open connection comes back untouched while
   HTTP/1 decodes it, and after DisableAutoDecompress() it is still decoded *)
Definition q_plain : reqshape := {| rq_ae := []; rq_range := []; rq_head := false |}.
Definition r_deflate : resp :=
  {| r_ce := [bs "deflate"]; r_clh := [bs "4"]; r_other := []; r_cl := 4%Z; r_unc := false;
     r_body := Raw (bs "dddd"); r_short := false |}.
Definition s_off := {| set_disable := false; set_auto := false |}.
Definition s_on := {| set_disable := false; set_auto := true |}.

Lemma snapshot_refuted :
  let opened_off := {| lc_opened := s_off; lc_exchanges := 1 |} in
  let opened_on := {| lc_opened := s_on; lc_exchanges := 1 |} in
  fst (live_exchange_snapshot H2 opened_off s_on q_plain false r_deflate) = r_deflate /\
  r_body (fst (live_exchange_snapshot H1 opened_off s_on q_plain false r_deflate)) = Lazy Deflate (bs "dddd") /\
  r_body (fst (live_exchange H2 opened_off s_on q_plain false r_deflate)) = Lazy Deflate (bs "dddd") /\
  r_body (fst (live_exchange_snapshot H2 opened_on s_off q_plain false r_deflate)) = Lazy Deflate (bs "dddd") /\
  fst (live_exchange H2 opened_on s_off q_plain false r_deflate) = r_deflate.
Proof. vm_compute. repeat split. Qed.

(* ---------- read off the source (Gen/DecodeSites.v, regenerated on every run) ---------- *)
From ReqV Require Import Gen.DecodeSites.

(* every read of a decompression setting goes to the shared options of the moment (pc.t / cc.t /
   cs.cc.t / the stream's Options pointer; http3's by-value copy is made per request) - no connection
   keeps a copy of its own *)
Lemma settings_read_where_used :
  decompression_setting_reads =
  [ (bs "transport.go", bs "readLoop", bs "pc.t.AutoDecompression");
    (bs "transport.go", bs "roundTrip", bs "pc.t.DisableCompression");
    (bs "internal/http2/transport.go", bs "roundTrip", bs "cc.t.DisableCompression");
    (bs "internal/http2/transport.go", bs "handleResponse", bs "cs.cc.t.AutoDecompression");
    (bs "internal/http3/client.go", bs "roundTrip", bs "c.DisableCompression");
    (bs "internal/http3/client.go", bs "OpenRequestStream", bs "c.DisableCompression");
    (bs "internal/http3/http_stream.go", bs "SendRequestHeader", bs "s.DisableCompression");
    (bs "internal/http3/http_stream.go", bs "SendRequestHeader", bs "s.disableCompression");
    (bs "internal/http3/http_stream.go", bs "ReadResponse", bs "s.AutoDecompression") ].
Proof. reflexivity. Qed.

(* http3 ReadResponse: the reader behind RequestStream.Read (s.responseBody) and res.Body are one and
   the same - the decoder goes on s.responseBody, res.Body is assigned from it last *)
Lemma h3_one_reader_for_both_ways :
  h3_read_response_body_assignments =
  [ (bs "s.responseBody", bs "=", bs "respBody");
    (bs "s.responseBody", bs "=", bs "compress.NewGzipReader(respBody)");
    (bs "s.responseBody", bs "=", bs "cr");
    (bs "res.Body", bs "=", bs "s.responseBody") ].
Proof. reflexivity. Qed.

(* ---------- clones ---------- *)

(* what client k gets depends on client k's own settings only: two populations that agree on client k
   (whatever the original and the other clones are set to, whoever opened which connection) *)
Lemma clients_independent st cs1 cs2 k q ended r :
  nth_error cs1 k = nth_error cs2 k ->
  client_exchange st cs1 k q ended r = client_exchange st cs2 k q ended r.
Proof. unfold client_exchange. now intros ->. Qed.

Lemma client_exchange_is_respond st cs k s q ended r :
  nth_error cs k = Some s ->
  client_exchange st cs k q ended r = Some (respond st (cfg_under s q) (set_auto s) ended r).
Proof. unfold client_exchange. now intros ->. Qed.

(* clones sharing the original's HTTP/2 pool (NOT the code): a clone with AutoDecompression on gets a
   deflate answer untouched over HTTP/2 while the original is off, decoded over HTTP/1 *)
Lemma shared_pool_refuted :
  client_exchange_shared_h2_pool H2 [s_off; s_on] 1 q_plain false r_deflate = Some r_deflate /\
  option_map r_body (client_exchange_shared_h2_pool H1 [s_off; s_on] 1 q_plain false r_deflate) =
    Some (Lazy Deflate (bs "dddd")) /\
  option_map r_body (client_exchange H2 [s_off; s_on] 1 q_plain false r_deflate) =
    Some (Lazy Deflate (bs "dddd")) /\
  client_exchange_shared_h2_pool H2 [s_off; s_on] 1 q_plain false r_deflate <>
  client_exchange_shared_h2_pool H2 [s_on; s_on] 1 q_plain false r_deflate.
Proof. vm_compute. repeat split. discriminate. Qed.

(* Transport.Clone builds the clone's HTTP/2 transport field by field (a composite literal: new,
   unexported connection pool included), never by copying the original's struct *)
Lemma clone_gets_its_own_h2_transport :
  clone_h2_transport_assignments =
  [ (bs "tt.t2", bs "=",
     bs "&h2internal.Transport{Options,AllowHTTP,MaxHeaderListSize,StrictMaxConcurrentStreams,ReadIdleTimeout,PingTimeout,WriteByteTimeout,ConnectionFlow,Settings,HeaderPriority,PriorityFrames}") ].
Proof. reflexivity. Qed.

(* ---------- the asked-gzip flag travels with the request ---------- *)

(* whatever exchanges went before on the connection - with or without a body, asked or not - exchange k
   is answered from its own request: the prefix of a run does not matter *)
Lemma live_run_prefix_irrelevant st pre1 pre2 lc1 lc2 cur q ended r :
  last (live_run (live_exchange st) lc1 (pre1 ++ [(cur, q, ended, r)])) r =
  last (live_run (live_exchange st) lc2 (pre2 ++ [(cur, q, ended, r)])) r.
Proof.
  rewrite !live_run_current, !map_app. cbn [map]. now rewrite !last_last.
Qed.

(* the flag kept on the connection (NOT the code): a plain GET answered 204, then - on the same
   connection - a request with the caller's own Accept-Encoding: gzip answered with gzip: decoded,
   where the code hands the response over untouched *)
Definition q_caller_gzip : reqshape := {| rq_ae := bs "gzip"; rq_range := []; rq_head := false |}.
Definition r_no_content : resp :=
  {| r_ce := []; r_clh := []; r_other := []; r_cl := 0%Z; r_unc := false; r_body := Raw []; r_short := false |}.
Definition r_gz : resp :=
  {| r_ce := [bs "gzip"]; r_clh := [bs "4"]; r_other := []; r_cl := 4%Z; r_unc := false;
     r_body := Raw (bs "zzzz"); r_short := false |}.

Lemma connflag_refuted :
  let steps := [(s_off, q_plain, false, r_no_content); (s_off, q_caller_gzip, false, r_gz)] in
  h1_run_connflag {| pc_added := false |} steps =
    [r_no_content; rewrite r_gz (Lazy Gzip (bs "zzzz"))] /\
  live_run (live_exchange H1) {| lc_opened := s_off; lc_exchanges := 0 |} steps = [r_no_content; r_gz] /\
  (* with a body in the first answer the variant is fine: the fault needs the bodiless step *)
  h1_run_connflag {| pc_added := false |} [(s_off, q_plain, false, r_deflate); (s_off, q_caller_gzip, false, r_gz)] =
    [r_deflate; r_gz].
Proof. vm_compute. repeat split. Qed.

(* read off transport.go: the flag is a field of the value roundTrip sends to readLoop with the request
   (a key of the requestAndChan literal), used through that value (`rc.`) - not a connection field *)
Lemma added_gzip_travels_with_the_request :
  h1_added_gzip_sites =
  [ (bs "readLoop", bs "use", bs "rc.addedGzip");
    (bs "roundTrip", bs "set", bs "addedGzip: requestedGzip") ].
Proof. reflexivity. Qed.

(* ---------- the charset step leaves a still-coded body alone ---------- *)

(* whatever the decision was: if what the stack returned still names a coding (first Content-Encoding
   line not empty) the charset step does not touch it - with `C14_otherwise_untouched` /
   `C14_nothing_wanted_nothing_touched`: an unsupported coding is delivered byte for byte whatever the
   Content-Type says *)
Lemma charset_step_skips_coded dis st c auto ended r :
  header_get (r_ce (respond st c auto ended r)) <> [] ->
  charset_step_applies dis (respond st c auto ended r) = false.
Proof.
  intros H. unfold charset_step_applies. destruct (header_get (r_ce (respond st c auto ended r)));
    [contradiction|]. cbn [is_empty]. apply andb_false_r.
Qed.

(* and a decoded response names no coding any more: the charset step (C15) may run on the original text *)
Lemma charset_step_sees_decoded dis st c auto r e :
  r_cl r <> 0%Z -> wants_decode c auto (content_encoding (r_ce r)) = Some e ->
  charset_step_applies dis (respond st c auto false r) = negb dis.
Proof.
  intros Hcl Hw. rewrite respond_spec by exact Hcl. rewrite Hw. unfold charset_step_applies.
  cbn [delivered rewrite r_ce header_get is_empty]. apply andb_true_r.
Qed.

(* a guard that only knows a list of codings runs the charset decoder over an lz4 body *)
Definition r_lz4 : resp :=
  {| r_ce := [bs "lz4"]; r_clh := [bs "4"]; r_other := [(bs "Content-Type", bs "text/plain; charset=gbk")];
     r_cl := 4%Z; r_unc := false; r_body := Raw (bs "zzzz"); r_short := false |}.

Lemma listed_guard_refuted :
  forall st, respond st (cfg_under s_on q_plain) true false r_lz4 = r_lz4 /\
  charset_step_applies false (respond st (cfg_under s_on q_plain) true false r_lz4) = false /\
  charset_step_applies_listed false (respond st (cfg_under s_on q_plain) true false r_lz4) = true.
Proof. intros st. destruct st; vm_compute; repeat split. Qed.

(* read off transport.go: the charset step returns at once when auto-decode is off or the first
   Content-Encoding line is not empty *)
Lemma charset_guard_as_modelled :
  charset_step_guard =
  [ (bs "autoDecodeResponseBody",
     bs "t.disableAutoDecode || res.Header.Get(""Content-Encoding"") != """"", bs "return") ].
Proof. reflexivity. Qed.

(* ---------- body wrappers ---------- *)

(* a wrapped response is read exactly like the unwrapped one: every schedule, every stack *)
Lemma wrapped_reads_alike dec sizes st c auto ended r :
  drain dec sizes (open_resp (with_body (respond st c auto ended r) (wrap_body (r_body (respond st c auto ended r))))) =
  drain dec sizes (open_resp (respond st c auto ended r)).
Proof. unfold wrap_body, with_body, open_resp. cbn [r_short r_body]. reflexivity. Qed.

(* the wrapper put in the decoder's place (NOT the code): the coded bytes under rewritten headers *)
Lemma wrapper_replacing_decoder_refuted :
  let r' := respond H1 (cfg_under s_off q_plain) false false r_gz in
  r_ce r' = [] /\ r_unc r' = true /\
  fst (drain id_codec0 [9; 9] (open_resp (with_body r' (wrap_replacing_decoder (r_body r'))))) =
    (bs "zzzz", Some EOF) /\
  open_resp (with_body r' (wrap_replacing_decoder (r_body r'))) = RPlain (bs "zzzz") /\
  open_resp r' = RLazy Gzip (bs "zzzz").
Proof. vm_compute. repeat split. Qed.

(* read off the source: wrappers go below the decoder; and the three conditions `asked_gzip` transcribes -
   any non-empty Range value, whatever its unit or spelling, stops the transport from asking *)
Lemma wrappers_go_below_the_decoder :
  wrap_response_body_cases =
  [ (bs "wrapResponseBody", bs "*gzipReader", bs "b.body.body = wrap(b.body.body)");
    (bs "wrapResponseBody", bs "compress.CompressReader", bs "b.SetUnderlyingBody(wrap(b.GetUnderlyingBody()))");
    (bs "wrapResponseBody", bs "default", bs "res.Body = wrap(res.Body)") ].
Proof. reflexivity. Qed.

Lemma asked_gzip_conditions_as_modelled :
  asked_gzip_conditions =
  [ (bs "transport.go", bs "roundTrip",
     bs "!pc.t.DisableCompression && req.Header.Get(""Accept-Encoding"") == """" && req.Header.Get(""Range"") == """" && req.Method != ""HEAD""");
    (bs "internal/http2/transport.go", bs "roundTrip",
     bs "!cc.t.DisableCompression && req.Header.Get(""Accept-Encoding"") == """" && req.Header.Get(""Range"") == """" && !cs.isHead");
    (bs "internal/http3/http_stream.go", bs "SendRequestHeader",
     bs "!s.DisableCompression && !s.disableCompression && req.Method != http.MethodHead && req.Header.Get(""Accept-Encoding"") == """" && req.Header.Get(""Range"") == """"") ].
Proof. reflexivity. Qed.

(* any Range value at all - whatever unit, letter case, spacing - and the transport does not ask, on
   every stack; without AutoDecompression the response is then returned as received *)
Lemma any_range_value_is_a_range_request st c auto ended r :
  q_range c <> [] ->
  asked_gzip st c = false /\ (auto = false -> respond st c auto ended r = r).
Proof.
  intros H. split.
  - destruct (asked_gzip st c) eqn:E; [|reflexivity]. apply asked_gzip_iff in E. tauto.
  - intros ->. apply otherwise_untouched. right. right. left. now split.
Qed.
