(* Proofs/BodySettersProofs.v - the last body setter wins (C17). *)
From ReqV Require Import Lib.Bytes Model.BodySetters.

(* whatever body setters were called before (a value to marshal, bytes, pre-marshalled JSON / XML, a
   reader - in any number and order), an execution sends the body the LAST one supplied; of the
   history only the request's Content-Type matters, and only for a value that is marshalled at the
   execution (its format follows the Content-Type) *)
Theorem last_setter_wins l x :
  snd (execute (fold_left apply_setter (l ++ [x]) bf0)) =
  body_of_setter (bf_ct (fold_left apply_setter l bf0)) x.
Proof.
  rewrite fold_left_app. cbn [fold_left].
  destruct x; cbn [apply_setter execute bf_marshal bf_stream bf_raw bf_ct body_of_setter snd]; reflexivity.
Qed.

(* executing the request again sends the same body (a reader aside, which can be read once) *)
Theorem execute_again_same s :
  bf_stream s = None ->
  snd (execute (fst (execute s))) = snd (execute s).
Proof.
  intro H. unfold execute. destruct (bf_marshal s) as [v|] eqn:M.
  - cbn [fst snd bf_marshal bf_ct]. reflexivity.
  - rewrite H. destruct (bf_raw s) as [[b|v x]|] eqn:R; cbn [fst snd]; rewrite M, H, R; reflexivity.
Qed.

(* nothing of an earlier setter is sent: setters before the last one can be dropped or replaced
   (as long as they leave the same Content-Type behind) without changing what is sent *)
Theorem earlier_setters_irrelevant l l' x :
  bf_ct (fold_left apply_setter l bf0) = bf_ct (fold_left apply_setter l' bf0) ->
  snd (execute (fold_left apply_setter (l ++ [x]) bf0)) =
  snd (execute (fold_left apply_setter (l' ++ [x]) bf0)).
Proof. intro H. now rewrite !last_setter_wins, H. Qed.
