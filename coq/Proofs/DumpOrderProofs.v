(* Proofs/DumpOrderProofs.v - C13, round 4:
   - the order of the request-level dump setter calls matters only through the options struct:
     a SetDumpOptions made AFTER EnableDump* takes full effect;
   - one drain goroutine per queue delivers in program order even when taking a task and writing
     it are separate steps; two drainers on one queue do not;
   - an h2 response header block that is never completed is dumped field by field as far as it
     was decoded. *)
From Coq Require Import Lia.
From ReqV Require Import Lib.Bytes Lib.BytesFacts Model.Dump Model.DumpReader Model.DumpStack
                         Proofs.DumpProofs.

(* ---------- request-level setters ---------- *)
Definition is_enable (op : rop) : bool := match op with RSet _ => false | _ => true end.

Lemma rstep_enabled buf st op : snd (rstep buf st op) = snd st || is_enable op.
Proof. destruct op; cbn [rstep snd is_enable]; now rewrite ?Bool.orb_false_r, ?Bool.orb_true_r. Qed.

Lemma fold_rstep_enabled buf ops st :
  snd (fold_left (rstep buf) ops st) = snd st || existsb is_enable ops.
Proof.
  revert st. induction ops as [|op r IH]; intro st; cbn [fold_left existsb].
  - now rewrite Bool.orb_false_r.
  - rewrite IH, rstep_enabled, Bool.orb_assoc. reflexivity.
Qed.

(* a request-level dumper exists iff some EnableDump* call was made, wherever in the sequence *)
Theorem rops_dumper_iff_enabled buf ops :
  (exists o, run_rops buf ops = Some o) <-> existsb is_enable ops = true.
Proof.
  unfold run_rops. pose proof (fold_rstep_enabled buf ops (None, false)) as H. cbn [snd orb] in H.
  destruct (fold_left (rstep buf) ops (None, false)) as [o e] eqn:F. cbn [fst snd] in *. subst e.
  destruct (existsb is_enable ops) eqn:E.
  - split; [reflexivity|]. intros _.
    (* once enabled the struct exists *)
    assert (S : forall ops st, snd st = true -> fst st <> None -> fst (fold_left (rstep buf) ops st) <> None).
    { clear. induction ops as [|op r IH]; intros st He Hs; cbn [fold_left]; [exact Hs|].
      apply IH; destruct op; cbn [rstep fst snd]; try reflexivity; try discriminate; assumption. }
    assert (G : forall ops st, existsb is_enable ops = true -> fst (fold_left (rstep buf) ops st) <> None).
    { clear. intro ops. induction ops as [|op r IH]; intros st Hx; cbn [fold_left existsb] in *; [discriminate|].
      destruct (is_enable op) eqn:Eo.
      - assert (snd (rstep buf st op) = true) by (rewrite rstep_enabled, Eo; apply Bool.orb_true_r).
        assert (fst (rstep buf st op) <> None) by (destruct op; cbn [rstep fst]; discriminate).
        clear IH Hx. revert H H0. generalize (rstep buf st op). clear.
        induction r as [|op r IH]; intros st He Hs; cbn [fold_left]; [exact Hs|].
        apply IH; [rewrite rstep_enabled, He; reflexivity|destruct op; cbn [rstep fst]; discriminate].
      - apply IH. exact Hx. }
    specialize (G ops (None, false) E). rewrite F in G. cbn [fst] in G.
    destruct o as [o|]; [now exists o|contradiction].
  - split; [intros [x Hx]; discriminate|discriminate].
Qed.

(* SetDumpOptions as the LAST call: its options are the ones the dumper works with, whatever was
   called before (the value is copied into the struct the Dumper was built around) *)
Theorem rops_set_last_wins buf ops o :
  run_rops buf (ops ++ [RSet o]) =
  if existsb is_enable ops then Some (request_set_options buf o) else None.
Proof.
  unfold run_rops. rewrite fold_left_app. cbn [fold_left rstep fst snd].
  now rewrite fold_rstep_enabled.
Qed.

(* switching a part off after SetDumpOptions keeps everything else of those options *)
Theorem rops_switch_off_after_set buf ops o :
  run_rops buf (ops ++ [RSet o; RNoReqBody]) = Some (switch_off [PReqB] (request_set_options buf o)).
Proof. unfold run_rops. rewrite fold_left_app. reflexivity. Qed.

(* the variant that keeps the caller's pointer ignores a SetDumpOptions made after EnableDump *)
Example rops_keep_refuted :
  let o := mkOpts (Some 21%N) None None None None None None true false true false false in
  run_rops_keep 2%N [REnable; RSet o] <> run_rops 2%N [REnable; RSet o] /\
  run_rops_keep 2%N [RSet o; REnable] = run_rops 2%N [RSet o; REnable].
Proof. split; [vm_compute; discriminate|reflexivity]. Qed.

(* ---------- drainers ---------- *)
Definition qinv (d : nat) (st : qstate) : Prop :=
  q_held st = [] \/ exists t, q_held st = [(d, t)].

Lemma qstep_one_drainer d st op :
  (drainer_of op = None \/ drainer_of op = Some d) -> qinv d st ->
  qinv d (qstep st op) /\
  q_out (qstep st op) ++ map snd (q_held (qstep st op)) ++ q_queue (qstep st op) =
  (q_out st ++ map snd (q_held st) ++ q_queue st) ++ match op with QDump t => [t] | _ => [] end.
Proof.
  intros Hd Hi. destruct st as [q h o]. unfold qinv in *. cbn [q_held q_out q_queue] in *.
  destruct op as [t|e|e]; cbn [qstep drainer_of q_held q_out q_queue] in *.
  - split; [exact Hi|]. now rewrite <- !app_assoc.
  - destruct Hd as [Hd|Hd]; [discriminate|]. inversion Hd; subst e.
    destruct Hi as [->|[t ->]]; cbn [held_of].
    + destruct q as [|t q]; cbn [q_held q_out q_queue map app].
      * split; [now left|now rewrite !app_nil_r].
      * split; [right; now exists t|now rewrite app_nil_r].
    + rewrite Nat.eqb_refl. cbn [q_held q_out q_queue].
      split; [right; now exists t|now rewrite app_nil_r].
  - destruct Hd as [Hd|Hd]; [discriminate|]. inversion Hd; subst e.
    destruct Hi as [->|[t ->]]; cbn [held_of drop_held].
    + cbn [q_held q_out q_queue]. split; [now left|now rewrite app_nil_r].
    + rewrite Nat.eqb_refl. cbn [q_held q_out q_queue map app].
      split; [now left|]. rewrite app_nil_r, <- app_assoc. reflexivity.
Qed.

(* one drain goroutine on a queue: whatever the interleaving of DumpTo calls, takes and writes,
   written ++ in the drainer's hand ++ still queued = the DumpTo calls in program order *)
Theorem one_drainer_in_order d ops :
  (forall op, In op ops -> drainer_of op = None \/ drainer_of op = Some d) ->
  let st := run_qops ops in
  q_out st ++ map snd (q_held st) ++ q_queue st = qdumped ops.
Proof.
  intro H. unfold run_qops.
  assert (G : forall ops st, (forall op, In op ops -> drainer_of op = None \/ drainer_of op = Some d) ->
              qinv d st ->
              let st' := fold_left qstep ops st in
              q_out st' ++ map snd (q_held st') ++ q_queue st' =
              (q_out st ++ map snd (q_held st) ++ q_queue st) ++ qdumped ops).
  { clear. induction ops as [|op r IH]; intros st H Hi; cbn [fold_left qdumped flat_map].
    - now rewrite app_nil_r.
    - destruct (qstep_one_drainer d st op (H op (or_introl eq_refl)) Hi) as [Hi' E].
      cbv zeta in IH. rewrite (IH _ (fun o Ho => H o (or_intror Ho)) Hi'), E, <- app_assoc. reflexivity. }
  apply (G ops (mkQ [] [] []) H). now left.
Qed.

(* two drainers on one queue (a clone that shares the original's channel): the second task can
   be written while the first is still in the other drainer's hand *)
Example two_drainers_reorder :
  let a := (7%N, bs "GET / HTTP/1.1") in
  let b := (7%N, bs "Host: x") in
  let ops := [QDump a; QDump b; QTake 0; QTake 1; QWrite 1; QWrite 0] in
  q_out (run_qops ops) = [b; a] /\ qdumped ops = [a; b].
Proof. split; reflexivity. Qed.

(* ---------- h2 response header block that is never completed ---------- *)
Lemma h2_partial_block_prefix ds fs :
  h23_resp_header_log ds fs = h2_partial_block_log ds fs ++ hook_emit_all ds (HRespHeader crlf).
Proof.
  unfold h23_resp_header_log, h2_partial_block_log, field_hooks, run_hooks.
  rewrite flat_map_app. cbn [flat_map]. now rewrite app_nil_r.
Qed.

(* per (dumper, writer): exactly the lines of the fields that were decoded, at the writer resolved
   for response headers, nothing elsewhere, no closing CRLF *)
Theorem h2_partial_block_content i o w ds fs :
  NoDup (map fst ds) -> In (i, o) ds ->
  content i w (h2_partial_block_log ds fs) =
  if enabled o PRespH && N.eqb w (resolve o PRespH) then flat_map field_line fs else [].
Proof.
  intros ND HI. unfold h2_partial_block_log. rewrite (content_run_hooks i o) by assumption.
  induction fs as [|f fs IH]; cbn [map flat_map].
  - now destruct (enabled o PRespH && N.eqb w (resolve o PRespH)).
  - rewrite IH. unfold hook_bytes_for. cbn [hook_part].
    destruct (enabled o PRespH); cbn [negb andb]; [|reflexivity].
    destruct (N.eqb w (resolve o PRespH)); reflexivity.
Qed.
