(* Proofs/DumpOrderProofs.v - C13, round 4:
   - the order of the request-level dump setter calls matters only through the options struct:
     a SetDumpOptions made AFTER EnableDump* takes full effect;
   - one drain goroutine per queue delivers in program order even when taking a task and writing
     it are separate steps; two drainers on one queue do not;
   - an h2 response header block that is never completed is dumped field by field as far as it
     was decoded. *)
From Coq Require Import Lia.
From ReqV Require Import Lib.Bytes Lib.BytesFacts Model.Dump Model.DumpReader Model.DumpStack
                         Proofs.DumpProofs.

(* ---------- request-level setters ---------- *)
Definition is_enable (op : rop) : bool := match op with RSet _ => false | _ => true end.

Lemma rstep_enabled buf st op : snd (rstep buf st op) = snd st || is_enable op.
Proof. destruct op; cbn [rstep snd is_enable]; now rewrite ?Bool.orb_false_r, ?Bool.orb_true_r. Qed.

Lemma fold_rstep_enabled buf ops st :
  snd (fold_left (rstep buf) ops st) = snd st || existsb is_enable ops.
Proof.
  revert st. induction ops as [|op r IH]; intro st; cbn [fold_left existsb].
  - now rewrite Bool.orb_false_r.
  - rewrite IH, rstep_enabled, Bool.orb_assoc. reflexivity.
Qed.

(* a request-level dumper exists iff some EnableDump* call was made, wherever in the sequence *)
Theorem rops_dumper_iff_enabled buf ops :
  (exists o, run_rops buf ops = Some o) <-> existsb is_enable ops = true.
Proof.
  unfold run_rops. pose proof (fold_rstep_enabled buf ops (None, false)) as H. cbn [snd orb] in H.
  destruct (fold_left (rstep buf) ops (None, false)) as [o e] eqn:F. cbn [fst snd] in *. subst e.
  destruct (existsb is_enable ops) eqn:E.
  - split; [reflexivity|]. intros _.
    (* once enabled the struct exists *)
    assert (S : forall ops st, snd st = true -> fst st <> None -> fst (fold_left (rstep buf) ops st) <> None).
    { clear. induction ops as [|op r IH]; intros st He Hs; cbn [fold_left]; [exact Hs|].
      apply IH; destruct op; cbn [rstep fst snd]; try reflexivity; try discriminate; assumption. }
    assert (G : forall ops st, existsb is_enable ops = true -> fst (fold_left (rstep buf) ops st) <> None).
    { clear. intro ops. induction ops as [|op r IH]; intros st Hx; cbn [fold_left existsb] in *; [discriminate|].
      destruct (is_enable op) eqn:Eo.
      - assert (snd (rstep buf st op) = true) by (rewrite rstep_enabled, Eo; apply Bool.orb_true_r).
        assert (fst (rstep buf st op) <> None) by (destruct op; cbn [rstep fst]; discriminate).
        clear IH Hx. revert H H0. generalize (rstep buf st op). clear.
        induction r as [|op r IH]; intros st He Hs; cbn [fold_left]; [exact Hs|].
        apply IH; [rewrite rstep_enabled, He; reflexivity|destruct op; cbn [rstep fst]; discriminate].
      - apply IH. exact Hx. }
    specialize (G ops (None, false) E). rewrite F in G. cbn [fst] in G.
    destruct o as [o|]; [now exists o|contradiction].
  - split; [intros [x Hx]; discriminate|discriminate].
Qed.

(* SetDumpOptions as the LAST call: its options are the ones the dumper works with, whatever was
   called before (the value is copied into the struct the Dumper was built around) *)
Theorem rops_set_last_wins buf ops o :
  run_rops buf (ops ++ [RSet o]) =
  if existsb is_enable ops then Some (request_set_options buf o) else None.
Proof.
  unfold run_rops. rewrite fold_left_app. cbn [fold_left rstep fst snd].
  now rewrite fold_rstep_enabled.
Qed.

(* switching a part off after SetDumpOptions keeps everything else of those options *)
Theorem rops_switch_off_after_set buf ops o :
  run_rops buf (ops ++ [RSet o; RNoReqBody]) = Some (switch_off [PReqB] (request_set_options buf o)).
Proof. unfold run_rops. rewrite fold_left_app. reflexivity. Qed.

(* the variant that keeps the caller's pointer ignores a SetDumpOptions made after EnableDump *)
Example rops_keep_refuted :
  let o := mkOpts (Some 21%N) None None None None None None true false true false false in
  run_rops_keep 2%N [REnable; RSet o] <> run_rops 2%N [REnable; RSet o] /\
  run_rops_keep 2%N [RSet o; REnable] = run_rops 2%N [RSet o; REnable].
Proof. split; [vm_compute; discriminate|reflexivity]. Qed.

(* ---------- drainers ---------- *)
Definition qinv (d : nat) (st : qstate) : Prop :=
  q_held st = [] \/ exists t, q_held st = [(d, t)].

Lemma qstep_one_drainer d st op :
  (drainer_of op = None \/ drainer_of op = Some d) -> qinv d st ->
  qinv d (qstep st op) /\
  q_out (qstep st op) ++ map snd (q_held (qstep st op)) ++ q_queue (qstep st op) =
  (q_out st ++ map snd (q_held st) ++ q_queue st) ++ match op with QDump t => [t] | _ => [] end.
Proof.
  intros Hd Hi. destruct st as [q h o]. unfold qinv in *. cbn [q_held q_out q_queue] in *.
  destruct op as [t|e|e]; cbn [qstep drainer_of q_held q_out q_queue] in *.
  - split; [exact Hi|]. now rewrite <- !app_assoc.
  - destruct Hd as [Hd|Hd]; [discriminate|]. inversion Hd; subst e.
    destruct Hi as [->|[t ->]]; cbn [held_of].
    + destruct q as [|t q]; cbn [q_held q_out q_queue map app].
      * split; [now left|now rewrite !app_nil_r].
      * split; [right; now exists t|now rewrite app_nil_r].
    + rewrite Nat.eqb_refl. cbn [q_held q_out q_queue].
      split; [right; now exists t|now rewrite app_nil_r].
  - destruct Hd as [Hd|Hd]; [discriminate|]. inversion Hd; subst e.
    destruct Hi as [->|[t ->]]; cbn [held_of drop_held].
    + cbn [q_held q_out q_queue]. split; [now left|now rewrite app_nil_r].
    + rewrite Nat.eqb_refl. cbn [q_held q_out q_queue map app].
      split; [now left|]. rewrite app_nil_r, <- app_assoc. reflexivity.
Qed.

(* one drain goroutine on a queue: whatever the interleaving of DumpTo calls, takes and writes,
   written ++ in the drainer's hand ++ still queued = the DumpTo calls in program order *)
Theorem one_drainer_in_order d ops :
  (forall op, In op ops -> drainer_of op = None \/ drainer_of op = Some d) ->
  let st := run_qops ops in
  q_out st ++ map snd (q_held st) ++ q_queue st = qdumped ops.
Proof.
  intro H. unfold run_qops.
  assert (G : forall ops st, (forall op, In op ops -> drainer_of op = None \/ drainer_of op = Some d) ->
              qinv d st ->
              let st' := fold_left qstep ops st in
              q_out st' ++ map snd (q_held st') ++ q_queue st' =
              (q_out st ++ map snd (q_held st) ++ q_queue st) ++ qdumped ops).
  { clear. induction ops as [|op r IH]; intros st H Hi; cbn [fold_left qdumped flat_map].
    - now rewrite app_nil_r.
    - destruct (qstep_one_drainer d st op (H op (or_introl eq_refl)) Hi) as [Hi' E].
      cbv zeta in IH. rewrite (IH _ (fun o Ho => H o (or_intror Ho)) Hi'), E, <- app_assoc. reflexivity. }
  apply (G ops (mkQ [] [] []) H). now left.
Qed.

(* two drainers on one queue (a clone that shares the original's channel): the second task can
   be written while the first is still in the other drainer's hand *)
Example two_drainers_reorder :
  let a := (7%N, bs "GET / HTTP/1.1") in
  let b := (7%N, bs "Host: x") in
  let ops := [QDump a; QDump b; QTake 0; QTake 1; QWrite 1; QWrite 0] in
  q_out (run_qops ops) = [b; a] /\ qdumped ops = [a; b].
Proof. split; reflexivity. Qed.

(* ---------- h2 response header block that is never completed ---------- *)
Lemma h2_partial_block_prefix ds fs :
  h23_resp_header_log ds fs = h2_partial_block_log ds fs ++ hook_emit_all ds (HRespHeader crlf).
Proof.
  unfold h23_resp_header_log, h2_partial_block_log, field_hooks, run_hooks.
  rewrite flat_map_app. cbn [flat_map]. now rewrite app_nil_r.
Qed.

(* per (dumper, writer): exactly the lines of the fields that were decoded, at the writer resolved
   for response headers, nothing elsewhere, no closing CRLF *)
Theorem h2_partial_block_content i o w ds fs :
  NoDup (map fst ds) -> In (i, o) ds ->
  content i w (h2_partial_block_log ds fs) =
  if enabled o PRespH && N.eqb w (resolve o PRespH) then flat_map field_line fs else [].
Proof.
  intros ND HI. unfold h2_partial_block_log. rewrite (content_run_hooks i o) by assumption.
  induction fs as [|f fs IH]; cbn [map flat_map].
  - now destruct (enabled o PRespH && N.eqb w (resolve o PRespH)).
  - rewrite IH. unfold hook_bytes_for. cbn [hook_part].
    destruct (enabled o PRespH); cbn [negb andb]; [|reflexivity].
    destruct (N.eqb w (resolve o PRespH)); reflexivity.
Qed.

(* ---------- Stop with exchanges in flight ---------- *)
Definition sinv (async : bool) (st : sstate) : Prop :=
  ((s_running st = false \/ s_stopped st = true \/ async = false) -> tasks_of (s_q st) = []) /\
  (In None (s_q st) -> s_stopped st = true).

Lemma tasks_of_app a b : tasks_of (a ++ b) = tasks_of a ++ tasks_of b.
Proof. unfold tasks_of. apply flat_map_app. Qed.

Lemma sstep_inv async st op :
  sinv async st ->
  sinv async (sstep async st op) /\
  s_out (sstep async st op) ++ tasks_of (s_q (sstep async st op)) =
  (s_out st ++ tasks_of (s_q st)) ++ match op with SDump t => [t] | _ => [] end.
Proof.
  intros [K L]. destruct st as [run stp q out]. unfold sinv. cbn [s_running s_stopped s_q s_out] in *.
  destruct op as [t| | |]; cbn [sstep s_running s_stopped s_q s_out].
  - destruct (async && run && negb stp) eqn:C; cbn [s_running s_stopped s_q s_out].
    + apply Bool.andb_true_iff in C as [C1 C3]. apply Bool.andb_true_iff in C1 as [C0 C2].
      apply Bool.negb_true_iff in C3. subst. split; [split|].
      * intros [H|[H|H]]; discriminate.
      * intro H. apply in_app_or in H as [H|[H|[]]]; [now apply L|discriminate].
      * rewrite tasks_of_app. cbn [tasks_of flat_map app]. now rewrite app_assoc.
    + split; [split; assumption|]. rewrite <- !app_assoc.
      assert (tasks_of q = []) as ->.
      { apply K. destruct run; [|now left]. destruct stp; [right; now left|].
        destruct async; [discriminate C|right; now right]. }
      now rewrite !app_nil_r.
  - unfold sdrain. cbn [s_running s_stopped s_q s_out]. destruct run.
    2:{ split; [split; [exact K|exact L]|now rewrite app_nil_r]. }
    destruct q as [|[t|] q]; cbn [s_running s_stopped s_q s_out].
    + split; [split; [exact K|exact L]|cbn [tasks_of flat_map]; now rewrite !app_nil_r].
    + split; [split|].
      * intro H. assert (X : tasks_of (Some t :: q) = []).
        { apply K. destruct H as [H|H]; [discriminate|now right]. }
        discriminate.
      * intro H. apply L. now right.
      * cbn [tasks_of flat_map app]. rewrite app_nil_r, <- app_assoc. reflexivity.
    + assert (S : stp = true) by (apply L; now left). subst.
      assert (X : tasks_of (None :: q) = []) by (apply K; right; now left). cbn [tasks_of flat_map app] in X.
      split; [split|].
      * intros _. exact X.
      * intros _. reflexivity.
      * cbn [tasks_of flat_map app]. now rewrite app_nil_r.
  - split; [split|now rewrite app_nil_r].
    + intros [H|H]; [discriminate|]. apply K. now right.
    + exact L.
  - destruct run; cbn [s_running s_stopped s_q s_out].
    + split; [split|]; [reflexivity|intros []|cbn [tasks_of flat_map]; now rewrite !app_nil_r].
    + split; [split|].
      * intros _. rewrite tasks_of_app. cbn [tasks_of flat_map app]. rewrite app_nil_r. apply K. now left.
      * reflexivity.
      * rewrite tasks_of_app. cbn [tasks_of flat_map app]. now rewrite !app_nil_r.
Qed.

(* every interleaving of DumpTo, drain steps, Start and Stop - Stop while exchanges still dump:
   written ++ queued = the DumpTo calls in program order, and once the dumper has been stopped (or
   is not draining) nothing is left in the queue: no dump write is lost or can block *)
Theorem stop_loses_nothing async ops :
  let st := run_sops async ops in
  s_out st ++ tasks_of (s_q st) = sdumped ops /\
  ((s_running st = false \/ s_stopped st = true) -> s_out st = sdumped ops).
Proof.
  cbv zeta. unfold run_sops.
  assert (G : forall ops st, sinv async st ->
              sinv async (fold_left (sstep async) ops st) /\
              s_out (fold_left (sstep async) ops st) ++ tasks_of (s_q (fold_left (sstep async) ops st)) =
              (s_out st ++ tasks_of (s_q st)) ++ sdumped ops).
  { clear. induction ops as [|op r IH]; intros st Hi; cbn [fold_left sdumped flat_map].
    - split; [exact Hi|now rewrite app_nil_r].
    - destruct (sstep_inv async st op Hi) as [Hi' E].
      destruct (IH _ Hi') as [I2 E2]. split; [exact I2|]. rewrite E2, E, <- app_assoc. reflexivity. }
  destruct (G ops s0) as [[K L] E].
  - split; [reflexivity|intros []].
  - cbn [s0 s_out s_q tasks_of flat_map app] in E. split; [exact E|].
    intro H. assert (X : tasks_of (s_q (fold_left (sstep async) ops s0)) = []).
    { apply K. destruct H as [H|H]; [now left|right; now left]. }
    rewrite X, app_nil_r in E. exact E.
Qed.

(* before the fix: a write dumped between Stop and the drainer's exit is queued behind the mark
   and stays there *)
Example old_stop_loses_writes :
  let t := (7%N, bs "rest of the body") in
  let ops := [SStart; SStop; SDump t; SDrain; SDrain; SDrain] in
  s_out (run_sops_old true ops) = [] /\ s_running (run_sops_old true ops) = false /\
  sdumped ops = [t] /\ s_out (run_sops true ops) = [t].
Proof. repeat split. Qed.

(* ---------- the request's own buffer across retries ---------- *)
Definition is_write (op : bop) : bool := match op with BWrite _ => true | BReset => false end.

Lemma run_bops_writes buf ops :
  forallb is_write ops = true ->
  fold_left bstep ops buf = buf ++ flat_map (fun op => match op with BWrite p => p | BReset => [] end) ops.
Proof.
  revert buf. induction ops as [|op r IH]; intros buf H; cbn [fold_left flat_map].
  - now rewrite app_nil_r.
  - cbn [forallb] in H. apply Bool.andb_true_iff in H as [H1 H2]. destruct op; [|discriminate].
    rewrite IH by assumption. cbn [bstep]. now rewrite app_assoc.
Qed.

(* whatever the earlier attempts dumped - with or without a response - after the reset that
   precedes the last attempt the buffer holds exactly that attempt's dump: nothing twice *)
Theorem buffer_holds_last_attempt before last :
  forallb is_write last = true ->
  run_bops (before ++ BReset :: last) =
  flat_map (fun op => match op with BWrite p => p | BReset => [] end) last.
Proof.
  intro H. unfold run_bops. rewrite fold_left_app. cbn [fold_left bstep].
  now rewrite run_bops_writes.
Qed.

(* ---------- client-level history and Clone ---------- *)
(* whatever the configuration history, a clone dumps with the options in force on the original *)
Theorem clone_keeps_options_in_force ops :
  in_force (cclone (run_cops ops)) = in_force (run_cops ops).
Proof.
  generalize (run_cops ops). intros [o h l own]. unfold cclone, in_force. cbn [c_opts c_has c_linked c_own].
  destruct h, l; reflexivity.
Qed.

(* the dump installed through the Transport-level EnableDump is the one in force, whatever the
   client-level setters left behind *)
Theorem transport_enable_is_in_force ops o :
  in_force (run_cops (ops ++ [CTransportEnable o])) = Some (new_dumper o).
Proof. unfold run_cops. rewrite fold_left_app. reflexivity. Qed.

Example unguarded_clone_uses_stale_options :
  let o := mkOpts (Some 10%N) None None None None None None false false true false false in
  let ops := [CEnableAllTo 17%N; CDisableAll; CTransportEnable o] in
  in_force (cclone_unguarded (run_cops ops)) <> in_force (run_cops ops) /\
  in_force (cclone (run_cops ops)) = Some o.
Proof. split; [vm_compute; discriminate|reflexivity]. Qed.

(* ---------- the order of one exchange's bytes across a two-step Stop ---------- *)
Definition tinv (async : bool) (st : tstate) : Prop :=
  ((t_running st = false \/ (t_stopped st = true /\ t_lock st = false) \/ async = false) ->
   tasks_of (t_q st) = []) /\
  (In None (t_q st) -> t_stopped st = true) /\
  no_task_after_mark (t_q st) = true.

Lemma tasks_of_snoc_none q : tasks_of (q ++ [None]) = tasks_of q.
Proof. rewrite tasks_of_app. cbn. apply app_nil_r. Qed.

Lemma ntam_snoc_none q : no_task_after_mark (q ++ [None]) = no_task_after_mark q.
Proof.
  induction q as [|[t|] q IH]; cbn [app no_task_after_mark]; [reflexivity|exact IH|].
  rewrite tasks_of_snoc_none, IH. reflexivity.
Qed.

Lemma ntam_snoc_some q t : ~ In None q -> no_task_after_mark (q ++ [Some t]) = true.
Proof.
  induction q as [|[u|] q IH]; cbn [app no_task_after_mark]; intro H; [reflexivity| |].
  - apply IH. intro. apply H. now right.
  - exfalso. apply H. now left.
Qed.

Lemma tstep_inv async st ex op :
  tinv async st ->
  let '(st', ex') := tstep true async (st, ex) op in
  tinv async st' /\
  (t_out st ++ tasks_of (t_q st) = ex -> t_out st' ++ tasks_of (t_q st') = ex').
Proof.
  intros [A [B C]]. destruct st as [run stp lk q out]. unfold tinv.
  cbn [t_running t_stopped t_lock t_q t_out] in *.
  destruct op as [t| | |]; cbn [tstep t_running t_stopped t_lock t_q t_out].
  - destruct lk; [split; [repeat split; assumption|auto]|].
    destruct (async && run && negb stp) eqn:G; cbn [t_running t_stopped t_lock t_q t_out].
    + apply Bool.andb_true_iff in G as [G1 G3]. apply Bool.andb_true_iff in G1 as [G0 G2].
      apply Bool.negb_true_iff in G3. subst.
      assert (NN : ~ In None q) by (intro H; specialize (B H); discriminate).
      split; [split; [|split]|].
      * intros [H|[[H _]|H]]; discriminate.
      * intro H. apply in_app_or in H as [H|[H|[]]]; [contradiction|discriminate].
      * now apply ntam_snoc_some.
      * intro E. rewrite tasks_of_app. cbn [tasks_of flat_map app]. now rewrite app_assoc, E.
    + assert (Z : tasks_of q = []).
      { apply A. destruct run; [|now left]. destruct stp; [right; left; now split|].
        destruct async; [discriminate G|right; now right]. }
      split; [repeat split; assumption|].
      intro E. rewrite Z, app_nil_r in *. now rewrite E.
  - unfold tdrain. cbn [t_running t_stopped t_lock t_q t_out]. destruct run.
    2:{ split; [repeat split; assumption|auto]. }
    destruct q as [|[t|] q]; cbn [t_running t_stopped t_lock t_q t_out].
    + split; [repeat split; assumption|auto].
    + split; [split; [|split]|].
      * intro H. assert (X : tasks_of (Some t :: q) = []).
        { apply A. destruct H as [H|H]; [discriminate|now right]. }
        discriminate.
      * intro H. apply B. now right.
      * exact C.
      * intro E. cbn [tasks_of flat_map app] in E. rewrite <- app_assoc. exact E.
    + cbn [no_task_after_mark] in C.
      assert (T : tasks_of q = []) by (destruct (tasks_of q); [reflexivity|discriminate]).
      rewrite T in C.
      split; [split; [|split]|].
      * intros _. exact T.
      * intro H. apply B. now right.
      * exact C.
      * intro E. cbn [tasks_of flat_map app] in E. fold (tasks_of q) in E. rewrite T in *. exact E.
  - split; [split; [|split]|auto].
    + intros [H|H]; [discriminate|]. apply A. now right.
    + exact B.
    + exact C.
  - cbn [andb]. split; [split; [|split]|].
    + rewrite tasks_of_snoc_none. intros [H|[[_ H]|H]].
      * apply A. now left.
      * destruct run; [discriminate|]. apply A. now left.
      * apply A. right. now right.
    + reflexivity.
    + now rewrite ntam_snoc_none.
    + now rewrite tasks_of_snoc_none.
Qed.

(* Stop that keeps the lock while it waits: for EVERY interleaving of DumpTo calls (blocked ones
   simply do not execute), drain steps, Start and Stop, the bytes written followed by the ones
   still queued are the executed DumpTo calls in the order they were made - the later bytes of an
   exchange in flight never overtake its earlier, still queued ones *)
Theorem stop_keeps_order async ops :
  let '(st, ex) := run_tops true async ops in
  t_out st ++ tasks_of (t_q st) = ex.
Proof.
  unfold run_tops.
  assert (G : forall ops st ex, tinv async st -> t_out st ++ tasks_of (t_q st) = ex ->
              let '(st', ex') := fold_left (tstep true async) ops (st, ex) in
              t_out st' ++ tasks_of (t_q st') = ex').
  { clear. induction ops as [|op r IH]; intros st ex Hi E; cbn [fold_left]; [exact E|].
    pose proof (tstep_inv async st ex op Hi) as H.
    destruct (tstep true async (st, ex) op) as [st1 ex1]. destruct H as [Hi1 H1].
    apply IH; [exact Hi1|now apply H1]. }
  apply (G ops t0 []); [|reflexivity].
  unfold tinv. cbn. repeat split; auto; try contradiction.
Qed.

(* a Stop that gives the lock back right after marking the queue (f-m3): the part dumped while Stop
   waits is written at once, ahead of the two parts still queued *)
Example unlocked_stop_reorders :
  let a := (7%N, bs "part-1 ") in let b := (7%N, bs "part-2 ") in let c := (7%N, bs "part-3") in
  let ops := [TStart; TDump a; TDump b; TMark; TDump c; TDrain; TDrain; TDrain] in
  t_out (fst (run_tops false true ops)) = [c; a; b] /\ snd (run_tops false true ops) = [a; b; c] /\
  t_out (fst (run_tops true true ops)) = [a; b] /\ snd (run_tops true true ops) = [a; b].
Proof. repeat split. Qed.

(* a client-level setter called AFTER the dump was enabled and AFTER SetCommonDumpOptions is seen by
   the running Dumper: SetCommonDumpOptions re-points it at the struct the later setters edit *)
Theorem setters_after_set_common_take_effect ops o ps w :
  c_has (run_cops ops) = true ->
  in_force (run_cops (ops ++ [CSetCommon o; CWithout ps])) =
    Some (switch_off ps (client_set_options (c_opts (run_cops ops)) o)) /\
  in_force (run_cops (ops ++ [CSetCommon o; CEnableAllTo w])) =
    Some (set_out (client_set_options (c_opts (run_cops ops)) o) (Some w)).
Proof.
  intro H. unfold run_cops in *. rewrite !fold_left_app.
  destruct (fold_left cstep ops c0) as [op h l own]. cbn [c_has c_opts] in *. subst h.
  split; reflexivity.
Qed.

(* the variant in which SetCommonDumpOptions keeps a private copy while the running Dumper reads the
   caller's struct (g-m2): modelled as "the Dumper gets a struct of its own" *)
Definition cstep_split (st : cstate) (op : cop) : cstate :=
  match op with
  | CSetCommon o =>
      let o' := client_set_options (c_opts st) o in
      if c_has st then mkC (Some o') true false (Some o') else mkC (Some o') false (c_linked st) (c_own st)
  | _ => cstep st op
  end.

Example split_set_common_ignores_later_setters :
  let o := mkOpts (Some 10%N) None None None None None None true true true true false in
  let ops := [CEnableAllTo 17%N; CSetCommon o; CWithout [PRespB]] in
  in_force (fold_left cstep_split ops c0) = Some o /\
  in_force (run_cops ops) = Some (switch_off [PRespB] o).
Proof. split; reflexivity. Qed.
