(* Proofs/BodyStagesProofs.v - lemmas about Model/BodyStages.v (C07) *)
From ReqV Require Import Lib.Bytes Model.Decode Model.BodyStages.
From Coq Require Import Lia.

(* shape invariant wrapResponseBody relies on: a transport.go gzipReader always sits directly
   on a bodyEOFSignal *)
Definition gz_shape (b : body) : Prop :=
  (forall i, b = Some (Wrap TGzipH1 i) -> exists x, i = Some (Wrap TEofSignal x)) /\
  (forall i, b = Some (Wrap TEndChecked i) -> exists e x, i = Some (Wrap (TCompress e) x)).

Lemma mk_dec_sound t under : sound_layer under = true -> sound_layer (mk_dec t under) = true.
Proof. destruct t; cbn; auto. Qed.

Lemma on_top_sound a under gz : sound_layer under = true -> sound (on_top a under gz) = true.
Proof. destruct a; cbn [on_top sound]; auto using mk_dec_sound. Qed.

Lemma transport_body_sound st c ce : sound (transport_body st c ce) = true.
Proof.
  destruct st; cbn [transport_body].
  - destruct (negb (t_head c) && negb (t_wire_cl c =? 0)%Z); [apply on_top_sound|]; reflexivity.
  - apply on_top_sound; reflexivity.
  - apply on_top_sound; reflexivity.
Qed.

Lemma mk_dec_shape t under :
  (t = TGzipH1 -> exists x, under = Wrap TEofSignal x) -> t <> TEndChecked ->
  gz_shape (Some (mk_dec t under)).
Proof.
  intros Hg Hn. split; intros i H; destruct t; cbn [mk_dec] in H; inversion H; subst; eauto; try congruence.
  destruct (Hg eq_refl) as [x ->]. eauto.
Qed.

Lemma on_top_shape a under gz :
  (gz = TGzipH1 -> exists x, under = Wrap TEofSignal x) -> gz <> TEndChecked ->
  (forall i, under <> Wrap TGzipH1 i) -> (forall i, under <> Wrap TEndChecked i) ->
  gz_shape (on_top a under gz).
Proof.
  intros Hg Hn Hu Hv. destruct a; cbn [on_top].
  - now apply mk_dec_shape.
  - apply mk_dec_shape; [discriminate|discriminate].
  - split; intros i H; inversion H; subst; exfalso; [eapply Hu|eapply Hv]; eauto.
Qed.

Lemma transport_body_shape st c ce : gz_shape (transport_body st c ce).
Proof.
  destruct st; cbn [transport_body].
  - destruct (negb (t_head c) && negb (t_wire_cl c =? 0)%Z).
    + apply on_top_shape; [eauto|discriminate|discriminate|discriminate].
    + split; intros i H; discriminate.
  - apply on_top_shape; discriminate.
  - apply on_top_shape; discriminate.
Qed.

Lemma wrap_cb_sound b : sound b = true -> gz_shape b -> sound (wrap_cb b) = true.
Proof.
  intros Hs [Hg He]. destruct b as [[|t i]|]; cbn in *; try assumption; try discriminate.
  destruct t; cbn in *; try assumption.
  - destruct (Hg i eq_refl) as [x ->]. cbn in *. assumption.
  - destruct (He i eq_refl) as (e & x & ->). cbn in *. assumption.
Qed.

Lemma decode_stage_sound dd b : sound b = true -> sound (decode_stage dd b) = true.
Proof. destruct dd, b; cbn; auto. Qed.

Lemma dump_stage_sound n : forall b, sound b = true -> sound (dump_stage n b) = true.
Proof. induction n as [|k IH]; intros b H; cbn [dump_stage]; [assumption|]. apply IH. destruct b; cbn in *; auto. Qed.

Lemma handle_response_body_sound p g ct o b :
  sound b = true -> gz_shape b -> sound (handle_response_body p g ct o b) = true.
Proof.
  intros Hs Hg. unfold handle_response_body.
  apply dump_stage_sound, decode_stage_sound.
  destruct (p_callback p); [apply wrap_cb_sound|]; assumption.
Qed.

(* no reader in the stack is nil - for every stack, request/transport configuration, option
   combination, header values and verdicts of the media-type / charset libraries *)
Theorem stages_never_nil st c p g ce ct o : sound (pipeline st c p g ce ct o) = true.
Proof.
  unfold pipeline. apply handle_response_body_sound;
    [apply transport_body_sound|apply transport_body_shape].
Qed.

(* ---------- the later stages only add layers ---------- *)

Definition is_added (t : ltag) : bool :=
  match t with TCallback | TCharset | TAutoDecode | TDump => true | _ => false end.

Definition core (b : body) : list ltag * bool :=
  (filter (fun t => negb (is_added t)) (fst (flatten b)), snd (flatten b)).

Lemma flatten_wrap t b :
  flatten (Some (Wrap t b)) = (t :: fst (flatten b), snd (flatten b)).
Proof.
  destruct b as [l|]; cbn; [|reflexivity]. destruct (flatten_layer l); reflexivity.
Qed.

Lemma core_wrap_added t b : is_added t = true -> core (Some (Wrap t b)) = core b.
Proof. intros H. unfold core. rewrite flatten_wrap. cbn. now rewrite H. Qed.

Lemma core_wrap_kept t b : is_added t = false ->
  core (Some (Wrap t b)) = (t :: fst (core b), snd (core b)).
Proof. intros H. unfold core. rewrite flatten_wrap. cbn. now rewrite H. Qed.

Lemma wrap_cb_core b : gz_shape b -> core (wrap_cb b) = core b.
Proof.
  intros [Hg He]. destruct b as [[|t i]|]; try (cbn [wrap_cb]; now rewrite core_wrap_added).
  destruct t; try (cbn [wrap_cb]; now rewrite core_wrap_added).
  - cbn [wrap_cb]. destruct (Hg i eq_refl) as [x ->].
    rewrite !(core_wrap_kept TGzipH1), !(core_wrap_kept TEofSignal) by reflexivity.
    now rewrite core_wrap_added.
  - cbn [wrap_cb]. rewrite !(core_wrap_kept (TCompress e)) by reflexivity.
    now rewrite core_wrap_added.
  - destruct (He i eq_refl) as (e & x & ->). cbn [wrap_cb].
    rewrite !(core_wrap_kept TEndChecked), !(core_wrap_kept (TCompress e)) by reflexivity.
    now rewrite core_wrap_added.
Qed.

Lemma decode_stage_core dd b : core (decode_stage dd b) = core b.
Proof. destruct dd; cbn [decode_stage]; try reflexivity; now rewrite core_wrap_added. Qed.

Lemma dump_stage_core n : forall b, core (dump_stage n b) = core b.
Proof. induction n as [|k IH]; intros b; cbn [dump_stage]; [reflexivity|]. rewrite IH. now rewrite core_wrap_added. Qed.

(* callback, decoder and dump wrappers are only ever added: with them taken out again, the
   stack is exactly what the transport built (same layers, same order, same bottom) *)
Theorem stages_only_add st c p g ce ct o :
  core (pipeline st c p g ce ct o) = core (transport_body st c ce).
Proof.
  unfold pipeline, handle_response_body. rewrite dump_stage_core, decode_stage_core.
  destruct (p_callback p); [apply wrap_cb_core, transport_body_shape|reflexivity].
Qed.

Lemma filter_all_id {A} (f : A -> bool) l : (forall t, In t l -> f t = true) -> filter f l = l.
Proof.
  induction l as [|x l IH]; intros H; cbn; [reflexivity|].
  rewrite (H x (or_introl eq_refl)). f_equal. apply IH. intros t Ht. apply H. now right.
Qed.

Lemma transport_body_core st c ce : core (transport_body st c ce) = flatten (transport_body st c ce).
Proof.
  unfold core.
  assert (H : forall a under gz, (forall t, In t (fst (flatten_layer under)) -> is_added t = false) ->
              is_added gz = false ->
              filter (fun t => negb (is_added t)) (fst (flatten (on_top a under gz))) = fst (flatten (on_top a under gz))).
  { intros a under gz Hu Hgz. apply filter_all_id. intros t Ht.
    assert (Hm : forall g, In t (fst (flatten_layer (mk_dec g under))) ->
                 t = g \/ t = TEndChecked \/ In t (fst (flatten_layer under))).
    { intros g. destruct g; cbn [mk_dec flatten_layer]; destruct (flatten_layer under) as [ts n]; cbn; intuition. }
    destruct a; cbn [on_top flatten] in Ht.
    - apply Hm in Ht as [->|[->|Ht]]; [now rewrite Hgz|reflexivity|now rewrite Hu].
    - apply Hm in Ht as [->|[->|Ht]]; [reflexivity|reflexivity|now rewrite Hu].
    - now rewrite Hu. }
  destruct st; cbn [transport_body].
  - destruct (negb (t_head c) && negb (t_wire_cl c =? 0)%Z).
    + rewrite H; [now destruct (flatten _)| |reflexivity].
      intros t [<-|[]]. reflexivity.
    + reflexivity.
  - rewrite H; [now destruct (flatten _)| |reflexivity]. intros t [].
  - rewrite H; [now destruct (flatten _)| |reflexivity]. intros t [].
Qed.

(* dump wrappers are outermost, one per dumper *)
Lemma dump_stage_flatten n : forall b,
  flatten (dump_stage n b) = (repeat TDump n ++ fst (flatten b), snd (flatten b)).
Proof.
  induction n as [|k IH]; intros b; cbn [dump_stage repeat app]; [now destruct (flatten b)|].
  rewrite IH, flatten_wrap. cbn [fst snd]. f_equal.
  change (TDump :: repeat TDump k ++ fst (flatten b)) with ((TDump :: repeat TDump k) ++ fst (flatten b)).
  rewrite (repeat_cons k TDump). now rewrite <- app_assoc.
Qed.

Lemma wrap_cb_tags b t : gz_shape b ->
  In t (fst (flatten (wrap_cb b))) -> t = TCallback \/ In t (fst (flatten b)).
Proof.
  intros [Hg He]. destruct b as [[|t0 i]|].
  - cbn. intros [H|[]]; auto.
  - destruct t0.
    2:{ destruct (Hg i eq_refl) as [x ->]. cbn [wrap_cb]. rewrite !flatten_wrap. cbn [fst In].
        intros [H|[H|[H|H]]]; auto. }
    2:{ cbn [wrap_cb]. rewrite !flatten_wrap. cbn [fst In]. intros [H|[H|H]]; auto. }
    2:{ destruct (He i eq_refl) as (e & x & ->). cbn [wrap_cb]. rewrite !flatten_wrap. cbn [fst In].
        intros [H|[H|[H|H]]]; auto. }
    all: cbn [wrap_cb]; rewrite (flatten_wrap TCallback); cbn [fst In]; intros [H|H]; auto.
  - cbn. intros [H|[]]; auto.
Qed.

Theorem dump_outermost st c p g ce ct o :
  exists rest, fst (flatten (pipeline st c p g ce ct o)) = repeat TDump (p_dumpers p) ++ rest /\
               ~ In TDump rest.
Proof.
  unfold pipeline, handle_response_body. rewrite dump_stage_flatten. cbn [fst].
  eexists; split; [reflexivity|].
  set (b0 := transport_body st c ce).
  assert (H0 : ~ In TDump (fst (flatten b0))).
  { unfold b0. rewrite <- transport_body_core. unfold core. cbn [fst]. intros Hin.
    apply filter_In in Hin as [_ Hin]. discriminate. }
  assert (H1 : ~ In TDump (fst (flatten (if p_callback p then wrap_cb b0 else b0)))).
  { destruct (p_callback p); [|assumption]. intros Hin.
    apply wrap_cb_tags in Hin as [Hin|Hin]; [discriminate|auto|apply transport_body_shape]. }
  destruct (decode_decision _ _ _ _); cbn [decode_stage]; rewrite ?flatten_wrap; cbn [fst In]; try assumption;
    intros [H|H]; try discriminate; auto.
Qed.

(* ---------- the decision ---------- *)

Theorem decode_off_when_disabled d g ct o : d_disable d = true -> decode_decision d g ct o = DNone.
Proof. intros H. unfold decode_decision. now rewrite H. Qed.

Theorem decode_off_for_utf8 d g ct o cs :
  o_parse_err o = false -> o_charset o = Some cs ->
  contains_sub (bs "utf-8") (to_lower cs) || contains_sub (bs "utf8") (to_lower cs) = true ->
  decode_decision d g ct o = DNone.
Proof.
  intros H1 H2 H3. unfold decode_decision. rewrite H1, H2. cbv zeta. rewrite H3.
  repeat (match goal with |- context [if ?x then _ else _] => destruct x end); reflexivity.
Qed.

Theorem decode_off_for_unknown_charset d g ct o cs :
  o_parse_err o = false -> o_charset o = Some cs -> o_known o = false ->
  decode_decision d g ct o = DNone.
Proof.
  intros H1 H2 H3. unfold decode_decision. rewrite H1, H2, H3. cbv zeta.
  repeat (match goal with |- context [if ?x then _ else _] => destruct x end); reflexivity.
Qed.

(* ---------- the pinned code ---------- *)

Definition cfg_auto : tcfg := {| t_head := false; t_wire_cl := 17; t_ended := false; t_asked := false; t_auto := true |}.
Definition cfg_plain : pcfg :=
  {| p_callback := false; p_decode := {| d_disable := false; d_custom := None |}; p_dumpers := 0 |}.
Definition o_none : ct_oracle := {| o_parse_err := false; o_charset := None; o_known := false |}.

(* Content-Encoding: identity under AutoDecompression: the pinned code stored nil as the body
   on all three stacks, and for a text type the charset sniffer wrapped the nil *)
Theorem pinned_refuted :
  sound (pipeline_pinned H1 cfg_auto cfg_plain [] (bs "identity") (bs "text/plain") o_none) = false /\
  sound (pipeline_pinned H2 cfg_auto cfg_plain [] (bs "identity") (bs "text/plain") o_none) = false /\
  sound (pipeline_pinned H3 cfg_auto cfg_plain [] (bs "identity") (bs "text/plain") o_none) = false /\
  flatten (pipeline_pinned H1 cfg_auto cfg_plain [] (bs "identity") (bs "text/plain") o_none) = ([TAutoDecode], true) /\
  flatten (pipeline H1 cfg_auto cfg_plain [] (bs "identity") (bs "text/plain") o_none) = ([TAutoDecode; TEofSignal], false).
Proof. vm_compute. repeat split. Qed.

(* a non-empty guard header value switches the decoder stage off *)
Theorem decode_off_when_guarded d g ct o : g <> [] -> decode_decision d g ct o = DNone.
Proof. intros H. unfold decode_decision. destruct g; [contradiction|]. cbn. now rewrite Bool.orb_true_r. Qed.

(* ---------- the first Read (endChecked puts a trackedBody under its decoder) ---------- *)

Lemma layer_ind2 (P : layer -> Prop) :
  P Base -> (forall t, P (Wrap t None)) -> (forall t l, P l -> P (Wrap t (Some l))) -> forall l, P l.
Proof.
  intros HB HN HS. fix IH 1. intros l. destruct l as [|t [l'|]]; [exact HB| |exact (HN t)].
  apply HS. apply IH.
Qed.

Lemma first_read_layer_sound : forall l, sound_layer l = true -> sound_layer (first_read_layer l) = true.
Proof.
  induction l as [|t|t l IH] using layer_ind2; [reflexivity|destruct t; cbn; auto|].
  intros H. cbn [sound_layer] in H.
  destruct t; try (cbn [first_read_layer sound_layer]; exact (IH H)).
  destruct l as [|t' [l''|]].
  - reflexivity.
  - destruct t'; cbn [first_read_layer sound_layer]; exact (IH H).
  - cbn in H. discriminate.
Qed.

(* reading does not make a reader nil: the stack is sound before and after the first Read *)
Theorem stages_never_nil_reading st c p g ce ct o :
  sound (after_first_read (pipeline st c p g ce ct o)) = true.
Proof.
  pose proof (stages_never_nil st c p g ce ct o) as H.
  destruct (pipeline st c p g ce ct o) as [l|]; [|discriminate]. cbn in *. now apply first_read_layer_sound.
Qed.

Definition not_tracked (t : ltag) : bool := match t with TTracked => false | _ => true end.

Lemma flatten_layer_wrap t l :
  flatten_layer (Wrap t (Some l)) = (t :: fst (flatten_layer l), snd (flatten_layer l)).
Proof. cbn. now destruct (flatten_layer l). Qed.

Lemma first_read_layer_tags : forall l,
  filter not_tracked (fst (flatten_layer (first_read_layer l))) = filter not_tracked (fst (flatten_layer l)) /\
  snd (flatten_layer (first_read_layer l)) = snd (flatten_layer l).
Proof.
  induction l as [|t|t l [IH1 IH2]] using layer_ind2; [split; reflexivity|destruct t; split; reflexivity|].
  assert (Hgen : first_read_layer (Wrap t (Some l)) = Wrap t (Some (first_read_layer l)) ->
     filter not_tracked (fst (flatten_layer (first_read_layer (Wrap t (Some l))))) =
       filter not_tracked (fst (flatten_layer (Wrap t (Some l)))) /\
     snd (flatten_layer (first_read_layer (Wrap t (Some l)))) = snd (flatten_layer (Wrap t (Some l)))).
  { intros E. rewrite E, !flatten_layer_wrap. cbn [fst snd filter]. rewrite IH1, IH2. split; reflexivity. }
  destruct t; try (apply Hgen; reflexivity).
  destruct l as [|t' [l''|]]; try (apply Hgen; reflexivity).
  - destruct t'; try (apply Hgen; reflexivity).
    (* endChecked over a decoder: a trackedBody appears under the decoder *)
    cbn [first_read_layer] in *. rewrite !flatten_layer_wrap in *. cbn [fst snd filter not_tracked] in *.
    split; [now rewrite IH1|exact IH2].
  - destruct t'; try (apply Hgen; reflexivity). split; reflexivity.
Qed.

(* ... and the first Read only adds trackedBody layers: everything else stays, in order *)
Theorem first_read_only_adds_tracked b :
  filter not_tracked (fst (flatten (after_first_read b))) = filter not_tracked (fst (flatten b)) /\
  snd (flatten (after_first_read b)) = snd (flatten b).
Proof. destruct b as [l|]; [apply first_read_layer_tags|split; reflexivity]. Qed.
