(* Proofs/C07Misc.v - C07: constants regenerated from the source, digest challenge parser
   error classes and bounds, HTTP/2 frame reader limits (models of C20 and C05 reused) *)
From ReqV Require Import Lib.Bytes Model.BodyStages Model.H1Limits Model.H2Frame.
From ReqV Require Model.Digest.
From ReqV Require Gen.C07Consts.
From Coq Require Import Lia ZifyBool ZifyNat ZifyN.

(* the limits and the text-type table the models use are the ones in the source *)
Theorem c07_consts_agree :
  N.of_nat max_1xx_responses = Gen.C07Consts.fork_max_1xx_h1 /\
  Gen.C07Consts.fork_max_1xx_h2 = Gen.C07Consts.fork_max_1xx_h1 /\
  Gen.C07Consts.fork_max_1xx_h3 = Gen.C07Consts.fork_max_1xx_h1 /\
  text_markers = Gen.C07Consts.fork_text_content_types /\
  Gen.C07Consts.fork_default_max_header_h1 = 10485760%N /\
  Gen.C07Consts.fork_default_max_header_h3 = 10485760%N /\
  Gen.C07Consts.fork_h3_settings_cap = 8192%N /\
  (Gen.C07Consts.fork_autodecode_guard_header = bs "Accept-Encoding" \/
   Gen.C07Consts.fork_autodecode_guard_header = bs "Content-Encoding").
Proof.
  repeat split; try reflexivity.
  (* the guard of autoDecodeResponseBody is one of the two headers the model knows how to evaluate *)
  vm_compute. first [left; reflexivity | right; reflexivity].
Qed.

(* ---------- digest challenge (Model/Digest.v, C20) ---------- *)
Import Digest.

Lemma set_param_errors c k v :
  match set_param c k v with inl _ => True | inr e => e = EBadChallenge \/ e = ECharset end.
Proof.
  unfold set_param, set_param_with. destruct c.
  repeat (match goal with |- context [if ?x then _ else _] => destruct x end); auto.
Qed.

Lemma parse_params_errors : forall ps c,
  match parse_params c ps with inl _ => True | inr e => e = EBadChallenge \/ e = ECharset end.
Proof.
  induction ps as [|p r IH]; intros c; cbn [parse_params]; [exact I|].
  unfold parse_param. destruct (cut_eq (trim_space p)) as [[k v]|]; [|auto].
  pose proof (set_param_errors c k v) as H. destruct (set_param c k v) as [c'|e]; [apply IH|exact H].
Qed.

(* every WWW-Authenticate text is either parsed into a challenge or rejected with one of the
   two parse errors - the function is total by construction (structural recursion, no fuel) *)
Theorem parse_challenge_total input :
  match parse_challenge input with inl _ => True | inr e => e = EBadChallenge \/ e = ECharset end.
Proof.
  unfold parse_challenge, parse_challenge_with.
  destruct (has_prefix _ _); [apply parse_params_errors|auto].
Qed.

Lemma split_params_go_count : forall s inq esc cur,
  (length (split_params_go inq esc cur s) <= S (length s))%nat.
Proof.
  induction s as [|b r IH]; intros inq esc cur; cbn [split_params_go length]; [lia|].
  destruct esc; [specialize (IH inq false (b :: cur)); lia|].
  destruct (inq && beqb b bslash); [specialize (IH inq true (b :: cur)); lia|].
  destruct (beqb b dquote); [specialize (IH (negb inq) false (b :: cur)); lia|].
  destruct (beqb b comma && negb inq); cbn [length].
  - specialize (IH inq false []). lia.
  - specialize (IH inq false (b :: cur)). lia.
Qed.

(* the parameter list is never longer than the text *)
Theorem challenge_params_bounded s : (length (split_params s) <= S (length s))%nat.
Proof. apply split_params_go_count. Qed.

(* ---------- HTTP/2 frame reader limits (Model/H2Frame.v, C05) ---------- *)

(* a frame longer than maxReadSize is refused on its header alone: the payload is not read *)
Theorem h2_frame_too_large st input :
  (frameHeaderLen <=? lenN input)%N = true ->
  (rs_max st <? fh_len (h2_read_header (firstn 9 input)))%N = true ->
  read_frame st input = (Err EFrameTooLarge, skipn 9 input, st).
Proof.
  intros Hl Hm. unfold read_frame. destruct input as [|x r]; [cbn in Hl; discriminate|].
  replace (lenN (x :: r) <? frameHeaderLen)%N with false by lia.
  now rewrite Hm.
Qed.

(* an accepted frame consumed its 9-byte header and at most maxReadSize bytes of payload *)
Theorem h2_frame_within_limit st input f rest st' :
  read_frame st input = (Ok f, rest, st') ->
  (N.of_nat (length input - length rest) <= 9 + rs_max st)%N.
Proof.
  unfold read_frame. destruct input as [|x r]; [discriminate|].
  remember (x :: r) as inp eqn:Hin. clear Hin x r.
  destruct (lenN inp <? frameHeaderLen)%N eqn:E0; [discriminate|].
  set (h := h2_read_header (firstn 9 inp)). clearbody h.
  assert (Hl : (length (skipn 9 inp) = length inp - 9)%nat) by apply skipn_length.
  remember (skipn 9 inp) as r1 eqn:Hr1. clear Hr1.
  destruct (rs_max st <? fh_len h)%N eqn:E1; [discriminate|].
  destruct (lenN r1 <? fh_len h)%N eqn:E2; [discriminate|].
  destruct (parse_frame h _) as [fr|e]; [|discriminate].
  destruct (check_order (rs_last st) h); [|discriminate].
  intros H. injection H as _ Hr _. subst rest.
  rewrite skipn_length. unfold lenN, frameHeaderLen in *. lia.
Qed.
