(* Proofs/H1LimitsProofs.v - lemmas about Model/H1Limits.v (C07) *)
From ReqV Require Import Lib.Bytes Lib.BytesFacts Model.H1Resp Model.H1Limits Proofs.H1RespProofs.
From Coq Require Import Lia ZifyBool ZifyNat ZifyN.

(* ---------- totality: no out-of-fuel result anywhere ---------- *)

Lemma read_response_head_no_fuel meth bufsize s :
  read_response_head meth bufsize s <> inl HOutOfFuel.
Proof.
  pose proof (parse_response_total meth bufsize s) as H. unfold parse_response in H.
  destruct (read_response_head meth bufsize s) as [e|[r rest]]; [|discriminate].
  intros E. inversion E; subst. now apply H.
Qed.

Lemma read_body_no_fuel bufsize r s : b_end (read_body bufsize r s) <> BOutOfFuel.
Proof.
  unfold read_body. destruct (r_framing r); cbn [b_end]; try discriminate.
  - unfold dechunk_all. pose proof (dechunk_fuel_suffices (S (length s)) bufsize 0 s ltac:(lia)) as Hd.
    destruct (dechunk (S (length s)) bufsize 0 s) as [d [rest|e]]; cbn [snd] in Hd.
    + unfold read_trailer. destruct rest as [|c1 [|c2 rest']]; cbn [b_end]; try discriminate.
      destruct (beqb c1 CR && beqb c2 LF); [cbn; discriminate|].
      destruct (negb _); [cbn; discriminate|].
      destruct (read_mime_header bufsize (c1 :: c2 :: rest')) as [e|[t r']] eqn:Et; [|cbn; discriminate].
      destruct e; cbn [b_end]; try discriminate. now apply read_mime_header_total in Et.
    + cbn [b_end]. congruence.
  - destruct (Z.ltb _ _); cbn; discriminate.
Qed.

Lemma limited_head_no_fuel meth bufsize v s : limited_head meth bufsize v s <> inl HOutOfFuel.
Proof.
  unfold limited_head. destruct (read_response_head meth bufsize (firstn v s)) as [e|[r rest]] eqn:E; [|discriminate].
  intros H. inversion H; subst. now apply read_response_head_no_fuel in E.
Qed.

Lemma read_loop_no_fuel : forall budget meth bufsize v n s k,
  read_loop budget meth bufsize v n s <> CallErr k HOutOfFuel.
Proof.
  induction budget as [|b IH]; intros meth bufsize v n s k; cbn [read_loop];
    destruct (limited_head meth bufsize v s) as [e|[r rest]] eqn:E.
  - intros H. inversion H; subst. now apply limited_head_no_fuel in E.
  - destruct (is_1xx_nonterminal (r_code r)); discriminate.
  - intros H. inversion H; subst. now apply limited_head_no_fuel in E.
  - destruct (is_1xx_nonterminal (r_code r)); [apply IH|discriminate].
Qed.

(* every server byte stream, method, buffer size and header budget: the modelled call ends in a
   response or an error, never in the model's out-of-fuel artefact (head loop and body) *)
Theorem h1_call_total meth bufsize v s :
  match read_call meth bufsize v s with
  | CallErr _ e => e <> HOutOfFuel
  | CallTooMany1xx => True
  | CallResp _ r rest => b_end (read_body bufsize r rest) <> BOutOfFuel
  end.
Proof.
  destruct (read_call meth bufsize v s) as [k e| |k r rest] eqn:E; [|exact I|apply read_body_no_fuel].
  intros ->. unfold read_call in E. now apply read_loop_no_fuel in E.
Qed.

(* ---------- informational responses ---------- *)

Lemma read_loop_count : forall budget meth bufsize v n s,
  match read_loop budget meth bufsize v n s with
  | CallErr k _ => k <= n + budget
  | CallTooMany1xx => True
  | CallResp k _ _ => k <= n + budget
  end.
Proof.
  induction budget as [|b IH]; intros meth bufsize v n s; cbn [read_loop];
    destruct (limited_head meth bufsize v s) as [e|[r rest]]; try lia.
  - destruct (is_1xx_nonterminal (r_code r)); [exact I|lia].
  - destruct (is_1xx_nonterminal (r_code r)); [|lia].
    specialize (IH meth bufsize v (S n) rest). destruct (read_loop b meth bufsize v (S n) rest); try exact I; lia.
Qed.

(* at most five informational responses precede whatever the call ends with *)
Theorem at_most_5_informational meth bufsize v s :
  match read_call meth bufsize v s with
  | CallErr k _ => k <= 5
  | CallTooMany1xx => True
  | CallResp k _ _ => k <= 5
  end.
Proof. exact (read_loop_count max_1xx_responses meth bufsize v 0 s). Qed.

(* a head that stands alone, is informational and not 101 *)
Definition info_head (meth : bytes) (bufsize : nat) (h : bytes) : Prop :=
  exists r, read_response_head meth bufsize h = inr (r, []) /\ is_1xx_nonterminal (r_code r) = true.

Lemma firstn_app_ge {A} (a b : list A) v : length a <= v ->
  firstn v (a ++ b) = a ++ firstn (v - length a) b.
Proof. intros H. rewrite firstn_app. rewrite firstn_all2 by lia. reflexivity. Qed.

Lemma skipn_app_ge {A} (a b : list A) v : length a <= v ->
  skipn v (a ++ b) = skipn (v - length a) b.
Proof. intros H. rewrite skipn_app. rewrite skipn_all2 by lia. reflexivity. Qed.

Lemma limited_head_alone meth bufsize v h r t :
  read_response_head meth bufsize h = inr (r, []) -> length h <= v ->
  limited_head meth bufsize v (h ++ t) = inr (r, t).
Proof.
  intros Hh Hv. unfold limited_head. rewrite firstn_app_ge by assumption.
  rewrite (read_response_head_stable _ _ _ _ _ (firstn (v - length h) t) Hh).
  cbn [app]. rewrite skipn_app_ge by assumption. now rewrite firstn_skipn.
Qed.

Lemma read_loop_info_heads : forall hs budget meth bufsize v n t,
  Forall (fun h => info_head meth bufsize h /\ length h <= v) hs ->
  length hs = S budget ->
  read_loop budget meth bufsize v n (concat hs ++ t) = CallTooMany1xx.
Proof.
  induction hs as [|h hs IH]; intros budget meth bufsize v n t HF Hl; [discriminate|].
  inversion HF as [|? ? [[r [Hh Hi]] Hv] HF']; subst.
  cbn [concat]. rewrite <- app_assoc.
  destruct budget as [|b]; cbn [read_loop]; rewrite (limited_head_alone _ _ _ _ _ _ Hh Hv), Hi.
  - reflexivity.
  - apply IH; [assumption|]. cbn in Hl. lia.
Qed.

(* six informational responses in a row end the call with the "too many 1xx" error, whatever
   follows them *)
Theorem sixth_informational_rejected meth bufsize v hs t :
  Forall (fun h => info_head meth bufsize h /\ length h <= v) hs -> length hs = 6 ->
  read_call meth bufsize v (concat hs ++ t) = CallTooMany1xx.
Proof. intros HF Hl. unfold read_call. now apply read_loop_info_heads. Qed.

(* ---------- the header budget ---------- *)

(* a head accepted under the budget is the head the unlimited reader accepts, it leaves the same
   rest of the stream, and it lies within the visible bytes *)
Theorem header_budget_respected meth bufsize v s r rest :
  limited_head meth bufsize v s = inr (r, rest) ->
  read_response_head meth bufsize s = inr (r, rest) /\ length s - length rest <= v.
Proof.
  unfold limited_head. destruct (read_response_head meth bufsize (firstn v s)) as [e|[r0 rest0]] eqn:E; [discriminate|].
  intros H. inversion H; subst. split.
  - rewrite <- (firstn_skipn v s) at 1. now apply read_response_head_stable.
  - rewrite app_length. pose proof (firstn_length v s). pose proof (skipn_length v s).
    assert (length rest0 <= length (firstn v s)).
    { clear H. unfold read_response_head in E.
      destruct (read_line bufsize (firstn v s)) as [[line s1]|] eqn:El; [|discriminate].
      apply read_line_shorter in El.
      destruct (parse_status_line line); [discriminate|].
      destruct (read_mime_header bufsize s1) as [e|[h s2]] eqn:Em; [discriminate|].
      destruct (read_transfer meth s0 _); [discriminate|]. inversion E; subst.
      enough (length rest0 <= length s1) by lia.
      clear - Em. unfold read_mime_header in Em.
      assert (Hm : forall f m s m' r', mime_loop f bufsize m s = inr (m', r') -> length r' <= length s).
      { induction f as [|f IH]; intros m s m' r' H; cbn [mime_loop] in H; [discriminate|].
        destruct (read_line bufsize s) as [[line r]|] eqn:El; [|discriminate].
        apply read_line_shorter in El.
        destruct (is_nil line); [inversion H; subst; lia|].
        destruct (negb _); [discriminate|].
        destruct (cont_lines_fuel bufsize (S (length r)) (trim_sp_tab line) r ltac:(lia)) as (kv & r1 & Ec & Hr).
        rewrite Ec in H.
        destruct (cut_byte COLON kv) as [[k v0]|]; [|discriminate].
        destruct (canonical_key k); [|discriminate].
        destruct (forallb valid_value_byte v0); [|discriminate].
        apply IH in H. lia. }
      destruct s1 as [|x s1']; [now apply Hm in Em|].
      destruct (is_sp_tab x); [|now apply Hm in Em].
      destruct (read_line bufsize (x :: s1')); [discriminate|]. destruct (_ <=? 80); discriminate. }
    lia.
Qed.

Lemma skipn_add {A} : forall a b (l : list A), skipn (a + b) l = skipn b (skipn a l).
Proof.
  induction a as [|a IH]; intros b l; [reflexivity|].
  destruct l as [|x l]; cbn [Nat.add skipn]; [now rewrite skipn_nil|apply IH].
Qed.

(* more visible bytes never turn an accepted head into something else *)
Theorem budget_monotone meth bufsize v v' s x :
  limited_head meth bufsize v s = inr x -> v <= v' -> limited_head meth bufsize v' s = inr x.
Proof.
  intros H Hv. destruct x as [r rest].
  unfold limited_head in *.
  destruct (read_response_head meth bufsize (firstn v s)) as [e|[r0 rest0]] eqn:E; [discriminate|].
  inversion H; subst. clear H.
  assert (Hf : firstn v' s = firstn v s ++ firstn (v' - v) (skipn v s)).
  { rewrite <- (firstn_skipn v s) at 1.
    destruct (Nat.le_gt_cases (length s) v) as [Hl|Hl].
    - rewrite skipn_all2 by lia. rewrite app_nil_r. cbn. rewrite firstn_nil, app_nil_r.
      rewrite firstn_all2; [reflexivity|]. rewrite firstn_length. lia.
    - rewrite firstn_app_ge by (rewrite firstn_length; lia). rewrite firstn_length.
      replace (Nat.min v (length s)) with v by lia. reflexivity. }
  rewrite Hf. rewrite (read_response_head_stable _ _ _ _ _ _ E). rewrite <- app_assoc. do 3 f_equal.
  replace v' with (v + (v' - v)) at 2 by lia. rewrite skipn_add.
  now rewrite firstn_skipn.
Qed.

(* a head that needs more than the visible bytes is an error *)
Theorem header_over_budget_rejected meth bufsize v s r rest :
  read_response_head meth bufsize s = inr (r, rest) -> v < length s - length rest ->
  exists e, limited_head meth bufsize v s = inl e.
Proof.
  intros H Hv. destruct (limited_head meth bufsize v s) as [e|[r' rest']] eqn:E; [eauto|].
  apply header_budget_respected in E as [E Hl]. rewrite H in E. inversion E; subst. lia.
Qed.

Lemma read_loop_monotone : forall budget meth bufsize v v' n s k r rest,
  read_loop budget meth bufsize v n s = CallResp k r rest -> v <= v' ->
  read_loop budget meth bufsize v' n s = CallResp k r rest.
Proof.
  induction budget as [|b IH]; intros meth bufsize v v' n s k r rest H Hv; cbn [read_loop] in *;
    destruct (limited_head meth bufsize v s) as [e|[r0 rest0]] eqn:E; try discriminate;
    rewrite (budget_monotone _ _ _ _ _ _ E Hv);
    destruct (is_1xx_nonterminal (r_code r0)); try discriminate; try assumption.
  eapply IH; eauto.
Qed.

(* ... hence a whole call that ends in a response under a budget ends in the same response
   under every larger one (bytes already sitting in the read buffer only help) *)
Theorem call_monotone meth bufsize v v' s k r rest :
  read_call meth bufsize v s = CallResp k r rest -> v <= v' ->
  read_call meth bufsize v' s = CallResp k r rest.
Proof. unfold read_call. apply read_loop_monotone. Qed.

(* the two-budget form used by the correspondence check is the same function *)
Theorem read_call2_same meth bufsize v s : read_call2 meth bufsize v v s = read_call meth bufsize v s.
Proof. reflexivity. Qed.

Theorem run_exchange2_same meth bufsize v s : run_exchange2 meth bufsize v v s = run_exchange meth bufsize v s.
Proof. reflexivity. Qed.
