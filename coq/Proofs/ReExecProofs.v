(* Proofs/ReExecProofs.v - C19: a Request object executed again (Model/ReExec.v). *)
From Coq Require Import List Arith Bool Lia.
From ReqV Require Import Model.ReExec.
Import ListNotations.

Lemma leqb_refl l : leqb l l = true.
Proof. induction l; simpl; auto. now rewrite Nat.eqb_refl. Qed.

Lemma firstn_app_exact {A} (l r : list A) : firstn (length l) (l ++ r) = l.
Proof. rewrite firstn_app, Nat.sub_diag, firstn_all. simpl. now rewrite app_nil_r. Qed.
Lemma skipn_app_exact {A} (l r : list A) : skipn (length l) (l ++ r) = r.
Proof. rewrite skipn_app, Nat.sub_diag, skipn_all. reflexivity. Qed.

(* ---------- the cookie component ---------- *)
(* u = the request-level cookies: what SetCookies alone has put into the request *)
Definition ck_inv (r : rq) (u : list nat) : Prop :=
  match m_cookies (q_merged r) with
  | [] => q_cookies r = u
  | mc => exists pre post, q_cookies r = pre ++ mc ++ post /\ m_cookies_at (q_merged r) = length pre /\ u = pre ++ post
  end.

Lemma unmerge_cookies_inv r u : ck_inv r u -> unmerge_cookies (q_merged r) (q_cookies r) = u.
Proof.
  unfold ck_inv, unmerge_cookies. destruct (m_cookies (q_merged r)) as [|x mc] eqn:E; auto.
  intros (pre & post & Eq & At & Eu). rewrite Eq, At, Eu.
  set (m := x :: mc) in *.
  assert (L : (length pre + length m <=? length (pre ++ m ++ post)) = true).
  { apply Nat.leb_le. rewrite !app_length. lia. }
  rewrite L, skipn_app_exact, firstn_app_exact, leqb_refl. simpl andb. cbv iota.
  unfold splice. rewrite firstn_app_exact.
  replace (length pre + length m) with (length (pre ++ m)) by (rewrite app_length; lia).
  rewrite app_assoc, skipn_app_exact. reflexivity.
Qed.

Definition user_cookies (h : list hstep) : list nat := q_cookies (fresh_with h).

Lemma uapply_cookies r u : q_cookies (uapply r u) = match u with UAddCookie ck => q_cookies r ++ [ck] | _ => q_cookies r end.
Proof. destruct u; try reflexivity; simpl; destruct (rget k (q_form r)); reflexivity. Qed.
Lemma uapply_merged r u : q_merged (uapply r u) = q_merged r.
Proof. destruct u; try reflexivity; simpl; destruct (rget k (q_form r)); reflexivity. Qed.
Lemma uapply_attempt r u : q_attempt (uapply r u) = q_attempt r.
Proof. destruct u; try reflexivity; simpl; destruct (rget k (q_form r)); reflexivity. Qed.

Definition ucookies (u : list nat) (x : uop) : list nat := match x with UAddCookie ck => u ++ [ck] | _ => u end.

Lemma ck_inv_uapply r u x : ck_inv r u -> ck_inv (uapply r x) (ucookies u x).
Proof.
  unfold ck_inv. rewrite uapply_merged, uapply_cookies.
  destruct (m_cookies (q_merged r)) as [|m0 mc].
  - intros ->. destruct x; reflexivity.
  - intros (pre & post & Eq & At & Eu). destruct x; simpl.
    + exists pre, post; auto.
    + exists pre, (post ++ [ck]). split; [|split]; [|exact At|].
      * rewrite Eq. now rewrite <- !app_assoc.
      * rewrite Eu. now rewrite <- !app_assoc.
    + exists pre, post; auto.
    + exists pre, post; auto.
Qed.

(* one attempt on the cookie component *)
Lemma attempt_cookies c r :
  q_cookies (attempt c r) = (match c_cookies c with [] => q_cookies r | _ => if q_attempt r =? 0 then q_cookies r ++ c_cookies c else q_cookies r end) /\
  q_attempt (attempt c r) = q_attempt r /\
  m_cookies (q_merged (attempt c r)) = (match c_cookies c with [] => m_cookies (q_merged r) | _ => if q_attempt r =? 0 then c_cookies c else m_cookies (q_merged r) end) /\
  m_cookies_at (q_merged (attempt c r)) = (match c_cookies c with [] => m_cookies_at (q_merged r) | _ => if q_attempt r =? 0 then length (q_cookies r) else m_cookies_at (q_merged r) end).
Proof.
  unfold attempt.
  destruct (if q_attempt r =? 0 then fold_left merge_header (c_headers c) (q_headers r, m_headers (q_merged r), q_next r)
            else (q_headers r, m_headers (q_merged r), q_next r)) as [[hs rec] nx].
  match goal with |- context [let '(_, _) := ?x in _] => destruct x as [f' nx'] end.
  destruct (c_cookies c); simpl; auto; destruct (q_attempt r =? 0); auto.
Qed.

(* the cookie component of a request *)
Definition ckc (r : rq) := (q_cookies r, m_cookies (q_merged r), m_cookies_at (q_merged r)).

Lemma attempt_later c r : 0 < q_attempt r -> ckc (attempt c r) = ckc r /\ q_attempt (attempt c r) = q_attempt r.
Proof.
  intros Hp. destruct (attempt_cookies c r) as (A & B & C & D).
  assert (E : (q_attempt r =? 0) = false) by (apply Nat.eqb_neq; lia). rewrite E in *.
  unfold ckc. rewrite A, C, D. destruct (c_cookies c); auto.
Qed.

(* after the first attempt of an execution the later attempts do not touch the cookies *)
Lemma attempts_later c b : forall f fuel r, 0 < q_attempt r ->
  ckc (fst (attempts c b f r fuel)) = ckc r /\
  Forall (fun s => snd (fst s) = q_cookies r) (snd (attempts c b f r fuel)).
Proof.
  induction f as [|f IH]; intros fuel r Hp; destruct (attempt_later c r Hp) as [K Q];
    assert (KC : q_cookies (attempt c r) = q_cookies r) by (unfold ckc in K; congruence).
  - assert (E : attempts c b 0 r fuel = (attempt c r, [sent (attempt c r)])) by (destruct fuel; reflexivity).
    rewrite E. simpl. split; auto.
  - destruct fuel as [|fuel]; cbn [attempts].
    + simpl. split; auto.
    + destruct (b <=? q_attempt (attempt c r)).
      * simpl. split; auto.
      * destruct (IH fuel (bump (attempt c r))) as (I1 & I2); [simpl; lia|].
        destruct (attempts c b f (bump (attempt c r)) fuel) as [r2 l]. simpl in *.
        split; [rewrite I1; exact K|]. constructor; [exact KC|]. rewrite KC in I2. exact I2.
Qed.

(* the number of attempts of an execution does not depend on the request's history *)
Lemma attempts_count c b : forall f fuel r, f < fuel ->
  length (snd (attempts c b f r fuel)) = S (Nat.min f (b - q_attempt r)).
Proof.
  induction f as [|f IH]; intros fuel r Hf.
  - destruct fuel; reflexivity.
  - destruct fuel as [|fuel]; [lia|]. cbn [attempts].
    assert (Q : q_attempt (attempt c r) = q_attempt r) by apply attempt_cookies.
    rewrite Q. destruct (Nat.leb_spec b (q_attempt r)).
    + simpl. replace (b - q_attempt r) with 0 by lia. reflexivity.
    + specialize (IH fuel (bump (attempt c r))). destruct (attempts c b f (bump (attempt c r)) fuel) as [r2 l].
      cbn [snd length] in *. rewrite IH by lia. cbn [bump q_attempt]. rewrite Q. lia.
Qed.

Lemma unmerge_good r u : ck_inv r u ->
  q_cookies (unmerge good_prologue r) = u /\ q_attempt (unmerge good_prologue r) = 0 /\
  m_cookies (q_merged (unmerge good_prologue r)) = [].
Proof. intros I. unfold unmerge; simpl. rewrite (unmerge_cookies_inv r u I). auto. Qed.

Lemma ck_inv_of r u mc at_ pre post :
  m_cookies (q_merged r) = mc -> mc <> [] -> q_cookies r = pre ++ mc ++ post -> m_cookies_at (q_merged r) = at_ ->
  at_ = length pre -> u = pre ++ post -> ck_inv r u.
Proof. intros E N Q A L U. unfold ck_inv. rewrite E. destruct mc; [congruence|]. exists pre, post. subst; auto. Qed.

Lemma ck_inv_ckc r r' u : ckc r' = ckc r -> ck_inv r u -> ck_inv r' u.
Proof. unfold ckc, ck_inv. intros E. inversion E as [[E1 E2 E3]]. now rewrite E1, E2, E3. Qed.

(* one execution: every attempt carries the request-level cookies, then the client's, once;
   afterwards the request-level cookies are still recoverable *)
Lemma exec_cookies c b f r u : ck_inv r u ->
  ck_inv (fst (rexec good_prologue c b f r)) u /\
  Forall (fun s => snd (fst s) = u ++ c_cookies c) (snd (rexec good_prologue c b f r)).
Proof.
  intros I. destruct (unmerge_good r u I) as (U1 & U2 & U3). unfold rexec.
  remember (unmerge good_prologue r) as r0 eqn:Er0. clear Er0.
  destruct (attempt_cookies c r0) as (A & B & C & D). rewrite U2 in A, B, C, D. simpl in A, C, D.
  assert (S1 : q_cookies (attempt c r0) = u ++ c_cookies c).
  { rewrite A, U1. destruct (c_cookies c); auto. now rewrite app_nil_r. }
  assert (I1 : ck_inv (attempt c r0) u).
  { destruct (c_cookies c) as [|x cc] eqn:Ec.
    - unfold ck_inv. rewrite C, U3. rewrite A. exact U1.
    - simpl in A, C, D. apply (ck_inv_of (attempt c r0) u (x :: cc) (length u) u []).
      + exact C.
      + discriminate.
      + rewrite A, U1. now rewrite app_nil_r.
      + rewrite D, U1. reflexivity.
      + reflexivity.
      + now rewrite app_nil_r. }
  destruct f as [|f]; cbn [attempts].
  - simpl. split; auto.
  - destruct (b <=? q_attempt (attempt c r0)).
    + simpl. split; auto.
    + destruct (attempts_later c b f (S f) (bump (attempt c r0))) as (L1 & L2); [simpl; lia|].
      destruct (attempts c b f (bump (attempt c r0)) (S f)) as [r2 l]. simpl in *.
      split.
      * apply (ck_inv_ckc (attempt c r0)); auto.
      * constructor; [exact S1|]. rewrite S1 in L2. exact L2.
Qed.

Definition ucookies_all (ops : list uop) (u : list nat) : list nat := fold_left ucookies ops u.

Lemma fresh_cookies ops : forall r, q_cookies (fold_left uapply ops r) = ucookies_all ops (q_cookies r).
Proof.
  induction ops as [|x ops IH]; intros r; simpl; auto. rewrite IH. unfold ucookies_all. simpl. f_equal.
  rewrite uapply_cookies. destruct x; reflexivity.
Qed.

Lemma hrun_cookies h : forall r u, ck_inv r u -> ck_inv (hrun good_prologue h r) (ucookies_all (user_ops h) u).
Proof.
  induction h as [|s h IH]; intros r u I; simpl; auto.
  destruct s as [x|c b f]; simpl.
  - apply IH. now apply ck_inv_uapply.
  - apply IH. now apply exec_cookies.
Qed.

Lemma ck_inv_rq0 : ck_inv rq0 [].
Proof. reflexivity. Qed.

(* FOR EVERY HISTORY of one Request object (request-level setters, executions under any client
   settings with any number of retried attempts): every attempt of the next execution carries exactly
   the request-level cookies followed by the client's cookies of that moment, once *)
Theorem reexec_cookies_every_attempt h c b f :
  Forall (fun s => snd (fst s) = q_cookies (fresh_with h) ++ c_cookies c)
         (snd (rexec good_prologue c b f (hrun good_prologue h rq0))).
Proof.
  unfold fresh_with. rewrite fresh_cookies. simpl.
  apply exec_cookies. apply (hrun_cookies h rq0 [] ck_inv_rq0).
Qed.

(* ... and the retry budget is the request's own again: the number of attempts depends only on the
   budget and on how often the origin fails *)
Theorem reexec_attempts h c b f :
  length (snd (rexec good_prologue c b f (hrun good_prologue h rq0))) = S (Nat.min f b).
Proof.
  unfold rexec. rewrite attempts_count by lia.
  destruct (unmerge_good _ _ (hrun_cookies h rq0 [] ck_inv_rq0)) as (_ & U2 & _). rewrite U2. f_equal. lia.
Qed.

Lemma Forall_const_map {A B} (g : A -> B) x l1 l2 :
  Forall (fun s => g s = x) l1 -> Forall (fun s => g s = x) l2 -> length l1 = length l2 -> map g l1 = map g l2.
Proof.
  revert l2. induction l1 as [|a l1 IH]; intros [|b l2] F1 F2 L; simpl in *; try discriminate; auto.
  inversion F1; inversion F2; subst. f_equal; [congruence|]. apply IH; auto.
Qed.

Lemma hrun_sets ops : forall r, fold_left uapply ops r = hrun good_prologue (map HSet ops) r.
Proof. induction ops as [|x l IH]; intros r; simpl; auto. Qed.
Lemma user_ops_sets ops : user_ops (map HSet ops) = ops.
Proof. induction ops as [|x l IH]; simpl; auto. now rewrite IH. Qed.

(* execution k of one Request object = execution 1 of a fresh request with the same request-level
   settings, under the client settings of that moment: cookies of every attempt and number of attempts *)
Theorem reexec_as_fresh_cookies_and_attempts h c b f :
  map (fun s => snd (fst s)) (snd (rexec good_prologue c b f (hrun good_prologue h rq0))) =
  map (fun s => snd (fst s)) (snd (rexec good_prologue c b f (fresh_with h))).
Proof.
  pose proof (hrun_sets (user_ops h) rq0) as Fr. fold (fresh_with h) in Fr.
  pose proof (user_ops_sets (user_ops h)) as Uo.
  apply (Forall_const_map _ (q_cookies (fresh_with h) ++ c_cookies c)).
  - apply reexec_cookies_every_attempt.
  - pose proof (reexec_cookies_every_attempt (map HSet (user_ops h)) c b f) as K.
    unfold fresh_with in K. rewrite Uo in K. rewrite <- Fr in K. exact K.
  - rewrite reexec_attempts. pose proof (reexec_attempts (map HSet (user_ops h)) c b f) as K.
    rewrite <- Fr in K. now rewrite K.
Qed.

(* the fast path that skips the resets when nothing was recorded (seeded change b-m3) is refuted:
   first execution retried once on a client without common settings, then the client gets a cookie *)
Definition fast_prologue : prologue := {| p_called := true; p_fastpath := true |}.
Definition bare_client : cl := {| c_headers := []; c_cookies := []; c_form := [] |}.
Definition cookie_client : cl := {| c_headers := []; c_cookies := [5]; c_form := [] |}.

Theorem fastpath_refuted :
  let h := [HExec bare_client 1 1] in
  map (fun s => snd (fst s)) (snd (rexec fast_prologue cookie_client 1 1 (hrun fast_prologue h rq0))) = [[]] /\
  map (fun s => snd (fst s)) (snd (rexec good_prologue cookie_client 1 1 (hrun good_prologue h rq0))) = [[5]; [5]].
Proof. vm_compute. split; reflexivity. Qed.
