(* Proofs/RetryLifeProofs.v - the retry loop of Request.do under cancellation (Model/RetryLife.v) *)
From Coq Require Import List Bool Arith Lia.
From ReqV Require Import Model.Lifecycle Model.RetryLife.
Import ListNotations.

Definition rmu (s : rst) : nat :=
  match r_phase s with PSleep => 2 | PAttempt => 1 | PRet _ => 0 end.

Definition is_rcancel (l : rlabel) : bool := match l with RCancel _ => true | _ => false end.

Lemma rstep_ctx_kept : forall fixed max s l s' c,
  r_ctx s = Some c -> rstep fixed max s l = Some s' -> r_ctx s' = Some c.
Proof.
  intros fixed max s l s' c HC HS. destruct s as [ph a n x]. cbn in HC. subst x.
  destruct l as [[]| | |c']; destruct ph; cbn in HS; try discriminate;
    repeat match type of HS with
           | context [if ?b then _ else _] => destruct b
           end; try discriminate; injection HS as <-; reflexivity.
Qed.

(* once the context has ended no further attempt is counted and none reaches the network *)
Theorem retry_no_new_attempt_after_cancel : forall max s l s' c,
  r_ctx s = Some c -> rstep true max s l = Some s' ->
  r_attempt s' = r_attempt s /\ r_net s' = r_net s.
Proof.
  intros max s l s' c HC HS. destruct s as [ph a n x]. cbn in HC. subst x.
  destruct l as [[]| | |c']; destruct ph; cbn in HS; try discriminate;
    try (injection HS as <-; cbn; auto).
Qed.

(* ... also when the retry interval is zero (no wait at all between attempts): the stop test after
   the round trip is what ends the loop then *)
Theorem retry_no_new_attempt_after_cancel_z : forall zero max s l s' c,
  r_ctx s = Some c -> rstepz zero true max s l = Some s' ->
  r_attempt s' = r_attempt s /\ r_net s' = r_net s.
Proof.
  intros zero max s l s' c HC HS. destruct s as [ph a n x]. cbn in HC. subst x.
  destruct l as [[]| | |c']; destruct ph; destruct zero; cbn in HS; try discriminate;
    try (injection HS as <-; cbn; auto).
Qed.

(* the wait between attempts is left at once, with the cause *)
Theorem retry_sleep_interruptible : forall max s c,
  r_phase s = PSleep -> r_ctx s = Some c ->
  exists s', rstep true max s RSleepCtx = Some s' /\ r_phase s' = PRet (Some (ECause c)) /\
             r_net s' = r_net s.
Proof.
  intros max s c HP HC. destruct s as [ph a n x]. cbn in *. subst. eexists. cbn. repeat split.
Qed.

(* every step other than a further cancel brings the loop closer to its return: at most two *)
Theorem retry_returns_within : forall max s l s' c,
  r_ctx s = Some c -> is_rcancel l = false -> rstep true max s l = Some s' -> rmu s' < rmu s /\ rmu s <= 2.
Proof.
  intros max s l s' c HC NL HS. destruct s as [ph a n x]. cbn in HC. subst x.
  destruct l as [[]| | |c']; try discriminate; destruct ph; cbn in HS; try discriminate;
    injection HS as <-; cbn; lia.
Qed.

Definition only_ctx_results (ls : list rlabel) : bool :=
  forallb (fun l => match l with RAttemptDone AOk | RAttemptDone ARetryable => false | _ => true end) ls.

Lemma ret_stuck : forall fixed max ls t x t',
  r_phase t = PRet x -> rrun fixed max t ls = Some t' -> r_phase t' = PRet x.
Proof.
  intros fixed max ls. induction ls as [|l r IH]; intros t x t' HT HR; cbn in HR.
  - injection HR as <-. exact HT.
  - destruct (rstep fixed max t l) as [t1|] eqn:E; [|discriminate].
    eapply IH; [|exact HR]. destruct t as [ph a n y]. cbn in HT. subst ph.
    destruct l as [[]| | |c']; cbn in E; try discriminate.
    injection E as <-. destruct y; reflexivity.
Qed.

(* if the round trip in flight (if any) reports the context's error - which is what the
   per-stack machines guarantee - the call returns exactly the cause *)
Theorem retry_returns_cause : forall max ls s s' c e,
  r_ctx s = Some c -> (forall x, r_phase s <> PRet x) -> only_ctx_results ls = true ->
  rrun true max s ls = Some s' -> r_phase s' = PRet (Some e) -> e = ECause c.
Proof.
  intros max ls. induction ls as [|l r IH]; intros s s' c e HC NP OC HR HP; cbn in HR.
  - injection HR as <-. exfalso. eapply NP. exact HP.
  - cbn in OC. apply andb_prop in OC as [O1 O2].
    destruct (rstep true max s l) as [s1|] eqn:E; [|discriminate].
    destruct s as [ph a n x]. cbn in HC. subst x.
    destruct l as [[]| | |c']; try discriminate; destruct ph; cbn in E; try discriminate;
      try (exfalso; eapply NP; reflexivity); injection E as <-.
    all: try (match type of HR with rrun _ _ ?t _ = _ => pose proof (ret_stuck true max r t (Some (ECause c)) s' eq_refl HR) as K end; rewrite HP in K; injection K as ->; reflexivity).
    all: eapply IH; [| |exact O2|exact HR|exact HP]; [reflexivity|cbn; intros; discriminate].
Qed.

(* ---- the pinned code (time.Sleep; only context.Canceled stops the loop) ---- *)

Theorem retry_pinned_sleep_not_interruptible : forall max s,
  r_phase s = PSleep -> rstep false max s RSleepCtx = None.
Proof. intros max [ph a n x] H. cbn in *. subst. reflexivity. Qed.

Fixpoint spin (n : nat) : list rlabel :=
  match n with 0 => [] | S m => RAttemptDone ACtx :: RSleepDone :: spin m end.

Lemma pinned_spin : forall n a k,
  rrun false None (mkR PAttempt a k (Some CDeadline)) (spin n) = Some (mkR PAttempt (n + a) k (Some CDeadline)).
Proof.
  induction n as [|n IH]; intros a k; cbn; [reflexivity|].
  rewrite IH. f_equal. f_equal. lia.
Qed.

(* an expired deadline with unlimited retries: the pinned loop goes on for ever *)
Theorem retry_pinned_deadline_never_stops : forall n,
  exists s, rrun false None rinit (RCancel CDeadline :: spin n) = Some s /\
            r_attempt s = n /\ r_phase s = PAttempt.
Proof.
  intros n. eexists. cbn. rewrite pinned_spin. split; [reflexivity|]. cbn. split; [lia|reflexivity].
Qed.

Example retry_nonvacuous :
  exists s, rrun true (Some 3) rinit [RAttemptDone ARetryable; RCancel CCanceled; RSleepCtx] = Some s /\
            r_phase s = PRet (Some (ECause CCanceled)) /\ r_attempt s = 1 /\ r_net s = 1.
Proof. eexists. cbn. repeat split. Qed.
