(* Proofs/HeaderKeepAliveProofs.v - C16: the transport's own Connection: close is one line, added
   exactly when keep-alives are disabled and the caller has not asked for close himself. *)
From ReqV Require Import Lib.Bytes Lib.BytesFacts Model.HeaderOrder Model.HeaderCollect Model.HeaderKeepAlive
  Proofs.HeaderOrderProofs Proofs.HeaderCollectProofs.
From Coq Require Import Permutation.

(* keep-alives enabled: nothing changes *)
Lemma h1_lines_ka_off q : h1_lines_ka false q = h1_lines q.
Proof.
  unfold h1_lines_ka, h1_lines, h1_kvs_ka, h1_kvs, conn_close_kv. cbn [andb]. now rewrite !app_nil_r.
Qed.

(* the caller asked for close (any letter case, alone or in a token list): the transport adds nothing -
   the caller's field is on the wire once, not twice *)
Lemma h1_lines_ka_caller_close dka q : req_wants_close (c_hdr q) = true -> h1_lines_ka dka q = h1_lines q.
Proof.
  intros H. unfold h1_lines_ka, h1_lines, h1_kvs_ka, h1_kvs, conn_close_kv. rewrite H.
  rewrite andb_false_r. now rewrite !app_nil_r.
Qed.

(* otherwise exactly one line Connection: close is added, every other line stays *)
Lemma h1_lines_ka_adds_one q :
  req_wants_close (c_hdr q) = false ->
  Permutation (h1_lines_ka true q) ((bs "Connection", bs "close") :: h1_lines q).
Proof.
  intros H. unfold h1_lines_ka, h1_lines.
  rewrite (flatten_perm _ _ (sort_if_perm _ _)). rewrite (flatten_perm _ _ (sort_if_perm (order_list (c_hdr q)) (h1_kvs q))).
  unfold h1_kvs_ka, h1_kvs, conn_close_kv. rewrite H. cbn [andb negb]. cbv zeta.
  rewrite !app_assoc. rewrite flatten_app. cbn [flatten flat_map map fst snd app].
  rewrite <- !app_assoc. symmetry. apply Permutation_cons_append.
Qed.

(* looking at Request.Close only: a caller's Connection: close goes out twice *)
Lemma conn_close_blind_refuted :
  let q := mk_creq (bs "GET") (bs "h") (bs "/") (bs "http") [(bs "Connection", [bs "Close"])] 0%Z false in
  h1_lines_ka true q = [(bs "Host", bs "h"); (bs "User-Agent", default_user_agent); (bs "Connection", bs "Close")] /\
  flatten (h1_kvs_ka conn_close_kv_blind true q) =
    [(bs "Host", bs "h"); (bs "User-Agent", default_user_agent); (bs "Connection", bs "Close"); (bs "Connection", bs "close")].
Proof. split; vm_compute; reflexivity. Qed.
