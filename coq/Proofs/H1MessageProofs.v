(* Proofs/H1MessageProofs.v - C04: end-to-end round trip of a whole well-formed response:
   status line + arbitrary (foldable) header fields + Content-Length framing + body, followed
   by ANY bytes: every observable of the property is exactly what the sender meant, and the
   message ends exactly after its body. *)
From ReqV Require Import Lib.Bytes Lib.BytesFacts Model.H1Resp Model.H1Render Model.H1RenderHead
  Proofs.H1RespProofs Proofs.H1HeadProofs Proofs.H1MimeProofs Proofs.H1TransferProofs.
From Coq Require Import Lia ZifyBool ZifyNat ZifyN.

(* field names the transfer decision looks at *)
Definition framing_name (k : bytes) : bool :=
  bytes_eqb k K_CL || bytes_eqb k K_TE || bytes_eqb k K_CONNECTION || bytes_eqb k K_TRAILER ||
  bytes_eqb k K_PRAGMA.
Definition plain_field (f : hfield) : Prop := framing_name (canon_go true (hf_name f)) = false.

Definition cl_field (cl : bytes) : hfield := {| hf_name := bs "Content-Length"; hf_first := cl; hf_conts := [] |}.

Lemma hget_hadd_same_new k v m : hget k m = None -> hget k (hadd k v m) = Some [v].
Proof.
  induction m as [|[k' vs] r IH]; cbn [hget hadd]; [now rewrite bytes_eqb_refl|].
  destruct (bytes_eqb k k') eqn:E; [discriminate|]. cbn [hget]. rewrite E. exact IH.
Qed.

Lemma hget_fields_none k fs : forall m,
  hget k m = None -> Forall (fun f => bytes_eqb k (canon_go true (hf_name f)) = false) fs ->
  hget k (fold_left (fun m f => hadd (canon_go true (hf_name f)) (field_value f) m) fs m) = None.
Proof.
  induction fs as [|f r IH]; intros m Hm Hf; [exact Hm|].
  inversion Hf; subst. cbn [fold_left]. apply IH; [|assumption].
  now rewrite hget_hadd_other.
Qed.

Lemma plain_not k fs : (forall x, bytes_eqb k x = true -> framing_name x = true) ->
  Forall plain_field fs -> Forall (fun f => bytes_eqb k (canon_go true (hf_name f)) = false) fs.
Proof.
  intros Hk H. induction H as [|f r Hp _ IH]; constructor; [|exact IH].
  destruct (bytes_eqb k (canon_go true (hf_name f))) eqn:E; [|reflexivity].
  apply Hk in E. unfold plain_field in Hp. congruence.
Qed.

Lemma digits_piece_ok cl : cl <> [] -> forallb is_digit cl = true -> piece_ok cl /\ trim_string cl = cl.
Proof.
  intros Hne Hd.
  assert (Hv : forall x, is_digit x = true -> valid_value_byte x = true /\ is_sp_tab x = false /\ is_ascii_space x = false).
  { clear. intros x. destruct x; vm_compute; intros H; try discriminate; auto. }
  assert (Hall : forall x, In x cl -> is_digit x = true) by (apply forallb_forall; exact Hd).
  assert (Hfirst : forall (P : byte -> bool), (forall x, is_digit x = true -> P x = false) ->
            match cl with x :: _ => P x = false | [] => False end).
  { intros P HP. destruct cl as [|x r]; [contradiction|]. apply HP. apply Hall. now left. }
  assert (Hlast : forall (P : byte -> bool), (forall x, is_digit x = true -> P x = false) ->
            match rev cl with x :: _ => P x = false | [] => False end).
  { intros P HP. destruct (rev cl) as [|x r] eqn:E.
    - apply (f_equal (@length byte)) in E. rewrite rev_length in E. destruct cl; [contradiction|discriminate].
    - apply HP. apply Hall. apply in_rev. rewrite E. now left. }
  split.
  - split; [|split].
    + apply forallb_forall. intros x Hx. now apply Hv, Hall.
    + apply (Hfirst is_sp_tab). intros x Hx. now apply Hv.
    + apply (Hlast is_sp_tab). intros x Hx. now apply Hv.
  - unfold trim_string, trim, trim_left, trim_right.
    pose proof (Hfirst is_ascii_space (fun x Hx => proj2 (proj2 (Hv x Hx)))) as H1.
    pose proof (Hlast is_ascii_space (fun x Hx => proj2 (proj2 (Hv x Hx)))) as H2.
    destruct cl as [|x r]; [contradiction|]. cbn [drop_while]. rewrite H1.
    destruct (rev (x :: r)) as [|y t] eqn:E; [contradiction|]. cbn [drop_while]. rewrite H2.
    rewrite <- E. apply rev_involutive.
Qed.

Section Message.
  Variables (meth : bytes) (bufsize : nat).
  Variables (d1 d2 d3 : byte) (reason : bytes) (fs : list hfield) (cl body rest : bytes).
  Hypothesis Hmeth : is_head meth = false.
  Hypothesis H1 : is_digit d1 = true.
  Hypothesis H2 : is_digit d2 = true.
  Hypothesis H3 : is_digit d3 = true.
  Let code : Z := (100 * dval d1 + 10 * dval d2 + dval d3)%Z.
  Hypothesis Hbody : body_allowed_for_status code = true.
  Hypothesis Hreason : mem_byte LF reason = false.
  Hypothesis Hfields : Forall field_ok fs.
  Hypothesis Hplain : Forall plain_field fs.
  Hypothesis Hcl : parse_uint63 cl = Some (Z.of_nat (length body)).

  Let status : bytes := [d1; d2; d3] ++ SP :: reason.
  Let wire : bytes :=
    bs "HTTP/1.1" ++ SP :: status ++ CRLF ++ render_fields (fs ++ [cl_field cl]) ++ CRLF ++ body ++ rest.
  Let header : hmap := hadd K_CL cl (header_of_fields fs).

  Lemma header_facts :
    hget K_CL header = Some [cl] /\ hget K_TE header = None /\ hget K_CONNECTION header = None /\
    hget K_TRAILER header = None /\ hget K_PRAGMA header = None.
  Proof.
    unfold header, header_of_fields.
    assert (N : forall k, framing_name k = true ->
              hget k (fold_left (fun m f => hadd (canon_go true (hf_name f)) (field_value f) m) fs []) = None).
    { intros k Hk. apply hget_fields_none; [reflexivity|]. apply plain_not; [|assumption].
      intros x Hx. apply bytes_eqb_eq in Hx. now subst x. }
    split; [apply hget_hadd_same_new; now apply N|].
    repeat split; (rewrite hget_hadd_other by reflexivity; now apply N).
  Qed.

  Theorem response_round_trip_length :
    parse_response meth bufsize wire =
      Accepted {| r_proto := bs "HTTP/1.1"; r_code := code; r_status := status;
                  r_header := header; r_content_length := Z.of_nat (length body);
                  r_chunked := false; r_close := false;
                  r_framing := (if (Z.of_nat (length body) =? 0)%Z then FrNone
                                else FrLength (Z.of_nat (length body)));
                  r_trailer_declared := [] |}
               {| b_data := body; b_end := BOk; b_trailer := []; b_rest := rest |}.
  Proof.
    pose proof header_facts as (Gcl & Gte & Gconn & Gtr & Gpr).
    assert (Hclp : cl <> [] /\ forallb is_digit cl = true).
    { apply parse_uint63_spec in Hcl as (A & B & _). auto. }
    destruct (digits_piece_ok cl (proj1 Hclp) (proj2 Hclp)) as [Hpiece Htrim].
    unfold parse_response, read_response_head, wire.
    (* status line *)
    replace (bs "HTTP/1.1" ++ SP :: status ++ CRLF ++ render_fields (fs ++ [cl_field cl]) ++ CRLF ++ body ++ rest)
      with ((bs "HTTP/1.1" ++ SP :: status) ++ CRLF ++ (render_fields (fs ++ [cl_field cl]) ++ CRLF ++ body ++ rest))
      by (now rewrite <- app_assoc).
    rewrite read_line_crlf.
    2:{ unfold status. rewrite mem_byte_app. cbn [app]. rewrite !mem_byte_cons, Hreason.
        assert (Hd : forall d, is_digit d = true -> beqb LF d = false).
        { clear. intros d. destruct d; vm_compute; intros H; try discriminate; reflexivity. }
        rewrite (Hd _ H1), (Hd _ H2), (Hd _ H3). reflexivity. }
    change (bs "HTTP/1.1" ++ SP :: status)
      with (bs "HTTP/" ++ ["1"%byte; "."%byte; "1"%byte] ++ SP :: [d1; d2; d3] ++ SP :: reason).
    rewrite status_line_round_trip by (assumption || reflexivity).
    (* header block *)
    rewrite mime_header_round_trip.
    2:{ apply Forall_app. split; [assumption|]. constructor; [|constructor].
        unfold field_ok, cl_field. cbn [hf_name hf_first hf_conts].
        repeat split; try discriminate; try reflexivity; try apply Hpiece. constructor. }
    assert (Hh : header_of_fields (fs ++ [cl_field cl]) = header).
    { unfold header_of_fields, header. rewrite fold_left_app. cbn [fold_left].
      unfold field_value, cl_field. cbn [hf_name hf_first hf_conts flat_map]. rewrite app_nil_r. reflexivity. }
    rewrite Hh.
    (* transfer decision *)
    unfold fix_pragma_cache_control. rewrite Gpr.
    unfold read_transfer. cbn [sl_major sl_minor sl_code sl_proto sl_status].
    change (dval "1"%byte) with 1%Z.
    rewrite should_close_table. change (1 <? 1)%Z with false. change ((1 =? 1)%Z && (1 =? 0)%Z) with false.
    cbn iota. unfold has_close, conn_values. rewrite Gconn.
    change (header_values_contain_token [] (bs "close")) with false. cbn iota.
    change ((1 =? 0)%Z && (1 =? 0)%Z) with false. cbn iota.
    unfold parse_transfer_encoding. rewrite Gte.
    unfold fix_length. rewrite Gcl. cbn [is_nil parse_content_length]. rewrite Htrim, Hcl. rewrite Hmeth.
    fold code.
    assert (Hc1 : (code / 100 =? 1)%Z = false /\ ((code =? 204)%Z || (code =? 304)%Z) = false).
    { unfold body_allowed_for_status in Hbody. apply negb_true_iff in Hbody.
      rewrite div100_is_1xx. apply orb_false_iff in Hbody as [Hb Hc]. apply orb_false_iff in Hb as [Ha Hb].
      rewrite Ha, Hb, Hc. auto. }
    destruct Hc1 as [-> ->]. cbn [negb].
    unfold fix_trailer. rewrite Gtr.
    set (n := Z.of_nat (length body)).
    assert (Hn : (0 <= n)%Z) by (unfold n; lia).
    destruct (Z.eqb_spec n (-1)); [lia|]. cbn [andb orb].
    f_equal.
    - (* the response record *)
      destruct (Z.eqb_spec n 0) as [E0|E0].
      + reflexivity.
      + destruct (Z.gtb_spec n 0); [reflexivity|lia].
    - (* the body *)
      unfold read_body. cbn [r_framing r_trailer_declared].
      destruct (Z.eqb_spec n 0) as [E0|E0].
      + assert (body = []) by (destruct body; [reflexivity|unfold n in E0; cbn in E0; lia]). subst body. reflexivity.
      + destruct (Z.gtb_spec n 0); [|lia]. cbn [r_framing].
        destruct (Z.ltb_spec (Z.of_nat (length (body ++ rest))) n) as [L|L].
        { rewrite app_length in L. unfold n in L. lia. }
        unfold n. rewrite Nat2Z.id, firstn_app_exact, skipn_app_exact. reflexivity.
  Qed.
End Message.

(* ---------- the same for a chunked response ---------- *)

Lemma hdel_none k m : hget k m = None -> hdel k m = m.
Proof.
  induction m as [|[k' vs] r IH]; [reflexivity|]. cbn [hget hdel].
  destruct (bytes_eqb k k'); [discriminate|]. intros H. now rewrite IH.
Qed.

Lemma hdel_hadd_new k v m : hget k m = None -> hdel k (hadd k v m) = m.
Proof.
  induction m as [|[k' vs] r IH]; cbn [hget hadd hdel].
  - now rewrite bytes_eqb_refl.
  - destruct (bytes_eqb k k') eqn:E; [discriminate|]. cbn [hdel]. rewrite E. intros H. now rewrite IH.
Qed.

Definition te_field (v : bytes) : hfield := {| hf_name := bs "Transfer-Encoding"; hf_first := v; hf_conts := [] |}.

Section ChunkedMessage.
  Variables (meth : bytes) (bufsize : nat).
  Variables (d1 d2 d3 : byte) (reason : bytes) (fs : list hfield) (te : bytes).
  Variables (cs : list (bytes * bytes)) (l0 rest : bytes).
  Hypothesis Hmeth : is_head meth = false.
  Hypothesis H1 : is_digit d1 = true.
  Hypothesis H2 : is_digit d2 = true.
  Hypothesis H3 : is_digit d3 = true.
  Let code : Z := (100 * dval d1 + 10 * dval d2 + dval d3)%Z.
  Hypothesis Hbody : body_allowed_for_status code = true.
  Hypothesis Hreason : mem_byte LF reason = false.
  Hypothesis Hfields : Forall field_ok fs.
  Hypothesis Hplain : Forall plain_field fs.
  Hypothesis Hte : to_lower te = bs "chunked".        (* any letter case *)
  Hypothesis Hte_ok : piece_ok te.
  Hypothesis Hchunks : chunks_ok bufsize 0 cs.
  Hypothesis Hlast : size_line_ok bufsize l0 0.

  Let status : bytes := [d1; d2; d3] ++ SP :: reason.
  Let wire : bytes :=
    bs "HTTP/1.1" ++ SP :: status ++ CRLF ++ render_fields (fs ++ [te_field te]) ++ CRLF ++
    render_chunks cs ++ l0 ++ CRLF ++ CRLF ++ rest.

  Theorem response_round_trip_chunked :
    parse_response meth bufsize wire =
      Accepted {| r_proto := bs "HTTP/1.1"; r_code := code; r_status := status;
                  r_header := header_of_fields fs; r_content_length := (-1)%Z;
                  r_chunked := true; r_close := false; r_framing := FrChunked;
                  r_trailer_declared := [] |}
               {| b_data := concat (map snd cs); b_end := BOk; b_trailer := []; b_rest := rest |}.
  Proof.
    set (h0 := header_of_fields fs).
    assert (N : forall k, framing_name k = true -> hget k h0 = None).
    { intros k Hk. unfold h0, header_of_fields. apply hget_fields_none; [reflexivity|].
      apply plain_not; [|assumption]. intros x Hx. apply bytes_eqb_eq in Hx. now subst x. }
    set (h := hadd K_TE te h0).
    assert (Gte : hget K_TE h = Some [te]) by (apply hget_hadd_same_new; now apply N).
    assert (Gconn : hget K_CONNECTION h = None) by (unfold h; rewrite hget_hadd_other by reflexivity; now apply N).
    assert (Gpr : hget K_PRAGMA h = None) by (unfold h; rewrite hget_hadd_other by reflexivity; now apply N).
    assert (Gdel : hdel K_TE h = h0) by (apply hdel_hadd_new; now apply N).
    assert (Gcl : hget K_CL h0 = None) by now apply N.
    assert (Gtr : hget K_TRAILER h0 = None) by now apply N.
    unfold parse_response, read_response_head, wire.
    replace (bs "HTTP/1.1" ++ SP :: status ++ CRLF ++ render_fields (fs ++ [te_field te]) ++ CRLF ++
             render_chunks cs ++ l0 ++ CRLF ++ CRLF ++ rest)
      with ((bs "HTTP/1.1" ++ SP :: status) ++ CRLF ++ (render_fields (fs ++ [te_field te]) ++ CRLF ++
             render_chunks cs ++ l0 ++ CRLF ++ CRLF ++ rest))
      by (now rewrite <- app_assoc).
    rewrite read_line_crlf.
    2:{ unfold status. rewrite mem_byte_app. cbn [app]. rewrite !mem_byte_cons, Hreason.
        assert (Hd : forall d, is_digit d = true -> beqb LF d = false).
        { clear. intros d. destruct d; vm_compute; intros H; try discriminate; reflexivity. }
        rewrite (Hd _ H1), (Hd _ H2), (Hd _ H3). reflexivity. }
    change (bs "HTTP/1.1" ++ SP :: status)
      with (bs "HTTP/" ++ ["1"%byte; "."%byte; "1"%byte] ++ SP :: [d1; d2; d3] ++ SP :: reason).
    rewrite status_line_round_trip by (assumption || reflexivity).
    rewrite mime_header_round_trip.
    2:{ apply Forall_app. split; [assumption|]. constructor; [|constructor].
        unfold field_ok, te_field. cbn [hf_name hf_first hf_conts].
        repeat split; try discriminate; try reflexivity; try apply Hte_ok. constructor. }
    assert (Hh : header_of_fields (fs ++ [te_field te]) = h).
    { unfold header_of_fields, h, h0. rewrite fold_left_app. cbn [fold_left].
      unfold field_value, te_field. cbn [hf_name hf_first hf_conts flat_map]. rewrite app_nil_r. reflexivity. }
    rewrite Hh.
    unfold fix_pragma_cache_control. rewrite Gpr.
    unfold read_transfer. cbn [sl_major sl_minor sl_code sl_proto sl_status].
    change (dval "1"%byte) with 1%Z.
    rewrite should_close_table. change (1 <? 1)%Z with false. change ((1 =? 1)%Z && (1 =? 0)%Z) with false.
    cbn iota. unfold has_close, conn_values. rewrite Gconn.
    change (header_values_contain_token [] (bs "close")) with false. cbn iota.
    change ((1 =? 0)%Z && (1 =? 0)%Z) with false. cbn iota.
    rewrite transfer_encoding_table, Gte. change (negb (proto_at_least_1_1 1 1)) with false. cbn iota.
    rewrite Hte. change (bytes_eqb (bs "chunked") (bs "chunked")) with true. cbn iota. rewrite Gdel.
    unfold fix_length. rewrite Gcl. cbn [is_nil]. rewrite Hmeth. fold code.
    assert (Hc1 : (code / 100 =? 1)%Z = false /\ ((code =? 204)%Z || (code =? 304)%Z) = false).
    { unfold body_allowed_for_status in Hbody. apply negb_true_iff in Hbody.
      rewrite div100_is_1xx. apply orb_false_iff in Hbody as [Hb Hc]. apply orb_false_iff in Hb as [Ha Hb].
      rewrite Ha, Hb, Hc. auto. }
    destruct Hc1 as [-> ->]. rewrite (hdel_none K_CL h0 Gcl).
    unfold fix_trailer. rewrite Gtr. cbn [andb negb orb Z.eqb].
    rewrite Hbody. cbn [negb orb].
    f_equal.
    unfold read_body. cbn [r_framing r_trailer_declared].
    replace (render_chunks cs ++ l0 ++ CRLF ++ CRLF ++ rest)
      with (render_chunks cs ++ l0 ++ CRLF ++ (CRLF ++ rest)) by reflexivity.
    rewrite chunked_round_trip by assumption.
    cbn [read_trailer CRLF app]. rewrite !beqb_refl. reflexivity.
  Qed.
End ChunkedMessage.
