(* Proofs/HeaderResendProofs.v - C16: executing ONE Request object again sends what the caller set on
   the request plus the client-level headers of that moment - whatever earlier executions merged. *)
From ReqV Require Import Lib.Bytes Lib.BytesFacts Model.HeaderOrder Model.HeaderCollect Model.HeaderMerge
  Model.HeaderResend Proofs.HeaderOrderProofs Proofs.HeaderCollectProofs Proofs.HeaderMergeProofs.
From Coq Require Import Lia Permutation.

Lemma strip_has_key s k : existsb (fun e => bytes_eqb (re_key e) k) s = has_key (strip s) k.
Proof.
  unfold has_key, strip. induction s as [|e t IH]; [reflexivity|]. cbn [existsb map fst]. now rewrite IH.
Qed.

Lemma strip_rset s k vs f : strip (rset s k vs f) = hset (strip s) k vs.
Proof.
  unfold rset, hset. rewrite strip_has_key. destruct (has_key (strip s) k).
  - unfold strip. rewrite !map_map. apply map_ext. intros e. cbn [fst].
    destruct (bytes_eqb (re_key e) k); reflexivity.
  - unfold strip. now rewrite map_app.
Qed.

Lemma strip_rmerge ch : forall s, strip (rmerge s ch) = merge_client (strip s) ch.
Proof.
  unfold rmerge, merge_client. induction ch as [|x t IH]; intros s; [reflexivity|].
  cbn [fold_left]. rewrite IH. f_equal. unfold rmerge_step, merge_step, rvals.
  destruct (is_nil (hvals (strip s) (fst x))); [apply strip_rset|reflexivity].
Qed.

(* every execution sends the client's CURRENT headers merged into what survives unmerge *)
Lemma rexec_strip s ch : strip (rexec s ch) = merge_client (strip (unmerge s)) ch.
Proof. unfold rexec. apply strip_rmerge. Qed.

(* entries carry at least one value (every setter and every client header does) *)
Definition rwf (s : list rentry) : Prop := forall e, In e s -> re_vals e <> [].
Definition chwf (ch : list kv) : Prop := forall x, In x ch -> snd x <> [].

Lemma unmerge_own s : rwf s -> strip (unmerge s) = rown s.
Proof.
  intros H. unfold unmerge, rown. f_equal. apply filter_ext_in. intros e He.
  specialize (H e He). destruct (re_vals e); [congruence|]. cbn. apply orb_false_r.
Qed.

(* re-execution invariance: what an execution sends is the merge of the caller's OWN entries with the
   client's headers of that moment - the copies earlier executions left behind play no part *)
Theorem rexec_is_fresh_merge s ch : rwf s -> strip (rexec s ch) = merge_client (rown s) ch.
Proof. intros H. rewrite rexec_strip. now rewrite unmerge_own. Qed.

(* ... and the execution leaves the caller's own entries as they are *)
Lemma hvals_nil_no_key s k : rwf s -> rvals s k = [] -> ~ In k (map fst (strip s)).
Proof.
  intros Hw Hv Hin. unfold rvals, hvals in Hv.
  induction s as [|e t IH]; [destruct Hin|]. cbn [strip map hget fst] in *.
  destruct (bytes_eqb (re_key e) k) eqn:E.
  - cbn [snd] in Hv. apply (Hw e); [now left|exact Hv].
  - apply IH; [intros x Hx; apply Hw; now right|exact Hv|].
    destruct Hin as [Hin|Hin]; [|exact Hin]. apply bytes_eqb_neq in E. cbn in Hin. congruence.
Qed.

Lemma rset_fresh s k vs f : ~ In k (map fst (strip s)) -> rset s k vs f = s ++ [(k, vs, f)].
Proof.
  intros H. unfold rset. rewrite strip_has_key. apply has_key_false in H. now rewrite H.
Qed.

Lemma rmerge_keeps_own ch : forall s, rwf s -> chwf ch ->
  rwf (rmerge s ch) /\ rown (rmerge s ch) = rown s.
Proof.
  unfold rmerge. induction ch as [|x t IH]; intros s Hw Hc; [split; [assumption|reflexivity]|].
  cbn [fold_left].
  assert (Hstep : rwf (rmerge_step s x) /\ rown (rmerge_step s x) = rown s).
  { unfold rmerge_step. destruct (is_nil (rvals s (fst x))) eqn:E; [|split; [assumption|reflexivity]].
    assert (rvals s (fst x) = []) as Hv by (destruct (rvals s (fst x)); [reflexivity|discriminate]).
    rewrite (rset_fresh s (fst x) (snd x) true (hvals_nil_no_key s (fst x) Hw Hv)). split.
    - intros e He. apply in_app_or in He as [He|[<-|[]]]; [now apply Hw|]. cbn. apply Hc. now left.
    - unfold rown. rewrite filter_app. cbn. now rewrite app_nil_r. }
  destruct Hstep as [Hw' Ho']. destruct (IH (rmerge_step s x) Hw') as [Hw'' Ho''].
  { intros y Hy. apply Hc. now right. }
  split; [assumption|congruence].
Qed.

Lemma unmerge_wf s : rwf s -> rwf (unmerge s).
Proof. intros H e He. apply H. unfold unmerge in He. now apply filter_In in He. Qed.

Lemma rown_unmerge s : rwf s -> rown (unmerge s) = rown s.
Proof.
  intros H. unfold rown, unmerge. f_equal. induction s as [|e t IH]; [reflexivity|].
  cbn [filter]. assert (rwf t) as Ht by (intros x Hx; apply H; now right).
  pose proof (H e (or_introl eq_refl)) as He.
  destruct (re_merged e) eqn:M; cbn [negb orb].
  - destruct (re_vals e); [congruence|]. cbn [is_nil]. now apply IH.
  - cbn [filter]. rewrite M. cbn [negb]. f_equal. now apply IH.
Qed.

Theorem rexec_keeps_own s ch : rwf s -> chwf ch -> rwf (rexec s ch) /\ rown (rexec s ch) = rown s.
Proof.
  intros Hw Hc. unfold rexec. destruct (rmerge_keeps_own ch (unmerge s) (unmerge_wf s Hw) Hc) as [H1 H2].
  split; [assumption|]. now rewrite H2, rown_unmerge.
Qed.

(* a header pinned on the request with SetHeader is what the next execution sends under that name,
   whatever the previous executions merged there and whatever the client holds now *)
Lemma hvals_all_same l k vs :
  (exists x, In x l /\ fst x = k) -> (forall x, In x l -> fst x = k -> snd x = vs) -> hvals l k = vs.
Proof.
  intros (x0 & Hin & Hk) Hall. unfold hvals. induction l as [|y t IH]; [destruct Hin|].
  cbn [hget]. destruct (bytes_eqb (fst y) k) eqn:E.
  - apply bytes_eqb_eq in E. apply Hall; [now left|exact E].
  - apply IH.
    + destruct Hin as [->|Hin]; [apply bytes_eqb_neq in E; congruence|exact Hin].
    + intros z Hz. apply Hall. now right.
Qed.

Theorem pinned_header_is_sent s k v ch :
  hvals (strip (rexec (rapply_op s (OpSet k v)) ch)) (mime_key k) = [v].
Proof.
  rewrite rexec_strip. cbn [rapply_op]. set (K := mime_key k).
  assert (H : hvals (strip (unmerge (rset s K [v] false))) K = [v]).
  { apply hvals_all_same.
    - exists (K, [v]). split; [|reflexivity]. unfold strip. apply in_map_iff. exists (K, [v], false). split; [reflexivity|].
      unfold unmerge. apply filter_In. split; [|reflexivity].
      unfold rset. destruct (existsb (fun e => bytes_eqb (re_key e) K) s) eqn:E.
      + apply existsb_exists in E as (e & He & Ek). apply in_map_iff. exists e. split; [|assumption]. now rewrite Ek.
      + apply in_or_app. right. now left.
    - intros x Hx Hk. unfold strip in Hx. apply in_map_iff in Hx as (e & <- & He). cbn [fst snd] in *.
      unfold unmerge in He. apply filter_In in He as [He _]. unfold rset in He.
      destruct (existsb (fun e => bytes_eqb (re_key e) K) s) eqn:EX.
      + apply in_map_iff in He as (e0 & Ee & _). destruct (bytes_eqb (re_key e0) K) eqn:E0.
        * now subst e.
        * subst e. apply bytes_eqb_neq in E0. congruence.
      + apply in_app_or in He as [He|[<-|[]]]; [|reflexivity].
        (* an old entry with that key cannot exist: existsb said no *)
        exfalso. assert (existsb (fun e => bytes_eqb (re_key e) K) s = true); [|congruence].
        apply existsb_exists. exists e. split; [assumption|]. rewrite Hk. apply bytes_eqb_refl. }
  rewrite merge_client_ignored; rewrite H; [reflexivity|discriminate].
Qed.

(* the variant that recognises the merged copy by its VALUES: a header pinned to the value the
   previous execution had merged is taken for that copy, and the client's new value is sent *)
Definition rexec_by_value (remembered : list kv) (s : list rentry) (ch : list kv) : list rentry :=
  rmerge (unmerge_by_value remembered s) ch.

Lemma unmerge_by_value_refuted :
  let K := bs "X-Token" in
  let s1 := rexec [] [(K, [bs "v"])] in                       (* first execution: client value v merged *)
  let s2 := rapply_op s1 (OpSet K (bs "v")) in                 (* the caller pins K = v on the request *)
  hvals (strip (rexec s2 [(K, [bs "w"])])) K = [bs "v"] /\     (* the client changed to w: still v *)
  hvals (strip (rexec_by_value [(K, [bs "v"])] s2 [(K, [bs "w"])])) K = [bs "w"].
Proof. split; vm_compute; reflexivity. Qed.

(* whole lives of a Request: the header map of execution n is the fresh merge of the caller's own
   entries at that point with the client's headers at that point *)
Theorem rsession_each_execution_fresh steps : forall s,
  rwf s -> (forall st, In st steps -> chwf (snd st) /\ forall s', rwf s' -> rwf (fold_left rapply_op (fst st) s')) ->
  rsession s steps =
  (fix go (s : list rentry) (steps : list (list hdr_op * list kv)) : list (list kv) :=
     match steps with
     | [] => []
     | (ops, ch) :: r => merge_client (rown (fold_left rapply_op ops s)) ch
                         :: go (rexec (fold_left rapply_op ops s) ch) r
     end) s steps.
Proof.
  induction steps as [|[ops ch] r IH]; intros s Hw Hs; [reflexivity|].
  cbn [rsession]. destruct (Hs (ops, ch) (or_introl eq_refl)) as [Hc Hops]. cbn [fst snd] in *.
  specialize (Hops s Hw). rewrite (rexec_is_fresh_merge _ ch Hops). f_equal.
  apply IH; [apply (rexec_keeps_own _ ch Hops Hc)|]. intros st Hst. apply Hs. now right.
Qed.

(* the setters keep entries non-empty *)
Lemma rapply_op_wf s o : rwf s -> (match o with OpOrder ks => ks <> [] \/ rvals s header_order_key <> []
                                           | OpPOrder ks => ks <> [] \/ rvals s pseudo_header_order_key <> [] | _ => True end) ->
  rwf (rapply_op s o).
Proof.
  intros Hw Ho e He.
  assert (G : forall k vs f, vs <> [] -> In e (rset s k vs f) -> re_vals e <> []).
  { intros k vs f Hv Hin. unfold rset in Hin. destruct (existsb _ s).
    - apply in_map_iff in Hin as (e0 & <- & H0). destruct (bytes_eqb (re_key e0) k); [exact Hv|now apply Hw].
    - apply in_app_or in Hin as [Hin|[<-|[]]]; [now apply Hw|exact Hv]. }
  destruct o as [k v|k v|ks|ks]; cbn [rapply_op] in He.
  - eapply G; [|exact He]. discriminate.
  - eapply G; [|exact He]. intros C. apply app_eq_nil in C as [_ C]. discriminate.
  - eapply G; [|exact He]. intros C. apply app_eq_nil in C as [C1 C2]. destruct Ho; congruence.
  - eapply G; [|exact He]. intros C. apply app_eq_nil in C as [C1 C2]. destruct Ho; congruence.
Qed.

(* retries (fix df72f46): an attempt after the first does not look at the client's headers again -
   whatever the client holds by then, the retry's header map is the first attempt's *)
Lemma retry_sends_first_attempt s ch ch' n :
  rmerge_attempt (S n) (rmerge_attempt 0 s ch) ch' = rmerge_attempt 0 s ch.
Proof. reflexivity. Qed.
