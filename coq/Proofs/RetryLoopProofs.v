(* Proofs/RetryLoopProofs.v - the attempt loop of Model/Retry.v (C10): number of attempts,
   retry decision, hooks / interval calls, final result. *)
From ReqV Require Import Lib.Bytes Lib.BytesFacts Model.Retry Proofs.RetryProofs.
From Coq Require Import Lia ZifyBool ZifyNat.

Lemma after_send_attempt s : r_attempt (after_send s) = r_attempt s.
Proof. unfold after_send. destruct (r_getbody s); reflexivity. Qed.

Lemma after_send_not_reader s : r_getbody s <> GBReader -> after_send s = s.
Proof. unfold after_send. destruct (r_getbody s); congruence. Qed.

Definition hooks_keep_attempt (hs : list hook) : Prop :=
  forall h, In h hs -> forall s, r_attempt (hk_mut h s) = r_attempt s.

Definition hooks_silent (hs : list hook) : Prop :=
  forall h, In h hs -> forall s, hk_mut h s = s.

Lemma hooks_silent_keep hs : hooks_silent hs -> hooks_keep_attempt hs.
Proof. intros H h Hin s. rewrite (H h Hin). reflexivity. Qed.

Lemma run_hooks_attempt hs s : hooks_keep_attempt hs -> r_attempt (run_hooks hs s) = r_attempt s.
Proof.
  unfold run_hooks, hooks_keep_attempt. intros H.
  assert (H' : forall h, In h (rev hs) -> forall s, r_attempt (hk_mut h s) = r_attempt s).
  { intros h Hin. apply H. apply in_rev. exact Hin. }
  clear H. revert s. induction (rev hs) as [|h l IH]; intros s; cbn [fold_left]; [reflexivity|].
  rewrite IH.
  - apply H'. left; reflexivity.
  - intros h0 Hin. apply H'. right; exact Hin.
Qed.

Lemma run_hooks_silent hs s : hooks_silent hs -> run_hooks hs s = s.
Proof.
  unfold run_hooks, hooks_silent. intros H.
  assert (H' : forall h, In h (rev hs) -> forall s, hk_mut h s = s).
  { intros h Hin. apply H. apply in_rev. exact Hin. }
  clear H. revert s. induction (rev hs) as [|h l IH]; intros s; cbn [fold_left]; [reflexivity|].
  rewrite IH.
  - apply H'. left; reflexivity.
  - intros h0 Hin. apply H'. right; exact Hin.
Qed.

(* "absolutely cannot retry": cancelled context or count exhausted *)
Definition hard_stop (o : ropt) (att : Z) (a : ain) : bool :=
  is_cancelled (a_out a) || ((ro_max o <=? att)%Z && (0 <=? ro_max o)%Z).

(* what Do returns when attempt [a] is the last one *)
Definition final_view (a : ain) : view :=
  let v := view_of (a_out a) in
  match first_some (a_after a) with
  | Some e => mkView (v_status v) (match v_err v with Some e0 => Some e0 | None => Some e end)
  | None => v
  end.

(* attempt k is followed by another one *)
Definition continues (o : ropt) (k : Z) (a : ain) : bool :=
  match first_some (a_after a) with
  | Some _ => false
  | None => negb (hard_stop o k a) && fst (need_retry (ro_conds o) (view_of (a_out a))) &&
            negb (a_wait_cancel a)
  end.

Fixpoint spec_attempts (o : ropt) (k : Z) (ins : list ain) : nat :=
  match ins with
  | [] => 0
  | a :: rest => if continues o k a then S (spec_attempts o (k + 1) rest) else 1
  end.

Ltac simp_res := cbn [res_wires res_conds res_hooks res_intervals res_final res_attempt res_end cons_wire add_calls].

(* ---------- the retry decision ---------- *)

Fixpoint upto_first {A} (p : A -> bool) (l : list A) : list A :=
  match l with
  | [] => []
  | x :: r => if p x then [x] else x :: upto_first p r
  end.

Lemma eval_conds_rev_spec cs v :
  eval_conds_rev cs v = (existsb (fun cd => cd_fn cd v) cs, map cd_id (upto_first (fun cd => cd_fn cd v) cs)).
Proof.
  induction cs as [|cd r IH]; cbn [eval_conds_rev existsb upto_first map]; [reflexivity|].
  destruct (cd_fn cd v); cbn [orb map]; [reflexivity|]. rewrite IH. reflexivity.
Qed.

Definition retry_wanted (cs : list cond) (v : view) : Prop :=
  match cs with
  | [] => v_err v <> None
  | _ => exists cd, In cd cs /\ cd_fn cd v = true
  end.

Lemma need_retry_iff cs v : fst (need_retry cs v) = true <-> retry_wanted cs v.
Proof.
  unfold need_retry, retry_wanted. destruct cs as [|c0 cs'].
  - cbn [fst]. destruct (v_err v) as [e|]; split; intros H.
    + discriminate.
    + reflexivity.
    + discriminate H.
    + exfalso. apply H. reflexivity.
  - rewrite eval_conds_rev_spec. cbn [fst]. rewrite existsb_exists. split.
    + intros (cd & Hin & Hc). exists cd. split; [|exact Hc]. apply (proj2 (in_rev (c0 :: cs') cd)). exact Hin.
    + intros (cd & Hin & Hc). exists cd. split; [|exact Hc]. apply (proj1 (in_rev (c0 :: cs') cd)). exact Hin.
Qed.

(* which conditions are consulted: from the last registered towards the first, up to and
   including the first that asks for a retry *)
Lemma need_retry_calls cs v :
  snd (need_retry cs v) = map cd_id (upto_first (fun cd => cd_fn cd v) (rev cs)).
Proof.
  unfold need_retry. destruct cs as [|c0 cs']; [reflexivity|].
  rewrite eval_conds_rev_spec. reflexivity.
Qed.

Lemma continues_iff o k a :
  continues o k a = true <->
  first_some (a_after a) = None /\ is_cancelled (a_out a) = false /\
  (ro_max o < 0 \/ k < ro_max o)%Z /\ retry_wanted (ro_conds o) (view_of (a_out a)) /\
  a_wait_cancel a = false.
Proof.
  unfold continues, hard_stop. rewrite <- need_retry_iff.
  destruct (first_some (a_after a)); [split; [discriminate|intros (H & _); discriminate]|].
  destruct (is_cancelled (a_out a)); cbn [orb negb andb].
  - split; [discriminate|intros (_ & H & _); discriminate].
  - destruct (fst (need_retry (ro_conds o) (view_of (a_out a)))), (a_wait_cancel a); cbn [negb andb];
    rewrite ?andb_true_r, ?andb_false_r; split; try discriminate.
    + intros (_ & _ & _ & _ & H). discriminate.
    + intros H. repeat split; try reflexivity. lia.
    + intros (_ & _ & H & _). lia.
    + intros (_ & _ & _ & H & _). discriminate.
    + intros (_ & _ & _ & H & _). discriminate.
Qed.

(* ---------- arithmetic of the attempt count ---------- *)

Lemma spec_attempts_bound o : (0 <= ro_max o)%Z ->
  forall ins k, (0 <= k)%Z -> (Z.of_nat (spec_attempts o k ins) <= Z.max 0 (ro_max o - k) + 1)%Z.
Proof.
  intros HN. induction ins as [|a rest IH]; intros k Hk; cbn [spec_attempts]; [lia|].
  destruct (continues o k a) eqn:E; [|lia].
  unfold continues, hard_stop in E. destruct (first_some (a_after a)); [discriminate|].
  specialize (IH (k + 1)%Z ltac:(lia)).
  assert (k < ro_max o)%Z by lia. lia.
Qed.

Lemma spec_attempts_le_script o ins : forall k, (spec_attempts o k ins <= length ins)%nat.
Proof.
  induction ins as [|a rest IH]; intros k; cbn [spec_attempts length]; [lia|].
  destruct (continues o k a); [specialize (IH (k + 1)%Z)|]; lia.
Qed.

Lemma spec_attempts_pos o a rest k : (1 <= spec_attempts o k (a :: rest))%nat.
Proof. cbn [spec_attempts]. destruct (continues o k a); lia. Qed.

(* given that attempt j was made, attempt j+1 is made iff attempt j "continues" *)
Lemma spec_attempts_exact o : forall ins k j a,
  nth_error ins j = Some a -> (S j < length ins)%nat -> (j < spec_attempts o k ins)%nat ->
  ((S j < spec_attempts o k ins)%nat <-> continues o (k + Z.of_nat j) a = true).
Proof.
  induction ins as [|a0 rest IH]; intros k j a Hn Hl Hj; [destruct j; discriminate|].
  cbn [spec_attempts] in *. destruct j as [|j].
  - cbn in Hn. injection Hn as ->. replace (k + Z.of_nat 0)%Z with k by lia.
    destruct (continues o k a) eqn:E.
    + split; [reflexivity|]. intros _. cbn [length] in Hl.
      destruct rest as [|a1 rest']; [cbn in Hl; lia|].
      pose proof (spec_attempts_pos o a1 rest' (k + 1)). lia.
    + split; [lia|discriminate].
  - cbn [nth_error] in Hn. cbn [length] in Hl.
    destruct (continues o k a0) eqn:E; [|lia].
    replace (k + Z.of_nat (S j))%Z with ((k + 1) + Z.of_nat j)%Z by lia.
    rewrite <- (IH (k + 1)%Z j a Hn ltac:(lia) ltac:(lia)). lia.
Qed.

Section LoopProofs.
Variable detect : bytes -> bytes.
Variable c : client.

(* one turn of the loop, as an equation *)
Lemma do_loop_step o k s a rest :
  do_loop detect c (Some o) k s (a :: rest) =
  let s1 := prepare detect c s in
  let w := wire_of c s1 in
  let s2 := after_send s1 in
  let v := view_of (a_out a) in
  match first_some (a_after a) with
  | Some e => mkResult [w] [] [] [] (final_view a) (r_attempt s2) EndNormal
  | None =>
      let stop := mkResult [w] [] [] [] v (r_attempt s2) EndNormal in
      if hard_stop o (r_attempt s2) a then stop
      else
        let ccalls := map (fun id => mkCall id k v) (snd (need_retry (ro_conds o) v)) in
        if negb (fst (need_retry (ro_conds o) v)) then add_calls ccalls [] [] stop
        else
          let s3 := set_attempt s2 (r_attempt s2 + 1) in
          let s4 := run_hooks (ro_hooks o) s3 in
          let hcalls := map (fun h => mkCall (hk_id h) (r_attempt s3) v) (rev (ro_hooks o)) in
          let icall := mkCall (ro_interval o) (r_attempt s4) v in
          if a_wait_cancel a then
            add_calls ccalls hcalls [icall]
              (mkResult [w] [] [] [] (mkView (v_status v) (Some 3%Z)) (r_attempt s4) EndNormal)
          else
            cons_wire w (add_calls ccalls hcalls [icall] (do_loop detect c (Some o) (k + 1) s4 rest))
  end.
Proof.
  unfold do_loop. cbn [do_loop_gen]. unfold final_view, hard_stop, judged_view. cbn [andb].
  destruct (first_some (a_after a)); [reflexivity|].
  cbv zeta.
  destruct (is_cancelled (a_out a) || _)%bool; [reflexivity|].
  destruct (need_retry (ro_conds o) (view_of (a_out a))) as [need called]. cbn [fst snd].
  destruct need; [|reflexivity]. cbn [negb]. destruct (a_wait_cancel a); reflexivity.
Qed.

Lemma do_loop_none k s a rest :
  do_loop detect c None k s (a :: rest) =
  mkResult [wire_of c (prepare detect c s)] [] [] [] (final_view a)
           (r_attempt (after_send (prepare detect c s))) EndNormal.
Proof.
  unfold do_loop. cbn [do_loop_gen]. unfold final_view.
  destruct (first_some (a_after a)); reflexivity.
Qed.

Lemma s2_attempt s : r_attempt (after_send (prepare detect c s)) = r_attempt s.
Proof. rewrite after_send_attempt. apply prepare_attempt. Qed.

Lemma s4_attempt o s z :
  hooks_keep_attempt (ro_hooks o) ->
  r_attempt (run_hooks (ro_hooks o) (set_attempt (after_send (prepare detect c s)) z)) = z.
Proof. intros H. rewrite run_hooks_attempt by exact H. reflexivity. Qed.

Lemma do_loop_attempts o : hooks_keep_attempt (ro_hooks o) ->
  forall ins k s, r_attempt s = k ->
  length (res_wires (do_loop detect c (Some o) k s ins)) = spec_attempts o k ins.
Proof.
  intros Hh. induction ins as [|a rest IH]; intros k s Hk; [reflexivity|].
  rewrite do_loop_step. cbv zeta. cbn [spec_attempts]. unfold continues.
  rewrite s2_attempt, Hk.
  destruct (first_some (a_after a)); [reflexivity|].
  destruct (hard_stop o k a); cbn [negb andb]; [reflexivity|].
  destruct (fst (need_retry (ro_conds o) (view_of (a_out a)))); cbn [negb andb]; simp_res; [|reflexivity].
  destruct (a_wait_cancel a); cbn [negb]; simp_res; [reflexivity|].
  cbn [length]. f_equal. apply IH. apply s4_attempt, Hh.
Qed.

(* ---------- theorems about the loop ---------- *)

Theorem attempts_bounded o s ins :
  hooks_keep_attempt (ro_hooks o) -> r_attempt s = 0%Z -> (0 <= ro_max o)%Z ->
  (Z.of_nat (length (res_wires (do_loop detect c (Some o) 0 s ins))) <= ro_max o + 1)%Z.
Proof.
  intros Hh Hs HN. rewrite (do_loop_attempts o Hh ins 0%Z s Hs).
  pose proof (spec_attempts_bound o HN ins 0%Z ltac:(lia)). lia.
Qed.

Theorem attempts_no_option s ins :
  (length (res_wires (do_loop detect c None 0 s ins)) <= 1)%nat.
Proof. destruct ins as [|a rest]; [cbn; lia|]. rewrite do_loop_none. cbn. lia. Qed.

Theorem attempts_exact o s ins j a :
  hooks_keep_attempt (ro_hooks o) -> r_attempt s = 0%Z ->
  nth_error ins j = Some a -> (S j < length ins)%nat ->
  let n := length (res_wires (do_loop detect c (Some o) 0 s ins)) in
  (j < n)%nat -> ((S j < n)%nat <-> continues o (Z.of_nat j) a = true).
Proof.
  intros Hh Hs Hn Hl n. unfold n. rewrite (do_loop_attempts o Hh ins 0%Z s Hs).
  intros Hj. apply (spec_attempts_exact o ins 0%Z j a Hn Hl Hj).
Qed.

(* a negative count retries without bound: n failing outcomes give n attempts, for every n *)
Theorem attempts_unbounded_when_negative o s n :
  hooks_keep_attempt (ro_hooks o) -> r_attempt s = 0%Z -> (ro_max o < 0)%Z -> ro_conds o = [] ->
  length (res_wires (do_loop detect c (Some o) 0 s (repeat (mkAin (OErr 1 false) [] false) n))) = n.
Proof.
  intros Hh Hs HN Hc. rewrite (do_loop_attempts o Hh _ 0%Z s Hs).
  generalize 0%Z. induction n as [|n IH]; intros k; cbn [repeat spec_attempts]; [reflexivity|].
  assert (E : continues o k (mkAin (OErr 1 false) [] false) = true).
  { apply continues_iff. cbn. rewrite Hc. repeat split; try reflexivity; [left; exact HN|discriminate]. }
  rewrite E, IH. reflexivity.
Qed.

(* hooks / interval: once per retry *)
Definition retry_indices (n : nat) : list nat := seq 0 (pred n).

Definition dflt_ain : ain := mkAin (OStatus 0) [] false.

Definition hook_calls_of (o : ropt) (k : Z) (ins : list ain) (j : nat) : list call :=
  map (fun h => mkCall (hk_id h) (k + Z.of_nat (S j)) (view_of (a_out (nth j ins dflt_ain))))
      (rev (ro_hooks o)).

Definition interval_call_of (o : ropt) (k : Z) (ins : list ain) (j : nat) : call :=
  mkCall (ro_interval o) (k + Z.of_nat (S j)) (view_of (a_out (nth j ins dflt_ain))).

Lemma flat_map_seq_shift {A} (f : nat -> list A) n :
  flat_map f (seq 1 n) = flat_map (fun j => f (S j)) (seq 0 n).
Proof. rewrite <- seq_shift. rewrite !flat_map_concat_map, map_map. reflexivity. Qed.

Lemma map_seq_shift {A} (f : nat -> A) n :
  map f (seq 1 n) = map (fun j => f (S j)) (seq 0 n).
Proof. rewrite <- seq_shift, map_map. reflexivity. Qed.

Lemma do_loop_hooks o : hooks_keep_attempt (ro_hooks o) ->
  forall ins k s, r_attempt s = k ->
  Forall (fun a => a_wait_cancel a = false) ins ->
  res_end (do_loop detect c (Some o) k s ins) = EndNormal ->
  res_hooks (do_loop detect c (Some o) k s ins) =
    flat_map (hook_calls_of o k ins) (retry_indices (length (res_wires (do_loop detect c (Some o) k s ins)))) /\
  res_intervals (do_loop detect c (Some o) k s ins) =
    map (interval_call_of o k ins) (retry_indices (length (res_wires (do_loop detect c (Some o) k s ins)))).
Proof.
  intros Hh. unfold retry_indices. induction ins as [|a rest IH]; intros k s Hk Hnw; [intros _; split; reflexivity|].
  pose proof (Forall_inv Hnw) as Hwa. pose proof (Forall_inv_tail Hnw) as Hnw'. cbv beta in Hwa.
  rewrite do_loop_step. cbv zeta. rewrite Hwa.
  destruct (first_some (a_after a)); [intros _; split; reflexivity|].
  destruct (hard_stop o _ a); [intros _; split; reflexivity|].
  destruct (fst (need_retry (ro_conds o) (view_of (a_out a)))); cbn [negb]; simp_res; [|intros _; split; reflexivity].
  intros Hend. cbn [length pred].
  assert (Hk4 : r_attempt (run_hooks (ro_hooks o)
              (set_attempt (after_send (prepare detect c s)) (r_attempt (after_send (prepare detect c s)) + 1)))
              = (k + 1)%Z) by (rewrite s4_attempt by exact Hh; rewrite s2_attempt; lia).
  destruct rest as [|a1 rest'].
  { (* the script ended on a retry decision: excluded by the hypothesis *)
    unfold do_loop in Hend. cbn [do_loop_gen res_end] in Hend. discriminate Hend. }
  destruct (IH (k + 1)%Z _ Hk4 Hnw' Hend) as [IH1 IH2]. rewrite IH1, IH2.
  rewrite (do_loop_attempts o Hh (a1 :: rest') (k + 1)%Z _ Hk4).
  rewrite Hk4. cbn [set_attempt r_attempt]. rewrite s2_attempt, Hk.
  pose proof (spec_attempts_pos o a1 rest' (k + 1)) as Hp.
  destruct (spec_attempts o (k + 1) (a1 :: rest')) as [|m]; [lia|]. cbn [pred].
  change (seq 0 (S m)) with (0%nat :: seq 1 m). cbn [flat_map map].
  rewrite flat_map_seq_shift, map_seq_shift.
  cbn [app].
  split.
  - apply (f_equal2 (@app call)).
    + unfold hook_calls_of. cbn [nth]. apply map_ext. intros h. f_equal; lia.
    + apply flat_map_ext. intros j. unfold hook_calls_of. cbn [nth]. apply map_ext. intros h. f_equal; lia.
  - apply (f_equal2 (@cons call)).
    + unfold interval_call_of. cbn [nth]. f_equal; lia.
    + apply map_ext. intros j. unfold interval_call_of. cbn [nth]. f_equal; lia.
Qed.

(* every hook runs exactly once per retry, last registered first, with the retry's attempt
   number (1 for the first retry) and the outcome of the attempt that is being retried
   ([res_end r = EndNormal]: the outcome list did not run out in the middle of a retry) *)
Theorem hooks_once_per_retry o s ins :
  hooks_keep_attempt (ro_hooks o) -> r_attempt s = 0%Z ->
  Forall (fun a => a_wait_cancel a = false) ins ->
  let r := do_loop detect c (Some o) 0 s ins in
  res_end r = EndNormal ->
  res_hooks r =
    flat_map (fun j => map (fun h => mkCall (hk_id h) (Z.of_nat (S j)) (view_of (a_out (nth j ins dflt_ain))))
                           (rev (ro_hooks o)))
             (seq 0 (pred (length (res_wires r)))).
Proof.
  intros Hh Hs Hnw r Hend. destruct (do_loop_hooks o Hh ins 0%Z s Hs Hnw Hend) as [H _]. exact H.
Qed.

Theorem interval_once_per_retry o s ins :
  hooks_keep_attempt (ro_hooks o) -> r_attempt s = 0%Z ->
  Forall (fun a => a_wait_cancel a = false) ins ->
  let r := do_loop detect c (Some o) 0 s ins in
  res_end r = EndNormal ->
  res_intervals r =
    map (fun j => mkCall (ro_interval o) (Z.of_nat (S j)) (view_of (a_out (nth j ins dflt_ain))))
        (seq 0 (pred (length (res_wires r)))).
Proof.
  intros Hh Hs Hnw r Hend. destruct (do_loop_hooks o Hh ins 0%Z s Hs Hnw Hend) as [_ H]. exact H.
Qed.

(* ---------- the final result ---------- *)

Lemma do_loop_final o : hooks_keep_attempt (ro_hooks o) ->
  forall ins k s, r_attempt s = k ->
  Forall (fun a => a_wait_cancel a = false) ins ->
  let r := do_loop detect c (Some o) k s ins in
  res_end r = EndNormal ->
  (1 <= length (res_wires r))%nat /\
  (exists a, nth_error ins (pred (length (res_wires r))) = Some a /\ res_final r = final_view a) /\
  res_attempt r = (k + Z.of_nat (pred (length (res_wires r))))%Z.
Proof.
  intros Hh. induction ins as [|a rest IH]; intros k s Hk Hnw; cbv zeta; [cbn; discriminate|].
  pose proof (Forall_inv Hnw) as Hwa. pose proof (Forall_inv_tail Hnw) as Hnw'. cbv beta in Hwa.
  rewrite do_loop_step. cbv zeta. rewrite Hwa.
  assert (Hfv : first_some (a_after a) = None -> final_view a = view_of (a_out a)).
  { intros E. unfold final_view. rewrite E. reflexivity. }
  destruct (first_some (a_after a)) eqn:Ea.
  { intros _. simp_res. cbn [length pred nth_error]. rewrite s2_attempt.
    split; [lia|]. split; [exists a; split; reflexivity|lia]. }
  specialize (Hfv eq_refl).
  destruct (hard_stop o _ a).
  { intros _. simp_res. cbn [length pred nth_error]. rewrite s2_attempt.
    split; [lia|]. split; [exists a; split; [reflexivity|symmetry; exact Hfv]|lia]. }
  destruct (fst (need_retry (ro_conds o) (view_of (a_out a)))); cbn [negb]; simp_res.
  2:{ intros _. cbn [length pred nth_error]. rewrite s2_attempt.
      split; [lia|]. split; [exists a; split; [reflexivity|symmetry; exact Hfv]|lia]. }
  intros Hend.
  assert (Hk4 : r_attempt (run_hooks (ro_hooks o)
              (set_attempt (after_send (prepare detect c s)) (r_attempt (after_send (prepare detect c s)) + 1)))
              = (k + 1)%Z) by (rewrite s4_attempt by exact Hh; rewrite s2_attempt; lia).
  destruct (IH (k + 1)%Z _ Hk4 Hnw' Hend) as (H1 & (a' & Hn & Hf) & H3).
  cbn [length pred]. split; [lia|]. split.
  - exists a'. split; [|exact Hf].
    destruct (length (res_wires (do_loop detect c (Some o) (k + 1) _ rest))) as [|m]; [lia|].
    cbn [pred] in Hn. exact Hn.
  - rewrite H3. lia.
Qed.

Theorem final_is_last_attempt o s ins :
  hooks_keep_attempt (ro_hooks o) -> r_attempt s = 0%Z ->
  Forall (fun a => a_wait_cancel a = false) ins ->
  let r := do_loop detect c (Some o) 0 s ins in
  res_end r = EndNormal ->
  exists a, nth_error ins (pred (length (res_wires r))) = Some a /\
            res_final r = final_view a /\
            res_attempt r = Z.of_nat (pred (length (res_wires r))).
Proof.
  intros Hh Hs Hnw r Hend. destruct (do_loop_final o Hh ins 0%Z s Hs Hnw Hend) as (_ & (a & Hn & Hf) & H3).
  exists a. repeat split; [exact Hn|exact Hf|]. fold r in H3. rewrite H3. lia.
Qed.

(* the script is only exhausted when every scripted attempt asked for another one *)
Lemma do_loop_end o : forall ins k s,
  res_end (do_loop detect c (Some o) k s ins) = EndNormal \/
  res_end (do_loop detect c (Some o) k s ins) = EndScript.
Proof.
  induction ins as [|a rest IH]; intros k s; [right; reflexivity|].
  rewrite do_loop_step. cbv zeta.
  destruct (first_some (a_after a)); [left; reflexivity|].
  destruct (hard_stop o _ a); [left; reflexivity|].
  destruct (fst (need_retry (ro_conds o) (view_of (a_out a)))); cbn [negb]; simp_res; [|left; reflexivity].
  destruct (a_wait_cancel a); simp_res; [left; reflexivity|apply IH].
Qed.

(* the context ends while the retry is being prepared (hooks, interval function, the wait - also a
   zero-length one): no further attempt; the call reports the last attempt's response with the
   context's error, the hooks and the interval function of that retry have run *)
Theorem wait_cancel_ends_the_retries o k s a rest :
  a_wait_cancel a = true ->
  length (res_wires (do_loop detect c (Some o) k s (a :: rest))) = 1%nat /\
  (first_some (a_after a) = None -> hard_stop o (r_attempt (after_send (prepare detect c s))) a = false ->
   fst (need_retry (ro_conds o) (view_of (a_out a))) = true ->
   res_final (do_loop detect c (Some o) k s (a :: rest)) = mkView (v_status (view_of (a_out a))) (Some 3%Z) /\
   res_end (do_loop detect c (Some o) k s (a :: rest)) = EndNormal /\
   length (res_hooks (do_loop detect c (Some o) k s (a :: rest))) = length (ro_hooks o) /\
   length (res_intervals (do_loop detect c (Some o) k s (a :: rest))) = 1%nat).
Proof.
  intros Hw. rewrite do_loop_step. cbv zeta. rewrite Hw.
  destruct (first_some (a_after a)).
  { split; [reflexivity|intros H; discriminate H]. }
  destruct (hard_stop o _ a).
  { split; [reflexivity|intros _ H; discriminate H]. }
  destruct (fst (need_retry (ro_conds o) (view_of (a_out a)))); cbn [negb]; simp_res.
  - split; [reflexivity|]. intros _ _ _. repeat split.
    + rewrite app_nil_r, map_length, rev_length. reflexivity.
  - split; [reflexivity|intros _ _ H; discriminate H].
Qed.

(* ---------- every attempt sends the same request ---------- *)

Lemma wire_of_set_attempt s b : wire_of c (set_attempt s b) = wire_of c s.
Proof. reflexivity. Qed.

Lemma seqv_set_attempt a b z : seqv a b -> seqv (set_attempt a z) (set_attempt b z).
Proof.
  unfold seqv. intros (?&?&?&?&?&?&?&?&?&?&?&?&?&?&?&H). cbn [set_attempt r_method r_rawquery r_headers r_cookies r_form
    r_query r_body r_getbody r_reader r_unreplayable r_attempt r_path r_pparams r_ordered r_marshal r_close].
  repeat (split; [first [assumption|reflexivity]|]). exact H.
Qed.

Lemma seqv_getbody a b : seqv a b -> r_getbody a = r_getbody b.
Proof. unfold seqv. intros (?&?&?&?&?&?&?&?&?&?&?&?&?&?&?&H). assumption. Qed.

Lemma seqv_attempt a b : seqv a b -> r_attempt a = r_attempt b.
Proof. unfold seqv. intros (?&?&?&?&?&?&?&?&?&?&?&?&?&?&?&H). assumption. Qed.

(* T = the state the first pass of the middlewares left; later turns start from a state that
   is T up to the attempt counter and reproduce it *)
Lemma do_loop_same ro T :
  (forall b, (1 <= b)%Z -> seqv (prepare detect c (set_attempt T b)) (set_attempt T b)) ->
  r_getbody T <> GBReader ->
  (match ro with Some o => hooks_silent (ro_hooks o) | None => True end) ->
  forall ins k s, (1 <= r_attempt s)%Z -> seqv s (set_attempt T (r_attempt s)) ->
  Forall (fun w => wire_same w (wire_of c T)) (res_wires (do_loop detect c ro k s ins)).
Proof.
  intros Hst Hgb Hsil. induction ins as [|a rest IH]; intros k s Hb Hs; [constructor|].
  assert (H1 : seqv (prepare detect c s) (set_attempt T (r_attempt s))).
  { eapply seqv_trans; [apply prepare_seqv, Hs|apply Hst, Hb]. }
  assert (Hw : wire_same (wire_of c (prepare detect c s)) (wire_of c T)).
  { rewrite <- (wire_of_set_attempt T (r_attempt s)). apply seqv_wire, H1. }
  destruct ro as [o|].
  2:{ rewrite do_loop_none. simp_res. constructor; [exact Hw|constructor]. }
  rewrite do_loop_step. cbv zeta.
  destruct (first_some (a_after a)); [simp_res; constructor; [exact Hw|constructor]|].
  destruct (hard_stop o _ a); [simp_res; constructor; [exact Hw|constructor]|].
  destruct (fst (need_retry (ro_conds o) (view_of (a_out a)))); cbn [negb]; simp_res;
    [|constructor; [exact Hw|constructor]].
  destruct (a_wait_cancel a); simp_res; [constructor; [exact Hw|constructor]|].
  constructor; [exact Hw|].
  rewrite (run_hooks_silent _ _ Hsil).
  assert (Hnr : r_getbody (prepare detect c s) <> GBReader).
  { rewrite (seqv_getbody _ _ H1). exact Hgb. }
  rewrite (after_send_not_reader _ Hnr).
  assert (Ha : r_attempt (prepare detect c s) = r_attempt s) by apply prepare_attempt.
  apply IH.
  - cbn [set_attempt r_attempt]. lia.
  - cbn [set_attempt r_attempt]. rewrite Ha.
    apply (seqv_set_attempt _ _ (r_attempt s + 1)%Z) in H1. exact H1.
Qed.

Lemma do_loop_identical ro s ins :
  (0 <= r_attempt s)%Z -> r_getbody s <> GBReader ->
  (match ro with Some o => hooks_silent (ro_hooks o) | None => True end) ->
  Forall (fun w => wire_same w (wire_of c (prepare detect c s))) (res_wires (do_loop detect c ro 0 s ins)).
Proof.
  intros Hs Hgb Hsil. destruct ins as [|a rest]; [constructor|].
  set (T := prepare detect c s).
  assert (HT : r_getbody T <> GBReader) by (apply prepare_not_reader, Hgb).
  assert (Hst : forall b, (1 <= b)%Z -> seqv (prepare detect c (set_attempt T b)) (set_attempt T b))
    by (intros b Hb; apply prepare_idem_first, Hb).
  destruct ro as [o|].
  2:{ rewrite do_loop_none. simp_res. constructor; [apply wire_same_refl|constructor]. }
  rewrite do_loop_step. cbv zeta. fold T.
  destruct (first_some (a_after a)); [simp_res; constructor; [apply wire_same_refl|constructor]|].
  destruct (hard_stop o _ a); [simp_res; constructor; [apply wire_same_refl|constructor]|].
  destruct (fst (need_retry (ro_conds o) (view_of (a_out a)))); cbn [negb]; simp_res;
    [|constructor; [apply wire_same_refl|constructor]].
  destruct (a_wait_cancel a); simp_res; [constructor; [apply wire_same_refl|constructor]|].
  constructor; [apply wire_same_refl|].
  rewrite (run_hooks_silent _ _ Hsil). rewrite (after_send_not_reader _ HT).
  assert (Ha : r_attempt T = r_attempt s) by apply prepare_attempt.
  apply (do_loop_same (Some o) T Hst HT Hsil).
  - cbn [set_attempt r_attempt]. lia.
  - cbn [set_attempt r_attempt]. apply seqv_refl.
Qed.

(* no retry option, or a count of 0: a single attempt *)
Lemma do_loop_single o s ins :
  ro_max o = 0%Z -> (0 <= r_attempt s)%Z ->
  (length (res_wires (do_loop detect c (Some o) 0 s ins)) <= 1)%nat.
Proof.
  intros HN Hs. destruct ins as [|a rest]; [cbn; lia|].
  rewrite do_loop_step. cbv zeta. rewrite s2_attempt.
  destruct (first_some (a_after a)); [cbn; lia|].
  unfold hard_stop. rewrite HN.
  replace ((0 <=? r_attempt s)%Z && (0 <=? 0)%Z) with true by lia.
  rewrite orb_true_r. cbn. lia.
Qed.

End LoopProofs.
