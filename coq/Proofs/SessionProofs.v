(* Proofs/SessionProofs.v - state carried from one request / execution to the next (C17). *)
From Coq Require Import Lia.
From ReqV Require Import Lib.Bytes Lib.BytesFacts Model.Form Model.ReqBody Model.Session
  Proofs.FormProofs Proofs.ReqBodyProofs.

(* ---------- update_key ---------- *)

Lemma update_key_absent k f m : ~ In k (map fst m) -> update_key k f m = m.
Proof.
  induction m as [|e m IH]; intro H; [reflexivity|]. cbn [update_key]. cbn [map In] in H.
  destruct (bytes_eqb (fst e) k) eqn:E; [apply bytes_eqb_eq in E; tauto|]. rewrite IH by tauto. reflexivity.
Qed.

Lemma update_key_keys k f m x : In x (map fst (update_key k f m)) -> In x (map fst m).
Proof.
  induction m as [|e m IH]; [auto|]. cbn [update_key].
  destruct (bytes_eqb (fst e) k).
  - destruct (f (snd e)); cbn [map In fst]; tauto.
  - cbn [map In]. intros [H|H]; [now left|right; now apply IH].
Qed.

Lemma update_key_nodup k f m : NoDup (map fst m) -> NoDup (map fst (update_key k f m)).
Proof.
  induction m as [|e m IH]; intro ND; [exact ND|]. cbn [map] in ND. inversion ND as [|? ? N ND']; subst.
  cbn [update_key]. destruct (bytes_eqb (fst e) k).
  - destruct (f (snd e)); [exact ND'|]. cbn [map fst]. now constructor.
  - cbn [map]. constructor; [|now apply IH]. intro H. apply N. eapply update_key_keys, H.
Qed.

Lemma update_key_other k k' f m : k <> k' -> lookup k' (update_key k f m) = lookup k' m.
Proof.
  intro N. induction m as [|e m IH]; [reflexivity|]. cbn [update_key].
  destruct (bytes_eqb (fst e) k) eqn:E.
  - apply bytes_eqb_eq in E. rewrite lookup_cons. unfold vals.
    assert (bytes_eqb (fst e) k' = false) as F by (apply bytes_eqb_neq; congruence).
    rewrite F. cbn [app]. destruct (f (snd e)); [reflexivity|].
    rewrite lookup_cons. unfold vals. cbn [fst]. now rewrite F.
  - now rewrite !lookup_cons, IH.
Qed.

Lemma update_key_same k f m :
  NoDup (map fst m) -> In k (map fst m) -> lookup k (update_key k f m) = f (lookup k m).
Proof.
  induction m as [|e m IH]; intros ND H; [destruct H|]. cbn [map] in ND. inversion ND as [|? ? N ND']; subst.
  cbn [update_key]. destruct (bytes_eqb (fst e) k) eqn:E.
  - apply bytes_eqb_eq in E. subst k. rewrite lookup_cons. unfold vals. rewrite bytes_eqb_refl.
    rewrite (lookup_notin _ _ N), app_nil_r.
    destruct (f (snd e)) eqn:F; [now apply lookup_notin|].
    rewrite lookup_cons. unfold vals. cbn [fst snd]. rewrite bytes_eqb_refl.
    now rewrite (lookup_notin _ _ N), app_nil_r.
  - cbn [map In] in H. destruct H as [H|H]; [apply bytes_eqb_neq in E; congruence|].
    rewrite !lookup_cons. unfold vals. rewrite E. cbn [app]. now apply IH.
Qed.

(* ---------- slices ---------- *)

Lemma list_eqb_bytes_refl l : list_eqb bytes_eqb l l = true.
Proof. induction l as [|x l IH]; [reflexivity|]. cbn. now rewrite bytes_eqb_refl. Qed.

Lemma slice_eqb_app (a vs : list bytes) : slice_eqb (length a) vs (a ++ vs) = true.
Proof.
  unfold slice_eqb. rewrite app_length, Nat.leb_refl, skipn_app_exact.
  rewrite firstn_all. apply list_eqb_bytes_refl.
Qed.

Lemma remove_slice_app (a vs : list bytes) : remove_slice (length a) (length vs) (a ++ vs) = a.
Proof.
  unfold remove_slice. rewrite firstn_app_exact.
  rewrite <- app_length, skipn_all. apply app_nil_r.
Qed.

(* ---------- unmerge ---------- *)

Definition rec_key (rc : bytes * nat * list bytes) : bytes := fst (fst rc).

Lemma unmerge_one_nodup m rc : NoDup (map fst m) -> NoDup (map fst (unmerge_one m rc)).
Proof.
  destruct rc as [[k a] vs]. unfold unmerge_one. intro ND.
  destruct (slice_eqb a vs (lookup k m)); [now apply update_key_nodup|exact ND].
Qed.

Lemma unmerge_one_other m rc k' : rec_key rc <> k' -> lookup k' (unmerge_one m rc) = lookup k' m.
Proof.
  destruct rc as [[k a] vs]. unfold unmerge_one, rec_key. cbn [fst]. intro N.
  destruct (slice_eqb a vs (lookup k m)); [now apply update_key_other|reflexivity].
Qed.

Lemma unmerge_one_same m k a vs :
  NoDup (map fst m) -> slice_eqb a vs (lookup k m) = true ->
  lookup k (unmerge_one m (k, a, vs)) = remove_slice a (length vs) (lookup k m).
Proof.
  intros ND S. unfold unmerge_one. rewrite S.
  destruct (in_dec (list_eq_dec Byte.byte_eq_dec) k (map fst m)) as [I|I].
  - now apply update_key_same.
  - rewrite update_key_absent by exact I. rewrite (lookup_notin _ _ I) in *.
    unfold slice_eqb in S. apply andb_prop in S as (S & _). apply Nat.leb_le in S. cbn [length] in S.
    assert (a = 0 /\ length vs = 0) as (-> & ->) by lia. reflexivity.
Qed.

Lemma unmerge_other recs : forall m k',
  ~ In k' (map rec_key recs) -> lookup k' (unmerge recs m) = lookup k' m.
Proof.
  induction recs as [|rc recs IH]; intros m k' H; [reflexivity|].
  cbn [map In] in H. unfold unmerge in *. cbn [fold_left]. rewrite IH by tauto.
  apply unmerge_one_other. tauto.
Qed.

Lemma unmerge_nodup recs : forall m, NoDup (map fst m) -> NoDup (map fst (unmerge recs m)).
Proof.
  induction recs as [|rc recs IH]; intros m ND; [exact ND|].
  unfold unmerge in *. cbn [fold_left]. apply IH, unmerge_one_nodup, ND.
Qed.

Lemma unmerge_hit recs : forall m k a vs,
  NoDup (map fst m) -> NoDup (map rec_key recs) -> In (k, a, vs) recs ->
  slice_eqb a vs (lookup k m) = true ->
  lookup k (unmerge recs m) = remove_slice a (length vs) (lookup k m).
Proof.
  induction recs as [|rc recs IH]; intros m k a vs ND NR I S; [destruct I|].
  cbn [map] in NR. inversion NR as [|? ? N NR']; subst.
  unfold unmerge in *. cbn [fold_left]. destruct I as [->|I].
  - fold (unmerge recs (unmerge_one m (k, a, vs))).
    rewrite unmerge_other by exact N. now apply unmerge_one_same.
  - assert (rec_key rc <> k) as D.
    { intro E. apply N. rewrite E. change k with (rec_key (k, a, vs)). now apply in_map. }
    rewrite (IH (unmerge_one m rc) k a vs); try assumption.
    + now rewrite unmerge_one_other.
    + now apply unmerge_one_nodup.
    + now rewrite unmerge_one_other.
Qed.

Lemma merge_records_keys rf cf : map rec_key (merge_records rf cf) = map fst cf.
Proof. unfold merge_records. rewrite map_map. reflexivity. Qed.

Lemma lookup_in_nodup k vs m : NoDup (map fst m) -> In (k, vs) m -> lookup k m = vs.
Proof.
  induction m as [|e m IH]; intros ND I; [destruct I|]. cbn [map] in ND. inversion ND as [|? ? N ND']; subst.
  rewrite lookup_cons. unfold vals. destruct I as [->|I].
  - cbn [fst snd] in *. rewrite bytes_eqb_refl. rewrite (lookup_notin _ _ N). apply app_nil_r.
  - destruct (bytes_eqb (fst e) k) eqn:E.
    + apply bytes_eqb_eq in E. exfalso. apply N. rewrite E. change k with (fst (k, vs)). now apply in_map.
    + now apply IH.
Qed.

(* what the previous execution merged from the client is taken back exactly: the request's own
   data are what they were *)
Theorem unmerge_merge rf cf :
  NoDup (map fst rf) -> NoDup (map fst cf) ->
  forall k, lookup k (unmerge (merge_records rf cf) (merge_form rf cf)) = lookup k rf.
Proof.
  intros NR NC k.
  assert (NoDup (map fst (merge_form rf cf))) as NM by now apply merge_form_nodup.
  destruct (in_dec (list_eq_dec Byte.byte_eq_dec) k (map fst cf)) as [I|I].
  - apply in_map_iff in I as ([k0 vs] & E & I). cbn [fst] in E. subst k0.
    rewrite (unmerge_hit _ _ k (length (lookup k rf)) vs); try assumption.
    + rewrite merge_form_lookup by exact NR. rewrite (lookup_in_nodup _ _ _ NC I). apply remove_slice_app.
    + now rewrite merge_records_keys.
    + unfold merge_records. apply in_map_iff. exists (k, vs). split; [reflexivity|exact I].
    + rewrite merge_form_lookup by exact NR. rewrite (lookup_in_nodup _ _ _ NC I). apply slice_eqb_app.
  - rewrite unmerge_other by (now rewrite merge_records_keys).
    rewrite merge_form_lookup by exact NR. rewrite (lookup_notin _ _ I). apply app_nil_r.
Qed.

(* ---------- executions ---------- *)

Definition req_ok (r : sreq) : Prop := NoDup (map fst (sr_form r)) /\ sr_merged r = [].

Lemma prepare_lookup c v1 r k :
  NoDup (map fst (sr_form r)) -> sr_merged r = [] ->
  lookup k (sr_form (prepare c v1 r)) = lookup k (sr_form r) ++ lookup k c.
Proof.
  intros ND M. unfold prepare. rewrite M. cbn [unmerge fold_left].
  destruct c as [|e c]; cbn [sr_form]; [cbn; now rewrite app_nil_r|].
  now apply merge_form_lookup.
Qed.

(* sending a request a second time sets up the same data as the first time: the request's own
   plus the client's - nothing is lost, nothing doubled *)
Theorem resend_same_data c v1 v2 r :
  NoDup (map fst (sr_form r)) -> sr_merged r = [] -> NoDup (map fst c) ->
  forall k, lookup k (sr_form (prepare c v2 (prepare c v1 r))) = lookup k (sr_form r) ++ lookup k c.
Proof.
  intros ND M NC k. unfold prepare at 1.
  assert (forall k, lookup k (unmerge (sr_merged (prepare c v1 r)) (sr_form (prepare c v1 r))) = lookup k (sr_form r)) as U.
  { intro k0. unfold prepare. rewrite M. cbn [unmerge fold_left].
    destruct c as [|e c]; cbn [sr_form sr_merged]; [reflexivity|].
    now apply unmerge_merge. }
  assert (NoDup (map fst (unmerge (sr_merged (prepare c v1 r)) (sr_form (prepare c v1 r))))) as NU.
  { apply unmerge_nodup. unfold prepare. rewrite M. cbn [unmerge fold_left].
    destruct c as [|e c]; cbn [sr_form]; [exact ND|now apply merge_form_nodup]. }
  destruct c as [|e c]; cbn [sr_form].
  - rewrite U. cbn. now rewrite app_nil_r.
  - rewrite merge_form_lookup by exact NU. now rewrite U.
Qed.

(* ... and the server therefore sees the same form data both times *)
Theorem resend_same_body_data c v1 v2 r b1 b2 :
  NoDup (map fst (sr_form r)) -> sr_merged r = [] -> NoDup (map fst c) ->
  form_plan_of (sr_form (prepare c v1 r)) [] (sr_ordered r) = FBody b1 ->
  form_plan_of (sr_form (prepare c v2 (prepare c v1 r))) [] (sr_ordered r) = FBody b2 ->
  forall k, values_of k (parse_form b2) = values_of k (parse_form b1).
Proof.
  intros ND M NC P1 P2 k.
  assert (NoDup (map fst (sr_form (prepare c v1 r)))) as N1.
  { unfold prepare. rewrite M. cbn [unmerge fold_left].
    destruct c; cbn [sr_form]; [exact ND|now apply merge_form_nodup]. }
  assert (NoDup (map fst (sr_form (prepare c v2 (prepare c v1 r))))) as N2.
  { unfold prepare at 1.
    assert (NoDup (map fst (unmerge (sr_merged (prepare c v1 r)) (sr_form (prepare c v1 r))))) by now apply unmerge_nodup.
    destruct c; cbn [sr_form]; [assumption|now apply merge_form_nodup]. }
  destruct (form_body_roundtrip _ [] _ _ N1 P1) as (_ & R1).
  destruct (form_body_roundtrip _ [] _ _ N2 P2) as (_ & R2).
  rewrite R1, R2. cbn [lookup filter map concat]. rewrite !app_nil_r.
  rewrite resend_same_data, prepare_lookup by assumption. reflexivity.
Qed.

(* ---------- frame: what is done to one request does not touch another, nor the client ---------- *)

Definition op_target (o : sop) : option nat :=
  match o with
  | SReqAdd i _ | SReqSet i _ _ | SReqOrdered i _ | SReqBody i | SSend i | SSendQuiet i | SSendRetry i _
  | SBegin i | SFinish i => Some i
  | SClientAdd _ _ | SClone _ | SCellSet _ => None
  end.

Lemma upd_other {A} (f : A -> A) d : forall l i j, i <> j -> nth j (upd i f l) d = nth j l d.
Proof.
  induction l as [|x l IH]; intros i j N; [destruct i; reflexivity|].
  destruct i, j; cbn [upd nth]; try reflexivity; [contradiction|]. apply IH. congruence.
Qed.

Lemma nth_upd_same {A} (f : A -> A) d : forall l i, i < length l -> nth i (upd i f l) d = f (nth i l d).
Proof.
  induction l as [|x l IH]; intros i L; [cbn in L; lia|].
  destruct i; cbn [upd nth]; [reflexivity|]. apply IH. cbn [length] in L. lia.
Qed.

Theorem step_frame s o i j :
  op_target o = Some i -> i <> j ->
  nth j (ss_reqs (fst (sstep s o))) sreq0 = nth j (ss_reqs s) sreq0 /\
  ss_client (fst (sstep s o)) = ss_client s.
Proof.
  intros T N. destruct o; cbn in T; inversion T; subst; cbn [sstep fst ss_reqs ss_client];
    (split; [first [now apply upd_other|reflexivity]|reflexivity]).
Qed.

(* executing requests never changes the client's form data *)
Theorem client_untouched_by_requests s o :
  (forall c f, o <> SClientAdd c f) -> (forall c, o <> SClone c) ->
  ss_client (fst (sstep s o)) = ss_client s.
Proof.
  intros H H'. destruct o; try reflexivity; exfalso; [now apply (H c f)|now apply (H' c)].
Qed.

(* ---------- clones ---------- *)

(* Clone() gives the new client the form data of the original as they are at that moment ... *)
Theorem clone_copies s c :
  nth (length (ss_client s)) (ss_client (fst (sstep s (SClone c)))) [] = nth c (ss_client s) [] /\
  forall d, d < length (ss_client s) ->
    nth d (ss_client (fst (sstep s (SClone c)))) [] = nth d (ss_client s) [].
Proof.
  cbn [sstep fst ss_client]. split.
  - now rewrite nth_middle.
  - intros d L. now rewrite app_nth1.
Qed.

(* ... and from then on what is added to one client (original or clone) is not seen by any other *)
Theorem client_add_frame s c d f :
  c <> d -> nth d (ss_client (fst (sstep s (SClientAdd c f)))) [] = nth d (ss_client s) [].
Proof. intro N. cbn [sstep fst ss_client]. now apply upd_other. Qed.

Theorem client_add_own s c f :
  c < length (ss_client s) ->
  nth c (ss_client (fst (sstep s (SClientAdd c f)))) [] = merge_form (nth c (ss_client s) []) f.
Proof. intro L. cbn [sstep fst ss_client]. now apply nth_upd_same. Qed.

(* every attempt marshals the payload as it is at that moment: nothing is kept from an earlier
   marshalling *)
Theorem attempts_marshal_fresh s i v r :
  r = prepare (client_of s i) (ss_cell s) (nth i (ss_reqs s) sreq0) ->
  form_plan_of (sr_form r) [] (sr_ordered r) = FNone -> sr_body r = true ->
  snd (sstep s (SSendRetry i v)) = [OutMarshal i (ss_cell s); OutMarshal i v] /\
  snd (sstep s (SSend i)) = [OutMarshal i (ss_cell s)].
Proof.
  intros -> P B. cbn [sstep snd]. unfold emit. cbn [resnap sr_form sr_ordered sr_body sr_snap].
  rewrite P, B. unfold prepare. destruct (client_of s i); split; reflexivity.
Qed.

(* ---------- between set-up and write ---------- *)

Fixpoint srun_state (s : sstate) (ops : list sop) : sstate :=
  match ops with
  | [] => s
  | o :: t => srun_state (fst (sstep s o)) t
  end.

Definition other_request (i : nat) (o : sop) : Prop := exists j, op_target o = Some j /\ j <> i.

(* whatever other requests do (setters, whole executions, retries that change the shared payload)
   between the moment R_i's body was set up and the moment it is written, R_i sends what was set up *)
Theorem interleaving_independent s i ops :
  i < length (ss_reqs s) ->
  Forall (other_request i) ops ->
  let s1 := fst (sstep s (SBegin i)) in
  snd (sstep (srun_state s1 ops) (SFinish i)) = snd (sstep s (SSend i)).
Proof.
  intros L H. cbn zeta.
  assert (forall st, Forall (other_request i) ops ->
            nth i (ss_reqs (srun_state st ops)) sreq0 = nth i (ss_reqs st) sreq0) as K.
  { clear H. induction ops as [|o t IH]; intros st F; [reflexivity|].
    inversion F as [|? ? (j & T & N) F']; subst. cbn [srun_state]. rewrite IH by exact F'.
    now destruct (step_frame st o j i T N). }
  cbn [sstep snd fst]. rewrite K by exact H. cbn [ss_reqs].
  now rewrite nth_upd_same by exact L.
Qed.
