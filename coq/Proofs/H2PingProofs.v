(* Proofs/H2PingProofs.v - no acknowledgement, however often repeated, closes a channel twice (C07) *)
From ReqV Require Import Lib.Bytes Model.H2Ping.

Definition all_open (m : pmap) : Prop := forall p, pget p m <> Some true.

Lemma pget_pdel_other p q m : p <> q -> pget q (pdel p m) = pget q m.
Proof.
  intros H. induction m as [|[k v] r IH]; cbn; [reflexivity|].
  destruct (Nat.eqb_spec k p), (Nat.eqb_spec k q); subst; cbn; try congruence.
  - now rewrite Nat.eqb_refl.
  - destruct (Nat.eqb_spec k q); congruence.
Qed.

Lemma pget_pdel_same p m : pget p (pdel p m) = None.
Proof.
  induction m as [|[k v] r IH]; cbn; [reflexivity|].
  destruct (Nat.eqb_spec k p); [exact IH|]. cbn. destruct (Nat.eqb_spec k p); congruence.
Qed.

Lemma all_open_pdel p m : all_open m -> all_open (pdel p m).
Proof.
  intros H q. destruct (Nat.eq_dec p q) as [->|N]; [rewrite pget_pdel_same; discriminate|].
  rewrite pget_pdel_other by assumption. apply H.
Qed.

Lemma pstep_open m ev : all_open m -> exists m', pstep true m ev = Some m' /\ all_open m'.
Proof.
  intros H. destruct ev as [p|p|p]; cbn [pstep].
  - eexists; split; [reflexivity|]. intros q. unfold pset. cbn.
    destruct (Nat.eqb_spec p q); [discriminate|]. rewrite pget_pdel_other by assumption. apply H.
  - destruct (pget p m) as [[|]|] eqn:E; [exfalso; now apply (H p)| |]; eexists; split; try reflexivity; auto using all_open_pdel.
  - eexists; split; [reflexivity|]. now apply all_open_pdel.
Qed.

(* for EVERY order of pings sent, acknowledgements (repeated, unknown payloads, ...) and Ping calls
   returning: the read loop never closes a channel twice *)
Theorem ping_ack_never_double_close : forall evs m, all_open m -> prun true m evs <> None.
Proof.
  induction evs as [|ev r IH]; intros m H; cbn [prun]; [discriminate|].
  destruct (pstep_open m ev H) as (m' & -> & H'). now apply IH.
Qed.

Theorem ping_ack_never_double_close0 evs : prun true [] evs <> None.
Proof. apply ping_ack_never_double_close. intros p. discriminate. Qed.

(* the variant that leaves forgetting the entry to the Ping goroutine: a duplicate acknowledgement
   handled before that goroutine has run closes the channel again *)
Theorem ping_entry_kept_refuted :
  prun false [] [PSent 7; PAck 7; PAck 7; PReturns 7] = None /\
  prun false [] [PSent 7; PAck 7; PReturns 7; PAck 7] <> None /\
  prun true [] [PSent 7; PAck 7; PAck 7; PReturns 7] <> None.
Proof. cbn. repeat split; discriminate. Qed.
