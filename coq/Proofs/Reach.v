(* Proofs/Reach.v - invariants of a finite labelled transition system by a checked closed set.

   For a deterministic step function over a finite label alphabet, a finite map M of states that
   (1) contains the initial state and (2) is closed under every label is an inductive invariant:
   every state reached by ANY label sequence of ANY length is in M.  M is computed (breadth
   first) and then CHECKED by vm_compute; soundness needs neither the search nor the hash code to
   be right (a wrong code or an incomplete search makes the check fail, never pass).  State
   predicates are then decided on the finitely many members of M. *)
From Coq Require Import List Bool Arith PArith FMapPositive.
Import ListNotations.

Section Reach.
  Variables St Lab : Type.
  Variable step : St -> Lab -> option St.
  Variable code : St -> positive.
  Variable eqb : St -> St -> bool.
  Hypothesis eqb_sound : forall a b, eqb a b = true -> a = b.
  Variable labels : list Lab.
  Hypothesis labels_all : forall l, In l labels.

  Definition smap := PositiveMap.t St.

  Definition memM (s : St) (M : smap) : bool :=
    match PositiveMap.find (code s) M with Some s' => eqb s s' | None => false end.

  Definition InM (s : St) (M : smap) : Prop := exists k, PositiveMap.find k M = Some s.

  Lemma memM_In : forall s M, memM s M = true -> InM s M.
  Proof.
    unfold memM, InM. intros s M H.
    destruct (PositiveMap.find (code s) M) as [s'|] eqn:E; [|discriminate].
    apply eqb_sound in H. subst s'. eauto.
  Qed.

  Definition succs (s : St) : list St :=
    flat_map (fun l => match step s l with Some s' => [s'] | None => [] end) labels.

  Definition visit (acc : smap * list St) (s : St) : smap * list St :=
    let (M, nx) := acc in
    if memM s M then acc else (PositiveMap.add (code s) s M, s :: nx).

  Fixpoint bfs (fuel : nat) (M : smap) (frontier : list St) : option smap :=
    match fuel with
    | 0 => None
    | S f =>
        match frontier with
        | [] => Some M
        | _ => let (M', next) := fold_left visit (flat_map succs frontier) (M, []) in
               bfs f M' next
        end
    end.

  Definition explore (fuel : nat) (init : St) : option smap :=
    bfs fuel (PositiveMap.add (code init) init (PositiveMap.empty St)) [init].

  Definition closedM (M : smap) : bool :=
    forallb (fun ks => forallb (fun l => match step (snd ks) l with
                                         | Some s' => memM s' M
                                         | None => true
                                         end) labels)
            (PositiveMap.elements M).

  Definition allM (P : St -> bool) (M : smap) : bool :=
    forallb (fun ks => P (snd ks)) (PositiveMap.elements M).

  Lemma InM_elements : forall s M, InM s M -> exists k, In (k, s) (PositiveMap.elements M).
  Proof.
    intros s M [k H]. exists k. apply PositiveMap.elements_correct. exact H.
  Qed.

  Lemma closedM_step : forall M, closedM M = true ->
    forall s l s', InM s M -> step s l = Some s' -> InM s' M.
  Proof.
    intros M HC s l s' HI HS.
    destruct (InM_elements _ _ HI) as [k Hk].
    unfold closedM in HC. rewrite forallb_forall in HC.
    specialize (HC _ Hk). cbn in HC. rewrite forallb_forall in HC.
    specialize (HC l (labels_all l)). rewrite HS in HC.
    apply memM_In. exact HC.
  Qed.

  Fixpoint run (s : St) (ls : list Lab) : option St :=
    match ls with
    | [] => Some s
    | l :: r => match step s l with Some s' => run s' r | None => None end
    end.

  Theorem reach_sound : forall M init, memM init M = true -> closedM M = true ->
    forall ls s, run init ls = Some s -> InM s M.
  Proof.
    intros M init HI HC ls. apply memM_In in HI. revert init HI.
    induction ls as [|l r IH]; intros init HI s HR; cbn in HR.
    - injection HR as <-. exact HI.
    - destruct (step init l) as [s'|] eqn:E; [|discriminate].
      eapply IH; [|exact HR]. eapply closedM_step; eauto.
  Qed.

  Theorem allM_sound : forall P M, allM P M = true -> forall s, InM s M -> P s = true.
  Proof.
    intros P M HA s HI. destruct (InM_elements _ _ HI) as [k Hk].
    unfold allM in HA. rewrite forallb_forall in HA. exact (HA _ Hk).
  Qed.

  (* a predicate over one transition, decided on every member and every label *)
  Definition allT (P : St -> Lab -> St -> bool) (M : smap) : bool :=
    forallb (fun ks => forallb (fun l => match step (snd ks) l with
                                         | Some s' => P (snd ks) l s'
                                         | None => true
                                         end) labels)
            (PositiveMap.elements M).

  Theorem allT_sound : forall P M, allT P M = true ->
    forall s l s', InM s M -> step s l = Some s' -> P s l s' = true.
  Proof.
    intros P M HA s l s' HI HS. destruct (InM_elements _ _ HI) as [k Hk].
    unfold allT in HA. rewrite forallb_forall in HA. specialize (HA _ Hk). cbn in HA.
    rewrite forallb_forall in HA. specialize (HA l (labels_all l)). rewrite HS in HA. exact HA.
  Qed.
End Reach.
