(* Proofs/C19Top.v - C19: top-level lemmas behind Properties/C19.v *)
From Coq Require Import List Arith Bool Lia.
From ReqV Require Import Model.Settings Gen.CloneTable Proofs.SettingsHeap Proofs.SettingsValue.
Import ListNotations.

Lemma gen_tbl_deep : gen_tbl = deep_tbl.
Proof. reflexivity. Qed.

Definition witness : list op :=
  [ONewClient 0; OSet (OC 0) (SWrap [1;2;3]); OClone 0 1; OSet (OC 0) (SWrap [4]);
   OSet (OC 1) (SWrap [5]); OClone 0 2].

Lemma witness_api : Forall op_api witness /\ Forall op_nojar witness.
Proof. split; repeat constructor; simpl; unfold setter_nojar; congruence. Qed.

Lemma pinned_refuted :
  exists p c, Forall op_api p /\ Forall op_nojar p /\
    probe (run go_grow8 pinned_tbl p init_state) c <> vprobe (vrun p []) c.
Proof.
  exists witness, 2. destruct witness_api as [A B]. split; [exact A|split; [exact B|]].
  vm_compute. intros E. inversion E.
Qed.

Lemma nonvacuous_witness :
  Forall op_api witness /\ Forall op_nojar witness /\
  probe (run go_grow8 deep_tbl witness init_state) 2 = vprobe (vrun witness []) 2 /\
  fst (pslice witness [OC 1]) = [ONewClient 0; OSet (OC 0) (SWrap [1;2;3]); OClone 0 1; OSet (OC 1) (SWrap [5])].
Proof. destruct witness_api as [A B]. split; [exact A|split; [exact B|]]. vm_compute. split; reflexivity. Qed.
