(* Proofs/C19Top.v - C19: top-level lemmas behind Properties/C19.v: the value-model facts of
   Proofs/SettingsValue.v transferred to the reference-heap model (the one Model/C19Run.v evaluates
   on the real library's observations) by the refinement theorem of Proofs/SettingsSim.v. *)
From Coq Require Import List Arith Bool Lia String.
From ReqV Require Import Model.Settings Model.LiveSel Model.Handshake Model.DumpCtx Model.ConnectHdr Gen.CloneTable Proofs.SettingsHeap Proofs.SettingsValue Proofs.SettingsSim.
Import ListNotations.

Lemma gen_tbl_deep : gen_tbl = deep_tbl.
Proof. reflexivity. Qed.

(* ---------- field inventories of the three Clone functions (regenerated from the source) ---------- *)
Definition covered (have : list string) (fields : list string) : bool :=
  forallb (fun f => existsb (String.eqb f) have) fields.

(* connection pools, locks, per-run state: a clone starts with its own zero values;
   t2/t3/wrappedRoundTrip are rebuilt below the literal, the TLS fingerprint handshake is installed anew
   (gen_fingerprint_reinstalled) *)
Definition transport_runtime_fields : list string :=
  ["idleMu"; "closeIdle"; "idleConn"; "idleConnWait"; "idleLRU"; "reqMu"; "reqCanceler"; "connsPerHostMu";
   "connsPerHost"; "connsPerHostWait"; "dialsInProgress"; "altSvcJar"; "pendingAltSvcs"; "pendingAltSvcsMu";
   "t2"; "t3"; "wrappedRoundTrip"; "reinstallTLSFingerprint"]%string.
(* no setter of package req writes these; pool state *)
Definition t2_unset_fields : list string :=
  ["DialTLS"; "ConnPool"; "IdleConnTimeout"; "CountError"; "connPoolOnce"; "connPoolOrDef"]%string.
(* copied into a fresh http.Client whose Transport and Jar are then re-pointed *)
Definition client_ref_special : list string := ["httpClient"]%string.
Definition options_ref_fields : list string := ["TLSClientConfig"; "ProxyConnectHeader"; "Dump"]%string.
(* the fields of the client's *tls.Config that package req writes or extends in place: InsecureSkipVerify is
   copied by value by tls.Config.Clone, Certificates and RootCAs get their own storage in Options.Clone (t_tls) *)
Definition tls_fields_cloned : list string := ["Certificates"; "InsecureSkipVerify"; "RootCAs"]%string.

Lemma clone_field_inventory :
  covered (gen_transport_clone_fields ++ transport_runtime_fields) gen_transport_fields = true /\
  covered (gen_t2_clone_fields ++ t2_unset_fields) gen_t2_fields = true /\
  covered (gen_client_deep_fields ++ client_ref_special) gen_client_ref_fields = true /\
  gen_options_ref_fields = options_ref_fields /\
  covered gen_options_deep_fields gen_options_ref_fields = true /\
  gen_fingerprint_reinstalled = true /\
  covered tls_fields_cloned gen_tls_written_fields = true.
Proof. repeat split; reflexivity. Qed.

(* ---------- from the value model to the heap model ---------- *)
Lemma vrun_snoc p o vs : vrun (p ++ [o]) vs = vstep (vrun p vs) o.
Proof. unfold vrun. now rewrite fold_left_app. Qed.

Lemma view_run grow p id : Forall op_nojar p ->
  view (run grow deep_tbl p init_state) id = vget id (vrun p []).
Proof. intros F. now rewrite view_abs, heap_refines_value. Qed.

Lemma probe_run grow p c : Forall op_nojar p ->
  probe (run grow deep_tbl p init_state) c = vprobe (vrun p []) c.
Proof. intros F. unfold probe, vprobe. now rewrite view_run. Qed.

Lemma exec_run grow p r : Forall op_nojar p ->
  exec (run grow deep_tbl p init_state) r = vexec (vrun p []) r.
Proof.
  intros F. unfold exec, vexec. rewrite view_run by auto.
  destruct (vget (OR r) (vrun p [])); auto. now rewrite view_run.
Qed.

Lemma nojar_snoc p o : Forall op_nojar (p ++ [o]) -> Forall op_nojar p.
Proof. intros F. apply Forall_app in F. tauto. Qed.

Lemma h_request_scope grow p r s id :
  Forall op_nojar (p ++ [OSet (OR r) s]) -> id <> OR r ->
  view (run grow gen_tbl (p ++ [OSet (OR r) s]) init_state) id = view (run grow gen_tbl p init_state) id.
Proof.
  intros F N. rewrite gen_tbl_deep, !view_run, vrun_snoc; eauto using nojar_snoc. now apply v_request_scope.
Qed.

Lemma h_request_scope_self grow p r s vr :
  Forall op_nojar (p ++ [OSet (OR r) s]) -> view (run grow gen_tbl p init_state) (OR r) = Some vr ->
  view (run grow gen_tbl (p ++ [OSet (OR r) s]) init_state) (OR r) = Some (vapply vr s).
Proof.
  intros F. rewrite gen_tbl_deep, !view_run, vrun_snoc; eauto using nojar_snoc. apply v_request_scope_self.
Qed.

Lemma h_client_scope_probe grow p c s vc :
  Forall op_nojar (p ++ [OSet (OC c) s]) -> view (run grow gen_tbl p init_state) (OC c) = Some vc ->
  probe (run grow gen_tbl (p ++ [OSet (OC c) s]) init_state) c = Some (describe (vapply vc s) (vnew_req c (vapply vc s))).
Proof.
  intros F. rewrite gen_tbl_deep, probe_run, view_run, vrun_snoc; eauto using nojar_snoc. apply v_client_scope_probe.
Qed.

Lemma h_client_scope_exec grow p c s vc r vr :
  Forall op_nojar (p ++ [OSet (OC c) s]) ->
  view (run grow gen_tbl p init_state) (OC c) = Some vc -> view (run grow gen_tbl p init_state) (OR r) = Some vr ->
  v_par vr = c ->
  exec (run grow gen_tbl (p ++ [OSet (OC c) s]) init_state) r = Some (describe (vapply vc s) vr).
Proof.
  intros F. rewrite gen_tbl_deep, exec_run, !view_run, vrun_snoc; eauto using nojar_snoc. apply v_client_scope_exec.
Qed.

Lemma h_client_scope_others grow p c s id :
  Forall op_nojar (p ++ [OSet (OC c) s]) -> id <> OC c ->
  view (run grow gen_tbl (p ++ [OSet (OC c) s]) init_state) id = view (run grow gen_tbl p init_state) id.
Proof.
  intros F N. rewrite gen_tbl_deep, !view_run, vrun_snoc; eauto using nojar_snoc. now apply v_client_scope_others.
Qed.

Lemma h_clone_initially_equal grow p src dst vc :
  Forall op_api p -> Forall op_nojar p -> view (run grow gen_tbl p init_state) (OC src) = Some vc ->
  exists vk, view (run grow gen_tbl (p ++ [OClone src dst]) init_state) (OC dst) = Some vk /\
    (forall r, describe vk r = describe (vset_jar vc (if v_fact vc then Some [] else v_jar vc) (v_fact vc)) r) /\
    (forall id, id <> OC dst ->
       view (run grow gen_tbl (p ++ [OClone src dst]) init_state) id = view (run grow gen_tbl p init_state) id).
Proof.
  intros A F. rewrite gen_tbl_deep. rewrite view_run by auto. intros V.
  assert (F' : Forall op_nojar (p ++ [OClone src dst])) by (apply Forall_app; split; auto; repeat constructor).
  exists (vclone vc). split; [|split].
  - rewrite view_run, vrun_snoc by auto. cbn [vstep]. rewrite V. apply aget_aset_eq.
  - intros r. apply v_clone_initially_equal.
    apply (clients_ok_run p [] clients_ok_nil A src vc V).
  - intros id N. rewrite !view_run, vrun_snoc by auto. apply vstep_other. simpl. congruence.
Qed.

Lemma h_noninterference grow p R :
  Forall op_nojar p -> forall id, In id R ->
  view (run grow gen_tbl p init_state) id = view (run grow gen_tbl (fst (pslice p R)) init_state) id.
Proof.
  intros F id Hid. rewrite gen_tbl_deep, !view_run; auto using slice_sub.
  now apply v_noninterference.
Qed.

(* ---------- the code as pinned ---------- *)
Definition witness : list op :=
  [ONewClient 0; OSet (OC 0) (SWrap [1;2;3]); OClone 0 1; OSet (OC 0) (SWrap [4]);
   OSet (OC 1) (SWrap [5]); OClone 0 2].

Lemma witness_api : Forall op_api witness /\ Forall op_nojar witness.
Proof. split; repeat constructor; simpl; unfold setter_nojar; congruence. Qed.

Lemma pinned_refuted :
  exists p c, Forall op_api p /\ Forall op_nojar p /\
    probe (run go_grow8 pinned_tbl p init_state) c <> vprobe (vrun p []) c.
Proof.
  exists witness, 2. destruct witness_api as [A B]. split; [exact A|split; [exact B|]].
  vm_compute. intros E. inversion E.
Qed.

(* deep copies everywhere, but the cloned Dumper not wired to the clone's dumpOptions (as pinned) *)
Definition unlinked_tbl : ctbl :=
  {| t_sl := t_sl deep_tbl; t_mp := t_mp deep_tbl; t_rt := true; t_scal := SCAL_KEYS;
     t_jar := true; t_dopt := true; t_dumper := true; t_link := false; t_tls := true |}.
Definition witness_dump : list op :=
  [ONewClient 0; OSet (OC 0) (SDumpEnable [ESet 0 2]); OClone 0 1; OSet (OC 1) (SDumpEnable [ESet 2 0; ESet 4 0])].

Lemma pinned_dump_refuted :
  Forall op_api witness_dump /\ Forall op_nojar witness_dump /\
  probe (run go_grow8 unlinked_tbl witness_dump init_state) 1 <> vprobe (vrun witness_dump []) 1.
Proof.
  split; [repeat constructor|]. split; [repeat constructor; unfold setter_nojar; congruence|].
  vm_compute. intros E. inversion E.
Qed.

Lemma nonvacuous_witness :
  Forall op_api witness /\ Forall op_nojar witness /\
  probe (run go_grow8 gen_tbl witness init_state) 2 = vprobe (vrun witness []) 2 /\
  fst (pslice witness [OC 1]) = [ONewClient 0; OSet (OC 0) (SWrap [1;2;3]); OClone 0 1; OSet (OC 1) (SWrap [5])] /\
  probe (run go_grow8 gen_tbl witness_dump init_state) 1 = vprobe (vrun witness_dump []) 1 /\
  probe (run go_grow8 gen_tbl witness_dump init_state) 1 <> probe (run go_grow8 gen_tbl witness_dump init_state) 0.
Proof.
  destruct witness_api as [A B]. split; [exact A|split; [exact B|]]. vm_compute.
  repeat split; try reflexivity. intros E. inversion E.
Qed.

(* ---------- settings changed after use: protocol selection with a cached HTTP/2 connection ---------- *)
Lemma force_governs_regardless_of_cache : forall cached,
  live_sel gen_guard 1 cached = Some 1 /\ live_sel gen_guard 2 cached = Some 2.
Proof. intros cached. split; reflexivity. Qed.

(* without the guard a client that talked HTTP/2 before EnableForceHTTP1 keeps using the cached connection *)
Lemma unguarded_refuted : live_sel {| g_h1guard := false |} 1 true = Some 2.
Proof. reflexivity. Qed.

(* ---------- the TLS handshake option: setter order x Clone ---------- *)
(* the hook is there exactly when the transport handshakes with a fingerprint (and names that fingerprint) *)
Definition hs_inv (s : hstate) : Prop :=
  match hs_fn s with HFinger id => hs_hook s = Some id | _ => hs_hook s = None end.

Lemma hs_inv_apply s o : hs_inv (happly good_hs s o).
Proof. destruct o; reflexivity. Qed.

Lemma hs_inv_run ops : forall s, hs_inv s -> hs_inv (fold_left (happly good_hs) ops s).
Proof. induction ops as [|o ops IH]; intros s I; simpl; auto. apply IH, hs_inv_apply. Qed.

(* for every order of fingerprint / custom handshake setters: the clone handshakes with what the original
   handshakes with (same kind, same function or same fingerprint), and has the invariant again *)
Lemma clone_keeps_handshake ops :
  let s := fold_left (happly good_hs) ops hstate0 in
  hs_fn (hclone good_hs s) = hs_fn s /\ hs_inv (hclone good_hs s).
Proof.
  intros s. assert (I : hs_inv s) by (apply hs_inv_run; reflexivity).
  unfold hs_inv in I. unfold hclone. destruct (hs_fn s) eqn:E; rewrite I; simpl; rewrite ?E; split; auto; unfold hs_inv; simpl; rewrite ?E; auto.
Qed.

(* SetTLSHandshake not clearing the hook (seeded d-m2): fingerprint, then a custom handshake, then Clone *)
Lemma stale_hook_refuted :
  let t := {| h_custom_clears_hook := false; h_finger_sets_hook := true; h_clone_runs_hook := true |} in
  let s := fold_left (happly t) [HSetFinger 1; HSetCustom 7] hstate0 in
  hs_fn s = HCustom 7 /\ hs_fn (hclone t s) = HFinger 1.
Proof. split; reflexivity. Qed.

(* ---------- request-level dump and inherited contexts ---------- *)
Lemma own_dump_governs : forall inherited own, deffective (denable gen_dump inherited own) = own.
Proof. reflexivity. Qed.
Lemma early_return_dump_refuted : deffective (denable {| d_always_pushes := false |} [7] 3) = 7.
Proof. reflexivity. Qed.

(* ---------- ProxyConnectHeader and the CONNECT credentials ---------- *)
Lemma ch_step_clean x : forall o, ch_stuck o = (0, 0) -> ch_stuck (ch_step good_ch o x) = (0, 0).
Proof. intros o I. destruct x as [v|a]; simpl; auto. unfold ch_dial. destruct (no_auth a); simpl; auto. Qed.

Lemma ch_run_clean h : forall o, ch_stuck o = (0, 0) -> ch_stuck (fold_left (ch_step good_ch) h o) = (0, 0).
Proof. induction h as [|x h IH]; intros o I; simpl; auto. apply IH, ch_step_clean, I. Qed.

(* for every history of SetProxyConnectHeader calls and CONNECTs under any credentials: the option never keeps
   credentials, and the next CONNECT carries exactly the credentials of the proxy URL in force *)
Lemma connect_credentials_govern h auth :
  let o := fold_left (ch_step good_ch) h chopt0 in
  ch_stuck o = (0, 0) /\ snd (ch_dial good_ch o auth) = (if no_auth auth then (0, 0) else auth).
Proof.
  intros o. assert (I : ch_stuck o = (0, 0)) by (apply ch_run_clean; reflexivity). split; auto.
  unfold ch_dial. destruct (no_auth auth); simpl; auto. rewrite I. destruct (ch_given o =? 0); reflexivity.
Qed.

Lemma connect_write_through_refuted :
  let t := {| ch_clone_before_auth := false |} in
  let o := fold_left (ch_step t) [ChSetHeader 1; ChDial (1, 1)] chopt0 in
  snd (ch_dial t o (0, 0)) = (1, 1).
Proof. reflexivity. Qed.
