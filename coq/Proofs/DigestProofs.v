(* Proofs/DigestProofs.v - C20: digest model vs RFC 7616 transcription *)
From ReqV Require Import Lib.Bytes Lib.BytesFacts Model.Digest.
From Coq Require Import Lia.

(* ---------- algorithm table (regenerated Gen/DigestTables.v) vs registry ---------- *)

Ltac key_case k K :=
  let E := fresh "E" in
  destruct (bytes_eqb k K) eqn:E;
  [apply bytes_eqb_eq in E; subst k; vm_compute; reflexivity|].

Lemma alg_table_matches_registry alg :
  lookup_alg alg = match rfc_registry alg with Some (f, _) => Some f | None => None end.
Proof.
  unfold lookup_alg, rfc_registry, hash_funcs. cbn [assoc_bytes].
  key_case alg (bs ""). key_case alg (bs "MD5"). key_case alg (bs "MD5-sess").
  key_case alg (bs "SHA-256"). key_case alg (bs "SHA-256-sess").
  key_case alg (bs "SHA-512-256"). key_case alg (bs "SHA-512-256-sess").
  reflexivity.
Qed.

(* the session flag the code derives from the "-sess" suffix is the registry's *)
Lemma sess_flag_matches alg f sess :
  rfc_registry alg = Some (f, sess) -> has_suffix (bs "-sess") alg = sess.
Proof.
  unfold rfc_registry.
  repeat match goal with
  | |- context [bytes_eqb alg ?K] =>
      let E := fresh "E" in
      destruct (bytes_eqb alg K) eqn:E;
      [apply bytes_eqb_eq in E; subst alg; intros X; injection X as <- <-; vm_compute; reflexivity|]
  end.
  discriminate.
Qed.

Lemma known_key_matches_table k : known_key k = existsb (bytes_eqb k) challenge_keys.
Proof.
  unfold known_key, set_param, set_param_with, empty_chal, challenge_keys. cbn [existsb].
  key_case k (bs "realm"). key_case k (bs "domain"). key_case k (bs "nonce").
  key_case k (bs "opaque"). key_case k (bs "stale"). key_case k (bs "algorithm").
  key_case k (bs "qop"). key_case k (bs "charset"). key_case k (bs "userhash").
  reflexivity.
Qed.

Lemma challenge_keys_are_rfc k :
  existsb (bytes_eqb k) challenge_keys = existsb (bytes_eqb k) rfc_challenge_params.
Proof.
  unfold challenge_keys, rfc_challenge_params. cbn [existsb].
  key_case k (bs "realm"). key_case k (bs "domain"). key_case k (bs "nonce").
  key_case k (bs "opaque"). key_case k (bs "stale"). key_case k (bs "algorithm").
  key_case k (bs "qop"). key_case k (bs "charset"). key_case k (bs "userhash").
  reflexivity.
Qed.

(* ---------- field list lookup ---------- *)

Definition fields_spec (uh : bool) (username realm nonce uri response : bytes)
           (alg : option bytes) (opaque qop nc cnonce : bytes) (k : bytes) : option fval :=
  if bytes_eqb k (bs "username") then Some (Quoted username)
  else if bytes_eqb k (bs "userhash") then (if uh then Some (Bare (bs "true")) else None)
  else if bytes_eqb k (bs "realm") then Some (Quoted realm)
  else if bytes_eqb k (bs "nonce") then Some (Quoted nonce)
  else if bytes_eqb k (bs "uri") then Some (Quoted uri)
  else if bytes_eqb k (bs "response") then Some (QuotedRaw response)
  else if bytes_eqb k (bs "algorithm") then
    match alg with Some a => Some (Bare a) | None => None end
  else if bytes_eqb k (bs "opaque") then
    match opaque with [] => None | _ => Some (Quoted opaque) end
  else if bytes_eqb k (bs "qop") then match qop with [] => None | _ => Some (Bare qop) end
  else if bytes_eqb k (bs "nc") then match qop with [] => None | _ => Some (Bare nc) end
  else if bytes_eqb k (bs "cnonce") then match qop with [] => None | _ => Some (QuotedRaw cnonce) end
  else None.

Lemma build_fields_lookup uh username realm nonce uri response alg opaque qop nc cnonce k :
  lookup_field k (build_fields uh username realm nonce uri response alg opaque qop nc cnonce) =
  fields_spec uh username realm nonce uri response alg opaque qop nc cnonce k.
Proof.
  unfold lookup_field, build_fields, fields_spec.
  destruct uh, alg as [a|], opaque as [|o os], qop as [|q qs]; cbn [app assoc_bytes];
    key_case k (bs "username"); key_case k (bs "userhash"); key_case k (bs "realm");
    key_case k (bs "nonce"); key_case k (bs "uri"); key_case k (bs "response");
    key_case k (bs "algorithm"); key_case k (bs "opaque"); key_case k (bs "qop");
    key_case k (bs "nc"); key_case k (bs "cnonce"); reflexivity.
Qed.

(* no parameter name is emitted twice *)
Lemma build_fields_nodup uh username realm nonce uri response alg opaque qop nc cnonce :
  NoDup (map fst (build_fields uh username realm nonce uri response alg opaque qop nc cnonce)).
Proof.
  unfold build_fields.
  destruct uh, alg as [a|], opaque as [|o os], qop as [|q qs]; cbn [app map fst];
    repeat (constructor; [cbn [In]; intros X;
      repeat (destruct X as [X|X]; [vm_compute in X; discriminate|]); exact X|]);
    constructor.
Qed.

(* ---------- validateQop ---------- *)

Lemma validate_qop_supported q :
  bytes_eqb q [] || qop_offers_auth q = true ->
  validate_qop q = inl (match q with [] => [] | _ => bs "auth" end).
Proof.
  destruct q as [|x q]; [reflexivity|]. cbn [bytes_eqb orb]. unfold qop_offers_auth, validate_qop.
  intros ->. reflexivity.
Qed.

Lemma validate_qop_unsupported q :
  q <> [] -> qop_offers_auth q = false -> validate_qop q = inr EQopNotSupported.
Proof.
  destruct q as [|x q]; [congruence|]. intros _. unfold qop_offers_auth, validate_qop.
  intros ->. reflexivity.
Qed.

(* ---------- the main theorem ---------- *)

Lemma hex8_one : hex8 1 = bs "00000001".
Proof. vm_compute. reflexivity. Qed.

(* ---------- the source's format strings (Gen/DigestKernels.v) mean what RFC 7616 writes ---------- *)

Ltac fmt_solve :=
  cbv [hash_input]; cbn; unfold sep3, sep2; rewrite ?app_nil_r; repeat (rewrite <- app_assoc; cbn [app]); reflexivity.

Section Formats.
  Variables user realm pass nonce cnonce qop method uri : bytes.
  Let env0 := [(bs "c.username", FS user); (bs "c.realm", FS realm); (bs "c.password", FS pass);
               (bs "c.nonce", FS nonce); (bs "c.cNonce", FS cnonce); (bs "c.nc", FN 1);
               (bs "c.messageQop", FS qop); (bs "c.method", FS method); (bs "c.digestURI", FS uri)].

  Lemma fmt_ha1 : hash_input (bs "ha1#0") env0 = sep3 user realm pass.
  Proof. fmt_solve. Qed.
  Lemma fmt_ha1_sess x : hash_input (bs "ha1#1") ((bs "ret", FS x) :: env0) = sep3 x nonce cnonce.
  Proof. fmt_solve. Qed.
  Lemma fmt_ha2 : hash_input (bs "ha2#0") env0 = sep2 method uri.
  Proof. fmt_solve. Qed.
  Lemma fmt_userhash : hash_input (bs "authorize#0") env0 = sep2 user realm.
  Proof. fmt_solve. Qed.
  Lemma fmt_resp_noqop a1 a2 :
    hash_input (bs "resp#1") ((bs "ha1", FS a1) :: (bs "ha2", FS a2) :: env0) = sep3 a1 nonce a2.
  Proof. fmt_solve. Qed.
  Lemma fmt_resp_qop a1 a2 :
    hash_input (bs "kd#0") [(bs "secret", FS a1);
       (bs "data", FS (hash_input (bs "resp#2") ((bs "ha1", FS a1) :: (bs "ha2", FS a2) :: env0)))] =
    sep2 a1 (nonce ++ colon_d :: hex8 1 ++ colon_d :: cnonce ++ colon_d :: qop ++ colon_d :: a2).
  Proof. fmt_solve. Qed.
End Formats.

(* the lines `sl = append(sl, fmt.Sprintf(...))` of authorize(), in source order, write the
   parameter names of build_fields with the same quoting, and the final Sprintf/Join the
   "Digest " prefix and ", " separator of render_fields *)
Lemma authorize_formats_as_modelled u r n uri resp a o os q qs nc cn :
  map (fun f => Some (fst f, fval_kind (snd f)))
      (build_fields true u r n uri resp (Some a) (o :: os) (q :: qs) nc cn) =
  map (fun name => match assoc_bytes name sprintf_calls with Some c => call_field c | None => None end)
      [bs "authorize#1"; bs "authorize#2"; bs "authorize#3"; bs "authorize#4"; bs "authorize#5";
       bs "authorize#6"; bs "authorize#7"; bs "authorize#8"; bs "authorize#9"; bs "authorize#10";
       bs "authorize#11"] /\
  assoc_bytes (bs "authorize#12") sprintf_calls = Some (bs "Digest %s", [bs "strings.Join(sl, "", "")"]) /\
  assoc_bytes (bs "authorize#10") sprintf_calls = Some (bs "nc=%08x", [bs "c.nc"]).
Proof. repeat split; vm_compute; reflexivity. Qed.

(* the literals the source tests against are the ones the model uses *)
Lemma source_literals_as_modelled :
  assoc_bytes (bs "newCredentials#0:HasSuffix") string_tests = Some (bs "-sess") /\
  assoc_bytes (bs "parseChallenge#0:HasPrefix") string_tests = Some (bs "Digest ") /\
  assoc_bytes (bs "createDigestAuth#0:HasPrefix") string_tests = Some (bs "Digest ") /\
  assoc_bytes (bs "parseChallenge#1:strings.ToUpper(unquoteParam(r[1]))!=") string_tests = Some (bs "UTF-8") /\
  assoc_bytes (bs "authorize#0:c.userhash==") string_tests = Some (bs "true") /\
  assoc_bytes (bs "authorize#1:c.algorithm!=") string_tests = Some [] /\
  assoc_bytes (bs "authorize#2:c.opaque!=") string_tests = Some [] /\
  assoc_bytes (bs "authorize#3:c.messageQop!=") string_tests = Some [] /\
  assoc_bytes (bs "validateQop#0:c.messageQop==") string_tests = Some [] /\
  assoc_bytes (bs "validateQop#1:Split") string_tests = Some [comma] /\
  assoc_bytes (bs "validateQop#2:strings.TrimSpace(qop)==") string_tests = Some (bs "auth") /\
  map snd (filter (fun e => has_prefix (bs "escapeQuoted#") (fst e)) string_tests) =
    [[bslash]; [bslash; bslash]; [dquote]; [bslash; dquote]].
Proof. repeat split; vm_compute; reflexivity. Qed.

Section WithH.
  Variable H : hashfn -> bytes -> bytes.

  Lemma h_registered alg f sess data :
    rfc_registry alg = Some (f, sess) -> h H alg data = H f data.
  Proof.
    intros R. unfold h. rewrite alg_table_matches_registry, R. reflexivity.
  Qed.

  Theorem digest_matches_rfc7616 c uri method user pass cnonce :
    supported c = true ->
    exists fs,
      authorize H c uri method user pass cnonce = inl fs /\
      NoDup (map fst fs) /\
      forall k, option_map fval_sem (lookup_field k fs) = rfc7616_field H c uri method user pass cnonce k.
  Proof.
    unfold supported. destruct (rfc_registry (c_algorithm c)) as [[f sess]|] eqn:R; [|discriminate].
    intros Hq.
    unfold authorize, authorize_with.
    rewrite alg_table_matches_registry, R.
    rewrite (validate_qop_supported _ Hq).
    rewrite (sess_flag_matches _ _ _ R).
    eexists. split; [reflexivity|]. split; [apply build_fields_nodup|].
    intros k. rewrite build_fields_lookup.
    unfold fields_spec, rfc7616_field. rewrite R.
    rewrite fmt_ha1, fmt_ha1_sess, fmt_ha2, fmt_userhash, fmt_resp_noqop, fmt_resp_qop.
    rewrite !(h_registered _ _ _ _ R).
    rewrite hex8_one. unfold sep3, sep2.
    destruct (c_qop c) as [|q qs], (c_algorithm c) as [|a al], (c_opaque c) as [|o os], sess,
      (bytes_eqb (c_userhash c) (bs "true"));
      repeat match goal with
      | |- context [if bytes_eqb k ?K then _ else _] => destruct (bytes_eqb k K); [cbn; reflexivity|]
      end; cbn; reflexivity.
  Qed.

  (* ---------- unsupported => error, no header ---------- *)

  Theorem unknown_alg_is_error c uri method user pass cnonce :
    rfc_registry (c_algorithm c) = None ->
    authorize H c uri method user pass cnonce = inr EAlgNotSupported.
  Proof.
    intros R. unfold authorize, authorize_with. rewrite alg_table_matches_registry, R. reflexivity.
  Qed.

  Theorem qop_without_auth_is_error c uri method user pass cnonce :
    rfc_registry (c_algorithm c) <> None ->
    c_qop c <> [] -> qop_offers_auth (c_qop c) = false ->
    authorize H c uri method user pass cnonce = inr EQopNotSupported.
  Proof.
    intros R Hne Hq. unfold authorize, authorize_with. rewrite alg_table_matches_registry.
    destruct (rfc_registry (c_algorithm c)) as [[f s]|]; [|congruence].
    rewrite (validate_qop_unsupported _ Hne Hq). reflexivity.
  Qed.

  (* an error of parse or authorize is the error of createDigestAuth: never a header *)
  Theorem create_error_no_header chal uri method user pass cnonce e :
    (parse_challenge chal = inr e \/
     exists c, parse_challenge chal = inl c /\ authorize H c uri method user pass cnonce = inr e) ->
    chal <> [] ->
    create_digest_auth H chal uri method user pass cnonce = inr e.
  Proof.
    intros [P|[c [P A]]] Hne; unfold create_digest_auth; destruct chal as [|b chal]; try congruence;
      rewrite P; [reflexivity|]. rewrite A. reflexivity.
  Qed.

  Theorem middleware_error_sends_nothing rp first rsp user pass cnonce e :
    r_err rsp = false -> r_status rsp = 401%N ->
    create_digest_auth H (r_chal rsp) (w_uri first) (w_method first) user pass cnonce = inr e ->
    digest_middleware H rp first rsp user pass cnonce = MwErr e /\
    digest_exchange H rp first rsp user pass cnonce = [first].
  Proof.
    intros He Hs Hc. unfold digest_exchange, digest_middleware. rewrite He, Hs, Hc. split; reflexivity.
  Qed.

  (* ---------- responses other than 401 ---------- *)

  Theorem non_401_untouched rp first rsp user pass cnonce :
    r_err rsp = true \/ r_status rsp <> 401%N ->
    digest_middleware H rp first rsp user pass cnonce = Untouched /\
    digest_exchange H rp first rsp user pass cnonce = [first].
  Proof.
    intros Hc. unfold digest_exchange, digest_middleware.
    assert (X : r_err rsp || negb (N.eqb (r_status rsp) 401) = true).
    { destruct Hc as [->|Hn]; [reflexivity|]. apply orb_true_iff. right.
      apply negb_true_iff. now apply N.eqb_neq. }
    rewrite X. split; reflexivity.
  Qed.

  (* ---------- answered once, body intact ---------- *)

  Theorem answered_once_body_intact rp first rsp user pass cnonce :
    length (digest_exchange H rp first rsp user pass cnonce) <= 2 /\
    hd_error (digest_exchange H rp first rsp user pass cnonce) = Some first /\
    forall q, In q (tl (digest_exchange H rp first rsp user pass cnonce)) ->
      r_err rsp = false /\ r_status rsp = 401%N /\ rp = true /\
      w_method q = w_method first /\ w_uri q = w_uri first /\
      w_ctype q = w_ctype first /\ w_body q = w_body first /\
      exists auth, w_auth q = Some auth /\
        create_digest_auth H (r_chal rsp) (w_uri first) (w_method first) user pass cnonce = inl auth.
  Proof.
    unfold digest_exchange, digest_middleware.
    destruct (r_err rsp) eqn:He; cbn [orb].
    { split; [cbn; lia|]. split; [reflexivity|]. intros q Hq. cbn in Hq. contradiction. }
    destruct (N.eqb (r_status rsp) 401) eqn:Hs; cbn [negb].
    2:{ split; [cbn; lia|]. split; [reflexivity|]. intros q Hq. cbn in Hq. contradiction. }
    apply N.eqb_eq in Hs.
    destruct (create_digest_auth H (r_chal rsp) (w_uri first) (w_method first) user pass cnonce) as [auth|e] eqn:Hc.
    - destruct rp.
      + split; [cbn; lia|]. split; [reflexivity|]. intros q Hq. cbn in Hq. destruct Hq as [<-|[]].
        cbn. repeat split; auto. now exists auth.
      + split; [cbn; lia|]. split; [reflexivity|]. intros q Hq. cbn in Hq. contradiction.
    - split; [cbn; lia|]. split; [reflexivity|]. intros q Hq. cbn in Hq. contradiction.
  Qed.

  (* a body that cannot be replayed: an error, never a second request with another body *)
  Theorem unreplayable_is_error first rsp user pass cnonce :
    r_err rsp = false -> r_status rsp = 401%N ->
    (exists e, digest_middleware H false first rsp user pass cnonce = MwErr e) /\
    digest_exchange H false first rsp user pass cnonce = [first].
  Proof.
    intros He Hs. unfold digest_exchange, digest_middleware. rewrite He, Hs. cbn [orb N.eqb Pos.eqb negb].
    destruct (create_digest_auth H (r_chal rsp) (w_uri first) (w_method first) user pass cnonce);
      split; eauto.
  Qed.

  (* the pinned code sent the credentials with an EMPTY body instead *)
  Theorem unreplayable_pinned_refuted first rsp user pass cnonce auth :
    r_err rsp = false -> r_status rsp = 401%N ->
    create_digest_auth H (r_chal rsp) (w_uri first) (w_method first) user pass cnonce = inl auth ->
    exists q, digest_middleware_pinned H false first rsp user pass cnonce = Resent q /\ w_body q = [].
  Proof.
    intros He Hs Hc. unfold digest_middleware_pinned. rewrite He, Hs, Hc. cbn [orb N.eqb Pos.eqb negb].
    eexists. split; reflexivity.
  Qed.

  (* ---------- a connection fault at the re-send; sequences through one middleware ---------- *)

  Theorem exchange_no_fault rp first rsp user pass cnonce :
    digest_exchange_f H None rp first rsp user pass cnonce = digest_exchange H rp first rsp user pass cnonce.
  Proof. unfold digest_exchange_f, digest_exchange. destruct (digest_middleware _ _ _ _ _ _ _); reflexivity. Qed.

  (* whatever happens to the connection of the re-send, every request after the first is the ONE
     answer the middleware computed - same Authorization, method, URI, Content-Type and body as
     the original - at most twice (the transport's replay), never anything else *)
  Theorem replay_intact fault rp first rsp user pass cnonce :
    length (digest_exchange_f H fault rp first rsp user pass cnonce) <= 3 /\
    hd_error (digest_exchange_f H fault rp first rsp user pass cnonce) = Some first /\
    forall q, In q (tl (digest_exchange_f H fault rp first rsp user pass cnonce)) ->
      digest_middleware H rp first rsp user pass cnonce = Resent q /\
      In q (tl (digest_exchange H rp first rsp user pass cnonce)) /\
      w_method q = w_method first /\ w_uri q = w_uri first /\
      w_ctype q = w_ctype first /\ w_body q = w_body first.
  Proof.
    pose proof (answered_once_body_intact rp first rsp user pass cnonce) as [_ [_ A]].
    unfold digest_exchange_f, digest_exchange in *.
    destruct (digest_middleware H rp first rsp user pass cnonce) as [|e|q0] eqn:M.
    - split; [cbn; lia|]. split; [reflexivity|]. intros q [].
    - split; [cbn; lia|]. split; [reflexivity|]. intros q [].
    - assert (X : forall q, q = q0 -> Resent q0 = Resent q /\ In q (tl [first; q0]) /\
                    w_method q = w_method first /\ w_uri q = w_uri first /\
                    w_ctype q = w_ctype first /\ w_body q = w_body first).
      { intros q ->. split; [reflexivity|]. split; [left; reflexivity|].
        destruct (A q0 (or_introl eq_refl)) as [_ [_ [_ [H1 [H2 [H3 [H4 _]]]]]]]. auto. }
      destruct fault as [[|]|]; (split; [cbn; lia|]); (split; [reflexivity|]);
        intros q Hq; cbn in Hq; apply X; intuition congruence.
  Qed.

  (* no state is carried from one call to the next: a session is its calls side by side, and the
     k-th call is answered from its own challenge alone, whatever came before or comes after *)
  Theorem session_app user pass xs ys :
    digest_session H user pass (xs ++ ys) = digest_session H user pass xs ++ digest_session H user pass ys.
  Proof. unfold digest_session. apply map_app. Qed.

  Theorem session_independent user pass before after rp first rsp cnonce :
    nth_error (digest_session H user pass (before ++ (rp, first, rsp, cnonce) :: after)) (length before) =
    Some (digest_exchange H rp first rsp user pass cnonce).
  Proof.
    unfold digest_session. rewrite map_app. rewrite nth_error_app2 by (rewrite map_length; lia).
    rewrite map_length, Nat.sub_diag. reflexivity.
  Qed.

  (* a supported challenge, once parsed, is always answered (no error), whatever the nonce, the
     client nonce and the hash function *)
  Theorem supported_is_answered first rsp user pass cnonce c :
    r_err rsp = false -> r_status rsp = 401%N -> r_chal rsp <> [] ->
    parse_challenge (r_chal rsp) = inl c -> supported c = true ->
    exists fs q,
      authorize H c (w_uri first) (w_method first) user pass cnonce = inl fs /\
      digest_exchange H true first rsp user pass cnonce = [first; q] /\
      w_auth q = Some (render_fields fs) /\ w_body q = w_body first /\ w_ctype q = w_ctype first /\
      forall k, option_map fval_sem (lookup_field k fs) =
                rfc7616_field H c (w_uri first) (w_method first) user pass cnonce k.
  Proof.
    intros He Hs Hne Hp Hsup.
    destruct (digest_matches_rfc7616 c (w_uri first) (w_method first) user pass cnonce Hsup)
      as [fs [Ha [_ Hf]]].
    exists fs. eexists. split; [exact Ha|].
    unfold digest_exchange, digest_middleware, create_digest_auth. rewrite He, Hs.
    destruct (r_chal rsp) as [|b ch] eqn:Ec; [congruence|]. rewrite Hp, Ha. cbn.
    repeat split; auto.
  Qed.
End WithH.

(* ---------- parseChallenge: which inputs are errors ---------- *)

(* whether a parameter is accepted does not depend on the challenge built so far *)
Definition param_ok (p : bytes) : bool :=
  match parse_param empty_chal p with inl _ => true | inr _ => false end.

Lemma set_param_ok_indep c c' k v :
  (exists x, set_param c k v = inl x) <-> (exists x, set_param c' k v = inl x).
Proof.
  destruct c, c'. unfold set_param, set_param_with.
  repeat match goal with
  | |- context [if bytes_eqb k ?K then _ else _] => destruct (bytes_eqb k K)
  | |- context [if bytes_eqb (to_upper ?V) ?K then _ else _] => destruct (bytes_eqb (to_upper V) K)
  end; split; intros [x Hx]; try discriminate; eexists; reflexivity.
Qed.

Lemma parse_param_ok_indep c p : (exists x, parse_param c p = inl x) <-> param_ok p = true.
Proof.
  unfold param_ok, parse_param. destruct (cut_eq (trim_space p)) as [[k v]|].
  - rewrite (set_param_ok_indep c empty_chal k v).
    destruct (set_param empty_chal k v); split; intros X; try discriminate; eauto.
    destruct X; discriminate.
  - split; [intros [x Hx]|]; discriminate.
Qed.

Theorem parse_params_ok_iff ps : forall c,
  (exists c', parse_params c ps = inl c') <-> forallb param_ok ps = true.
Proof.
  induction ps as [|p ps IH]; intros c; cbn [parse_params forallb].
  - split; eauto.
  - rewrite andb_true_iff, <- (parse_param_ok_indep c p). split.
    + intros [c' Hc]. destruct (parse_param c p) as [c1|e]; [|discriminate].
      split; [eauto|]. apply (IH c1). eauto.
    + intros [[c1 H1] H2]. rewrite H1. apply (IH c1). exact H2.
Qed.

(* malformed parameter: no "=" *)
Theorem param_without_equals_bad p :
  mem_byte equals (trim_space p) = false -> param_ok p = false.
Proof.
  intros Hm. unfold param_ok, parse_param, cut_eq. now rewrite index_byte_none.
Qed.

Theorem param_unknown_key_bad c k v :
  known_key k = false -> set_param c k v = inr EBadChallenge.
Proof.
  unfold known_key. destruct c. unfold set_param, set_param_with, empty_chal.
  repeat match goal with
  | |- context [if bytes_eqb k ?K then _ else _] => destruct (bytes_eqb k K); [discriminate|]
  end.
  reflexivity.
Qed.

Theorem param_charset_not_utf8 c v :
  bytes_eqb (to_upper (unquote_param v)) (bs "UTF-8") = false ->
  set_param c (bs "charset") v = inr ECharset.
Proof.
  intros Hv. destruct c. unfold set_param, set_param_with.
  replace (bytes_eqb (bs "charset") (bs "realm")) with false by (vm_compute; reflexivity).
  replace (bytes_eqb (bs "charset") (bs "domain")) with false by (vm_compute; reflexivity).
  replace (bytes_eqb (bs "charset") (bs "nonce")) with false by (vm_compute; reflexivity).
  replace (bytes_eqb (bs "charset") (bs "opaque")) with false by (vm_compute; reflexivity).
  replace (bytes_eqb (bs "charset") (bs "stale")) with false by (vm_compute; reflexivity).
  replace (bytes_eqb (bs "charset") (bs "algorithm")) with false by (vm_compute; reflexivity).
  replace (bytes_eqb (bs "charset") (bs "qop")) with false by (vm_compute; reflexivity).
  replace (bytes_eqb (bs "charset") (bs "charset")) with true by (vm_compute; reflexivity).
  now rewrite Hv.
Qed.

(* any parameter that is not accepted makes the whole challenge an error *)
Theorem bad_param_is_error split input :
  (exists p, In p (split (trim is_chal_ws (skipn 7 (trim is_chal_ws input)))) /\ param_ok p = false) ->
  exists e, parse_challenge_with split input = inr e.
Proof.
  intros [p [Hin Hbad]]. unfold parse_challenge_with.
  destruct (has_prefix (bs "Digest ") (trim is_chal_ws input)); [|eauto].
  set (ps := split _) in *.
  destruct (parse_params empty_chal ps) as [c'|e] eqn:E; [|eauto].
  assert (X : forallb param_ok ps = true) by (apply (parse_params_ok_iff ps empty_chal); eauto).
  rewrite forallb_forall in X. rewrite (X p Hin) in Hbad. discriminate.
Qed.

Theorem non_digest_is_error split input :
  has_prefix (bs "Digest ") (trim is_chal_ws input) = false ->
  parse_challenge_with split input = inr EBadChallenge.
Proof. intros Hp. unfold parse_challenge_with. now rewrite Hp. Qed.

(* ---------- the 401's connection and the re-send ---------- *)

(* closing the challenge response first: the re-send finds a connection whenever the call itself
   had one (the other calls leave room), read or unread 401 body alike *)
Theorem resend_not_blocked_by_own_401 limit others unread :
  others < limit -> resend_gets_connection limit others unread true = true.
Proof.
  intros H. unfold resend_gets_connection. rewrite andb_false_r, Nat.add_0_r. now apply Nat.ltb_lt.
Qed.

(* keeping it open until the answer has arrived (a seeded change): one connection per host and
   an unread 401 - the re-send waits for the connection its own call holds *)
Example hold_401_until_answer_refuted :
  resend_gets_connection 1 0 true false = false /\ resend_gets_connection 1 0 true true = true.
Proof. split; reflexivity. Qed.

(* ---------- several WWW-Authenticate lines ---------- *)

(* the Digest challenge is found behind any number of lines of other schemes *)
Theorem select_digest_line pre c post :
  forallb (fun l => negb (is_digest_line l)) pre = true -> is_digest_line c = true ->
  select_challenge (pre ++ c :: post) = c.
Proof.
  intros Hpre Hc. unfold select_challenge.
  assert (F : find is_digest_line (pre ++ c :: post) = Some c).
  { induction pre as [|x r IH]; cbn [app find].
    - now rewrite Hc.
    - cbn [forallb] in Hpre. apply andb_prop in Hpre as [Hx Hr]. apply negb_true_iff in Hx.
      rewrite Hx. auto. }
  now rewrite F.
Qed.

(* no Digest line at all: the first line is looked at and refused *)
Theorem select_no_digest_line lines :
  forallb (fun l => negb (is_digest_line l)) lines = true ->
  select_challenge lines = hd [] lines /\
  (lines <> [] -> parse_challenge (select_challenge lines) = inr EBadChallenge).
Proof.
  intros H. assert (F : find is_digest_line lines = None).
  { induction lines as [|x r IH]; [reflexivity|]. cbn [forallb find] in *.
    apply andb_prop in H as [Hx Hr]. apply negb_true_iff in Hx. rewrite Hx. auto. }
  unfold select_challenge. rewrite F. split; [reflexivity|].
  destruct lines as [|x r]; [congruence|]. intros _. cbn [hd forallb] in *.
  apply andb_prop in H as [Hx _]. apply negb_true_iff in Hx.
  apply non_digest_is_error. exact Hx.
Qed.

Example select_pinned_refuted :
  let lines := [bs "Basic realm=""fallback"""; bs "Digest realm=""r"", nonce=""n"", qop=""auth"""] in
  parse_challenge (select_challenge_pinned lines) = inr EBadChallenge /\
  exists c, parse_challenge (select_challenge lines) = inl c /\ supported c = true.
Proof. split; [vm_compute; reflexivity|]. eexists. split; vm_compute; reflexivity. Qed.

(* ---------- the pinned splitter / qop rule: witnesses of what was repaired ---------- *)

Example pinned_rejects_qop_list :
  parse_challenge_pinned (bs "Digest realm=""r"", nonce=""n"", qop=""auth,auth-int""") = inr EBadChallenge /\
  exists c, parse_challenge (bs "Digest realm=""r"", nonce=""n"", qop=""auth,auth-int""") = inl c /\
            supported c = true.
Proof. split; [vm_compute; reflexivity|]. eexists. split; vm_compute; reflexivity. Qed.

Example pinned_rejects_comma_in_realm :
  parse_challenge_pinned (bs "Digest realm=""Acme, Inc."", nonce=""n""") = inr EBadChallenge /\
  exists c, parse_challenge (bs "Digest realm=""Acme, Inc."", nonce=""n""") = inl c /\
            c_realm c = bs "Acme, Inc.".
Proof. split; [vm_compute; reflexivity|]. eexists. split; vm_compute; reflexivity. Qed.

Example pinned_keeps_quoted_pair :
  set_param_pinned empty_chal (bs "realm") (bs """say \""hi\""""") <>
  set_param empty_chal (bs "realm") (bs """say \""hi\""""") /\
  exists c, set_param empty_chal (bs "realm") (bs """say \""hi\""""") = inl c /\
            c_realm c = bs "say ""hi""".
Proof. split; [vm_compute; discriminate|]. eexists. split; vm_compute; reflexivity. Qed.
