(* Proofs/H2ErrorProofs.v - which error a malformed HTTP/2 frame yields (RFC 7540 §6, as decided by
   golang.org/x/net/http2's frame parsers, which the fork must agree with): connection vs stream
   error and the code, characterised by the SHAPE of the frame. *)
From Coq Require Import Lia ZifyBool ZifyNat ZifyN.
From ReqV Require Import Lib.Bytes Lib.BigEndian Model.H2Frame.
Open Scope N_scope.

(* ---- the rules, written from RFC 7540 §6.1-§6.10 ---- *)
(* frames that must / must not be on stream 0 *)
Definition must_have_stream (t : N) : Prop :=
  t = FrameData \/ t = FrameHeaders \/ t = FramePriority \/ t = FrameRSTStream \/ t = FramePushPromise \/ t = FrameContinuation.
Definition must_be_stream0 (t : N) : Prop := t = FrameSettings \/ t = FramePing \/ t = FrameGoAway.
Definition stream_rule_violated (h : fhdr) : Prop :=
  (must_have_stream (fh_type h) /\ fh_sid h = 0) \/ (must_be_stream0 (fh_type h) /\ fh_sid h <> 0).
(* fixed / constrained payload lengths *)
Definition length_rule_violated (h : fhdr) (p : bytes) : Prop :=
  (fh_type h = FramePriority /\ lenN p <> 5) \/ (fh_type h = FrameRSTStream /\ lenN p <> 4) \/
  (fh_type h = FrameSettings /\ ((has_flag (fh_flags h) FlagSettingsAck = true /\ 0 < fh_len h) \/ lenN p mod 6 <> 0)) \/
  (fh_type h = FramePing /\ lenN p <> 8) \/ (fh_type h = FrameGoAway /\ lenN p < 8) \/
  (fh_type h = FrameWindowUpdate /\ lenN p <> 4).
Definition padded_type (t : N) : Prop := t = FrameData \/ t = FrameHeaders \/ t = FramePushPromise.

Ltac type_cases h :=
  unfold parse_frame;
  repeat match goal with |- context [fh_type h =? ?c] => destruct (N.eqb_spec (fh_type h) c) end.

Ltac ifs := repeat match goal with
  | |- context [if ?c then _ else _] => let E := fresh "E" in destruct c eqn:E
  | |- context [match ?c with Some _ => _ | None => _ end] => let E := fresh "E" in destruct c eqn:E
  | |- context [match ?c with (_, _) => _ end] => destruct c
  | |- context [match ?c with Ok _ => _ | Err _ => _ end] => let E := fresh "E" in destruct c eqn:E
  end.

(* every error the payload parsers return is one of five classes, and a stream error always names
   the frame's own (non-zero) stream with PROTOCOL_ERROR and comes from HEADERS (padding overrun) or
   WINDOW_UPDATE (zero increment) only *)
Theorem h2_error_classes h p e : parse_frame h p = Err e ->
  match e with
  | EConn c => c = ErrCodeProtocol \/ c = ErrCodeFrameSize \/ (c = ErrCodeFlowControl /\ fh_type h = FrameSettings)
  | EStream s c => s = fh_sid h /\ s <> 0 /\ c = ErrCodeProtocol /\
                   (fh_type h = FrameHeaders \/ fh_type h = FrameWindowUpdate)
  | EUnexpectedEOF => padded_type (fh_type h)
  | EEOF | EFrameTooLarge => False
  end.
Proof.
  type_cases h; unfold parse_data, parse_headers, parse_priority, parse_rst, parse_settings, parse_push_promise,
    parse_ping, parse_goaway, parse_window_update, parse_continuation, padded_type;
  ifs; intro H; inversion H; subst; auto; try discriminate;
  try (repeat split; auto; apply N.eqb_neq; assumption).
Qed.

(* a frame on the wrong side of the stream-0 rule is never delivered: connection error *)
Theorem h2_stream_rule_enforced h p : stream_rule_violated h ->
  exists c, parse_frame h p = Err (EConn c) /\ (c = ErrCodeProtocol \/ c = ErrCodeFrameSize).
Proof.
  unfold stream_rule_violated, must_have_stream, must_be_stream0.
  intros [[T Z]|[T NZ]].
  - destruct T as [T|[T|[T|[T|[T|T]]]]]; unfold parse_frame; rewrite T; cbn [N.eqb Pos.eqb];
      unfold parse_data, parse_headers, parse_priority, parse_rst, parse_push_promise, parse_continuation; rewrite Z; cbn [N.eqb];
      try (eexists; split; [reflexivity|auto]).
    destruct (negb (lenN p =? 4)); eexists; split; try reflexivity; auto.
  - apply N.eqb_neq in NZ. destruct T as [T|[T|T]]; unfold parse_frame; rewrite T; cbn [N.eqb Pos.eqb];
      unfold parse_settings, parse_ping, parse_goaway; rewrite NZ; cbn [negb].
    + destruct (has_flag (fh_flags h) FlagSettingsAck && (0 <? fh_len h)); eexists; split; try reflexivity; auto.
    + destruct (negb (lenN p =? 8)); eexists; split; try reflexivity; auto.
    + eexists; split; [reflexivity|auto].
Qed.

(* a frame that violates a length rule is never delivered either *)
Theorem h2_length_rule_enforced h p : length_rule_violated h p ->
  exists c, parse_frame h p = Err (EConn c) /\ (c = ErrCodeProtocol \/ c = ErrCodeFrameSize).
Proof.
  unfold length_rule_violated.
  intros [[T L]|[[T L]|[[T L]|[[T L]|[[T L]|[T L]]]]]]; unfold parse_frame; rewrite T; cbn [N.eqb Pos.eqb].
  - unfold parse_priority. destruct (fh_sid h =? 0); [eexists; split; [reflexivity|auto]|].
    apply N.eqb_neq in L. rewrite L. cbn [negb]. eexists; split; [reflexivity|auto].
  - unfold parse_rst. apply N.eqb_neq in L. rewrite L. cbn [negb]. eexists; split; [reflexivity|auto].
  - unfold parse_settings. destruct L as [[A B]|M].
    + rewrite A. apply N.ltb_lt in B. rewrite B. cbn [andb]. eexists; split; [reflexivity|auto].
    + destruct (has_flag (fh_flags h) FlagSettingsAck && (0 <? fh_len h)); [eexists; split; [reflexivity|auto]|].
      destruct (negb (fh_sid h =? 0)); [eexists; split; [reflexivity|auto]|].
      apply N.eqb_neq in M. rewrite M. cbn [negb]. eexists; split; [reflexivity|auto].
  - unfold parse_ping. apply N.eqb_neq in L. rewrite L. cbn [negb]. eexists; split; [reflexivity|auto].
  - unfold parse_goaway. destruct (negb (fh_sid h =? 0)); [eexists; split; [reflexivity|auto]|].
    apply N.ltb_lt in L. rewrite L. eexists; split; [reflexivity|auto].
  - unfold parse_window_update. apply N.eqb_neq in L. rewrite L. cbn [negb]. eexists; split; [reflexivity|auto].
Qed.

(* and conversely a frame that respects both rules fails only on padding overrun, a short
   padded/priority prefix, a zero window increment or an oversized INITIAL_WINDOW_SIZE *)
Theorem h2_wellshaped_errors h p e : ~ stream_rule_violated h -> ~ length_rule_violated h p ->
  parse_frame h p = Err e ->
  (padded_type (fh_type h) /\ (e = EUnexpectedEOF \/ e = EConn ErrCodeProtocol \/ e = EStream (fh_sid h) ErrCodeProtocol)) \/
  (fh_type h = FrameWindowUpdate /\ (e = EConn ErrCodeProtocol \/ e = EStream (fh_sid h) ErrCodeProtocol)) \/
  (fh_type h = FrameSettings /\ e = EConn ErrCodeFlowControl).
Proof.
  intros NS NL. unfold stream_rule_violated, must_have_stream, must_be_stream0 in NS.
  unfold length_rule_violated in NL. unfold padded_type.
  type_cases h; unfold parse_data, parse_headers, parse_priority, parse_rst, parse_settings, parse_push_promise,
    parse_ping, parse_goaway, parse_window_update, parse_continuation;
  ifs; intro H; inversion H; subst; try discriminate; auto 8;
  exfalso;
  repeat match goal with
  | E : (_ =? _) = true |- _ => apply N.eqb_eq in E
  | E : (_ =? _) = false |- _ => apply N.eqb_neq in E
  | E : (_ <? _) = true |- _ => apply N.ltb_lt in E
  | E : (_ <? _) = false |- _ => apply N.ltb_ge in E
  | E : negb _ = true |- _ => apply Bool.negb_true_iff in E
  | E : negb _ = false |- _ => apply Bool.negb_false_iff in E
  | E : _ && _ = true |- _ => apply Bool.andb_true_iff in E; destruct E
  end;
  try (apply NS; tauto); try (apply NL; tauto); try (apply NS; right; split; [tauto|lia]); try (apply NL; intuition lia).
Qed.
