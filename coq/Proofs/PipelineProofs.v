(* Proofs/PipelineProofs.v - lemmas about Model/Pipeline.v (C18) *)
From Coq Require Import Lia ZifyBool.
From ReqV Require Import Lib.Bytes Model.Pipeline.
Open Scope Z_scope.

(* ---------- classification ---------- *)

Lemma classify_total : forall code : Z,
  (200 <= code <= 299 /\ default_result_state code = SuccessState) \/
  (400 <= code /\ default_result_state code = ErrorState) \/
  ((code < 200 \/ 300 <= code <= 399) /\ default_result_state code = UnknownState).
Proof.
  intro code. unfold default_result_state, SuccessState, ErrorState, UnknownState.
  destruct (code >? 199) eqn:A; destruct (code <? 300) eqn:B; destruct (code >? 399) eqn:C; cbn; lia.
Qed.

Lemma states_distinct : SuccessState <> ErrorState /\ SuccessState <> UnknownState /\ ErrorState <> UnknownState.
Proof. unfold SuccessState, ErrorState, UnknownState. lia. Qed.

Lemma classify_ranges : forall code,
  (default_result_state code = SuccessState <-> 200 <= code <= 299) /\
  (default_result_state code = ErrorState <-> 400 <= code) /\
  (default_result_state code = UnknownState <-> (code < 200 \/ 300 <= code <= 399)).
Proof.
  intro code. unfold default_result_state, SuccessState, ErrorState, UnknownState.
  destruct (code >? 199) eqn:A; destruct (code <? 300) eqn:B; destruct (code >? 399) eqn:C; cbn; lia.
Qed.
