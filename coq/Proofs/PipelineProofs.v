(* Proofs/PipelineProofs.v - lemmas about Model/Pipeline.v (C18) *)
From Coq Require Import Lia ZifyBool.
From ReqV Require Import Lib.Bytes Model.Pipeline.
Open Scope Z_scope.

(* ---------- classification ---------- *)

Lemma classify_total : forall code : Z,
  (200 <= code <= 299 /\ default_result_state code = SuccessState) \/
  (400 <= code /\ default_result_state code = ErrorState) \/
  ((code < 200 \/ 300 <= code <= 399) /\ default_result_state code = UnknownState).
Proof.
  intro code. unfold default_result_state, SuccessState, ErrorState, UnknownState.
  destruct (code >? 199) eqn:A; destruct (code <? 300) eqn:B; destruct (code >? 399) eqn:C; cbn; lia.
Qed.

Lemma states_distinct : SuccessState <> ErrorState /\ SuccessState <> UnknownState /\ ErrorState <> UnknownState.
Proof. unfold SuccessState, ErrorState, UnknownState. lia. Qed.

Lemma classify_ranges : forall code,
  (default_result_state code = SuccessState <-> 200 <= code <= 299) /\
  (default_result_state code = ErrorState <-> 400 <= code) /\
  (default_result_state code = UnknownState <-> (code < 200 \/ 300 <= code <= 399)).
Proof.
  intro code. unfold default_result_state, SuccessState, ErrorState, UnknownState.
  destruct (code >? 199) eqn:A; destruct (code <? 300) eqn:B; destruct (code >? 399) eqn:C; cbn; lia.
Qed.

(* ---------- result binding (parseResponseBody) ---------- *)

(* the body can be obtained: no recorded error, and it is cached or the read succeeds *)
Definition body_ok (b : body_oracle) (r : response) : Prop :=
  r_err r = None /\ (r_cached r = true \/ (b_read b = None /\ b_tf b = None)).

Lemma to_bytes_ok : forall b r r1,
  r_present r = true -> to_bytes b r = (r1, None) -> body_ok b r.
Proof.
  intros b r r1 Hp H. unfold to_bytes in H. unfold body_ok.
  destruct (r_err r) eqn:E; [discriminate|].
  destruct (r_cached r) eqn:C; [auto|].
  rewrite Hp in H. cbn in H. destruct (b_read b) eqn:R; [discriminate|].
  destruct (b_tf b) eqn:Tf; [discriminate|auto].
Qed.

Lemma to_bytes_fail : forall b r r1 x,
  r_present r = true -> to_bytes b r = (r1, Some x) -> ~ body_ok b r.
Proof.
  intros b r r1 x Hp H [E [C|R]]; unfold to_bytes in H; rewrite E in H.
  - rewrite C in H. discriminate.
  - destruct R as [R Tf]. destruct (r_cached r); [discriminate|]. rewrite Hp in H. cbn in H. rewrite R, Tf in H. discriminate.
Qed.

(* to_bytes touches only Err and the cache *)
Lemma to_bytes_frame : forall b r r1 e, to_bytes b r = (r1, e) ->
  r_present r1 = r_present r /\ r_status r1 = r_status r /\ r_chk r1 = r_chk r /\
  r_result r1 = r_result r /\ r_error r1 = r_error r /\
  (e = None -> r_err r1 = None) /\ (forall x, e = Some x -> r_err r1 = Some x).
Proof.
  intros b r r1 e H. unfold to_bytes in H.
  destruct (r_err r) eqn:E.
  { inversion H; subst. repeat split; auto; try discriminate. intros x Hx; inversion Hx; subst; auto. }
  destruct (r_cached r).
  { inversion H; subst. repeat split; auto. discriminate. }
  destruct (negb (r_present r)).
  { inversion H; subst. repeat split; auto. discriminate. }
  destruct (b_read b); [|destruct (b_tf b)]; inversion H; subst; cbn; repeat split; auto; try discriminate;
  intros x Hx; inversion Hx; auto.
Qed.

Lemma unmarshal_body_spec : forall b um r r1 e, r_present r = true -> unmarshal_body b um r = (r1, e) ->
  r_present r1 = true /\ r_status r1 = r_status r /\ r_chk r1 = r_chk r /\
  r_result r1 = r_result r /\ r_error r1 = r_error r /\
  (e = None <-> body_ok b r /\ um = None) /\
  (body_ok b r -> e = um) /\
  (e = None -> r_err r1 = None) /\
  (forall x, e = Some x -> ~ body_ok b r -> r_err r1 = Some x).
Proof.
  intros b um r r1 e Hp H. unfold unmarshal_body in H.
  destruct (to_bytes b r) as [r0 e0] eqn:T.
  pose proof (to_bytes_frame _ _ _ _ T) as (F1 & F2 & F3 & F4 & F5 & F6 & F7).
  destruct e0 as [x|].
  - inversion H; subst. pose proof (to_bytes_fail _ _ _ _ Hp T) as NB.
    rewrite F1, F2, F3, F4, F5. repeat split; auto; try discriminate.
    all: try (intros [B _]; contradiction).
    all: try (intro B; contradiction).
    all: try (intros y Hy _; inversion Hy; subst; apply F7; auto).
  - inversion H; subst. pose proof (to_bytes_ok _ _ _ Hp T) as B.
    rewrite F1, F2, F3, F4, F5. repeat split; auto.
    all: try (intros [_ U]; auto).
    all: try (intros y Hy NB; contradiction).
    all: try (destruct B as [B1 B2]; assumption).
Qed.

Lemma result_state_frame : forall r r1,
  r_present r1 = r_present r -> r_status r1 = r_status r -> r_chk r1 = r_chk r -> result_state r1 = result_state r.
Proof. intros r r1 A B C. unfold result_state. rewrite A, B, C. reflexivity. Qed.

Lemma success_result_iff : forall tg b r,
  r_result r = false ->
  (r_result (fst (parse_response_body tg b r)) = true <->
   t_result tg = true /\ r_present r = true /\ result_state r = SuccessState /\
   r_status r <> no_content /\ body_ok b r /\ b_um_res b = None).
Proof.
  intros tg b r R0. unfold parse_response_body.
  destruct (r_present r) eqn:P; cbn [negb].
  2:{ cbn. rewrite R0. split; [discriminate|]. intros (_ & X & _). discriminate. }
  destruct (result_state r =? SuccessState) eqn:S.
  - apply Z.eqb_eq in S.
    destruct (t_result tg) eqn:T; cbn [andb].
    2:{ cbn. rewrite R0. split; [discriminate|]. intros (X & _). discriminate. }
    destruct (r_status r =? no_content) eqn:N; cbn [negb].
    { cbn. rewrite R0. apply Z.eqb_eq in N. split; [discriminate|]. intros (_ & _ & _ & X & _). contradiction. }
    apply Z.eqb_neq in N.
    destruct (unmarshal_body b (b_um_res b) r) as [r1 e] eqn:U.
    pose proof (unmarshal_body_spec _ _ _ _ _ P U) as (_ & _ & _ & U4 & _ & U6 & _).
    destruct e; cbn.
    + rewrite U4, R0. split; [discriminate|]. intros (_ & _ & _ & _ & B & M).
      destruct U6 as [_ U6]. specialize (U6 (conj B M)). discriminate.
    + split; auto. intros _. destruct U6 as [U6 _]. destruct (U6 eq_refl) as [[B1 B2] M].
      unfold body_ok. repeat split; auto.
  - apply Z.eqb_neq in S.
    assert (forall X : response * option err, r_result (fst X) = r_result r -> 
            (r_result (fst X) = true <-> t_result tg = true /\ true = true /\ result_state r = SuccessState /\
              r_status r <> no_content /\ body_ok b r /\ b_um_res b = None)) as K.
    { intros X HX. rewrite HX, R0. split; [discriminate|]. intros (_ & _ & C & _). contradiction. }
    apply K.
    destruct (result_state r =? ErrorState); [|reflexivity].
    destruct (r_status r =? no_content); [reflexivity|].
    destruct (t_error tg).
    { destruct (unmarshal_body b (b_um_req b) r) as [r1 e] eqn:U.
      pose proof (unmarshal_body_spec _ _ _ _ _ P U) as (_ & _ & _ & U4 & _).
      destruct e; cbn; auto. }
    destruct (t_common tg); [|reflexivity].
    destruct (unmarshal_body b (b_um_com b) r) as [r1 e] eqn:U.
    pose proof (unmarshal_body_spec _ _ _ _ _ P U) as (_ & _ & _ & U4 & _).
    destruct e; cbn; auto.
Qed.

(* which target the response is bound to, if any *)
Inductive which := BRes | BReq | BCom.

Definition applicable (tg : targets) (r : response) : option which :=
  if negb (r_present r) then None
  else if result_state r =? SuccessState then
    (if t_result tg && negb (r_status r =? no_content) then Some BRes else None)
  else if result_state r =? ErrorState then
    (if r_status r =? no_content then None
     else if t_error tg then Some BReq else if t_common tg then Some BCom else None)
  else None.

Definition um_of (b : body_oracle) (w : which) : option err :=
  match w with BRes => b_um_res b | BReq => b_um_req b | BCom => b_um_com b end.

Definition bind (w : which) (r : response) : response :=
  match w with BRes => set_result true r | BReq => set_error EReq r | BCom => set_error ECommon r end.

Lemma parse_as_applicable : forall tg b r,
  parse_response_body tg b r =
  match applicable tg r with
  | None => (r, None)
  | Some w => let '(r1, e) := unmarshal_body b (um_of b w) r in
              match e with None => (bind w r1, None) | Some x => (r1, Some x) end
  end.
Proof.
  intros tg b r. unfold parse_response_body, applicable.
  destruct (negb (r_present r)); [reflexivity|].
  destruct (result_state r =? SuccessState).
  { destruct (t_result tg && negb (r_status r =? no_content)); reflexivity. }
  destruct (result_state r =? ErrorState); [|reflexivity].
  destruct (r_status r =? no_content); [reflexivity|].
  destruct (t_error tg); [reflexivity|].
  destruct (t_common tg); reflexivity.
Qed.

Lemma applicable_present : forall tg r w, applicable tg r = Some w -> r_present r = true.
Proof. intros tg r w H. unfold applicable in H. destruct (r_present r); [reflexivity|discriminate]. Qed.

Lemma applicable_res : forall tg r,
  applicable tg r = Some BRes <->
  t_result tg = true /\ r_present r = true /\ result_state r = SuccessState /\ r_status r <> no_content.
Proof.
  intros tg r. unfold applicable. destruct (r_present r); cbn [negb].
  2:{ split; [discriminate|]. intros (_ & X & _); discriminate. }
  destruct (result_state r =? SuccessState) eqn:S.
  - apply Z.eqb_eq in S. destruct (t_result tg); cbn [andb].
    2:{ split; [discriminate|]. intros (X & _); discriminate. }
    destruct (r_status r =? no_content) eqn:N; cbn [negb].
    + apply Z.eqb_eq in N. split; [discriminate|]. intros (_ & _ & _ & X); contradiction.
    + apply Z.eqb_neq in N. split; auto.
  - apply Z.eqb_neq in S. split.
    + destruct (result_state r =? ErrorState); [|discriminate].
      destruct (r_status r =? no_content); [discriminate|].
      destruct (t_error tg); [discriminate|]. destruct (t_common tg); discriminate.
    + intros (_ & _ & X & _); contradiction.
Qed.

Lemma applicable_err : forall tg r w, w <> BRes ->
  (applicable tg r = Some w <->
   r_present r = true /\ result_state r = ErrorState /\ r_status r <> no_content /\
   (w = BReq /\ t_error tg = true \/ w = BCom /\ t_error tg = false /\ t_common tg = true)).
Proof.
  intros tg r w Hw. pose proof states_distinct as (D1 & _ & _).
  unfold applicable. destruct (r_present r); cbn [negb].
  2:{ split; [discriminate|]. intros (X & _); discriminate. }
  destruct (result_state r =? SuccessState) eqn:S.
  { apply Z.eqb_eq in S. split.
    - destruct (t_result tg && negb (r_status r =? no_content)); [|discriminate].
      intro H; inversion H; subst; contradiction.
    - intros (_ & X & _). congruence. }
  destruct (result_state r =? ErrorState) eqn:E.
  2:{ apply Z.eqb_neq in E. split; [discriminate|]. intros (_ & X & _); contradiction. }
  apply Z.eqb_eq in E.
  destruct (r_status r =? no_content) eqn:N.
  { apply Z.eqb_eq in N. split; [discriminate|]. intros (_ & _ & X & _); contradiction. }
  apply Z.eqb_neq in N.
  destruct (t_error tg).
  { split.
    - intro H; inversion H; subst. repeat split; auto.
    - intros (_ & _ & _ & [[A _]|[_ [B _]]]); [subst; reflexivity|discriminate]. }
  destruct (t_common tg).
  { split.
    - intro H; inversion H; subst. repeat split; auto.
    - intros (_ & _ & _ & [[_ B]|[A _]]); [discriminate|subst; reflexivity]. }
  split; [discriminate|]. intros (_ & _ & _ & [[_ B]|[_ [_ B]]]); discriminate.
Qed.

(* full characterisation of one binding step *)
Lemma parse_spec : forall tg b r r' e, parse_response_body tg b r = (r', e) ->
  r_present r' = r_present r /\ r_status r' = r_status r /\ r_chk r' = r_chk r /\
  match applicable tg r with
  | None => r' = r /\ e = None
  | Some w =>
      (body_ok b r /\ um_of b w = None ->
         e = None /\ r_err r' = None /\
         r_result r' = (match w with BRes => true | _ => r_result r end) /\
         r_error r' = (match w with BRes => r_error r | BReq => EReq | BCom => ECommon end)) /\
      (~ (body_ok b r /\ um_of b w = None) ->
         e <> None /\ r_result r' = r_result r /\ r_error r' = r_error r /\
         (body_ok b r -> e = um_of b w))
  end.
Proof.
  intros tg b r r' e H. rewrite parse_as_applicable in H.
  destruct (applicable tg r) as [w|] eqn:A.
  2:{ inversion H; subst. auto. }
  pose proof (applicable_present _ _ _ A) as P.
  destruct (unmarshal_body b (um_of b w) r) as [r1 e1] eqn:U.
  pose proof (unmarshal_body_spec _ _ _ _ _ P U) as (U1 & U2 & U3 & U4 & U5 & U6 & U7 & U8 & U9).
  destruct e1 as [x|]; inversion H; subst.
  - split; [congruence|]. split; [auto|]. split; [auto|]. split.
    + intro K. apply U6 in K. discriminate.
    + intros _. split; [discriminate|]. auto.
  - destruct U6 as [U6 _]. specialize (U6 eq_refl). specialize (U8 eq_refl).
    split; [destruct w; cbn; congruence|]. split; [destruct w; cbn; auto|]. split; [destruct w; cbn; auto|]. split.
    + intros _. split; [reflexivity|]. split; [destruct w; cbn; auto|]. split; destruct w; cbn; auto.
    + intro K. contradiction.
Qed.

Lemma bind_ok_dec : forall b r w, {body_ok b r /\ um_of b w = None} + {~ (body_ok b r /\ um_of b w = None)}.
Proof.
  intros b r w. unfold body_ok.
  destruct (um_of b w); [right; intros [_ X]; discriminate|].
  destruct (r_err r); [right; intros [[X _] _]; discriminate|].
  destruct (r_cached r); [left; auto|].
  destruct (b_read b); [right; intros [[_ [X|[X _]]] _]; discriminate|].
  destruct (b_tf b); [right; intros [[_ [X|[_ X]]] _]; discriminate|left; auto].
Qed.

(* what a binding step leaves in (result, error), in terms of [applicable] *)
Lemma parse_binds : forall tg b r,
  let r' := fst (parse_response_body tg b r) in
  (forall w, applicable tg r = Some w -> body_ok b r /\ um_of b w = None ->
     r_result r' = (match w with BRes => true | _ => r_result r end) /\
     r_error r' = (match w with BRes => r_error r | BReq => EReq | BCom => ECommon end)) /\
  ((applicable tg r = None \/ exists w, applicable tg r = Some w /\ ~ (body_ok b r /\ um_of b w = None)) ->
     r_result r' = r_result r /\ r_error r' = r_error r).
Proof.
  intros tg b r. destruct (parse_response_body tg b r) as [r' e] eqn:H. cbn.
  pose proof (parse_spec _ _ _ _ _ H) as (_ & _ & _ & K).
  split.
  - intros w A D. rewrite A in K. destruct K as [K _]. destruct (K D) as (_ & _ & X & Y). auto.
  - intros [A|[w [A D]]]; rewrite A in K.
    + destruct K as [K _]. subst. auto.
    + destruct K as [_ K]. destruct (K D) as (_ & X & Y & _). auto.
Qed.

Lemma error_result_iff : forall tg b r,
  r_error r = ENone ->
  let r' := fst (parse_response_body tg b r) in
  (r_error r' = EReq <->
     t_error tg = true /\ r_present r = true /\ result_state r = ErrorState /\
     r_status r <> no_content /\ body_ok b r /\ b_um_req b = None) /\
  (r_error r' = ECommon <->
     t_error tg = false /\ t_common tg = true /\ r_present r = true /\ result_state r = ErrorState /\
     r_status r <> no_content /\ body_ok b r /\ b_um_com b = None).
Proof.
  intros tg b r E0 r'. pose proof (parse_binds tg b r) as [K1 K2]. fold r' in K1, K2.
  assert (BReq <> BRes) as N1 by discriminate. assert (BCom <> BRes) as N2 by discriminate.
  pose proof (applicable_err tg r BReq N1) as AR. pose proof (applicable_err tg r BCom N2) as AC.
  destruct (applicable tg r) as [w|] eqn:A.
  2:{ destruct (K2 (or_introl eq_refl)) as [_ X]. rewrite X, E0. split; (split; [discriminate|]).
      - intros (T & P & S & N & _). destruct AR as [_ AR]. discriminate AR. repeat split; auto.
      - intros (T & C & P & S & N & _). destruct AC as [_ AC]. discriminate AC. repeat split; auto. }
  destruct (bind_ok_dec b r w) as [D|D].
  - destruct (K1 w eq_refl D) as [_ X]. rewrite X. destruct w.
    + rewrite E0. split; (split; [discriminate|]).
      * intros (T & P & S & N & _). destruct AR as [_ AR]. discriminate AR. repeat split; auto.
      * intros (T & C & P & S & N & _). destruct AC as [_ AC]. discriminate AC. repeat split; auto.
    + destruct AR as [AR _]. destruct (AR eq_refl) as (P & S & N & [[_ T]|[X0 _]]); [|discriminate].
      destruct D as [B U]. cbn in U. split.
      * split; auto. intros _. repeat split; auto; apply B.
      * split; [discriminate|]. intros (T' & _). congruence.
    + destruct AC as [AC _]. destruct (AC eq_refl) as (P & S & N & [[X0 _]|[_ [T C]]]); [discriminate|].
      destruct D as [B U]. cbn in U. split.
      * split; [discriminate|]. intros (T' & _). congruence.
      * split; auto. intros _. repeat split; auto; apply B.
  - assert (r_error r' = ENone) as X.
    { destruct (K2 (or_intror (ex_intro _ w (conj eq_refl D)))) as [_ X]. rewrite X. exact E0. }
    rewrite X. split; (split; [discriminate|]).
    + intros (T & P & S & N & B & U). destruct AR as [_ AR].
      assert (Some w = Some BReq) as W by (apply AR; repeat split; auto). inversion W; subst. exfalso. apply D; split; [exact B|exact U].
    + intros (T & C & P & S & N & B & U). destruct AC as [_ AC].
      assert (Some w = Some BCom) as W by (apply AC; repeat split; auto). inversion W; subst. exfalso. apply D; split; [exact B|exact U].
Qed.

Lemma never_both : forall tg b r,
  r_result r = false -> r_error r = ENone ->
  let r' := fst (parse_response_body tg b r) in
  ~ (r_result r' = true /\ r_error r' <> ENone).
Proof.
  intros tg b r R0 E0 r' [A B]. pose proof (parse_binds tg b r) as [K1 K2]. fold r' in K1, K2.
  destruct (applicable tg r) as [w|] eqn:Ap.
  2:{ destruct (K2 (or_introl eq_refl)) as [X _]. congruence. }
  destruct (bind_ok_dec b r w) as [D|D].
  - destruct (K1 w eq_refl D) as [X Y]. destruct w; congruence.
  - destruct (K2 (or_intror (ex_intro _ w (conj eq_refl D)))) as [X _]. congruence.
Qed.

(* the unmarshal function's error is what parseResponseBody returns, and nothing is bound *)
Lemma unmarshal_failure_surfaces : forall tg b r w x,
  applicable tg r = Some w -> body_ok b r -> um_of b w = Some x ->
  snd (parse_response_body tg b r) = Some x /\
  r_result (fst (parse_response_body tg b r)) = r_result r /\
  r_error (fst (parse_response_body tg b r)) = r_error r.
Proof.
  intros tg b r w x A B U. destruct (parse_response_body tg b r) as [r' e] eqn:H. cbn.
  pose proof (parse_spec _ _ _ _ _ H) as (_ & _ & _ & K). rewrite A in K. destruct K as [_ K].
  assert (~ (body_ok b r /\ um_of b w = None)) as D by (intros [_ X]; congruence).
  destruct (K D) as (_ & X & Y & Z). rewrite (Z B). auto.
Qed.

(* a failing body read surfaces the same way *)
Lemma read_failure_surfaces : forall tg b r w,
  applicable tg r = Some w -> ~ body_ok b r ->
  snd (parse_response_body tg b r) <> None /\
  r_result (fst (parse_response_body tg b r)) = r_result r /\
  r_error (fst (parse_response_body tg b r)) = r_error r.
Proof.
  intros tg b r w A B. destruct (parse_response_body tg b r) as [r' e] eqn:H. cbn.
  pose proof (parse_spec _ _ _ _ _ H) as (_ & _ & _ & K). rewrite A in K. destruct K as [_ K].
  assert (~ (body_ok b r /\ um_of b w = None)) as D by (intros [X _]; contradiction).
  destruct (K D) as (X0 & X & Y & _). auto.
Qed.

(* ====================================================================== *)
(* the pipeline: Do / do / Send                                            *)
(* ====================================================================== *)

Lemma do_deferred_some : forall ro e, exists r, do_deferred ro e = (Some r, e).
Proof. intros ro e. unfold do_deferred. eexists. reflexivity. Qed.

(* what the deferred function guarantees: a response, and a returned error is recorded *)
Lemma do_deferred_spec : forall ro e,
  exists r1, do_deferred ro e = (Some r1, e) /\ (e <> None -> r_err r1 <> None) /\
  (forall x, e = Some x -> resp_err ro = None -> r_err r1 = Some x) /\
  (resp_err ro <> None -> r_err r1 = resp_err ro) /\
  (e = None -> r_err r1 = resp_err ro).
Proof.
  intros ro e. unfold do_deferred. eexists. split; [reflexivity|].
  destruct ro as [r0|]; cbn; destruct e as [x|]; cbn.
  - destruct (r_err r0) eqn:E; cbn; repeat split; auto; try congruence; intros; congruence.
  - repeat split; auto; try congruence; intros; congruence.
  - repeat split; auto; try congruence; intros; congruence.
  - repeat split; auto; try congruence; intros; congruence.
Qed.

Lemma do_loop_cons : forall fl cfg a rest n prev,
  do_loop fl cfg (a :: rest) n prev =
  match do_attempt fl cfg a n prev with
  | (Stop ro e, l) => let '(r, e') := do_deferred ro e in DoRet r e' [l]
  | (Again r, l) => prepend l (do_loop fl cfg rest (n + 1) (Some r))
  end.
Proof. reflexivity. Qed.

Lemma do_loop_resp_some : forall fl cfg atts n prev ro e ls,
  do_loop fl cfg atts n prev = DoRet ro e ls -> ro <> None.
Proof.
  intros fl cfg atts. induction atts as [|a rest IH]; intros n prev ro e ls H; [cbn in H; discriminate|]. rewrite do_loop_cons in H.
  destruct (do_attempt fl cfg a n prev) as [[ro0 e0|r0] l].
  - destruct (do_deferred_some ro0 e0) as [r1 D]. rewrite D in H. inversion H; subst. discriminate.
  - destruct (do_loop fl cfg rest (n + 1) (Some r0)) as [ro1 e1 ls1|] eqn:L; cbn in H; [|discriminate].
    inversion H; subst. eapply IH; eauto.
Qed.

Lemma do_call_resp_some : forall fl cfg atts ro e ls, do_call fl cfg atts = DoRet ro e ls -> ro <> None.
Proof.
  intros fl cfg atts ro e ls H. unfold do_call in H. destruct (c_reqerr cfg).
  - inversion H; subst. discriminate.
  - destruct (retryable_unreplayable cfg).
    + inversion H; subst. discriminate.
    + eapply do_loop_resp_some; eauto.
Qed.

Lemma finish_spec : forall en ro ls h,
  match finish en ro ls h with
  | Returned ro' e ls' h' => ro' = ro /\ e = resp_err ro /\ ls' = ls /\ h' = h /\ (en = EMust -> e = None)
  | Panicked x ls' h' => en = EMust /\ resp_err ro = Some x /\ ls' = ls /\ h' = h
  | OutOfFuel => False
  end.
Proof.
  intros en ro ls h. unfold finish. destruct en; destruct (resp_err ro) eqn:E; cbn; repeat split; auto; discriminate.
Qed.

(* the response after the error hook ran (if it ran and returned) *)
Definition after_hook (cfg : config) (ro : option response) : option response :=
  match resp_err ro, c_onerror cfg with
  | Some _, Some hb => match h_set hb, ro with Some v, Some r => Some (set_err v r) | _, _ => ro end
  | _, _ => ro
  end.

Lemma after_hook_some : forall cfg ro, ro <> None -> after_hook cfg ro <> None.
Proof.
  intros cfg ro N. unfold after_hook. destruct (resp_err ro); [|exact N]. destruct (c_onerror cfg) as [hb|]; [|exact N].
  destruct (h_set hb); [|exact N]. destruct ro; [discriminate|exact N].
Qed.

(* characterisation of run for the verb-style entry points *)
Lemma run_verb_spec : forall fl p, p_entry p <> EDo ->
  match do_call fl (p_cfg p) (p_attempts p) with
  | DoOutOfFuel => run fl p = OutOfFuel
  | DoRet ro e0 ls =>
    let hook_runs := is_some (resp_err ro) && is_some (c_onerror (p_cfg p)) in
    let h := if hook_runs then 1%nat else 0%nat in
    (exists x hb, hook_runs = true /\ c_onerror (p_cfg p) = Some hb /\ h_panic hb = Some x /\ run fl p = Panicked x ls 1) \/
    ((forall hb, hook_runs = true -> c_onerror (p_cfg p) = Some hb -> h_panic hb = None) /\
     run fl p = finish (p_entry p) (after_hook (p_cfg p) ro) ls h)
  end.
Proof.
  intros fl p N. unfold run. destruct (do_call fl (p_cfg p) (p_attempts p)) as [ro e0 ls|]; [|reflexivity].
  unfold after_hook. cbn zeta.
  destruct (p_entry p) eqn:En; [contradiction| |];
  (destruct (resp_err ro) eqn:E; cbn;
   [ destruct (c_onerror (p_cfg p)) as [hb|] eqn:H; cbn;
     [ destruct (h_panic hb) as [x|] eqn:P;
       [ left; exists x, hb; auto
       | right; split; [intros hb' _ Hb; inversion Hb; subst; exact P|reflexivity] ]
     | right; split; [intros hb' X; discriminate|reflexivity] ]
   | right; split; [intros hb' X; discriminate|reflexivity] ]).
Qed.

(* A call always returns a non-nil response *)
Lemma resp_never_nil : forall fl p ro e ls h, run fl p = Returned ro e ls h -> ro <> None.
Proof.
  intros fl p ro e ls h H.
  destruct (p_entry p) eqn:En.
  - unfold run in H. rewrite En in H. destruct (do_call fl (p_cfg p) (p_attempts p)) as [ro0 e0 ls0|] eqn:D; [|discriminate].
    inversion H; subst. eapply do_call_resp_some; eauto.
  - pose proof (run_verb_spec fl p) as S. rewrite En in S. specialize (S ltac:(discriminate)).
    destruct (do_call fl (p_cfg p) (p_attempts p)) as [ro0 e0 ls0|] eqn:D; [|congruence].
    pose proof (do_call_resp_some _ _ _ _ _ _ D) as N.
    destruct S as [(x & hb & _ & _ & _ & R)|[_ R]]; [congruence|]. rewrite R in H.
    pose proof (finish_spec ESend (after_hook (p_cfg p) ro0) ls0 (if is_some (resp_err ro0) && is_some (c_onerror (p_cfg p)) then 1%nat else 0%nat)) as F.
    rewrite H in F. destruct F as (F1 & _). subst. apply after_hook_some; exact N.
  - pose proof (run_verb_spec fl p) as S. rewrite En in S. specialize (S ltac:(discriminate)).
    destruct (do_call fl (p_cfg p) (p_attempts p)) as [ro0 e0 ls0|] eqn:D; [|congruence].
    pose proof (do_call_resp_some _ _ _ _ _ _ D) as N.
    destruct S as [(x & hb & _ & _ & _ & R)|[_ R]]; [congruence|]. rewrite R in H.
    pose proof (finish_spec EMust (after_hook (p_cfg p) ro0) ls0 (if is_some (resp_err ro0) && is_some (c_onerror (p_cfg p)) then 1%nat else 0%nat)) as F.
    rewrite H in F. destruct F as (F1 & _). subst. apply after_hook_some; exact N.
Qed.

(* ... whose recorded error equals the returned error (verb-style entry points) - even when the
   error hook assigned resp.Err *)
Lemma err_equals_resp_err : forall fl p ro e ls h,
  run fl p = Returned ro e ls h -> p_entry p <> EDo -> e = resp_err ro.
Proof.
  intros fl p ro e ls h H N. pose proof (run_verb_spec fl p N) as S.
  destruct (do_call fl (p_cfg p) (p_attempts p)) as [ro0 e0 ls0|]; [|congruence].
  destruct S as [(x & hb & _ & _ & _ & R)|[_ R]]; [congruence|]. rewrite R in H.
  match type of H with finish ?en ?r ?l ?hh = _ => pose proof (finish_spec en r l hh) as F end.
  rewrite H in F. destruct F as (F1 & F2 & _). subst. reflexivity.
Qed.

(* a Must-style call returns only without error; it panics with the recorded error (as left by
   the error hook) - or with whatever the error hook itself panicked with *)
Lemma must_panics_with_resp_err : forall fl p,
  p_entry p = EMust ->
  match run fl p with
  | Panicked x ls h =>
      exists ro e0, do_call fl (p_cfg p) (p_attempts p) = DoRet ro e0 ls /\
        (resp_err (after_hook (p_cfg p) ro) = Some x \/
         exists hb, resp_err ro <> None /\ c_onerror (p_cfg p) = Some hb /\ h_panic hb = Some x)
  | Returned ro e ls h => e = None /\ resp_err ro = None
  | OutOfFuel => do_call fl (p_cfg p) (p_attempts p) = DoOutOfFuel
  end.
Proof.
  intros fl p M. pose proof (run_verb_spec fl p) as S. rewrite M in S. specialize (S ltac:(discriminate)).
  destruct (do_call fl (p_cfg p) (p_attempts p)) as [ro0 e0 ls0|] eqn:D; [|rewrite S; reflexivity].
  destruct S as [(x & hb & Hr & Hb & Hp & R)|[_ R]]; rewrite R.
  - exists ro0, e0. split; [reflexivity|]. right. exists hb. split; [|auto].
    destruct (resp_err ro0); [discriminate|discriminate Hr].
  - match goal with |- match finish ?en ?r ?l ?hh with _ => _ end => pose proof (finish_spec en r l hh) as F; destruct (finish en r l hh) end.
    + destruct F as (F1 & F2 & _ & _ & F5). subst. specialize (F5 eq_refl). split; [exact F5|]. exact F5.
    + destruct F as (_ & F2 & F3 & _). subst. exists ro0, e0. split; [reflexivity|]. left. exact F2.
    + contradiction.
Qed.

(* at the Do exit: whatever error do() returned is recorded in the response *)
Lemma do_err_recorded : forall fl cfg atts n prev ro x ls,
  do_loop fl cfg atts n prev = DoRet ro (Some x) ls -> resp_err ro <> None.
Proof.
  intros fl cfg atts. induction atts as [|a rest IH]; intros n prev ro x ls H; [cbn in H; discriminate|]. rewrite do_loop_cons in H.
  destruct (do_attempt fl cfg a n prev) as [[ro0 e0|r0] l].
  - destruct (do_deferred_spec ro0 e0) as (r2 & D & K & _). rewrite D in H. inversion H; subst.
    cbn. apply K. discriminate.
  - destruct (do_loop fl cfg rest (n + 1) (Some r0)) as [ro1 e1 ls1|] eqn:L; cbn in H; [|discriminate].
    inversion H; subst. eapply IH; eauto.
Qed.

(* the error hook: exactly once for a verb-style call that ends in error, never otherwise
   ("ends in error" = the response of Do() carries an error) - whatever the hook itself does *)
Definition hooks_of (o : outcome) : nat :=
  match o with Returned _ _ _ h => h | Panicked _ _ h => h | OutOfFuel => 0%nat end.

Definition ends_in_error (fl : flavour) (p : program) : bool :=
  match do_call fl (p_cfg p) (p_attempts p) with
  | DoRet ro _ _ => is_some (resp_err ro)
  | DoOutOfFuel => false
  end.

Lemma on_error_exactly_once : forall fl p,
  hooks_of (run fl p) =
  match p_entry p with
  | EDo => 0%nat
  | _ => if ends_in_error fl p && is_some (c_onerror (p_cfg p)) then 1%nat else 0%nat
  end.
Proof.
  intros fl p. destruct (p_entry p) eqn:En.
  - unfold run. rewrite En. destruct (do_call fl (p_cfg p) (p_attempts p)); reflexivity.
  - pose proof (run_verb_spec fl p) as S. rewrite En in S. specialize (S ltac:(discriminate)). unfold ends_in_error.
    destruct (do_call fl (p_cfg p) (p_attempts p)) as [ro0 e0 ls0|]; [|rewrite S; reflexivity].
    destruct S as [(x & hb & Hr & _ & _ & R)|[_ R]]; rewrite R; [cbn; rewrite Hr; reflexivity|].
    match goal with |- hooks_of (finish ?en ?r ?l ?hh) = _ => pose proof (finish_spec en r l hh) as F; destruct (finish en r l hh) end.
    + destruct F as (_ & _ & _ & F4 & _). cbn. exact F4.
    + destruct F as (_ & _ & _ & F4). cbn. exact F4.
    + contradiction.
  - pose proof (run_verb_spec fl p) as S. rewrite En in S. specialize (S ltac:(discriminate)). unfold ends_in_error.
    destruct (do_call fl (p_cfg p) (p_attempts p)) as [ro0 e0 ls0|]; [|rewrite S; reflexivity].
    destruct S as [(x & hb & Hr & _ & _ & R)|[_ R]]; rewrite R; [cbn; rewrite Hr; reflexivity|].
    match goal with |- hooks_of (finish ?en ?r ?l ?hh) = _ => pose proof (finish_spec en r l hh) as F; destruct (finish en r l hh) end.
    + destruct F as (_ & _ & _ & F4 & _). cbn. exact F4.
    + destruct F as (_ & _ & _ & F4). cbn. exact F4.
    + contradiction.
Qed.

(* without a hook that rewrites resp.Err: "ends in error" is the error the caller gets *)
Lemma ends_in_error_iff : forall fl p,
  p_entry p <> EDo ->
  (forall hb, c_onerror (p_cfg p) = Some hb -> h_set hb = None /\ h_panic hb = None) ->
  (ends_in_error fl p = true <->
   match run fl p with
   | Returned _ e _ _ => e <> None
   | Panicked _ _ _ => True
   | OutOfFuel => False
   end).
Proof.
  intros fl p N Hk. pose proof (run_verb_spec fl p N) as S. unfold ends_in_error.
  destruct (do_call fl (p_cfg p) (p_attempts p)) as [ro0 e0 ls0|]; [|rewrite S; split; [discriminate|tauto]].
  destruct S as [(x & hb & _ & Hb & Hp & _)|[_ R]].
  { destruct (Hk hb Hb) as [_ X]. congruence. }
  assert (after_hook (p_cfg p) ro0 = ro0) as AH.
  { unfold after_hook. destruct (resp_err ro0); [|reflexivity]. destruct (c_onerror (p_cfg p)) as [hb|] eqn:Hb; [|reflexivity].
    destruct (Hk hb eq_refl) as [X _]. rewrite X. reflexivity. }
  rewrite R, AH.
  match goal with |- _ <-> match finish ?en ?r ?l ?hh with _ => _ end => pose proof (finish_spec en r l hh) as F; destruct (finish en r l hh) end.
  - destruct F as (_ & F2 & _). rewrite F2. destruct (resp_err ro0); cbn; split; intro X; try discriminate; auto;
    contradiction X; reflexivity.
  - destruct F as (_ & F2 & _). rewrite F2. cbn. tauto.
  - contradiction.
Qed.

(* ---------- shape of the invocation log ---------- *)

Definition is_ud (ev : event) : bool := match ev with EvUd _ => true | _ => false end.
Definition is_cli (ev : event) : bool := match ev with EvCli _ => true | _ => false end.
Definition is_req (ev : event) : bool := match ev with EvReq _ => true | _ => false end.
Definition is_send (ev : event) : bool := match ev with EvSend => true | _ => false end.

Lemma filter_app' : forall (f : event -> bool) l1 l2, filter f (l1 ++ l2) = filter f l1 ++ filter f l2.
Proof. intros. apply filter_app. Qed.

(* request middleware: registration order, stop at the first error *)
Lemma run_before_spec : forall ms i e l, run_before ms i = (e, l) ->
  exists j, l = map EvUd (seq i j) /\ (j <= length ms)%nat /\
    (e = None -> j = length ms /\ Forall (fun m => m = None) ms) /\
    (forall x, e = Some x -> (1 <= j)%nat /\ nth_error ms (j - 1) = Some (Some x) /\
                             Forall (fun m => m = None) (firstn (j - 1) ms)).
Proof.
  induction ms as [|m rest IH]; intros i e l H; cbn in H.
  - inversion H; subst. exists 0%nat. cbn.
    split; [reflexivity|]. split; [lia|]. split; [auto|]. intros x Hx; discriminate.
  - destruct m as [x|].
    + inversion H; subst. exists 1%nat. cbn.
      split; [reflexivity|]. split; [lia|]. split; [intro K; discriminate|].
      intros y Hy. inversion Hy; subst. split; [lia|]. split; [reflexivity|constructor].
    + destruct (run_before rest (S i)) as [e1 l1] eqn:R. inversion H; subst.
      destruct (IH _ _ _ R) as (j & L & Lj & N & HS). exists (S j). cbn. subst l1.
      split; [reflexivity|]. split; [lia|]. split.
      * intro K. destruct (N K) as [N1 N2]. split; [congruence|constructor; auto].
      * intros y Hy. destruct (HS _ Hy) as (J1 & J2 & J3). split; [lia|].
        destruct j; [lia|]. cbn. replace (j - 0)%nat with j in * by lia. cbn in J2, J3.
        replace (j - 0)%nat with j in * by lia. split; [exact J2|constructor; auto].
Qed.

Lemma receive_log_free : True. Proof. exact I. Qed.

Lemma digest_log : forall fl cfg d r r1 e l, digest_mw fl cfg d r = (r1, e, l) -> l = [] \/ l = [EvSend].
Proof.
  intros fl cfg d r r1 e l H. unfold digest_mw in H.
  destruct (is_some (r_err r) || negb (r_present r) || negb (r_status r =? 401)); [inversion H; auto|].
  destruct (d_pre d); [inversion H; auto|].
  destruct fl.
  - destruct (receive (d_resend d) _) as [[r2 e2] b2]. destruct e2; [inversion H; auto|].
    destruct (r_err (auto_read _ _ _ _)); [inversion H; auto|].
    destruct (parse_response_body _ _ _). inversion H; auto.
  - destruct (receive (d_resend d) r) as [[r2 e2] b2]. destruct e2; inversion H; auto.
Qed.

Lemma apply_mw_log : forall fl cfg m r r1 e l, apply_mw fl cfg m r = (r1, e, l) -> l = [] \/ l = [EvSend].
Proof.
  intros fl cfg m r r1 e l H. destruct m; cbn in H.
  - inversion H; auto.
  - eapply digest_log; eauto.
Qed.

(* the user functions among a middleware list, as they appear in the log *)
Fixpoint user_evs (mk : nat -> event) (ms : list mw) (i : nat) : list event :=
  match ms with
  | [] => []
  | m :: rest => mw_event (mk i) m ++ user_evs mk rest (S i)
  end.

Lemma mw_event_filter : forall f (mk : nat -> event) i m, (forall k, f (mk k) = true) -> filter f (mw_event (mk i) m) = mw_event (mk i) m.
Proof. intros f mk i m H. destruct m; cbn; [rewrite H|]; reflexivity. Qed.

Lemma mw_event_filter_out : forall f (mk : nat -> event) i m, (forall k, f (mk k) = false) -> filter f (mw_event (mk i) m) = [].
Proof. intros f mk i m H. destruct m; cbn; [rewrite H|]; reflexivity. Qed.

Lemma small_log_filter : forall f l, (l = [] \/ l = [EvSend]) -> f EvSend = false -> filter f l = [].
Proof. intros f l [H|H] F; subst; cbn; [|rewrite F]; reflexivity. Qed.

(* every client-level response middleware runs, once, in order - whatever the others returned *)
Lemma run_cli_events : forall fl cfg ms i r r1 l, run_cli fl cfg ms i r = (r1, l) ->
  filter is_cli l = user_evs EvCli ms i /\ filter is_ud l = [] /\ filter is_req l = [].
Proof.
  induction ms as [|m rest IH]; intros i r r1 l H; cbn in H.
  - inversion H; subst. auto.
  - destruct m as [s t|d].
    + cbn in H. destruct (run_cli fl cfg rest (S i) _) as [r3 l3] eqn:R. inversion H; subst.
      destruct (IH _ _ _ _ R) as (I1 & I2 & I3). cbn. rewrite I1, I2, I3. auto.
    + destruct (IH _ _ _ _ H) as (I1 & I2 & I3). cbn. auto.
Qed.

Lemma run_cli_digests_log : forall fl cfg ms b r r1 b1 l, run_cli_digests fl cfg ms b r = (r1, b1, l) ->
  filter is_cli l = [] /\ filter is_ud l = [] /\ filter is_req l = [].
Proof.
  induction ms as [|m rest IH]; intros b r r1 b1 l H; cbn in H.
  - inversion H; subst. auto.
  - destruct m as [s t|d]; [eapply IH; eauto|].
    destruct (run_cli_digests fl cfg rest b r) as [[r2 b2] l2] eqn:R.
    destruct (digest_mw fl cfg d r2) as [[r3 e3] l3] eqn:D. inversion H; subst.
    destruct (IH _ _ _ _ _ R) as (I1 & I2 & I3). pose proof (digest_log _ _ _ _ _ _ _ D) as HS.
    rewrite !filter_app', I1, I2, I3, !(small_log_filter _ l3 HS) by reflexivity. auto.
Qed.

Lemma round_trip_events : forall fl cfg a t ro e l, round_trip_with fl cfg a t = (ro, e, l) ->
  filter is_ud l = [] /\ filter is_req l = [] /\
  (a_getbody a = None -> filter is_cli l = user_evs EvCli (a_cli a) 0 /\ exists l', l = EvSend :: l') /\
  (a_getbody a <> None -> l = []).
Proof.
  intros fl cfg a t ro e l H. unfold round_trip_with in H.
  destruct (a_getbody a) as [x|].
  { inversion H; subst. split; [reflexivity|]. split; [reflexivity|]. split; [intro K; discriminate|auto]. }
  destruct (receive t fresh_resp) as [[r1 e1] b].
  destruct (run_cli_digests fl cfg (a_cli a) b _) as [[r3d bd] l_d] eqn:Dg.
  destruct (run_cli_digests_log _ _ _ _ _ _ _ _ Dg) as (D1 & D2 & D3).
  destruct (parse_response_body _ _ _) as [r4 e4].
  destruct (run_cli fl cfg (a_cli a) 0 _) as [r6 l6] eqn:R. inversion H; subst.
  destruct (run_cli_events _ _ _ _ _ _ _ R) as (I1 & I2 & I3). cbn. rewrite !filter_app', D1, D2, D3, I1, I2, I3. cbn.
  split; [reflexivity|]. split; [reflexivity|]. split.
  - intros _. split; [reflexivity|eexists; reflexivity].
  - intro K; contradiction.
Qed.

(* wrappers add only their own enter/leave events around whole inner logs *)
Fixpoint napp {A} (k : nat) (l : list A) : list A := match k with O => [] | S k' => l ++ napp k' l end.

Lemma napp_app : forall {A} j k (l : list A), napp j l ++ napp k l = napp (j + k) l.
Proof. induction j; intros k l; cbn; [reflexivity|]. rewrite <- app_assoc, IHj. reflexivity. Qed.

Definition calls_inner_once (w : wrap) : Prop := match w with WPass | WPost _ _ => True | _ => False end.

Lemma run_wraps_events : forall ws i in1 in2 ro e l,
  run_wraps ws i in1 in2 = (ro, e, l) ->
  forall f, (forall k, f (EvWIn k) = false) -> (forall k, f (EvWOut k) = false) ->
  (exists k1 k2, filter f l = napp k1 (filter f (snd in1)) ++ napp k2 (filter f (snd in2))) /\
  (Forall calls_inner_once ws -> filter f l = filter f (snd in1)).
Proof.
  induction ws as [|w rest IH]; intros i in1 in2 ro e l H f F1 F2; cbn in H.
  - subst. cbn. split; [exists 1%nat, 0%nat; cbn; rewrite !app_nil_r; reflexivity|auto].
  - assert (forall l1, filter f (EvWIn i :: l1 ++ [EvWOut i]) = filter f l1) as E
      by (intro l1; cbn; rewrite F1, filter_app'; cbn; rewrite F2, app_nil_r; reflexivity).
    destruct w.
    + destruct (run_wraps rest (pred i) in1 in2) as [[ro1 e1] l1] eqn:R. inversion H; subst.
      destruct (IH _ _ _ _ _ _ R f F1 F2) as [K1 K2]. rewrite E.
      split; [exact K1|]. intro A. inversion A; subst. auto.
    + inversion H; subst. cbn. rewrite F1, F2. split; [exists 0%nat, 0%nat; reflexivity|]. intro A. inversion A; subst. contradiction.
    + destruct (run_wraps rest (pred i) in1 in2) as [[ro1 e1] l1] eqn:R.
      destruct (IH _ _ _ _ _ _ R f F1 F2) as [K1 K2].
      destruct ret; inversion H; subst; rewrite E; (split; [exact K1|intro A; inversion A; subst; auto]).
    + inversion H; subst. cbn. rewrite F1, F2. split; [exists 0%nat, 0%nat; reflexivity|]. intro A. inversion A; subst. contradiction.
    + destruct (run_wraps rest (pred i) in1 in2) as [[ro1 e1] l1] eqn:R1.
      destruct (run_wraps rest (pred i) in2 in2) as [[ro2 e2] l2] eqn:R2. inversion H; subst.
      destruct (IH _ _ _ _ _ _ R1 f F1 F2) as [(a1 & a2 & K1) _].
      destruct (IH _ _ _ _ _ _ R2 f F1 F2) as [(b1 & b2 & K2) _].
      split; [|intro A; inversion A; subst; contradiction].
      exists a1, (a2 + (b1 + b2))%nat.
      replace (EvWIn i :: l1 ++ l2 ++ [EvWOut i]) with (EvWIn i :: (l1 ++ l2) ++ [EvWOut i]) by (rewrite <- app_assoc; reflexivity).
      rewrite E, filter_app', K1, K2, napp_app, <- app_assoc, napp_app. reflexivity.
Qed.

Lemma run_req_events : forall fl cfg ms i r r1 e l, run_req fl cfg ms i r = (r1, e, l) ->
  filter is_ud l = [] /\ filter is_cli l = [] /\
  exists k, (k <= length ms)%nat /\ filter is_req l = user_evs EvReq (firstn k ms) i /\
    (e = None -> k = length ms) /\ (ms <> [] -> (1 <= k)%nat).
Proof.
  induction ms as [|m rest IH]; intros i r r1 e l H; cbn in H.
  - inversion H; subst. split; [reflexivity|]. split; [reflexivity|]. exists 0%nat.
    split; [cbn; lia|]. split; [reflexivity|]. split; [auto|]. intro K; contradiction.
  - destruct (apply_mw fl cfg m r) as [[r2 e2] l2] eqn:A. pose proof (apply_mw_log _ _ _ _ _ _ _ A) as HS.
    destruct e2 as [x|].
    + inversion H; subst. rewrite !filter_app'.
      rewrite (mw_event_filter is_req EvReq), (mw_event_filter_out is_ud EvReq), (mw_event_filter_out is_cli EvReq) by reflexivity.
      rewrite !(small_log_filter _ l2 HS) by reflexivity.
      split; [reflexivity|]. split; [reflexivity|].
      exists 1%nat. cbn. rewrite !app_nil_r.
      split; [lia|]. split; [reflexivity|]. split; [intro K; discriminate|]. intros _. lia.
    + destruct (run_req fl cfg rest (S i) r2) as [[r3 e3] l3] eqn:R. inversion H; subst.
      destruct (IH _ _ _ _ _ R) as (I1 & I2 & k & K1 & K2 & K3 & K4).
      rewrite !filter_app'.
      rewrite (mw_event_filter is_req EvReq), (mw_event_filter_out is_ud EvReq), (mw_event_filter_out is_cli EvReq) by reflexivity.
      rewrite !(small_log_filter _ l2 HS) by reflexivity. rewrite I1, I2.
      split; [reflexivity|]. split; [reflexivity|].
      exists (S k). cbn. rewrite K2.
      split; [lia|]. split; [reflexivity|]. split; [intro E; f_equal; auto|]. intros _. lia.
Qed.

Lemma wrapped_events : forall fl cfg a ro e l, wrapped_round_trip fl cfg a = (ro, e, l) ->
  filter is_ud l = [] /\ filter is_req l = [] /\
  (exists k, filter is_cli l = napp k (user_evs EvCli (a_cli a) 0)) /\
  (Forall calls_inner_once (a_wraps a) -> a_getbody a = None ->
     filter is_cli l = user_evs EvCli (a_cli a) 0 /\ In EvSend l).
Proof.
  intros fl cfg a ro e l H. unfold wrapped_round_trip, round_trip in H.
  destruct (round_trip_with fl cfg a (a_transport a)) as [[ro1 e1] l1] eqn:R1.
  destruct (round_trip_with fl cfg a (a_transport2 a)) as [[ro2 e2] l2] eqn:R2.
  destruct (round_trip_events _ _ _ _ _ _ _ R1) as (A1 & A2 & A3 & A4).
  destruct (round_trip_events _ _ _ _ _ _ _ R2) as (B1 & B2 & B3 & B4).
  pose proof (run_wraps_events _ _ _ _ _ _ _ H) as W. cbn [snd] in W.
  assert (forall k, napp k (@nil event) = []) as NN by (induction k; cbn; auto).
  destruct (W is_ud (fun _ => eq_refl) (fun _ => eq_refl)) as [(u1 & u2 & U) _]. rewrite A1, B1, !NN in U.
  destruct (W is_req (fun _ => eq_refl) (fun _ => eq_refl)) as [(q1 & q2 & Q) _]. rewrite A2, B2, !NN in Q.
  destruct (W is_cli (fun _ => eq_refl) (fun _ => eq_refl)) as [(c1 & c2 & C) C'].
  destruct (W is_send (fun _ => eq_refl) (fun _ => eq_refl)) as [_ S'].
  split; [exact U|]. split; [exact Q|]. split.
  - destruct (a_getbody a) as [x|] eqn:G.
    + rewrite (A4 ltac:(discriminate)), (B4 ltac:(discriminate)) in C. cbn in C. rewrite !NN in C. exists 0%nat. exact C.
    + destruct (A3 eq_refl) as [A3' _]. destruct (B3 eq_refl) as [B3' _]. rewrite A3', B3', napp_app in C. eexists; exact C.
  - intros F G. assert (Forall calls_inner_once (rev (a_wraps a))) as F' by (apply Forall_rev; exact F).
    destruct (A3 G) as [R3a [l' R3b]]. split; [rewrite (C' F'); exact R3a|].
    specialize (S' F'). rewrite R3b in S'. cbn in S'.
    assert (In EvSend (filter is_send l)) as I by (rewrite S'; left; reflexivity).
    apply filter_In in I. apply I.
Qed.

Lemma eval_conds_rev_filter : forall vs i b l (f : event -> bool), eval_conds_rev vs i = (b, l) ->
  (forall k, f (EvCond k) = false) -> filter f l = [].
Proof.
  induction vs as [|v rest IH]; intros i b l f H F; cbn in H.
  - inversion H; reflexivity.
  - destruct v; [inversion H; subst; cbn; rewrite F; reflexivity|].
    destruct (eval_conds_rev rest (pred i)) as [b1 l1] eqn:E. inversion H; subst. cbn. rewrite F. eapply IH; eauto.
Qed.

Lemma hook_events_filter : forall nh (f : event -> bool), (forall k, f (EvHook k) = false) -> filter f (hook_events nh) = [].
Proof.
  intros nh f F. unfold hook_events. induction (rev (seq 0 nh)) as [|k ks IH]; cbn; [reflexivity|]. rewrite F. exact IH.
Qed.

Lemma retry_decision_filter : forall cfg a n e again l (f : event -> bool), retry_decision cfg a n e = (again, l) ->
  (forall k, f (EvCond k) = false) -> (forall k, f (EvHook k) = false) -> filter f l = [].
Proof.
  intros cfg a n e again l f H F1 F2. unfold retry_decision in H.
  destruct (c_retry cfg) as [[mx nh]|]; [|inversion H; reflexivity].
  destruct (context_canceled a e || (n >=? mx) && (mx >=? 0)); [inversion H; reflexivity|].
  destruct (a_conds a) as [|v vs] eqn:C.
  - destruct (is_some e); inversion H; subst; cbn; [apply hook_events_filter; exact F2|reflexivity].
  - destruct (eval_conds (v :: vs)) as [need l_c] eqn:E. unfold eval_conds in E.
    pose proof (eval_conds_rev_filter _ _ _ _ f E F1) as X.
    destruct need; inversion H; subst; [rewrite filter_app', X, hook_events_filter by exact F2; reflexivity|exact X].
Qed.

(* Request middleware runs in registration order before the request is built and sent *)
Lemma request_middleware_in_order_before_send : forall fl cfg a n prev st l,
  do_attempt fl cfg a n prev = (st, l) ->
  exists j rest,
    l = map EvUd (seq 0 j) ++ rest /\ filter is_ud rest = [] /\ (j <= length (a_ud a))%nat /\
    (rest <> [] -> j = length (a_ud a) /\ Forall (fun m => m = None) (a_ud a) /\ a_bi a = None) /\
    (forall x, fst (run_before (a_ud a) 0) = Some x ->
       nth_error (a_ud a) (j - 1) = Some (Some x) /\ Forall (fun m => m = None) (firstn (j - 1) (a_ud a)) /\
       rest = [] /\ st = Stop prev (Some x)).
Proof.
  intros fl cfg a n prev st l H. unfold do_attempt in H.
  destruct (run_before (a_ud a) 0) as [e_ud l_ud] eqn:B.
  destruct (run_before_spec _ _ _ _ B) as (j & L & Lj & N & HS). cbn [fst].
  destruct e_ud as [x|].
  { inversion H; subst. exists j, []. rewrite app_nil_r.
    split; [reflexivity|]. split; [reflexivity|]. split; [exact Lj|]. split; [intro K; contradiction|].
    intros y Hy. inversion Hy; subst. destruct (HS _ eq_refl) as (_ & J2 & J3). auto. }
  destruct (N eq_refl) as [N1 N2].
  destruct (a_bi a) as [x|] eqn:Bi.
  { inversion H; subst. exists (length (a_ud a)), []. rewrite app_nil_r.
    split; [reflexivity|]. split; [reflexivity|]. split; [lia|]. split; [intro K; contradiction|].
    intros y Hy. discriminate. }
  destruct (wrapped_round_trip fl cfg a) as [[ro e] l_rt] eqn:W.
  destruct (wrapped_events _ _ _ _ _ _ W) as (W1 & _).
  destruct (run_req fl cfg (a_req a) 0 (normalise ro e)) as [[r2 e_mw] l_req] eqn:Q.
  destruct (run_req_events _ _ _ _ _ _ _ _ Q) as (Q1 & _).
  assert (forall tail, filter is_ud tail = [] -> filter is_ud ((l_rt ++ l_req) ++ tail) = []) as K.
  { intros tail T. rewrite !filter_app', W1, Q1, T. reflexivity. }
  destruct e_mw as [x|].
  { inversion H; subst. exists (length (a_ud a)), (l_rt ++ l_req).
    split; [reflexivity|]. split; [rewrite <- (app_nil_r (l_rt ++ l_req)); apply K; reflexivity|].
    split; [lia|]. split; [auto|]. intros y Hy; discriminate. }
  destruct (retry_decision cfg a n e) as [again l_c] eqn:D.
  pose proof (retry_decision_filter _ _ _ _ _ _ is_ud D (fun _ => eq_refl) (fun _ => eq_refl)) as Dc.
  assert (exists st', (st, l) = (st', l_ud ++ (l_rt ++ l_req) ++ l_c)) as [st' E].
  { destruct again; [destruct (a_sleep_cancel a)|]; inversion H; subst; rewrite <- !app_assoc; eexists; reflexivity. }
  inversion E; subst.
  exists (length (a_ud a)), ((l_rt ++ l_req) ++ l_c).
  split; [reflexivity|]. split; [apply K; exact Dc|].
  split; [lia|]. split; [auto|]. intros y Hy; discriminate.
Qed.

(* response middleware runs after every attempt *)
Lemma response_middleware_after_every_attempt : forall fl cfg a n prev st l,
  do_attempt fl cfg a n prev = (st, l) ->
  fst (run_before (a_ud a) 0) = None -> a_bi a = None ->
  (exists k, (k <= length (a_req a))%nat /\ filter is_req l = user_evs EvReq (firstn k (a_req a)) 0 /\
      (a_req a <> [] -> (1 <= k)%nat) /\
      (k < length (a_req a) -> exists ro x, st = Stop ro (Some x)))%nat /\
  (Forall calls_inner_once (a_wraps a) -> a_getbody a = None ->
      filter is_cli l = user_evs EvCli (a_cli a) 0 /\ In EvSend l) /\
  (exists k, filter is_cli l = napp k (user_evs EvCli (a_cli a) 0)).
Proof.
  intros fl cfg a n prev st l H B0 Bi. unfold do_attempt in H.
  destruct (run_before (a_ud a) 0) as [e_ud l_ud] eqn:B. cbn in B0. subst e_ud. rewrite Bi in H.
  destruct (run_before_spec _ _ _ _ B) as (j & L & _).
  assert (filter is_req l_ud = [] /\ filter is_cli l_ud = []) as [Ur Uc].
  { subst l_ud. clear. generalize 0%nat. induction j; intro s; cbn; auto. }
  destruct (wrapped_round_trip fl cfg a) as [[ro e] l_rt] eqn:W.
  destruct (wrapped_events _ _ _ _ _ _ W) as (_ & W2 & W3 & W4).
  destruct (run_req fl cfg (a_req a) 0 (normalise ro e)) as [[r2 e_mw] l_req] eqn:Q.
  destruct (run_req_events _ _ _ _ _ _ _ _ Q) as (_ & Q2 & k & K1 & K2 & K3 & K4).
  assert (forall tail, filter is_req tail = [] -> filter is_cli tail = [] ->
            filter is_req (l_ud ++ l_rt ++ l_req ++ tail) = user_evs EvReq (firstn k (a_req a)) 0 /\
            filter is_cli (l_ud ++ l_rt ++ l_req ++ tail) = filter is_cli l_rt /\
            (In EvSend l_rt -> In EvSend (l_ud ++ l_rt ++ l_req ++ tail))) as K.
  { intros tail T1 T2. rewrite !filter_app', Ur, Uc, W2, K2, Q2, T1, T2, !app_nil_r. cbn.
    split; [reflexivity|]. split; [reflexivity|]. intro I. apply in_or_app. right. apply in_or_app. left. exact I. }
  destruct e_mw as [x|].
  { inversion H; subst. destruct (K [] eq_refl eq_refl) as (A1 & A2 & A3). rewrite !app_nil_r in *.
    split.
    - exists k. split; [exact K1|]. split; [exact A1|]. split; [exact K4|]. intros _. eauto.
    - rewrite A2. split; [|exact W3]. intros F G. destruct (W4 F G) as [X Y]. split; [exact X|apply A3; exact Y]. }
  destruct (retry_decision cfg a n e) as [again l_c] eqn:D.
  pose proof (retry_decision_filter _ _ _ _ _ _ is_req D (fun _ => eq_refl) (fun _ => eq_refl)) as Dr.
  pose proof (retry_decision_filter _ _ _ _ _ _ is_cli D (fun _ => eq_refl) (fun _ => eq_refl)) as Dc.
  assert (exists st', (st, l) = (st', l_ud ++ l_rt ++ l_req ++ l_c)) as [st' E].
  { destruct again; [destruct (a_sleep_cancel a)|]; inversion H; subst; rewrite <- !app_assoc; eexists; reflexivity. }
  inversion E; subst.
  destruct (K l_c Dr Dc) as (A1 & A2 & A3). split.
  - exists k. split; [exact K1|]. split; [exact A1|]. split; [exact K4|]. intro X. specialize (K3 eq_refl). lia.
  - rewrite A2. split; [|exact W3]. intros F G. destruct (W4 F G) as [X Y]. split; [exact X|apply A3; exact Y].
Qed.

(* the logs of do() are, one by one, the logs of the iterations that ran *)
Lemma do_loop_logs : forall fl cfg atts n prev ro e ls,
  do_loop fl cfg atts n prev = DoRet ro e ls ->
  (1 <= length ls <= length atts)%nat /\
  forall k l, nth_error ls k = Some l ->
    exists a prev', nth_error atts k = Some a /\ snd (do_attempt fl cfg a (n + Z.of_nat k) prev') = l.
Proof.
  intros fl cfg atts. induction atts as [|a rest IH]; intros n prev ro e ls H; [cbn in H; discriminate|].
  rewrite do_loop_cons in H.
  destruct (do_attempt fl cfg a n prev) as [[ro0 e0|r0] l0] eqn:A.
  - destruct (do_deferred_spec ro0 e0) as (r1 & D & _). rewrite D in H. inversion H; subst. cbn. split; [lia|].
    intros k l K. destruct k; cbn in K; [|destruct k; discriminate]. inversion K; subst.
    exists a, prev. split; [reflexivity|]. replace (n + Z.of_nat 0) with n by lia. rewrite A. reflexivity.
  - destruct (do_loop fl cfg rest (n + 1) (Some r0)) as [ro1 e1 ls1|] eqn:L; cbn in H; [|discriminate].
    inversion H; subst. destruct (IH _ _ _ _ _ L) as [Len K]. cbn. split; [lia|].
    intros k l Hk. destruct k; cbn in Hk.
    + inversion Hk; subst. exists a, prev. split; [reflexivity|]. replace (n + Z.of_nat 0) with n by lia. rewrite A. reflexivity.
    + destruct (K _ _ Hk) as (a' & prev' & N1 & N2). exists a', prev'. split; [exact N1|].
      replace (n + Z.of_nat (S k)) with (n + 1 + Z.of_nat k) by lia. exact N2.
Qed.

(* fuel: with a non-negative MaxRetries, MaxRetries+1 attempt scripts always suffice *)
Lemma do_attempt_again_bound : forall fl cfg a n prev r l,
  do_attempt fl cfg a n prev = (Again r, l) ->
  exists mx conds, c_retry cfg = Some (mx, conds) /\ (n < mx \/ mx < 0).
Proof.
  intros fl cfg a n prev r l H. unfold do_attempt in H.
  destruct (run_before (a_ud a) 0) as [[x|] l_ud]; [discriminate|].
  destruct (a_bi a); [discriminate|].
  destruct (wrapped_round_trip fl cfg a) as [[ro e] l_rt].
  destruct (run_req fl cfg (a_req a) 0 (normalise ro e)) as [[r2 [x|]] l_req]; [discriminate|].
  destruct (retry_decision cfg a n e) as [again l_c] eqn:D.
  destruct again; [|discriminate]. unfold retry_decision in D.
  destruct (c_retry cfg) as [[mx conds]|]; [|discriminate].
  exists mx, conds. split; [reflexivity|].
  destruct ((n >=? mx) && (mx >=? 0)) eqn:G; [rewrite orb_true_r in D; discriminate|]. lia.
Qed.

Lemma fuel_suffices : forall fl cfg atts n prev mx conds,
  c_retry cfg = Some (mx, conds) -> 0 <= mx -> 0 <= n -> (Z.to_nat (mx - n) < length atts)%nat ->
  do_loop fl cfg atts n prev <> DoOutOfFuel.
Proof.
  intros fl cfg atts. induction atts as [|a rest IH]; intros n prev mx conds C M N L; [cbn in L; lia|].
  rewrite do_loop_cons.
  destruct (do_attempt fl cfg a n prev) as [[ro0 e0|r0] l0] eqn:A.
  - destruct (do_deferred_spec ro0 e0) as (r1 & D & _). rewrite D. discriminate.
  - destruct (do_attempt_again_bound _ _ _ _ _ _ _ A) as (mx' & conds' & C' & B). rewrite C in C'. inversion C'; subst.
    assert (do_loop fl cfg rest (n + 1) (Some r0) <> DoOutOfFuel) as K.
    { apply (IH _ _ mx' conds'); auto; try lia. cbn in L. lia. }
    destruct (do_loop fl cfg rest (n + 1) (Some r0)); [discriminate|contradiction].
Qed.

Lemma fuel_suffices_no_retry : forall fl cfg a rest n prev,
  c_retry cfg = None -> do_loop fl cfg (a :: rest) n prev <> DoOutOfFuel.
Proof.
  intros fl cfg a rest n prev C. rewrite do_loop_cons.
  destruct (do_attempt fl cfg a n prev) as [[ro0 e0|r0] l0] eqn:A.
  - destruct (do_deferred_spec ro0 e0) as (r1 & D & _). rewrite D. discriminate.
  - destruct (do_attempt_again_bound _ _ _ _ _ _ _ A) as (mx' & conds' & C' & B). congruence.
Qed.

(* ---------- which error the caller sees ---------- *)

Definition is_user (m : mw) : Prop := match m with Mw _ _ => True | MwDigest _ => False end.

Lemma run_cli_digests_user : forall fl cfg ms b r, Forall is_user ms -> run_cli_digests fl cfg ms b r = (r, b, []).
Proof.
  induction ms as [|m rest IH]; intros b r F; cbn; [reflexivity|].
  inversion F as [|m' rest' Fm Frest]; subst. destruct m; [apply IH; exact Frest|contradiction].
Qed.


(* the error a user middleware raises: the one it returns, else the one it assigned *)
Definition mw_raises (m : mw) : option err :=
  match m with
  | Mw s t => match t with Some e => Some e | None => s end
  | MwDigest _ => None
  end.

(* client level: every middleware runs; the LAST one that raises decides *)
Definition last_wins (base : option err) (ms : list mw) : option err :=
  fold_left (fun acc m => match mw_raises m with Some e => Some e | None => acc end) ms base.

Lemma run_cli_user : forall fl cfg ms i r, Forall is_user ms ->
  let r' := fst (run_cli fl cfg ms i r) in
  r_err r' = last_wins (r_err r) ms /\
  r_present r' = r_present r /\ r_status r' = r_status r /\ r_chk r' = r_chk r /\
  r_cached r' = r_cached r /\ r_result r' = r_result r /\ r_error r' = r_error r.
Proof.
  induction ms as [|m rest IH]; intros i r F; cbn.
  - repeat split; reflexivity.
  - inversion F as [|m' rest' Fm Frest]; subst. destruct m as [s t|d]; [|contradiction]. cbn.
    destruct (run_cli fl cfg rest (S i) _) as [r3 l3] eqn:R.
    specialize (IH (S i) (match t with Some x => set_err (Some x) (match s with Some e => set_err (Some e) r | None => r end)
                                     | None => (match s with Some e => set_err (Some e) r | None => r end) end) Frest).
    rewrite R in IH. cbn in IH. cbn. destruct IH as (I1 & I2 & I3 & I4 & I5 & I6 & I7).
    rewrite I1, I2, I3, I4, I5, I6, I7. unfold last_wins. cbn.
    destruct t as [x|]; destruct s as [y|]; cbn; repeat split; reflexivity.
Qed.

(* the digest middleware and every user middleware keep a recorded error recorded *)
Lemma apply_mw_sticky : forall fl cfg m r r1 e l, apply_mw fl cfg m r = (r1, e, l) ->
  r_err r <> None -> r_err r1 <> None.
Proof.
  intros fl cfg m r r1 e l H N. destruct m as [s t|d]; cbn in H.
  - inversion H; subst. destruct s; cbn; [discriminate|exact N].
  - unfold digest_mw in H. destruct (r_err r) eqn:E; [|contradiction]. cbn in H. inversion H; subst. rewrite E. discriminate.
Qed.

Lemma run_cli_sticky : forall fl cfg ms i r, r_err r <> None -> r_err (fst (run_cli fl cfg ms i r)) <> None.
Proof.
  induction ms as [|m rest IH]; intros i r N; cbn; [exact N|].
  destruct m as [s t|d]; [|apply IH; exact N].
  cbn. destruct (run_cli fl cfg rest (S i) _) as [r3 l3] eqn:R. cbn.
  match type of R with run_cli _ _ _ _ ?rr = _ =>
    assert (r3 = fst (run_cli fl cfg rest (S i) rr)) as E by (rewrite R; reflexivity); rewrite E; apply IH end.
  destruct t; cbn; [discriminate|]. destruct s; cbn; [discriminate|exact N].
Qed.

Lemma run_req_sticky : forall fl cfg ms i r, r_err r <> None ->
  r_err (fst (fst (run_req fl cfg ms i r))) <> None.
Proof.
  induction ms as [|m rest IH]; intros i r N; cbn; [exact N|].
  destruct (apply_mw fl cfg m r) as [[r1 e] l1] eqn:A.
  pose proof (apply_mw_sticky _ _ _ _ _ _ _ A N) as N1.
  destruct e; cbn; [exact N1|].
  destruct (run_req fl cfg rest (S i) r1) as [[r2 e2] l2] eqn:R. cbn.
  assert (r2 = fst (fst (run_req fl cfg rest (S i) r1))) as E by (rewrite R; reflexivity).
  rewrite E. apply IH. exact N1.
Qed.

Lemma handle_download_absent : forall cfg b r, r_present r = false -> handle_download cfg b r = None.
Proof. intros cfg b r P. unfold handle_download. rewrite P. reflexivity. Qed.

Lemma handle_download_nosave : forall cfg b r, c_save cfg = false -> handle_download cfg b r = None.
Proof. intros cfg b r P. unfold handle_download. rewrite P, orb_true_r. reflexivity. Qed.

(* Client.roundTrip: the returned error IS the recorded error, and a response is always returned *)
Lemma round_trip_err_eq : forall fl cfg a ro e l, round_trip fl cfg a = (ro, e, l) ->
  exists r, ro = Some r /\ e = r_err r.
Proof.
  intros fl cfg a ro e l H. unfold round_trip, round_trip_with in H. destruct (a_getbody a).
  - inversion H; subst. eexists; split; reflexivity.
  - destruct (receive (a_transport a) fresh_resp) as [[r1 e1] b].
    destruct (run_cli_digests fl cfg (a_cli a) b _) as [[r3d bd] l_d].
    destruct (parse_response_body _ _ _) as [r4 e4].
    destruct (run_cli fl cfg (a_cli a) 0 _) as [r6 l6]. inversion H; subst. eexists; split; reflexivity.
Qed.

(* a transport failure, a failing GetBody: seen unless a later client-level middleware raises *)
Lemma transport_error_is_seen : forall fl cfg a x, a_getbody a = None -> a_transport a = TFail x ->
  Forall is_user (a_cli a) ->
  exists r l, round_trip fl cfg a = (Some r, r_err r, l) /\ r_err r = last_wins (Some x) (a_cli a) /\ r_present r = false.
Proof.
  intros fl cfg a x G T F. unfold round_trip, round_trip_with. rewrite G, T. cbn [receive].
  rewrite (run_cli_digests_user fl cfg (a_cli a) _ _ F). cbn.
  destruct (run_cli fl cfg (a_cli a) 0 _) as [r6 l6] eqn:R.
  match type of R with run_cli _ _ _ _ ?rr = _ => pose proof (run_cli_user fl cfg (a_cli a) 0 rr F) as K end. rewrite R in K. cbn in K. destruct K as (K1 & K2 & _).
  exists r6, (EvSend :: l6). split; [reflexivity|]. split; [exact K1|exact K2].
Qed.

Lemma getbody_error_is_seen : forall fl cfg a x, a_getbody a = Some x ->
  exists r, round_trip fl cfg a = (Some r, Some x, []) /\ r_err r = Some x.
Proof. intros fl cfg a x G. unfold round_trip, round_trip_with. rewrite G. eexists. split; reflexivity. Qed.

(* an unmarshalling failure surfaces as the round trip's error (unless a later middleware raises) *)
Lemma unmarshal_error_is_seen : forall fl cfg a s chk b w x,
  a_getbody a = None -> a_transport a = TResp s chk b -> Forall is_user (a_cli a) ->
  b_read b = None -> b_tf b = None -> c_save cfg = false ->
  applicable (c_targets cfg) (mkResp true s chk None false false ENone) = Some w -> um_of b w = Some x ->
  exists r l, round_trip fl cfg a = (Some r, r_err r, l) /\ r_err r = last_wins (Some x) (a_cli a) /\
              r_result r = false /\ r_error r = ENone.
Proof.
  intros fl cfg a s chk b w x G T F Rd Tf Sv A U. unfold round_trip, round_trip_with. rewrite G, T. cbn [receive].
  set (r2 := mkResp true s chk None false false ENone) in *.
  change (set_err None (set_http true s chk fresh_resp)) with r2.
  set (r3 := auto_read (c_autoread cfg) autoread_status_ok b r2).
  rewrite (run_cli_digests_user fl cfg (a_cli a) _ _ F).
  assert (r_err r3 = None /\ r_present r3 = true /\ r_status r3 = s /\ r_chk r3 = chk /\ r_result r3 = false /\ r_error r3 = ENone) as (E3 & P3 & S3 & C3 & R3 & Er3).
  { unfold r3, auto_read. destruct (negb (is_some (r_err r2)) && c_autoread cfg && autoread_status_ok (r_status r2)).
    - unfold to_bytes. cbn. rewrite Rd, Tf. cbn. repeat split; reflexivity.
    - cbn. repeat split; reflexivity. }
  assert (applicable (c_targets cfg) r3 = Some w) as A3.
  { unfold applicable in *. unfold result_state in *. rewrite P3, S3, C3. exact A. }
  assert (body_ok b r3) as B3 by (split; [exact E3|right; split; [exact Rd|exact Tf]]).
  destruct (unmarshal_failure_surfaces _ _ _ _ _ A3 B3 U) as (X1 & X2 & X3).
  destruct (parse_response_body (c_targets cfg) b r3) as [r4 e4] eqn:Pq. cbn in X1, X2, X3. subst e4.
  rewrite (handle_download_nosave cfg b _ Sv).
  destruct (run_cli fl cfg (a_cli a) 0 (set_err (Some x) r4)) as [r6 l6] eqn:R.
  match type of R with run_cli _ _ _ _ ?rr = _ => pose proof (run_cli_user fl cfg (a_cli a) 0 rr F) as K end. rewrite R in K. cbn in K.
  destruct K as (K1 & _ & _ & _ & _ & K6 & K7).
  exists r6, (EvSend :: l6). split; [reflexivity|]. split; [exact K1|]. rewrite K6, K7, X2, X3. auto.
Qed.

(* wrapping round-trippers: applied in registration order from the inside out - the last
   registered is the outermost and has the last word on what do() receives *)
Definition wrap_step (acc : option response * option err) (w : wrap) : option response * option err :=
  match w with
  | WPass | WTwice => acc
  | WShort nilresp s t => ((if nilresp then None else Some (set_err s fresh_resp)), t)
  | WFab st chk => (Some (mkResp true st chk None false false ENone), None)
  | WPost s t =>
    let ro1 := opt_set s (fst acc) in
    match t with
    | RKeep => (ro1, snd acc)
    | RErr x => (ro1, Some x)
    | RNil => (ro1, None)
    | RDrop x => (None, x)
    end
  end.

(* (stated for chains without a wrapper that calls the inner round-tripper twice) *)
Lemma run_wraps_fold : forall ws i inner inner2, Forall (fun w => w <> WTwice) ws ->
  fst (run_wraps ws i inner inner2) = fold_right (fun w acc => wrap_step acc w) (fst inner) ws.
Proof.
  induction ws as [|w rest IH]; intros i inner inner2 F; cbn; [reflexivity|].
  inversion F as [|w' rest' Fw Frest]; subst.
  destruct w.
  - destruct (run_wraps rest (pred i) inner inner2) as [[ro e] l] eqn:R. cbn.
    rewrite <- (IH (pred i) inner inner2 Frest), R. reflexivity.
  - reflexivity.
  - destruct (run_wraps rest (pred i) inner inner2) as [[ro e] l] eqn:R.
    rewrite <- (IH (pred i) inner inner2 Frest), R. destruct ret; reflexivity.
  - reflexivity.
  - contradiction.
Qed.

Lemma wrapped_result_fold : forall fl cfg a, Forall (fun w => w <> WTwice) (a_wraps a) ->
  fst (wrapped_round_trip fl cfg a) = fold_left wrap_step (a_wraps a) (fst (round_trip fl cfg a)).
Proof.
  intros fl cfg a F. unfold wrapped_round_trip. rewrite run_wraps_fold by (apply Forall_rev; exact F).
  rewrite fold_left_rev_right. reflexivity.
Qed.

(* a wrapper that calls the inner round-tripper twice hands on what the SECOND call returned *)
Lemma twice_returns_second : forall rest i in1 in2,
  fst (run_wraps (WTwice :: rest) i in1 in2) = fst (run_wraps rest (pred i) in2 in2).
Proof.
  intros rest i in1 in2. cbn. destruct (run_wraps rest (pred i) in1 in2) as [[ro1 e1] l1].
  destruct (run_wraps rest (pred i) in2 in2) as [[ro2 e2] l2]. reflexivity.
Qed.

(* a response made up by the outermost wrapper reaches do() as it is: it never went through
   Client.roundTrip, so nothing is read and NOTHING IS BOUND, whatever targets are configured *)
Lemma fabricated_response_not_bound : forall fl cfg a ws st chk,
  a_wraps a = ws ++ [WFab st chk] ->
  fst (wrapped_round_trip fl cfg a) = (Some (mkResp true st chk None false false ENone), None).
Proof.
  intros fl cfg a ws st chk W. unfold wrapped_round_trip. rewrite W, rev_app_distr. reflexivity.
Qed.

(* what do() keeps of (resp, err): a recorded error wins over the returned one *)
Lemma normalise_err : forall ro e,
  r_err (normalise ro e) = match resp_err ro with Some y => Some y | None => e end.
Proof.
  intros ro e. unfold normalise, resp_err. destruct ro as [r|]; cbn.
  - destruct e as [x|]; destruct (r_err r) eqn:E; cbn; auto.
  - destruct e; reflexivity.
Qed.

Lemma wrappers_all_pass : forall fl cfg a, Forall (fun w => w = WPass) (a_wraps a) ->
  fst (wrapped_round_trip fl cfg a) = fst (round_trip fl cfg a).
Proof.
  intros fl cfg a F. rewrite wrapped_result_fold by (eapply Forall_impl; [|exact F]; intros w Hw; cbn in Hw; rewrite Hw; discriminate).
  generalize (fst (round_trip fl cfg a)).
  induction F as [|w ws Hw F IH]; intro acc; cbn; [reflexivity|]. subst w. cbn. apply IH.
Qed.

(* request level: the middleware run in order; assignments to resp.Err accumulate (the later
   one stands), the FIRST returned error ends the call *)
Fixpoint req_outcome (ms : list mw) (cur : option err) : option err * option err :=
  match ms with
  | [] => (cur, None)
  | Mw s t :: rest =>
    let cur' := match s with Some e => Some e | None => cur end in
    match t with
    | Some x => (cur', Some x)
    | None => req_outcome rest cur'
    end
  | MwDigest _ :: rest => req_outcome rest cur
  end.

Lemma run_req_user : forall fl cfg ms i r, Forall is_user ms ->
  let '(r2, e, _) := run_req fl cfg ms i r in
  (r_err r2, e) = req_outcome ms (r_err r) /\
  r_present r2 = r_present r /\ r_status r2 = r_status r /\ r_result r2 = r_result r /\ r_error r2 = r_error r.
Proof.
  induction ms as [|m rest IH]; intros i r F; cbn.
  - repeat split; reflexivity.
  - inversion F as [|m' rest' Fm Frest]; subst. destruct m as [s t|d]; [|contradiction]. cbn.
    destruct t as [x|].
    + destruct s; cbn; repeat split; reflexivity.
    + specialize (IH (S i) (match s with Some e => set_err (Some e) r | None => r end) Frest).
      destruct (run_req fl cfg rest (S i) _) as [[r2 e2] l2]. destruct IH as (I1 & I2 & I3 & I4 & I5).
      rewrite I1, I2, I3, I4, I5. destruct s; cbn; repeat split; reflexivity.
Qed.

(* a failing request middleware / built-in request stage: nothing is sent, and its error is what
   the caller sees (on a first iteration; after a retry the previous response is still in hand
   and a recorded error on it stands) *)
Lemma before_error_is_seen : forall fl cfg a rest n prev x,
  fst (run_before (a_ud a) 0) = Some x \/ (fst (run_before (a_ud a) 0) = None /\ a_bi a = Some x) ->
  exists r l, do_loop fl cfg (a :: rest) n prev = DoRet (Some r) (Some x) [l] /\
    r_err r = (match resp_err prev with Some y => Some y | None => Some x end) /\
    filter is_send l = [] /\ filter is_cli l = [] /\ filter is_req l = [].
Proof.
  intros fl cfg a rest n prev x H. rewrite do_loop_cons. unfold do_attempt.
  destruct (run_before (a_ud a) 0) as [e_ud l_ud] eqn:B. cbn in H.
  destruct (run_before_spec _ _ _ _ B) as (j & L & _).
  assert (filter is_send l_ud = [] /\ filter is_cli l_ud = [] /\ filter is_req l_ud = []) as (F1 & F2 & F3).
  { subst l_ud. clear. generalize 0%nat. induction j; intro s; cbn; auto. }
  assert (forall ro, exists r, do_deferred ro (Some x) = (Some r, Some x) /\
            r_err r = match resp_err ro with Some y => Some y | None => Some x end) as K.
  { intro ro. destruct (do_deferred_spec ro (Some x)) as (r1 & D & _ & K2 & K3 & _). exists r1. split; [exact D|].
    destruct (resp_err ro) eqn:E; [rewrite K3; [reflexivity|discriminate]|apply K2; auto]. }
  destruct H as [H|[H1 H2]].
  - subst e_ud. destruct (K prev) as (r & D & E). rewrite D. exists r, l_ud. auto.
  - subst e_ud. rewrite H2. destruct (K prev) as (r & D & E). rewrite D. exists r, l_ud. auto.
Qed.

(* once recorded after the round trip, an error is never lost: whatever the request-level
   middleware do and whether or not the call is retried, an iteration that returns hands the
   caller a response with Err set *)
Lemma attempt_error_kept : forall fl cfg a n prev ro e l,
  do_attempt fl cfg a n prev = (Stop ro e, l) ->
  fst (run_before (a_ud a) 0) = None -> a_bi a = None ->
  (let '(ro0, e0, _) := wrapped_round_trip fl cfg a in resp_err ro0 <> None \/ e0 <> None) \/ e <> None ->
  exists r, fst (do_deferred ro e) = Some r /\ r_err r <> None.
Proof.
  intros fl cfg a n prev ro e l H B0 Bi K. unfold do_attempt in H.
  destruct (run_before (a_ud a) 0) as [e_ud l_ud]. cbn in B0. subst e_ud. rewrite Bi in H.
  destruct (wrapped_round_trip fl cfg a) as [[ro0 e0] l_rt].
  destruct (run_req fl cfg (a_req a) 0 (normalise ro0 e0)) as [[r2 e_mw] l_req] eqn:Q.
  assert (r_err (normalise ro0 e0) <> None -> r_err r2 <> None) as St.
  { intro N. pose proof (run_req_sticky fl cfg (a_req a) 0 _ N) as X. rewrite Q in X. exact X. }
  destruct (do_deferred_spec ro e) as (r1 & D & D1 & _ & D3 & _). rewrite D. cbn. exists r1. split; [reflexivity|].
  destruct K as [K|K]; [|apply D1; exact K].
  assert (r_err (normalise ro0 e0) <> None) as N.
  { rewrite normalise_err. destruct (resp_err ro0); [discriminate|]. destruct K as [K|K]; [contradiction|exact K]. }
  specialize (St N).
  destruct e_mw as [x|].
  - inversion H; subst. rewrite D3; cbn; exact St.
  - destruct (retry_decision cfg a n e0) as [again l_c].
    destruct again; [destruct (a_sleep_cancel a)|]; inversion H; subst; rewrite D3; cbn; try exact St; discriminate.
Qed.

(* ---------- binding at the level of one round trip and of a whole pass-through call ---------- *)

(* with user functions as client-level middleware, what Client.roundTrip hands back carries
   exactly the bindings of ONE parseResponseBody step on the (auto-read) transport answer *)
Lemma round_trip_binding : forall fl cfg a r e l s chk b,
  round_trip fl cfg a = (Some r, e, l) -> Forall is_user (a_cli a) ->
  a_getbody a = None -> a_transport a = TResp s chk b ->
  let r3 := auto_read (c_autoread cfg) autoread_status_ok b (mkResp true s chk None false false ENone) in
  r_result r3 = false /\ r_error r3 = ENone /\ r_present r3 = true /\ r_status r3 = s /\ r_chk r3 = chk /\
  r_result r = r_result (fst (parse_response_body (c_targets cfg) b r3)) /\
  r_error r = r_error (fst (parse_response_body (c_targets cfg) b r3)) /\
  r_present r = true /\ r_status r = s.
Proof.
  intros fl cfg a r e l s chk b H F G T. unfold round_trip, round_trip_with in H. rewrite G, T in H. cbn [receive] in H.
  change (set_err None (set_http true s chk fresh_resp)) with (mkResp true s chk None false false ENone) in H.
  intro r3. fold r3 in H. rewrite (run_cli_digests_user fl cfg (a_cli a) _ _ F) in H.
  assert (r_result r3 = false /\ r_error r3 = ENone /\ r_present r3 = true /\ r_status r3 = s /\ r_chk r3 = chk) as (R3 & E3 & P3 & S3 & C3).
  { unfold r3, auto_read. destruct (_ && _ && _); [|cbn; auto].
    destruct (to_bytes b (mkResp true s chk None false false ENone)) as [rr ee] eqn:TB.
    destruct (to_bytes_frame _ _ _ _ TB) as (X1 & X2 & X3 & X & Y & _). cbn. rewrite X1, X2, X3, X, Y. auto. }
  destruct (parse_response_body (c_targets cfg) b r3) as [r4 e4] eqn:Pq.
  destruct (parse_spec _ _ _ _ _ Pq) as (P4 & S4 & _).
  match type of H with context [run_cli fl cfg (a_cli a) 0 ?rr] => set (r5' := rr) in H end.
  assert (r_present r5' = r_present r4 /\ r_status r5' = r_status r4 /\ r_result r5' = r_result r4 /\ r_error r5' = r_error r4) as (Q1 & Q2 & Q3 & Q4).
  { unfold r5'. destruct (handle_download cfg b _); destruct e4; cbn; auto. }
  destruct (run_cli fl cfg (a_cli a) 0 r5') as [r6 l6] eqn:R.
  pose proof (run_cli_user fl cfg (a_cli a) 0 r5' F) as K.
  rewrite R in K. cbn in K. destruct K as (_ & K2 & K3 & _ & _ & K6 & K7). injection H as Hr He Hl. subst r6.
  cbn [fst]. rewrite K2, K3, K6, K7, Q1, Q2, Q3, Q4, P4, S4, P3, S3.
  split; [exact R3|]. split; [exact E3|]. split; [reflexivity|]. split; [reflexivity|]. split; [exact C3|]. auto.
Qed.

Lemma round_trip_no_binding : forall fl cfg a r e l,
  round_trip fl cfg a = (Some r, e, l) -> Forall is_user (a_cli a) ->
  (a_getbody a <> None \/ exists x, a_transport a = TFail x) ->
  r_result r = false /\ r_error r = ENone /\ r_present r = false /\ r_err r <> None.
Proof.
  intros fl cfg a r e l H F K. unfold round_trip, round_trip_with in H.
  destruct (a_getbody a) as [x|] eqn:G.
  { inversion H; subst. cbn. repeat split; auto. discriminate. }
  destruct K as [K|[x T]]; [contradiction|]. rewrite T in H. cbn [receive] in H.
  rewrite (run_cli_digests_user fl cfg (a_cli a) _ _ F) in H. cbn in H.
  destruct (run_cli fl cfg (a_cli a) 0 _) as [r6 l6] eqn:R.
  match type of R with run_cli _ _ _ _ ?rr = _ => pose proof (run_cli_user fl cfg (a_cli a) 0 rr F) as K;
                                                    pose proof (run_cli_sticky fl cfg (a_cli a) 0 rr) as St end.
  rewrite R in K, St. cbn in K, St. destruct K as (_ & K2 & _ & _ & _ & K6 & K7). inversion H; subst.
  rewrite K2, K6, K7. repeat split; auto. apply St. discriminate.
Qed.

Lemma normalise_frame : forall r e,
  let r' := normalise (Some r) e in
  r_present r' = r_present r /\ r_status r' = r_status r /\ r_result r' = r_result r /\ r_error r' = r_error r.
Proof. intros r e. unfold normalise. destruct e; destruct (r_err r); cbn; auto. Qed.

Lemma do_deferred_frame : forall r e, exists r',
  do_deferred (Some r) e = (Some r', e) /\
  r_present r' = r_present r /\ r_status r' = r_status r /\ r_result r' = r_result r /\ r_error r' = r_error r.
Proof. intros r e. unfold do_deferred. eexists. split; [reflexivity|]. destruct e; destruct (r_err r); cbn; auto. Qed.

(* a whole call without retry whose wrappers pass through and whose request-level middleware
   are user functions: the caller's response carries the bindings of the round trip *)
Lemma call_binding_passthrough : forall fl cfg a rest n prev r0 e0 l0,
  c_retry cfg = None ->
  fst (run_before (a_ud a) 0) = None -> a_bi a = None ->
  Forall (fun w => w = WPass) (a_wraps a) -> Forall is_user (a_req a) ->
  round_trip fl cfg a = (Some r0, e0, l0) ->
  exists r e ls, do_loop fl cfg (a :: rest) n prev = DoRet (Some r) e ls /\
    r_result r = r_result r0 /\ r_error r = r_error r0 /\ r_present r = r_present r0 /\ r_status r = r_status r0.
Proof.
  intros fl cfg a rest n prev r0 e0 l0 C B0 Bi W Q R. rewrite do_loop_cons. unfold do_attempt.
  destruct (run_before (a_ud a) 0) as [e_ud l_ud]. cbn in B0. subst e_ud. rewrite Bi.
  pose proof (wrappers_all_pass fl cfg a W) as WP. rewrite R in WP. cbn in WP.
  destruct (wrapped_round_trip fl cfg a) as [[ro e] l_rt]. cbn in WP. inversion WP; subst.
  destruct (normalise_frame r0 e0) as (N1 & N2 & N3 & N4).
  pose proof (run_req_user fl cfg (a_req a) 0 (normalise (Some r0) e0) Q) as U.
  destruct (run_req fl cfg (a_req a) 0 (normalise (Some r0) e0)) as [[r2 e_mw] l_req].
  destruct U as (_ & U2 & U3 & U4 & U5).
  unfold retry_decision. rewrite C.
  destruct e_mw as [x|].
  - destruct (do_deferred_frame r2 (Some x)) as (r' & D & D1 & D2 & D3 & D4). rewrite D.
    exists r', (Some x), [l_ud ++ l_rt ++ l_req]. split; [reflexivity|]. rewrite D1, D2, D3, D4, U2, U3, U4, U5. auto.
  - destruct (do_deferred_frame r2 e0) as (r' & D & D1 & D2 & D3 & D4). rewrite D.
    exists r', e0, [(l_ud ++ l_rt ++ l_req) ++ []]. split; [reflexivity|]. rewrite D1, D2, D3, D4, U2, U3, U4, U5. auto.
Qed.

(* ---------- the pinned code: what the two C18 fixes repair ---------- *)

(* digest: after a successful re-send the pinned middleware leaves the 401's error result bound
   and binds nothing from the 200; the repaired one re-binds *)
Definition digest_witness_cfg : config := mkCfg (mkTargets true true false) true None None None false false.
Definition digest_witness_resp : response :=   (* the 401 after auto-read and binding *)
  mkResp true 401 None None true false EReq.
Definition digest_witness : digest_oracle :=
  mkDigest None (TResp 200 None (mkBody None None None None None None None)).

Lemma digest_pinned_refuted :
  let '(r, _, _) := digest_mw Pinned digest_witness_cfg digest_witness digest_witness_resp in
  r_status r = 200 /\ result_state r = SuccessState /\ r_result r = false /\ r_error r = EReq.
Proof. vm_compute. repeat split; reflexivity. Qed.

Lemma digest_fixed_rebinds :
  let '(r, e, _) := digest_mw Fixed digest_witness_cfg digest_witness digest_witness_resp in
  r_status r = 200 /\ result_state r = SuccessState /\ r_result r = true /\ r_error r = ENone /\ e = None.
Proof. vm_compute. repeat split; reflexivity. Qed.

(* do(): a wrapper that returns (nil, err) on a request with a retry option made the pinned
   loop dereference nil; the repaired loop retries with a response in hand *)
Definition nil_wrapper_attempt : attempt :=
  mkAttempt [] None [WShort true None (Some 1)] None (TFail 2) (TFail 2) [] [] [] false false.
Definition retry_cfg : config := mkCfg (mkTargets false false false) true None (Some (1, 1%nat)) None false false.

Lemma do_pinned_nil_deref : do_first_pinned Fixed retry_cfg nil_wrapper_attempt = PNilDeref.
Proof. vm_compute. reflexivity. Qed.

Lemma do_fixed_no_nil : forall fl cfg atts n prev ro e ls,
  do_loop fl cfg atts n prev = DoRet ro e ls -> exists r, ro = Some r.
Proof.
  intros. pose proof (do_loop_resp_some _ _ _ _ _ _ _ _ H) as N. destruct ro; [eauto|contradiction].
Qed.

Lemma nil_wrapper_fixed :
  run Fixed (mkProg ESend retry_cfg [nil_wrapper_attempt; nil_wrapper_attempt]) =
  Returned (Some (set_err (Some 1) fresh_resp)) (Some 1) [[EvWIn 0; EvWOut 0; EvHook 0]; [EvWIn 0; EvWOut 0]] 0.
Proof. vm_compute. reflexivity. Qed.

(* ---------- download (SetOutput / SetOutputFile) next to result targets ---------- *)

Lemma to_bytes_cached : forall b r r1, r_present r = true -> to_bytes b r = (r1, None) -> r_cached r1 = true.
Proof.
  intros b r r1 P H. unfold to_bytes in H. destruct (r_err r); [discriminate|].
  destruct (r_cached r) eqn:C; [inversion H; subst; exact C|]. rewrite P in H. cbn in H.
  destruct (b_read b); [discriminate|]. destruct (b_tf b); [discriminate|]. inversion H; subst. reflexivity.
Qed.

(* when a target made the binding step read the body, the body is in the cache afterwards:
   the download that follows writes the cached bytes and cannot hit a read error - result
   target and download both get the whole body *)
Lemma binding_then_download_from_cache : forall cfg tg b r w,
  applicable tg r = Some w -> body_ok b r ->
  let r' := fst (parse_response_body tg b r) in
  r_cached r' = true /\
  (c_save cfg = true -> handle_download cfg b r' = match b_write b with Some e => Some e | None => b_close b end).
Proof.
  intros cfg tg b r w A B. rewrite parse_as_applicable, A.
  pose proof (applicable_present _ _ _ A) as P.
  unfold unmarshal_body. destruct (to_bytes b r) as [r1 e1] eqn:T.
  destruct e1 as [x|]; [exfalso; eapply to_bytes_fail; eauto|].
  pose proof (to_bytes_cached _ _ _ P T) as C. destruct (to_bytes_frame _ _ _ _ T) as (P1 & _).
  assert (r_cached (match um_of b w with None => bind w r1 | Some _ => r1 end) = true /\
          r_present (match um_of b w with None => bind w r1 | Some _ => r1 end) = true) as [C' P'].
  { destruct (um_of b w); [rewrite P1; auto|]. destruct w; cbn; rewrite P1; auto. }
  destruct (um_of b w); cbn [fst] in *; (split; [exact C'|]); intro Sv; unfold handle_download, copy_result; rewrite P', Sv, C'; reflexivity.
Qed.

(* without a target nothing reads the body first: the download streams it, a read error is the download's error *)
Lemma download_streams_when_unread : forall cfg b r,
  c_save cfg = true -> r_present r = true -> r_cached r = false -> r_err r = None ->
  handle_download cfg b r =
  match b_read b with Some e => Some e | None => match b_write b with Some e => Some e | None => b_close b end end.
Proof. intros cfg b r S P C E. unfold handle_download, copy_result. rewrite P, S, C, E. cbn. destruct (b_read b); reflexivity. Qed.

(* an error recorded by an earlier stage that left no body is never replaced by the download *)
Lemma download_keeps_earlier_error : forall cfg b r e,
  r_cached r = false -> r_err r = Some e -> c_save cfg = true -> r_present r = true ->
  handle_download cfg b r = None.
Proof. intros cfg b r e C E S P. unfold handle_download. rewrite P, S, C, E. reflexivity. Qed.

(* closing the output (SetOutputFile, or a writer that is an io.Closer): a copy that failed stays
   failed with ITS error whatever Close returns; a failed close fails an otherwise good download *)
Definition with_close (c : option err) (b : body_oracle) : body_oracle :=
  mkBody (b_read b) (b_tf b) (b_um_res b) (b_um_req b) (b_um_com b) (b_write b) c.

Lemma copy_error_kept_for_every_close : forall cfg b r e c,
  c_save cfg = true -> r_present r = true -> (r_cached r = true \/ r_err r = None) -> copy_result b r = Some e ->
  handle_download cfg (with_close c b) r = Some e.
Proof.
  intros cfg b r e c S P G C. unfold handle_download. rewrite P, S. cbn [negb orb].
  assert (negb (r_cached r) && is_some (r_err r) = false) as G' by (destruct G as [G|G]; rewrite G; cbn; auto using andb_false_r).
  rewrite G'.
  assert (copy_result (with_close c b) r = copy_result b r) as E by reflexivity. rewrite E, C. reflexivity.
Qed.

Lemma close_error_fails_download : forall cfg b r c,
  c_save cfg = true -> r_present r = true -> (r_cached r = true \/ r_err r = None) -> copy_result b r = None ->
  handle_download cfg (with_close c b) r = c.
Proof.
  intros cfg b r c S P G C. unfold handle_download. rewrite P, S. cbn [negb orb].
  assert (negb (r_cached r) && is_some (r_err r) = false) as G' by (destruct G as [G|G]; rewrite G; cbn; auto using andb_false_r).
  rewrite G'.
  assert (copy_result (with_close c b) r = copy_result b r) as E by reflexivity. rewrite E, C. reflexivity.
Qed.

(* the reworked download of the seeded change c-m1 (`err = oc.Close()` after the copy) loses the copy error *)
Definition handle_download_close_overwrites (cfg : config) (b : body_oracle) (r : response) : option err :=
  if negb (r_present r) || negb (c_save cfg) then None else b_close b.

Lemma close_overwrite_loses_copy_error :
  let cfg := mkCfg (mkTargets false false false) false None None None false true in
  let b := mkBody (Some 7) None None None None None None in
  let r := mkResp true 200 None None false false ENone in
  handle_download_close_overwrites cfg b r = None /\ handle_download cfg b r = Some 7.
Proof. vm_compute. split; reflexivity. Qed.

Lemma no_download_without_save : forall cfg b r, c_save cfg = false -> handle_download cfg b r = None.
Proof. exact handle_download_nosave. Qed.

(* ---------- any state checker ---------- *)

(* a custom resultStateCheckFunc is an arbitrary function: its verdict IS the state ... *)
Lemma custom_checker_decides : forall r s, r_present r = true -> r_chk r = Some s -> result_state r = s.
Proof. intros r s P C. unfold result_state. rewrite P, C. reflexivity. Qed.

(* ... so the binding theorems above (stated for every response record) hold for every checker;
   in particular a verdict outside {SuccessState, ErrorState} binds nothing and raises nothing *)
Lemma other_state_binds_nothing : forall tg b r,
  result_state r <> SuccessState -> result_state r <> ErrorState ->
  parse_response_body tg b r = (r, None).
Proof.
  intros tg b r N1 N2. unfold parse_response_body. destruct (negb (r_present r)); [reflexivity|].
  destruct (result_state r =? SuccessState) eqn:S; [apply Z.eqb_eq in S; contradiction|].
  destruct (result_state r =? ErrorState) eqn:E; [apply Z.eqb_eq in E; contradiction|]. reflexivity.
Qed.

(* the checker may call a 2xx an error and a 5xx a success: binding follows the verdict, not the code *)
Lemma checker_overrides_status : forall tg b r,
  r_present r = true -> r_chk r = Some ErrorState -> r_result r = false ->
  r_result (fst (parse_response_body tg b r)) = false.
Proof.
  intros tg b r P C R0. destruct (r_result (fst (parse_response_body tg b r))) eqn:X; [|reflexivity].
  apply (success_result_iff tg b r R0) in X. destruct X as (_ & _ & S & _).
  rewrite (custom_checker_decides r ErrorState P C) in S. pose proof states_distinct as (D & _). congruence.
Qed.

(* ---------- several attempts: whose bindings does the caller get? ---------- *)

(* going round again starts from a response without bindings and without cached body *)
Lemma retry_clears_bindings : forall fl cfg a n prev r l,
  do_attempt fl cfg a n prev = (Again r, l) -> r_result r = false /\ r_error r = ENone /\ r_cached r = false.
Proof.
  intros fl cfg a n prev r l H. unfold do_attempt in H.
  destruct (run_before (a_ud a) 0) as [[x|] l_ud]; [discriminate|].
  destruct (a_bi a); [discriminate|].
  destruct (wrapped_round_trip fl cfg a) as [[ro e] l_rt].
  destruct (run_req fl cfg (a_req a) 0 (normalise ro e)) as [[r2 [x|]] l_req]; [discriminate|].
  destruct (retry_decision cfg a n e) as [again l_c]. destruct again; [|discriminate].
  destruct (a_sleep_cancel a); [discriminate|]. inversion H; subst. cbn. auto.
Qed.

(* an iteration that gets past the request middleware does not look at what earlier iterations
   left behind: Client.roundTrip makes a new response *)
Lemma attempt_independent_of_prev : forall fl cfg a n prev prev',
  fst (run_before (a_ud a) 0) = None -> a_bi a = None ->
  do_attempt fl cfg a n prev = do_attempt fl cfg a n prev'.
Proof.
  intros fl cfg a n prev prev' B Bi. unfold do_attempt.
  destruct (run_before (a_ud a) 0) as [e_ud l_ud]. cbn in B. subst e_ud. rewrite Bi. reflexivity.
Qed.

(* the caller's response is what the LAST iteration returned (through the deferred function);
   that iteration started from nothing (first) or from a response cleared of bindings *)
Lemma result_is_last_attempts : forall fl cfg atts n prev r e ls,
  do_loop fl cfg atts n prev = DoRet (Some r) e ls ->
  exists k a prev' ro e0 l,
    k = (length ls - 1)%nat /\ nth_error atts k = Some a /\ nth_error ls k = Some l /\
    do_attempt fl cfg a (n + Z.of_nat k) prev' = (Stop ro e0, l) /\ do_deferred ro e0 = (Some r, e) /\
    ((k = 0)%nat -> prev' = prev) /\
    ((0 < k)%nat -> exists p, prev' = Some p /\ r_result p = false /\ r_error p = ENone /\ r_cached p = false).
Proof.
  intros fl cfg atts. induction atts as [|a rest IH]; intros n prev r e ls H; [cbn in H; discriminate|].
  rewrite do_loop_cons in H.
  destruct (do_attempt fl cfg a n prev) as [[ro0 e0|r0] l0] eqn:A.
  - destruct (do_deferred_spec ro0 e0) as (r1 & D & _). rewrite D in H. inversion H; subst.
    exists 0%nat, a, prev, ro0, e, l0. cbn. replace (n + 0) with n by lia.
    split; [reflexivity|]. split; [reflexivity|]. split; [reflexivity|]. split; [exact A|]. split; [exact D|].
    split; [auto|]. intro X; lia.
  - destruct (do_loop fl cfg rest (n + 1) (Some r0)) as [ro1 e1 ls1|] eqn:L; cbn in H; [|discriminate].
    inversion H; subst.
    destruct (IH _ _ _ _ _ L) as (k & a' & prev' & ro & e0 & l & K1 & K2 & K3 & K4 & K5 & K6 & K7).
    pose proof (do_loop_logs _ _ _ _ _ _ _ _ L) as [Len _].
    exists (S k), a', prev', ro, e0, l. cbn [length nth_error].
    split; [lia|]. split; [exact K2|]. split; [exact K3|].
    split; [replace (n + Z.of_nat (S k)) with (n + 1 + Z.of_nat k) by lia; exact K4|]. split; [exact K5|].
    split; [intro X; discriminate|]. intros _.
    destruct k.
    + rewrite (K6 eq_refl). exists r0. split; [reflexivity|]. eapply retry_clears_bindings; eauto.
    + apply K7. lia.
Qed.

(* ---------- a failing body read, whatever the body transformer ---------- *)

Definition with_tf (tf : option err) (b : body_oracle) : body_oracle :=
  mkBody (b_read b) tf (b_um_res b) (b_um_req b) (b_um_com b) (b_write b) (b_close b).

(* Response.ToBytes: the transformer is consulted only after a clean read (`err == nil && ...`):
   a read error is returned and recorded for EVERY transformer, installed or not, failing or not *)
Lemma read_error_kept_for_every_transformer : forall b r e tf,
  r_err r = None -> r_cached r = false -> r_present r = true -> b_read b = Some e ->
  to_bytes (with_tf tf b) r = (set_cached true (set_err (Some e) r), Some e).
Proof.
  intros b r e tf E C P R. unfold to_bytes. rewrite E, C, P. cbn. rewrite R. reflexivity.
Qed.

(* ... hence obtaining the body fails, nothing is bound and the binding step returns an error, for
   every transformer *)
Lemma read_failure_surfaces_for_every_transformer : forall tg b r w e tf,
  applicable tg r = Some w -> r_err r = None -> r_cached r = false -> b_read b = Some e ->
  snd (parse_response_body tg (with_tf tf b) r) = Some e /\
  r_err (fst (parse_response_body tg (with_tf tf b) r)) = Some e /\
  r_result (fst (parse_response_body tg (with_tf tf b) r)) = r_result r /\
  r_error (fst (parse_response_body tg (with_tf tf b) r)) = r_error r.
Proof.
  intros tg b r w e tf A E C R. pose proof (applicable_present _ _ _ A) as P.
  rewrite parse_as_applicable, A. unfold unmarshal_body.
  rewrite (read_error_kept_for_every_transformer b r e tf E C P R). cbn. auto.
Qed.

(* a response that already carries an error goes through the binding step unchanged *)
Lemma parse_with_err : forall tg b r e, r_err r = Some e ->
  parse_response_body tg b r = (r, Some e) \/ parse_response_body tg b r = (r, None).
Proof.
  intros tg b r e E. rewrite parse_as_applicable. destruct (applicable tg r) as [w|]; [|right; reflexivity].
  left. unfold unmarshal_body, to_bytes. rewrite E. reflexivity.
Qed.

(* the auto-read of Client.roundTrip relies on ToBytes RECORDING the error (it drops the return
   value): with auto-read on, a body that cannot be read leaves resp.Err set - for every
   transformer - and that is what the round trip returns unless a later middleware raises *)
Lemma auto_read_error_is_seen : forall fl cfg a s chk b e tf,
  a_getbody a = None -> a_transport a = TResp s chk (with_tf tf b) -> Forall is_user (a_cli a) ->
  c_autoread cfg = true -> autoread_status_ok s = true -> c_save cfg = false -> b_read b = Some e ->
  exists r l, round_trip fl cfg a = (Some r, r_err r, l) /\ r_err r = last_wins (Some e) (a_cli a) /\
              r_result r = false /\ r_error r = ENone.
Proof.
  intros fl cfg a s chk b e tf G T F AR SO Sv R. unfold round_trip, round_trip_with. rewrite G, T. cbn [receive].
  set (r2 := mkResp true s chk None false false ENone).
  change (set_err None (set_http true s chk fresh_resp)) with r2.
  assert (auto_read (c_autoread cfg) autoread_status_ok (with_tf tf b) r2 = set_cached true (set_err (Some e) r2)) as AU.
  { unfold auto_read. rewrite AR. cbn [r_err r2 is_some negb andb r_status]. rewrite SO.
    rewrite (read_error_kept_for_every_transformer b r2 e tf eq_refl eq_refl eq_refl R). reflexivity. }
  rewrite AU. rewrite (run_cli_digests_user fl cfg (a_cli a) _ _ F).
  set (r3 := set_cached true (set_err (Some e) r2)).
  assert (r_err r3 = Some e) as E3 by reflexivity.
  assert (exists e4, parse_response_body (c_targets cfg) (with_tf tf b) r3 = (r3, e4) /\
            r_err (match e4 with Some x => set_err (Some x) r3 | None => r3 end) = Some e) as (e4 & Pq & E5).
  { destruct (parse_with_err (c_targets cfg) (with_tf tf b) r3 e E3) as [X|X]; rewrite X; eexists; split; reflexivity. }
  rewrite Pq.
  set (r5 := match e4 with Some x => set_err (Some x) r3 | None => r3 end) in *.
  rewrite (handle_download_nosave cfg _ r5 Sv).
  destruct (run_cli fl cfg (a_cli a) 0 r5) as [r6 l6] eqn:Rc.
  pose proof (run_cli_user fl cfg (a_cli a) 0 r5 F) as U. rewrite Rc in U. cbn in U.
  destruct U as (U1 & _ & _ & _ & _ & U6 & U7).
  exists r6, (EvSend :: [] ++ l6). split; [reflexivity|]. split; [rewrite U1, E5; reflexivity|].
  rewrite U6, U7. unfold r5. destruct e4; cbn; auto.
Qed.

(* the refactoring of the seeded change b-m2 (transformer run regardless of the read error) loses it *)
Definition to_bytes_unguarded (b : body_oracle) (r : response) : response * option err :=
  match r_err r with
  | Some e => (r, Some e)
  | None =>
    if r_cached r then (r, None)
    else if negb (r_present r) then (r, None)
    else match b_tf b with              (* body, err = transform(body, ...) whatever err was *)
         | Some e => (set_err (Some e) r, Some e)
         | None => (set_cached true r, None)
         end
  end.

Lemma unguarded_transformer_loses_read_error :
  let b := mkBody (Some 7) None None None None None None in
  let r := mkResp true 200 None None false false ENone in
  to_bytes_unguarded b r = (set_cached true r, None) /\ to_bytes b r = (set_cached true (set_err (Some 7) r), Some 7).
Proof. vm_compute. split; reflexivity. Qed.

(* ---------- the request-level error target's failure stands ---------- *)

Definition with_um_com (u : option err) (b : body_oracle) : body_oracle :=
  mkBody (b_read b) (b_tf b) (b_um_res b) (b_um_req b) u (b_write b) (b_close b).

(* with a request-level error target the client-level type is never consulted: when the body does
   not unmarshal into the request's target, that failure is the step's error and nothing is bound -
   for EVERY outcome the client-level type's decoder would have had *)
Lemma request_target_failure_stands : forall tg b r x u,
  t_error tg = true -> r_present r = true -> result_state r = ErrorState -> r_status r <> no_content ->
  body_ok b r -> b_um_req b = Some x ->
  snd (parse_response_body tg (with_um_com u b) r) = Some x /\
  r_error (fst (parse_response_body tg (with_um_com u b) r)) = r_error r /\
  r_result (fst (parse_response_body tg (with_um_com u b) r)) = r_result r.
Proof.
  intros tg b r x u T P S N B U.
  assert (applicable tg r = Some BReq) as A.
  { apply (applicable_err tg r BReq); [discriminate|]. repeat split; auto. }
  assert (body_ok (with_um_com u b) r) as B' by exact B.
  destruct (unmarshal_failure_surfaces tg (with_um_com u b) r BReq x A B' U) as (X1 & X2 & X3). auto.
Qed.

(* and when it does unmarshal, it is the request's target that is bound, whatever the client-level type *)
Lemma request_target_shadows_for_every_common_outcome : forall tg b r u,
  t_error tg = true -> r_present r = true -> result_state r = ErrorState -> r_status r <> no_content ->
  body_ok b r -> b_um_req b = None -> r_error r = ENone ->
  r_error (fst (parse_response_body tg (with_um_com u b) r)) = EReq.
Proof.
  intros tg b r u T P S N B U E0.
  destruct (error_result_iff tg (with_um_com u b) r E0) as [[_ K] _]. apply K. repeat split; auto; apply B.
Qed.

(* the flattened error branch of the seeded change c-m3 (`if r.error != nil || commonErrorType == nil
   { return }` between the two steps) lets the client-level type overwrite the request target's failure *)
Definition parse_error_branch_flattened (tg : targets) (b : body_oracle) (r : response) : response * option err :=
  let '(r1, e1) := if t_error tg then
                     let '(r1, e) := unmarshal_body b (b_um_req b) r in
                     match e with None => (set_error EReq r1, None) | Some x => (r1, Some x) end
                   else (r, None) in
  match r_error r1 with
  | ENone => if t_common tg then
               let '(r2, e) := unmarshal_body b (b_um_com b) r1 in
               match e with None => (set_error ECommon r2, None) | Some x => (r2, Some x) end
             else (r1, e1)
  | _ => (r1, e1)
  end.

Lemma flattened_branch_overwrites_failure :
  let tg := mkTargets false true true in
  let b := mkBody None None None (Some 7) None None None in
  let r := mkResp true 500 None None true false ENone in
  parse_error_branch_flattened tg b r = (set_error ECommon r, None) /\ parse_response_body tg b r = (r, Some 7).
Proof. vm_compute. split; reflexivity. Qed.
