(* Proofs/CharsetInterleave.v - C15: several response bodies alive at the same time, read in ANY
   interleaving: each reader delivers, call for call, exactly what it delivers when read alone with its
   own sub-sequence of buffer sizes.  (In the code every response gets its own decoder object -
   enc.NewDecoder() per response, one transform.Reader each - so no decoder state, e.g. the shift state
   of iso-2022-jp, is shared; in the model a reader's state is a value.  The harness drives 2-4 live
   responses interleaved on one transport and hands each observation to the single-reader checker.) *)
From Coq Require Import PeanoNat.
From ReqV Require Import Lib.Bytes Model.Charset.

Section Interleave.
  Variable enc : Type.
  Variable dec_stream : enc -> list bytes -> bytes.
  Variable dec_partial : enc -> list bytes -> bytes.
  Variable find_encoding : bytes -> option enc.
  Notation b_read := (b_read dec_stream dec_partial find_encoding).
  Notation run := (run dec_stream dec_partial find_encoding).

  (* one reader alone, every scheduled call (no stop at io.EOF) *)
  Fixpoint steps (sizes : list nat) (b : breader) : list (bytes * rerr) :=
    match sizes with
    | [] => []
    | k :: r => let '(o, e, b') := b_read k b in (o, e) :: steps r b'
    end.

  Definition upd (f : nat -> breader) (i : nat) (v : breader) : nat -> breader :=
    fun j => if Nat.eqb j i then v else f j.

  (* a population of readers (by index) and a schedule of (reader, buffer size) *)
  Fixpoint run_many (sched : list (nat * nat)) (f : nat -> breader) : list (nat * (bytes * rerr)) :=
    match sched with
    | [] => []
    | (i, k) :: r => let '(o, e, b') := b_read k (f i) in (i, (o, e)) :: run_many r (upd f i b')
    end.

  Definition sizes_of (i : nat) (sched : list (nat * nat)) : list nat :=
    map snd (filter (fun x => Nat.eqb (fst x) i) sched).
  Definition trace_of (i : nat) (tr : list (nat * (bytes * rerr))) : list (bytes * rerr) :=
    map snd (filter (fun x => Nat.eqb (fst x) i) tr).

  Theorem interleaving_independent : forall sched f i,
    trace_of i (run_many sched f) = steps (sizes_of i sched) (f i).
  Proof.
    induction sched as [|[j k] r IH]; intros f i; [reflexivity|].
    cbn [run_many]. destruct (b_read k (f j)) as [[o e] b'] eqn:R.
    unfold trace_of, sizes_of in *. cbn [filter fst]. destruct (Nat.eqb j i) eqn:E.
    - apply Nat.eqb_eq in E. subst j. cbn [map snd steps]. rewrite R. f_equal.
      rewrite IH. unfold upd. rewrite Nat.eqb_refl. reflexivity.
    - rewrite IH. unfold upd. rewrite Nat.eqb_sym, E. reflexivity.
  Qed.

  (* the trace up to and including the first error (io.EOF or a failure) *)
  Fixpoint until_eof (l : list (bytes * rerr)) : list (bytes * rerr) :=
    match l with
    | [] => []
    | (o, e) :: r => (o, e) :: match e with ENone => until_eof r | _ => [] end
    end.

  (* [run] (what Model/C15Run.v compares with the real code) is [steps] cut at the first error (io.EOF or a failure) *)
  Lemma run_is_steps_until_eof sizes : forall b,
    map (fun x => (fst (fst x), snd (fst x))) (run sizes b) = until_eof (steps sizes b).
  Proof.
    induction sizes as [|k r IH]; intros b; [reflexivity|].
    cbn [Charset.run steps]. destruct (b_read k b) as [[o e] b'].
    cbn [map until_eof fst snd]. destruct e; [rewrite IH| |]; reflexivity.
  Qed.

  Corollary interleaved_reader_is_the_single_reader sched f i :
    until_eof (trace_of i (run_many sched f)) =
    map (fun x => (fst (fst x), snd (fst x))) (run (sizes_of i sched) (f i)).
  Proof. rewrite interleaving_independent, run_is_steps_until_eof. reflexivity. Qed.
End Interleave.

Arguments steps {enc}.
Arguments run_many {enc}.
