(* Proofs/AltSvcProofs.v - termination measure and totality of the Alt-Svc parser model (C07) *)
From ReqV Require Import Lib.Bytes Model.AltSvc.
From Coq Require Import Lia.

Lemma read_to_eq_length s : s <> [] ->
  length (snd (read_to_eq s)) < length s /\ fst (read_to_eq s) <> [].
Proof.
  induction s as [|x r IH]; intros H; [contradiction|]. cbn [read_to_eq].
  destruct (beqb x EQ); [cbn; split; [lia|discriminate]|].
  destruct r as [|y r'].
  - cbn. split; [lia|discriminate].
  - destruct (IH ltac:(discriminate)) as [IH1 _].
    destruct (read_to_eq (y :: r')) as [a b]. cbn [fst snd length] in *. split; [lia|discriminate].
Qed.

Lemma skipn_length_le {A} n (l : list A) : length (skipn n l) <= length l.
Proof. rewrite skipn_length. lia. Qed.

(* the progress measure: a parseKv call on a non-empty buffer consumes at least one byte ... *)
Lemma parse_kv_progress s : s <> [] -> length (k_rest (parse_kv s)) < length s.
Proof.
  intros H. unfold parse_kv. destruct s as [|x0 s0]; [contradiction|].
  destruct (read_to_eq_length (x0 :: s0) H) as [Hl _].
  destruct (read_to_eq (x0 :: s0)) as [line rest]. cbn [snd] in Hl.
  destruct rest as [|q tl]; [cbn; lia|].
  destruct (beqb q DQ).
  - destruct (index_byte DQ tl) as [i|]; [|cbn [k_rest]; exact Hl].
    pose proof (skipn_length_le (S i) tl) as Hs.
    destruct (skipn (S i) tl) as [|b r2]; cbn [k_rest length] in *; lia.
  - destruct (find_delim (q :: tl)) as [[[|i] semi]|]; cbn [k_rest]; try exact Hl.
    pose proof (skipn_length_le (S (S i)) (q :: tl)). lia.
Qed.

(* ... and on an empty buffer reports io.EOF with no further field *)
Lemma parse_kv_nil : parse_kv [] = {| k_key := []; k_val := []; k_next := false; k_err := PEOF; k_rest := [] |}.
Proof. reflexivity. Qed.

Lemma parse_kv_rest_le s : length (k_rest (parse_kv s)) <= length s.
Proof. destruct s as [|x r]; [cbn; lia|]. pose proof (parse_kv_progress (x :: r) ltac:(discriminate)). lia. Qed.

Lemma parse_kv_err_not_fuel s : k_err (parse_kv s) <> PFuel.
Proof.
  unfold parse_kv. destruct s as [|x0 s0]; [discriminate|].
  destruct (read_to_eq (x0 :: s0)) as [line rest]. destruct rest as [|q tl]; [discriminate|].
  destruct (beqb q DQ).
  - destruct (index_byte DQ tl) as [i|]; [|discriminate].
    destruct (skipn (S i) tl); discriminate.
  - destruct (find_delim (q :: tl)) as [[[|i] semi]|]; discriminate.
Qed.

Lemma drain_total : forall fuel s, length s < fuel ->
  fst (drain fuel s) <> PFuel /\ length (snd (drain fuel s)) <= length s.
Proof.
  induction fuel as [|f IH]; intros s Hf; [lia|]. cbn [drain].
  destruct (k_next (parse_kv s)) eqn:En.
  - destruct s as [|x r]; [discriminate|].
    pose proof (parse_kv_progress (x :: r) ltac:(discriminate)) as Hp.
    destruct (IH (k_rest (parse_kv (x :: r))) ltac:(lia)) as [H1 H2]. split; [exact H1|lia].
  - cbn [fst snd]. split; [apply parse_kv_err_not_fuel|apply parse_kv_rest_le].
Qed.

Lemma parse_one_total s :
  let '(a, e, s') := parse_one s in
  e <> PFuel /\ length s' <= length s /\ (s <> [] -> length s' < length s) /\
  (s = [] -> a = None /\ e = PEOF).
Proof.
  unfold parse_one.
  pose proof (parse_kv_rest_le s) as Hle1.
  pose proof (parse_kv_err_not_fuel s) as Hnf1.
  assert (Hp1 : s <> [] -> length (k_rest (parse_kv s)) < length s) by apply parse_kv_progress.
  assert (Hnil : s = [] -> is_nil (k_key (parse_kv s)) = true /\ k_err (parse_kv s) = PEOF).
  { intros ->. split; reflexivity. }
  set (k1 := parse_kv s) in *.
  destruct (is_nil (k_key k1) || is_nil (k_val k1)) eqn:E1.
  { repeat split; auto. now destruct (Hnil H). }
  assert (Hne : s <> []).
  { intros ->. destruct (Hnil eq_refl) as [Hk _]. rewrite Hk in E1. discriminate. }
  destruct (split_host_port (k_val k1)) as [host port].
  destruct (negb (k_next k1)).
  { repeat split; auto; try (intros; contradiction). }
  pose proof (parse_kv_rest_le (k_rest k1)) as Hle2.
  pose proof (parse_kv_err_not_fuel (k_rest k1)) as Hnf2.
  set (k2 := parse_kv (k_rest k1)) in *.
  specialize (Hp1 Hne).
  destruct (is_nil (k_key k2) || is_nil (k_val k2)).
  { repeat split; auto; try lia; try (intros; contradiction). }
  destruct (negb (bytes_eqb (k_key k2) K_MA)).
  { repeat split; try discriminate; try lia; try (intros; contradiction). }
  destruct (parse_int64 (k_val k2)).
  2:{ repeat split; try discriminate; try lia; try (intros; contradiction). }
  destruct (negb (k_next k2)).
  { repeat split; try discriminate; try lia; try (intros; contradiction). }
  destruct (drain_total (S (length (k_rest k2))) (k_rest k2) ltac:(lia)) as [Hd1 Hd2].
  destruct (drain (S (length (k_rest k2))) (k_rest k2)) as [e s3]. cbn [fst snd] in *.
  repeat split; auto; try lia; try (intros; contradiction).
Qed.

Lemma parse_loop_total : forall fuel s acc, length s < fuel ->
  snd (parse_loop fuel s acc) <> PFuel /\
  length (fst (parse_loop fuel s acc)) <= length acc + length s.
Proof.
  induction fuel as [|f IH]; intros s acc Hf; [lia|]. cbn [parse_loop].
  pose proof (parse_one_total s) as Hp.
  destruct (parse_one s) as [[a e] s']. destruct Hp as (Hnf & Hle & Hlt & Hnil).
  assert (Hacc : forall x : option entry, x = a ->
            length (match x with Some y => y :: acc | None => acc end) <= length acc + (length s - length s') /\
            (a <> None -> s <> [])).
  { intros x ->. destruct a as [y|]; cbn [length].
    - assert (s <> []) by (intros ->; destruct (Hnil eq_refl); discriminate).
      specialize (Hlt H). split; [lia|auto].
    - split; [lia|congruence]. }
  destruct (Hacc a eq_refl) as [Hl _].
  destruct e; cbn [fst snd]; try (split; [discriminate|rewrite rev_length; lia]).
  - (* PNil: loop again; progress because e = PNil excludes the empty buffer *)
    assert (Hs : s <> []) by (intros ->; destruct (Hnil eq_refl); discriminate).
    specialize (Hlt Hs).
    destruct (IH s' (match a with Some x => x :: acc | None => acc end) ltac:(lia)) as [H1 H2].
    split; [exact H1|]. lia.
  - contradiction.
Qed.

(* every header text: the parser terminates with a result or an error, never out of fuel *)
Theorem altsvc_parse_total v : snd (parse_header v) <> PFuel.
Proof. unfold parse_header. apply (parse_loop_total (S (length v)) v []). lia. Qed.

(* ... and never builds more entries than the text has bytes *)
Theorem altsvc_entries_bounded v : length (fst (parse_header v)) <= length v.
Proof.
  unfold parse_header. pose proof (parse_loop_total (S (length v)) v [] ltac:(lia)) as [_ H]. cbn in H. exact H.
Qed.

(* each loop iteration of Parse consumes at least one byte or ends the loop *)
Theorem altsvc_parse_terminates s :
  let '(a, e, s') := parse_one s in
  (e = PNil -> length s' < length s) /\ length s' <= length s.
Proof.
  pose proof (parse_one_total s) as H. destruct (parse_one s) as [[a e] s'].
  destruct H as (_ & Hle & Hlt & Hnil). split; [|exact Hle].
  intros ->. apply Hlt. intros ->. destruct (Hnil eq_refl). discriminate.
Qed.

Theorem altsvc_kv_progress s : s <> [] -> length (k_rest (parse_kv s)) < length s.
Proof. exact (parse_kv_progress s). Qed.
