(* Proofs/LifecycleH3Proofs.v - HTTP/3 request machine (Model/LifecycleH3.v): closed reachable set
   per configuration (re-used connection?, request body?) and code variant (current / pinned). *)
From Coq Require Import List Bool Arith NArith PArith FMapPositive Lia.
From ReqV Require Import Model.Lifecycle Model.LifecycleH3 Proofs.Reach Proofs.LifecycleProofs Proofs.LifecycleH2Proofs.
Import ListNotations.

Definition h3_eq_dec : forall a b : h3, {a = b} + {a <> b}.
Proof. repeat decide equality. Defined.
Definition h3_eqb (a b : h3) : bool := if h3_eq_dec a b then true else false.
Lemma h3_eqb_sound : forall a b, h3_eqb a b = true -> a = b.
Proof. intros a b. unfold h3_eqb. destruct (h3_eq_dec a b); [auto|discriminate]. Qed.

Local Open Scope N_scope.
Definition n_c3 (c : cst3) : N :=
  match c with C3Conn => 0 | C3Send => 1 | C3Wait => 2 | C3Stream => 11
             | C3Ret (CResp b) => 3 + n_bool b | C3Ret (CErr e) => 5 + n_err e end.
Definition n_d3 (d : dial3) : N := match d with D3Ready => 0 | D3Running => 1 | D3Err => 2 end.
Definition n_e3 (e : entry3) : N := match e with E3None => 0 | E3Dialing => 1 | E3Ready => 2 | E3Failed => 3 end.
Definition n_bg (b : bg3) : N := match b with BgNone => 0 | BgRunning => 1 | BgDone => 2 end.
Definition h3_code (s : h3) : positive :=
  N.succ_pos (mix [(n_c3 (c3 s), 12); (n_d3 (d3 s), 3); (n_e3 (e3 s), 4); (n_ocause (ctx3 s), 4);
                   (n_bool (cg3 s), 2); (n_bool (scancel s), 2); (n_bg (bg s), 3);
                   (n_bool (bclosed3 s), 2); (n_bres (pipe3 s), 12); (n_bool (sblocked s), 2)]).
Local Close Scope N_scope.

Definition labels3 : list label3 :=
  [ZConnReady; ZStreamLimit; ZStreamGranted; ZHdrSent; ZBodySent; ZResp true; ZResp false; ZData; ZEnd;
   ZCancel CCanceled; ZCancel CDeadline; ZCancel CTimeout] ++ internals3.

Lemma labels3_all : forall l, In l labels3.
Proof. intros l. unfold labels3, internals3. destruct l as [| | | | |[]| | |[]| | | | | | | | | | |]; cbn; tauto. Qed.

Definition M3 (fx : bool) (c : cfg3) : smap h3 :=
  match explore h3 label3 (step3 fx c) h3_code h3_eqb labels3 400 (init3 c) with
  | Some m => m
  | None => PositiveMap.empty h3
  end.

Lemma M3_closed : forall fx c,
  memM h3 h3_code h3_eqb (init3 c) (M3 fx c) && closedM h3 label3 (step3 fx c) h3_code h3_eqb labels3 (M3 fx c) = true.
Proof. intros [] [[] [] []]; vm_compute; reflexivity. Qed.

Lemma run3_run : forall fx c ls s, run3 fx c s ls = run h3 label3 (step3 fx c) s ls.
Proof. intros fx c ls. induction ls as [|l r IH]; intros s; cbn; [reflexivity|]. destruct (step3 fx c s l); auto. Qed.

Definition reach3 (fx : bool) (c : cfg3) (s : h3) : Prop := exists ls, run3 fx c (init3 c) ls = Some s.

Lemma reach3_in : forall fx c s, reach3 fx c s -> InM h3 s (M3 fx c).
Proof.
  intros fx c s [ls H]. rewrite run3_run in H.
  pose proof (M3_closed fx c) as HC. apply andb_prop in HC as [Hi Hc].
  eapply (reach_sound h3 label3 (step3 fx c) h3_code h3_eqb h3_eqb_sound labels3 labels3_all); eauto.
Qed.

Lemma inv3 : forall fx (P : cfg3 -> h3 -> bool),
  (forall c, allM h3 (P c) (M3 fx c) = true) -> forall c s, reach3 fx c s -> P c s = true.
Proof. intros fx P H c s R. eapply allM_sound; [apply H|apply reach3_in; exact R]. Qed.

Ltac all_c3 := intros [[] [] []]; vm_compute; reflexivity.

Definition enabled3 (c : cfg3) (s : h3) (l : label3) : bool :=
  match step3 true c s l with Some _ => true | None => false end.
Definition returned3 (s : h3) : bool := match c3 s with C3Ret _ => true | _ => false end.
(* settled: the caller has returned, no goroutine can move, and no upload is still in progress
   (an upload that outlives a completely read response is no longer watched by the cancel
   goroutine - it ends when the peer stops reading; see design.d/C08.md) *)
Definition settled3 (c : cfg3) (s : h3) : bool :=
  returned3 s && negb (existsb (enabled3 c s) internals3) && match bg s with BgRunning => false | _ => true end.
Definition ended3 (s : h3) : bool := match ctx3 s with Some _ => true | None => false end.

(* 1. every error is the cause *)
Definition ident3_b (c : cfg3) (s : h3) : bool :=
  match c3 s with C3Ret (CErr e) => is_cause2 e (ctx3 s) | _ => true end &&
  match pipe3 s with BErr e => is_cause2 e (ctx3 s) | _ => true end.
Lemma ident3_all : forall c, allM h3 (ident3_b c) (M3 true c) = true.
Proof. all_c3. Qed.

(* 2. once the context has ended something can always move until the caller has returned *)
Definition progress3_b (c : cfg3) (s : h3) : bool :=
  negb (ended3 s) || returned3 s || existsb (enabled3 c s) internals3.
Lemma progress3_all : forall c, allM h3 (progress3_b c) (M3 true c) = true.
Proof. all_c3. Qed.

(* 3. settled after the context ended: no goroutine of the request is left, the request body is
   closed, the next request is not affected, the stream was cancelled towards the peer unless the
   exchange never opened one or had completed; the outcome is the cause or the response *)
Definition residue3_b (c : cfg3) (s : h3) : bool :=
  negb (ended3 s && settled3 c s) ||
  (negb (cg3 s) &&
   match d3 s with D3Running => false | _ => true end &&
   (negb (c3_body c) || bclosed3 s) && follow_ok true s &&
   match c3 s with
   | C3Ret (CErr e) => is_cause2 e (ctx3 s)
   | C3Ret (CResp b) => match pipe3 s with
                        | BErr e => is_cause2 e (ctx3 s) && scancel s
                        | BEOF => true
                        | BNone => negb b
                        | _ => false
                        end
   | _ => false
   end).
Lemma residue3_all : forall c, allM h3 (residue3_b c) (M3 true c) = true.
Proof. all_c3. Qed.

(* ---------- Prop forms ---------- *)

Theorem h3_errors_identify : forall c s, reach3 true c s ->
  (forall e, c3 s = C3Ret (CErr e) -> exists cs, ctx3 s = Some cs /\ e = ECause cs) /\
  (forall e, pipe3 s = BErr e -> exists cs, ctx3 s = Some cs /\ e = ECause cs).
Proof.
  intros c s R. pose proof (inv3 true ident3_b ident3_all c s R) as H. unfold ident3_b in H.
  apply andb_prop in H as [H1 H2]. split.
  - intros e E. rewrite E in H1. apply is_cause2_spec in H1. exact H1.
  - intros e E. rewrite E in H2. apply is_cause2_spec in H2. exact H2.
Qed.

Theorem h3_cancel_progress : forall c s, reach3 true c s -> ended3 s = true -> returned3 s = false ->
  exists l, In l internals3 /\ step3 true c s l <> None.
Proof.
  intros c s R E NR. pose proof (inv3 true progress3_b progress3_all c s R) as H. unfold progress3_b in H.
  rewrite E, NR in H. cbn [negb orb] in H. apply existsb_exists in H as [l [I X]].
  exists l. split; [exact I|]. unfold enabled3 in X. destruct (step3 true c s l); discriminate.
Qed.

Theorem h3_cancel_anywhere : forall c s, reach3 true c s -> ended3 s = true -> settled3 c s = true ->
  cg3 s = false /\ d3 s <> D3Running /\ (c3_body c = true -> bclosed3 s = true) /\
  follow_ok true s = true /\
  ((exists e cs, c3 s = C3Ret (CErr e) /\ ctx3 s = Some cs /\ e = ECause cs) \/
   (exists b, c3 s = C3Ret (CResp b) /\
      ((exists e cs, pipe3 s = BErr e /\ ctx3 s = Some cs /\ e = ECause cs /\ scancel s = true) \/
       pipe3 s = BEOF \/ (pipe3 s = BNone /\ b = false)))).
Proof.
  intros c s R E S. pose proof (inv3 true residue3_b residue3_all c s R) as H. unfold residue3_b in H.
  rewrite E, S in H. cbn [andb negb orb] in H.
  apply andb_prop in H as [H H6]. apply andb_prop in H as [H H5]. apply andb_prop in H as [H H4].
  apply andb_prop in H as [H1 H3].
  split; [destruct (cg3 s); [discriminate|reflexivity]|].
  split; [destruct (d3 s); congruence|].
  split; [intros B; rewrite B in H4; exact H4|].
  split; [exact H5|].
  destruct (c3 s) as [| | | |[b|e]]; try discriminate.
  - right. exists b. split; [reflexivity|]. destruct (pipe3 s) as [| | | | | |e]; try discriminate.
    + right. right. split; [reflexivity|]. destruct b; [discriminate|reflexivity].
    + right. left. reflexivity.
    + left. apply andb_prop in H6 as [A B]. apply is_cause2_spec in A as [cs [X Y]]. exists e, cs. auto.
  - left. apply is_cause2_spec in H6 as [cs [X Y]]. exists e, cs. auto.
Qed.

(* waiting for a request stream under the peer's stream limit ends with the request's context, the
   request is not sent, its body is closed *)
Theorem h3_stream_wait_interruptible : forall c s cs,
  c3 s = C3Stream -> ctx3 s = Some cs ->
  exists s', step3 true c s LStreamCtx = Some s' /\ c3 s' = C3Ret (CErr (ECause cs)) /\
             scancel s' = scancel s /\ (c3_body c = true -> bclosed3 s' = true).
Proof.
  intros c [a b d x g sc bgs bc p bl] cs H1 H2. cbn in *. subst. eexists. cbn. repeat split.
  intros ->. apply orb_true_r.
Qed.

(* ---- the pinned code ---- *)

(* a request cancelled during the dial leaves the failed dial in the cache: the next request fails *)
Theorem h3_pinned_poisons_next_request :
  exists s, run3 false (mkCfg3 false true false) (init3 (mkCfg3 false true false)) [ZCancel CCanceled; LWaitCtx; LDialCtx] = Some s /\
            follow_ok false s = false /\ bclosed3 s = false /\ c3 s = C3Ret (CErr (ECause CCanceled)).
Proof. eexists. vm_compute. repeat split. Qed.

(* a pending body read fails with an error that is not the cause *)
Theorem h3_pinned_body_error_not_cause :
  exists s, run3 false (mkCfg3 true false false) (init3 (mkCfg3 true false false))
              [LProceed; LStreamOpen; ZHdrSent; ZResp true; ZCancel CDeadline; LCancelG; LBodyFail] = Some s /\
            pipe3 s = BErr EOther.
Proof. eexists. vm_compute. repeat split. Qed.

Example h3_nonvacuous :
  let c := mkCfg3 false true false in
  exists s, run3 true c (init3 c) [ZConnReady; LProceed; LStreamOpen; ZHdrSent; ZCancel CCanceled; LCancelG; LReadFail; LBgFail] = Some s /\
            c3 s = C3Ret (CErr (ECause CCanceled)) /\ settled3 c s = true /\ scancel s = true /\ bclosed3 s = true.
Proof. eexists. vm_compute. repeat split. Qed.
