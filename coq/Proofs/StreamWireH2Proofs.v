(* Proofs/StreamWireH2Proofs.v - C03: HTTP/2 response bodies from the bytes on the connection
   (Model/StreamWire.v h2_wire_events over Model/H2Frame.v read_frames): for every sequence of
   DATA frames as the Framer writes them (any payloads, any padding), EVERY cut offset of the
   connection's byte stream yields the whole frames before the cut followed by "connection
   ended" - so a response cut anywhere before its END_STREAM frame is complete is an error. *)
From ReqV Require Import Lib.Bytes Lib.BytesFacts Lib.BigEndian Gen.H2Consts Model.H2Frame Proofs.H2FrameProofs.
From ReqV Require Model.StreamBody Model.StreamWire Proofs.StreamBodyProofs.
From Coq Require Import Lia ZifyBool ZifyNat ZifyN.
Local Open Scope N_scope.

Record dfr := mkD { d_es : bool; d_data : bytes; d_pad : option bytes }.
Definition d_call (sid : N) (f : dfr) : wcall := WData false sid (d_es f) (d_data f) (d_pad f).

(* the bytes the Framer writes for the frames, each within the reader's frame-size limit *)
Inductive rendered (sid maxr : N) : list dfr -> bytes -> Prop :=
| R_nil : rendered sid maxr [] []
| R_cons f fs b W : run_wcall (d_call sid f) = WOk b -> lenN b - 9 <= maxr ->
    rendered sid maxr fs W -> rendered sid maxr (f :: fs) (b ++ W).

Definition st0 (maxr : N) : rstate := {| rs_last := 0; rs_max := maxr |}.

Lemma data_shape sid f b : sid < 2 ^ 32 -> run_wcall (d_call sid f) = WOk b ->
  exists fl p, b = h2_header_bytes (lenN p) FrameData fl sid ++ p /\ lenN p < 2 ^ 24 /\ fl < 256.
Proof.
  intros Hs W. cbn [d_call run_wcall] in W. unfold write_data in W. cbv zeta in W.
  destruct (negb (valid_sid sid) && negb false); [discriminate|].
  destruct (_ && _) in W; [discriminate|]. destruct (_ && _) in W; [discriminate|].
  match type of W with end_write _ ?fl _ ?p = _ => set (flv := fl) in *; set (pv := p) in * end.
  assert (Hf : flv < 256) by (subst flv; destruct (d_es f), (d_pad f); vm_compute; reflexivity).
  destruct (end_write_read FrameData flv sid pv b {| rs_last := 0; rs_max := lenN pv |} [] W)
    as (Eb & Hl & _); try assumption; [reflexivity|cbn; lia|].
  exists flv, pv. auto.
Qed.

(* a frame cut short (possibly to nothing) is an EOF-class error that ends the read loop *)
Lemma read_frame_cut sid maxr f b j : sid < 2 ^ 32 -> run_wcall (d_call sid f) = WOk b ->
  lenN b - 9 <= maxr -> (j < length b)%nat ->
  exists e, read_frame (st0 maxr) (firstn j b) = (Err e, [], st0 maxr) /\ is_eof_class e = true.
Proof.
  intros Hs W Hm J.
  destruct (data_shape sid f b Hs W) as (fl & p & -> & Hl & Hf).
  destruct (h2_header_roundtrip (lenN p) FrameData fl sid) as [L9 R]; try assumption; [reflexivity|].
  rewrite lenN_app in Hm. replace (lenN (h2_header_bytes (lenN p) FrameData fl sid)) with 9 in Hm by reflexivity.
  rewrite app_length, L9 in J.
  destruct j as [|j]; [exists EEOF; split; reflexivity|].
  destruct (Nat.lt_ge_cases (S j) 9) as [J9|J9].
  - exists EUnexpectedEOF. split; [|reflexivity].
    unfold read_frame.
    destruct (firstn (S j) (h2_header_bytes (lenN p) FrameData fl sid ++ p)) eqn:E.
    { exfalso. assert (L := firstn_length (S j) (h2_header_bytes (lenN p) FrameData fl sid ++ p)).
      rewrite E, app_length, L9 in L. cbn in L. lia. }
    rewrite <- E. 
    destruct (N.ltb_spec (lenN (firstn (S j) (h2_header_bytes (lenN p) FrameData fl sid ++ p))) frameHeaderLen) as [C|C]; [reflexivity|].
    exfalso. unfold frameHeaderLen in C. unfold lenN at 1 in C. rewrite firstn_length, app_length, L9 in C. lia.
  - assert (E : firstn (S j) (h2_header_bytes (lenN p) FrameData fl sid ++ p) =
                h2_header_bytes (lenN p) FrameData fl sid ++ firstn (S j - 9) p).
    { rewrite firstn_app, L9. rewrite firstn_all2 by lia. reflexivity. }
    rewrite E. set (q := firstn (S j - 9) p).
    assert (Lq : (length q = S j - 9)%nat) by (unfold q; rewrite firstn_length; lia).
    remember (h2_header_bytes (lenN p) FrameData fl sid) as hb.
    destruct hb as [|b0 [|b1 [|b2 [|b3 [|b4 [|b5 [|b6 [|b7 [|b8 [|b9 hb]]]]]]]]]]; try discriminate L9.
    unfold read_frame. cbn [app].
    destruct (N.ltb_spec (lenN (b0 :: b1 :: b2 :: b3 :: b4 :: b5 :: b6 :: b7 :: b8 :: q)) frameHeaderLen) as [C|C].
    { unfold lenN, frameHeaderLen in C. cbn [length] in C. lia. }
    cbn [firstn skipn]. rewrite R. cbn [fh_len mkh st0 rs_max].
    destruct (N.ltb_spec maxr (lenN p)); [lia|].
    destruct (N.ltb_spec (lenN q) (lenN p)) as [C2|C2]; [|unfold lenN in C2; lia].
    eexists; split; [reflexivity|]. destruct q; reflexivity.
Qed.

Definition ev_frame (sid : N) (f : dfr) : frame := expected_frame (d_call sid f).

Lemma read_frame_whole sid maxr f b rest : sid < 2 ^ 32 -> run_wcall (d_call sid f) = WOk b ->
  lenN b - 9 <= maxr ->
  read_frame (st0 maxr) (b ++ rest) = (Ok (ev_frame sid f), rest, st0 maxr).
Proof.
  intros Hs W Hm. unfold d_call in *. rewrite (rt_data sid _ _ _ b (st0 maxr) rest Hs W Hm).
  unfold after_ok. reflexivity.
Qed.

Lemma b_len9 sid f b : sid < 2 ^ 32 -> run_wcall (d_call sid f) = WOk b -> (9 <= length b)%nat.
Proof.
  intros Hs W. destruct (data_shape sid f b Hs W) as (fl & p & -> & Hl & Hf).
  rewrite app_length. cbn. lia.
Qed.

(* every cut: the whole frames before it, then an EOF-class error; fewer than all frames
   unless nothing was cut *)
Theorem read_frames_cut : forall sid maxr fs W, sid < 2 ^ 32 -> rendered sid maxr fs W ->
  forall k fuel, (k <= length W)%nat -> (k < fuel)%nat ->
  exists j e, read_frames fuel (st0 maxr) (firstn k W) =
              map (fun f => Ok (ev_frame sid f)) (firstn j fs) ++ [Err e] /\
              is_eof_class e = true /\ (k < length W -> j < length fs)%nat.
Proof.
  intros sid maxr fs W Hs R. induction R as [|f fs b W Wb Hm R IH]; intros k fuel K Fu.
  - cbn in K. assert (k = 0)%nat by lia. subst k. destruct fuel; [lia|].
    exists 0%nat, EEOF. split; [reflexivity|]. split; [reflexivity|cbn; lia].
  - destruct fuel as [|fuel]; [lia|]. rewrite app_length in K.
    destruct (Nat.lt_ge_cases k (length b)) as [Kc|Kw].
    + rewrite firstn_app. replace (k - length b)%nat with 0%nat by lia. cbn [firstn]. rewrite app_nil_r.
      destruct (read_frame_cut sid maxr f b k Hs Wb Hm Kc) as (e & E & Ce).
      exists 0%nat, e. cbn [read_frames firstn map app]. rewrite E. rewrite Ce at 1.
      split; [reflexivity|]. split; [exact Ce|cbn; lia].
    + assert (Ek : firstn k (b ++ W) = b ++ firstn (k - length b) W).
      { rewrite firstn_app, firstn_all2 by lia. reflexivity. }
      rewrite Ek. cbn [read_frames]. rewrite (read_frame_whole sid maxr f b _ Hs Wb Hm).
      pose proof (b_len9 sid f b Hs Wb).
      assert (A1 : (k - length b <= length W)%nat) by lia.
      assert (A2 : (k - length b < fuel)%nat) by lia.
      destruct (IH (k - length b)%nat fuel A1 A2) as (j & e & E & Ce & Hj).
      exists (S j), e. rewrite E. cbn [firstn map app length].
      split; [reflexivity|]. split; [exact Ce|]. intro Hk. rewrite app_length in Hk. assert (j < length fs)%nat by (apply Hj; lia). lia.
Qed.

(* ---------- from frames to the stream's events ---------- *)
Import StreamBody StreamWire StreamBodyProofs.

Definition ev_of (f : dfr) : h2ev := H2Data (d_data f) (d_es f).
Definition h2_body (fs : list dfr) : bytes := concat (map d_data fs).

Lemma data_flag_end es (pad : option bytes) :
  has_flag (N.lor (bflag es FlagDataEndStream)
                  (bflag (match pad with Some _ => true | None => false end) FlagDataPadded))
           FlagDataEndStream = es.
Proof. destruct es, pad; reflexivity. Qed.

Lemma ev_frame_eq sid f : ev_frame sid f =
  FData (mkh (written_len (d_call sid f)) FrameData
             (N.lor (bflag (d_es f) FlagDataEndStream)
                    (bflag (match d_pad f with Some _ => true | None => false end) FlagDataPadded)) (r31 sid))
        (d_data f).
Proof. reflexivity. Qed.

Lemma events_of_whole sid fs e g : 0 < sid < 2147483648 ->
  h2_events_of sid g (map (fun f => Ok (ev_frame sid f)) fs ++ [Err e]) =
  map ev_of fs ++ [if g then H2GoAwayClose else H2ConnEnd].
Proof.
  intros Hs. induction fs as [|f fs IH]; [reflexivity|].
  cbn [map app]. rewrite (ev_frame_eq sid f). cbn [h2_events_of fh_sid fh_flags mkh].
  unfold r31. rewrite N.mod_small by lia. rewrite N.eqb_refl, data_flag_end, IH. reflexivity.
Qed.

Lemma ending_open_then_end fs : Forall (fun f => d_es f = false) fs ->
  h2_ending (map ev_of fs ++ [H2ConnEnd]) = E2ConnEnd /\
  h2_sent (map ev_of fs ++ [H2ConnEnd]) = h2_body fs.
Proof.
  induction 1 as [|f fs Hf _ [IH1 IH2]]; [split; reflexivity|].
  cbn [map app ev_of h2_ending h2_sent]. rewrite Hf. cbn [h2_body map concat].
  rewrite IH1, IH2. split; reflexivity.
Qed.

Lemma firstn_firstn_prefix {A} (l : list A) m j : exists m', firstn m (firstn j l) = firstn m' l.
Proof. exists (Nat.min m j). apply firstn_firstn. Qed.

Lemma h2_body_firstn fs j : exists m, h2_body (firstn j fs) = firstn m (h2_body fs).
Proof.
  revert j. induction fs as [|f fs IH]; intros [|j]; try (exists 0%nat; reflexivity).
  destruct (IH j) as [m Hm]. exists (length (d_data f) + m)%nat.
  cbn [firstn h2_body map concat]. fold (h2_body (firstn j fs)). fold (h2_body fs). rewrite Hm.
  apply app_firstn_r.
Qed.

(* every cut of a response's DATA frames (none of them but the last carries END_STREAM) strictly
   before the end of the last frame: the stream's events end in "connection ended", reading the
   body is an error - with any declared length or none - after a prefix of the body *)
Theorem h2_wire_truncation_detected_thm : forall sid maxr fs last W k cl,
  0 < sid < 2147483648 -> rendered sid maxr (fs ++ [last]) W ->
  Forall (fun f => d_es f = false) fs -> (k < length W)%nat ->
  let evs := h2_wire_events sid maxr (firstn k W) in
  h2_ending evs = E2ConnEnd /\
  snd (h2_read cl false evs) <> H2Clean /\ snd (h2_read cl false evs) <> H2Pending /\
  exists m, fst (h2_read cl false evs) = firstn m (h2_body (fs ++ [last])).
Proof.
  intros sid maxr fs last W k cl Hs R Hes K. cbv zeta. unfold h2_wire_events.
  assert (Hs32 : sid < 2 ^ 32) by (change (2 ^ 32) with 4294967296; lia).
  destruct (read_frames_cut sid maxr _ W Hs32 R k (S (length (firstn k W))))
    as (j & e & E & Ce & Hj); [lia|rewrite firstn_length; lia|].
  change {| rs_last := 0; rs_max := maxr |} with (st0 maxr). rewrite E.
  rewrite events_of_whole by assumption.
  specialize (Hj K). rewrite app_length in Hj. cbn [length] in Hj.
  assert (Ej : firstn j (fs ++ [last]) = firstn j fs).
  { rewrite firstn_app. replace (j - length fs)%nat with 0%nat by lia. cbn. apply app_nil_r. }
  rewrite Ej.
  assert (Hes' : Forall (fun f => d_es f = false) (firstn j fs)).
  { clear -Hes. revert j. induction Hes; intros [|j]; cbn [firstn]; constructor; auto. }
  destruct (ending_open_then_end _ Hes') as [He Hsent].
  split; [exact He|].
  destruct (h2_abnormal_end_thm cl _ (or_intror (or_intror He))) as [H1 H2].
  split; [exact H1|]. split; [exact H2|].
  destruct (h2_delivered_prefix_thm cl (map ev_of (firstn j fs) ++ [H2ConnEnd])) as [m [Hm _]].
  rewrite Hm, Hsent. rewrite <- Ej.
  destruct (h2_body_firstn (fs ++ [last]) j) as [m2 ->].
  apply firstn_firstn_prefix.
Qed.

(* the complete response reads back exactly *)
Theorem h2_wire_complete_thm : forall sid maxr fs last W cl,
  0 < sid < 2147483648 -> rendered sid maxr (fs ++ [last]) W ->
  Forall (fun f => d_es f = false) fs -> d_es last = true ->
  cl = None \/ cl = Some (lenN (h2_body (fs ++ [last]))) ->
  h2_read cl false (h2_wire_events sid maxr W) = (h2_body (fs ++ [last]), H2Clean).
Proof.
  intros sid maxr fs last W cl Hs R Hes Hl Hcl. unfold h2_wire_events.
  assert (Hs32 : sid < 2 ^ 32) by (change (2 ^ 32) with 4294967296; lia).
  destruct (read_frames_cut sid maxr _ W Hs32 R (length W) (S (length W)))
    as (j & e & E & Ce & _); [lia|lia|].
  rewrite firstn_all in E.
  (* all frames are whole: j covers the list *)
  assert (Hall : exists e', read_frames (S (length W)) (st0 maxr) W =
                 map (fun f => Ok (ev_frame sid f)) (fs ++ [last]) ++ [Err e']).
  { clear E Ce j e. revert R. generalize (fs ++ [last]). intros l R.
    assert (G : forall fuel, (length W < fuel)%nat ->
              exists e', read_frames fuel (st0 maxr) W = map (fun f => Ok (ev_frame sid f)) l ++ [Err e']).
    { induction R as [|f l b W Wb Hm R IH]; intros fuel Fu.
      - destruct fuel; [lia|]. exists EEOF. reflexivity.
      - destruct fuel; [lia|]. cbn [read_frames]. rewrite (read_frame_whole sid maxr f b _ Hs32 Wb Hm).
        rewrite app_length in Fu. pose proof (b_len9 sid f b Hs32 Wb).
        destruct (IH fuel ltac:(lia)) as [e' ->]. exists e'. reflexivity. }
    apply G. lia. }
  destruct Hall as [e' Ea]. change {| rs_last := 0; rs_max := maxr |} with (st0 maxr).
  rewrite Ea, events_of_whole by assumption.
  apply h2_clean_iff_thm.
  assert (Hx : h2_ending (map ev_of (fs ++ [last]) ++ [H2ConnEnd]) = E2EndStream /\
               h2_sent (map ev_of (fs ++ [last]) ++ [H2ConnEnd]) = h2_body (fs ++ [last])).
  { clear -Hes Hl. induction Hes as [|f fs Hf _ [IH1 IH2]].
    - cbn. rewrite Hl. cbn. rewrite app_nil_r. split; reflexivity.
    - cbn [map app ev_of h2_ending h2_sent]. rewrite Hf. cbn [h2_body map concat].
      fold (h2_body (fs ++ [last])). rewrite <- IH2. split; [exact IH1|reflexivity]. }
  destruct Hx as [Hx1 Hx2]. rewrite Hx2. repeat split; auto.
Qed.
