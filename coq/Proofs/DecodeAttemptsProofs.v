(* Proofs/DecodeAttemptsProofs.v - every attempt of a request is a first attempt (C14). *)
From ReqV Require Import Lib.Bytes Model.Decode Model.DecodeAttempts Proofs.DecodeProofs.

(* any number of attempts: each one asks (or not) and sends exactly what the first one does, and the
   caller's request is what it was *)
Lemma attempts_stable st : forall n c,
  run_attempts (attempt st) n c = (repeat (asked_gzip st c, sent_accept_encoding st c) n, c).
Proof.
  induction n as [|n IH]; intros c; [reflexivity|].
  cbn [run_attempts attempt repeat]. now rewrite IH.
Qed.

(* hence the answer to attempt k is treated like the answer to a first attempt *)
Lemma attempts_respond st n c auto ended r :
  respond st (snd (run_attempts (attempt st) n c)) auto ended r = respond st c auto ended r.
Proof. now rewrite attempts_stable. Qed.

(* writing the field into the caller's header map: the second attempt believes the caller asked for
   gzip, does not ask itself, and its gzip answer is handed out undecoded *)
Definition c_default : reqcfg := {| q_disable := false; q_ae := []; q_range := []; q_head := false |}.
Definition r_gzip : resp :=
  {| r_ce := [bs "gzip"]; r_clh := [bs "4"]; r_other := []; r_cl := 4%Z; r_unc := false;
     r_body := Raw (bs "zzzz"); r_short := false |}.

Lemma own_header_refuted :
  fst (run_attempts (attempt_own_header H1) 2 c_default) = [(true, bs "gzip"); (false, bs "gzip")] /\
  snd (run_attempts (attempt_own_header H1) 1 c_default) <> c_default /\
  respond H1 (snd (run_attempts (attempt_own_header H1) 1 c_default)) false false r_gzip = r_gzip /\
  r_body (respond H1 (snd (run_attempts (attempt H1) 1 c_default)) false false r_gzip) = Lazy Gzip (bs "zzzz").
Proof. vm_compute. repeat split. discriminate. Qed.

(* ---------- read off the source (Gen/DecodeSites.v, regenerated on every run) ---------- *)
From ReqV Require Import Gen.DecodeSites.

(* the only Accept-Encoding the three stacks ever write into a header map goes into the per-attempt
   extra headers of the HTTP/1 round trip - `attempt` leaves the caller's request alone *)
Lemma accept_encoding_written_per_attempt :
  accept_encoding_header_writes = [(bs "transport.go", bs "roundTrip", bs "req.extraHeaders()")].
Proof. reflexivity. Qed.

(* http2: the length check of the framing-level body is armed once, from the declared length, in
   handleResponse and only counted down in Read - `rewrite` keeps r_short *)
Lemma h2_length_check_armed_once :
  h2_bytes_remain_assignments =
  [(bs "handleResponse", bs "=", bs "bodyLength"); (bs "Read", bs "-=", bs "int64(n)")].
Proof. reflexivity. Qed.
