(* Proofs/H1SyncProofs.v - C04: the tables and literals of the fork's textproto_reader.go /
   transfer.go / transport.go, regenerated from /repo's source by `harness/c04 gosync` into
   Gen/H1Tables.v on every run, are the ones Model/H1Resp.v and Model/H1Conn.v use.  A change
   of any of them in /repo breaks one of these proofs. *)
From ReqV Require Import Lib.Bytes Lib.BytesFacts Model.H1Resp Model.H1Conn.
From ReqV Require Gen.H1Tables.
From Coq Require Import Lia ZifyBool.

(* validHeaderValueByte's 128-bit bitmap, evaluated for every byte *)
Theorem value_byte_table_agrees : forall b,
  valid_value_byte b = existsb (N.eqb (bN b)) Gen.H1Tables.fork_value_byte_table.
Proof. destruct b; vm_compute; reflexivity. Qed.

Definition in_ranges (code : Z) (rs : list (Z * Z)) : bool :=
  existsb (fun p => (fst p <=? code)%Z && (code <=? snd p)%Z) rs.

(* bodyAllowedForStatus, for EVERY integer status *)
Theorem bodiless_ranges_agree : forall code,
  body_allowed_for_status code = negb (in_ranges code Gen.H1Tables.fork_bodiless_ranges).
Proof.
  intros code. unfold body_allowed_for_status, in_ranges, Gen.H1Tables.fork_bodiless_ranges.
  cbn [existsb fst snd]. f_equal.
  destruct (Z.leb_spec 100 code), (Z.leb_spec code 199), (Z.eqb_spec code 204), (Z.eqb_spec code 304),
    (Z.leb_spec 204 code), (Z.leb_spec code 204), (Z.leb_spec 304 code), (Z.leb_spec code 304);
    cbn; try reflexivity; exfalso; lia.
Qed.

(* fixLength's own status tests (`status/100 == 1`, `case 204, 304`) *)
Theorem fixlength_codes_agree :
  Gen.H1Tables.fork_fixlength_class = 1%Z /\ Gen.H1Tables.fork_fixlength_codes = [204; 304]%Z.
Proof. vm_compute. split; reflexivity. Qed.

Definition nbytes (s : bytes) : list N := map bN s.

Theorem transfer_literals_agree :
  Gen.H1Tables.fork_no_body_method = nbytes (bs "HEAD") /\
  Gen.H1Tables.fork_te_accepted = nbytes (bs "chunked") /\
  Gen.H1Tables.fork_cl_base = 10%Z /\ Gen.H1Tables.fork_cl_bits = 63%Z /\
  Gen.H1Tables.fork_bad_trailer_keys = map nbytes [K_TE; K_TRAILER; K_CL] /\
  Gen.H1Tables.fork_connection_tokens = map nbytes [bs "close"; bs "keep-alive"] /\
  Gen.H1Tables.fork_max_1xx = Z.of_nat max_1xx_responses /\
  Gen.H1Tables.fork_mime_error_limit = 80%Z.
Proof. vm_compute. repeat split. Qed.

(* readLoop's keep-alive decision: the status bound below which a terminal response ends the
   connection, and both `pc.br.Buffered() == 0` guards (bodiless branch, body-EOF branch) *)
Theorem readloop_decision_agrees :
  Gen.H1Tables.fork_no_reuse_status_bound = no_reuse_status_bound /\
  Gen.H1Tables.fork_buffer_guards = 2%Z.
Proof. vm_compute. split; reflexivity. Qed.
