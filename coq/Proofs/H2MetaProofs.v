(* Proofs/H2MetaProofs.v - what a MetaHeadersFrame delivered by readMetaFrame is guaranteed to contain *)
From Coq Require Import Lia ZifyBool ZifyNat ZifyN.
From ReqV Require Import Lib.Bytes Lib.BigEndian Model.H2Frame Model.H3Frame Model.H2Meta.
Open Scope N_scope.

Definition hfield_ok (f : hfield) : Prop :=
  valid_field_value (snd f) = true /\ (is_pseudo (fst f) = true \/ valid_wire_name (fst f) = true).
Definition list_size (fs : list hfield) : N := fold_right (fun f a => hf_size f + a) 0 fs.

Definition minv (mx : N) (st : mstate) : Prop :=
  Forall hfield_ok (ms_fields st) /\ list_size (ms_fields st) + ms_remain st <= mx.

Lemma list_size_app a b : list_size (a ++ b) = list_size a + list_size b.
Proof. induction a as [|x a IH]; cbn [app list_size fold_right]; [reflexivity|]. fold (list_size (a ++ b)). fold (list_size a). lia. Qed.

Lemma meta_emit_inv mx st f : minv mx st -> minv mx (meta_emit st f).
Proof.
  intros [FA SZ]. unfold meta_emit.
  destruct (ms_emit st); cbn [negb]; [|split; assumption].
  destruct (ms_invalid st || negb (valid_field_value (snd f)) ||
            (if is_pseudo (fst f) then ms_regular st else negb (valid_wire_name (fst f)))) eqn:INV.
  - split; cbn [ms_fields ms_remain]; assumption.
  - destruct (N.ltb_spec (ms_remain st) (hf_size f)).
    + split; cbn [ms_fields ms_remain]; [assumption|lia].
    + split; cbn [ms_fields ms_remain].
      * apply Forall_app. split; [assumption|]. constructor; [|constructor].
        apply Bool.orb_false_iff in INV. destruct INV as [INV1 INV3]. apply Bool.orb_false_iff in INV1. destruct INV1 as [_ INV2].
        apply Bool.negb_false_iff in INV2. split; [exact INV2|].
        destruct (is_pseudo (fst f)); [left; reflexivity|right; apply Bool.negb_false_iff; exact INV3].
      * rewrite list_size_app. cbn [list_size fold_right]. lia.
Qed.

Lemma fold_emit_inv mx fs : forall st, minv mx st -> minv mx (fold_left meta_emit fs st).
Proof. induction fs as [|f fs IH]; intros st I; [exact I|]. cbn [fold_left]. apply IH. apply meta_emit_inv. exact I. Qed.

Lemma meta_frags_inv mx frags : forall st st', minv mx st -> meta_frags st frags = Ok st' -> minv mx st'.
Proof.
  induction frags as [|[len fs] frags IH]; intros st st' I H.
  - cbn in H. inversion H; subst. exact I.
  - cbn [meta_frags] in H. destruct ((2 * ms_remain st) mod 2 ^ 32 <? len); [discriminate|].
    destruct (ms_invalid st); [discriminate|]. eapply IH; [|exact H]. apply fold_emit_inv. exact I.
Qed.

(* a delivered merged header list: every value free of control characters, every regular name a
   lower-case token, the pseudo-header fields known / not repeated / not mixing request and
   response, and the list within MaxHeaderListSize (RFC 7541 §4.1 sizes) - truncated or not *)
Theorem h2_meta_delivered_sound mx sid frags fields trunc :
  h2_meta mx sid frags = MOk fields trunc ->
  Forall hfield_ok fields /\ check_pseudos fields = true /\ list_size fields <= mx.
Proof.
  unfold h2_meta. set (st0 := {| ms_remain := mx; ms_regular := false; ms_invalid := false; ms_emit := true;
                                 ms_trunc := false; ms_fields := [] |}).
  destruct (meta_frags st0 frags) as [st|e] eqn:M; [|discriminate].
  destruct (ms_invalid st); [discriminate|]. destruct (check_pseudos (ms_fields st)) eqn:C; [|discriminate].
  cbn [negb]. intro H. inversion H; subst.
  assert (I0 : minv mx st0) by (split; [constructor|cbn; lia]).
  destruct (meta_frags_inv mx frags st0 st I0 M) as [FA SZ]. repeat split; [exact FA|exact C|lia].
Qed.
