(* Proofs/H2MetaProofs.v - what a MetaHeadersFrame delivered by readMetaFrame is guaranteed to contain *)
From Coq Require Import Lia ZifyBool ZifyNat ZifyN.
From ReqV Require Import Lib.Bytes Lib.BigEndian Model.H2Frame Model.H3Frame Model.H2Meta.
Open Scope N_scope.

Definition hfield_ok (f : hfield) : Prop :=
  valid_field_value (snd f) = true /\ (is_pseudo (fst f) = true \/ valid_wire_name (fst f) = true).
Definition list_size (fs : list hfield) : N := fold_right (fun f a => hf_size f + a) 0 fs.

Definition minv (mx : N) (st : mstate) : Prop :=
  Forall hfield_ok (ms_fields st) /\ list_size (ms_fields st) + ms_remain st <= mx.

Lemma list_size_app a b : list_size (a ++ b) = list_size a + list_size b.
Proof. induction a as [|x a IH]; cbn [app list_size fold_right]; [reflexivity|]. fold (list_size (a ++ b)). fold (list_size a). lia. Qed.

Lemma meta_emit_inv mx st f : minv mx st -> minv mx (meta_emit st f).
Proof.
  intros [FA SZ]. unfold meta_emit.
  destruct (ms_emit st); cbn [negb]; [|split; assumption].
  destruct (ms_invalid st || negb (valid_field_value (snd f)) ||
            (if is_pseudo (fst f) then ms_regular st else negb (valid_wire_name (fst f)))) eqn:INV.
  - split; cbn [ms_fields ms_remain]; assumption.
  - destruct (N.ltb_spec (ms_remain st) (hf_size f)).
    + split; cbn [ms_fields ms_remain]; [assumption|lia].
    + split; cbn [ms_fields ms_remain].
      * apply Forall_app. split; [assumption|]. constructor; [|constructor].
        apply Bool.orb_false_iff in INV. destruct INV as [INV1 INV3]. apply Bool.orb_false_iff in INV1. destruct INV1 as [_ INV2].
        apply Bool.negb_false_iff in INV2. split; [exact INV2|].
        destruct (is_pseudo (fst f)); [left; reflexivity|right; apply Bool.negb_false_iff; exact INV3].
      * rewrite list_size_app. cbn [list_size fold_right]. lia.
Qed.

Lemma fold_emit_inv mx fs : forall st, minv mx st -> minv mx (fold_left meta_emit fs st).
Proof. induction fs as [|f fs IH]; intros st I; [exact I|]. cbn [fold_left]. apply IH. apply meta_emit_inv. exact I. Qed.

Lemma meta_frags_inv mx frags : forall st st', minv mx st -> meta_frags st frags = Ok st' -> minv mx st'.
Proof.
  induction frags as [|[len fs] frags IH]; intros st st' I H.
  - cbn in H. inversion H; subst. exact I.
  - cbn [meta_frags] in H. destruct ((2 * ms_remain st) mod 2 ^ 32 <? len); [discriminate|].
    destruct (ms_invalid st); [discriminate|]. eapply IH; [|exact H]. apply fold_emit_inv. exact I.
Qed.

(* a delivered merged header list: every value free of control characters, every regular name a
   lower-case token, the pseudo-header fields known / not repeated / not mixing request and
   response, and the list within MaxHeaderListSize (RFC 7541 §4.1 sizes) - truncated or not *)
Theorem h2_meta_delivered_sound mx sid frags fields trunc :
  h2_meta mx sid frags = MOk fields trunc ->
  Forall hfield_ok fields /\ check_pseudos fields = true /\ list_size fields <= mx.
Proof.
  unfold h2_meta. set (st0 := {| ms_remain := mx; ms_regular := false; ms_invalid := false; ms_emit := true;
                                 ms_trunc := false; ms_fields := [] |}).
  destruct (meta_frags st0 frags) as [st|e] eqn:M; [|discriminate].
  destruct (ms_invalid st); [discriminate|]. destruct (check_pseudos (ms_fields st)) eqn:C; [|discriminate].
  cbn [negb]. intro H. inversion H; subst.
  assert (I0 : minv mx st0) by (split; [constructor|cbn; lia]).
  destruct (meta_frags_inv mx frags st0 st I0 M) as [FA SZ]. repeat split; [exact FA|exact C|lia].
Qed.

(* ---------- refusals: only two classes ---------- *)
Lemma meta_frags_err frags : forall st e, meta_frags st frags = Err e -> e = EConn ErrCodeProtocol.
Proof.
  induction frags as [|[len fs] frags IH]; intros st e H; [discriminate|].
  cbn [meta_frags] in H. destruct ((2 * ms_remain st) mod 2 ^ 32 <? len); [inversion H; reflexivity|].
  destruct (ms_invalid st); [inversion H; reflexivity|]. eapply IH. exact H.
Qed.

(* a refused header block is a connection PROTOCOL_ERROR (oversized fragment, or a CONTINUATION after
   an invalid field) or a stream PROTOCOL_ERROR on the block's own stream (invalid field / pseudo-header
   misuse seen by the end of the block); COMPRESSION_ERROR can only come from HPACK itself *)
Theorem h2_meta_error_classes mx sid frags e : h2_meta mx sid frags = MErr e ->
  e = EConn ErrCodeProtocol \/ e = EStream sid ErrCodeProtocol.
Proof.
  unfold h2_meta. destruct (meta_frags _ frags) as [st|e'] eqn:M.
  - destruct (ms_invalid st); [intro H; inversion H; right; reflexivity|].
    destruct (negb (check_pseudos (ms_fields st))); intro H; inversion H. right. reflexivity.
  - intro H. inversion H; subst. left. eapply meta_frags_err. exact M.
Qed.

(* ---------- well-formed blocks within the limits are delivered whole ---------- *)
(* no pseudo-header field after a regular one, relative to "a regular field was already seen" *)
Fixpoint pseudo_first_from (reg : bool) (fs : list hfield) : Prop :=
  match fs with
  | [] => True
  | f :: r => (is_pseudo (fst f) = true -> reg = false) /\ pseudo_first_from (reg || negb (is_pseudo (fst f))) r
  end.
Fixpoint regular_after (reg : bool) (fs : list hfield) : bool :=
  match fs with [] => reg | f :: r => regular_after (reg || negb (is_pseudo (fst f))) r end.

(* the clean state of the callback *)
Definition clean (st : mstate) : Prop := ms_emit st = true /\ ms_invalid st = false /\ ms_trunc st = false.

Lemma fold_emit_clean fs : forall st,
  clean st -> Forall hfield_ok fs -> pseudo_first_from (ms_regular st) fs -> list_size fs <= ms_remain st ->
  let st' := fold_left meta_emit fs st in
  clean st' /\ ms_fields st' = ms_fields st ++ fs /\ ms_remain st' = ms_remain st - list_size fs /\
  ms_regular st' = regular_after (ms_regular st) fs.
Proof.
  induction fs as [|f fs IH]; intros st C FA PF SZ; cbn [fold_left].
  - cbn. rewrite app_nil_r. repeat split; try apply C. cbn [list_size fold_right]. lia.
  - destruct C as (E & I & T). inversion FA as [|? ? [V N] FA']; subst. destruct PF as [P1 PF'].
    cbn [list_size fold_right] in SZ. fold (list_size fs) in SZ.
    assert (STEP : meta_emit st f =
      {| ms_remain := ms_remain st - hf_size f; ms_regular := ms_regular st || negb (is_pseudo (fst f));
         ms_invalid := false; ms_emit := true; ms_trunc := ms_trunc st; ms_fields := ms_fields st ++ [f] |}).
    { unfold meta_emit. rewrite E, I, V. cbn [negb orb].
      assert (X : (if is_pseudo (fst f) then ms_regular st else negb (valid_wire_name (fst f))) = false).
      { destruct (is_pseudo (fst f)) eqn:P; [apply P1; reflexivity|]. destruct N as [N|N]; [discriminate|]. rewrite N. reflexivity. }
      rewrite X. destruct (N.ltb_spec (ms_remain st) (hf_size f)); [lia|reflexivity]. }
    rewrite STEP.
    specialize (IH {| ms_remain := ms_remain st - hf_size f; ms_regular := ms_regular st || negb (is_pseudo (fst f));
         ms_invalid := false; ms_emit := true; ms_trunc := ms_trunc st; ms_fields := ms_fields st ++ [f] |}).
    cbn [ms_remain ms_regular ms_fields] in IH.
    destruct IH as (C' & F' & R' & G'); [repeat split; assumption|exact FA'|exact PF'|lia|].
    repeat split; try apply C'.
    + rewrite F', <- app_assoc. reflexivity.
    + rewrite R'. cbn [list_size fold_right]. fold (list_size fs). lia.
    + rewrite G'. reflexivity.
Qed.

(* every fragment passes the size guard: its length is at most twice what is left of the limit when
   it arrives (the guard is there to refuse blocks that "exceed the limit by too much") *)
Fixpoint frag_lens_ok (remain : N) (frags : list (N * list hfield)) : Prop :=
  match frags with
  | [] => True
  | (len, fs) :: r => len <= 2 * remain /\ frag_lens_ok (remain - list_size fs) r
  end.

Definition all_fields (frags : list (N * list hfield)) : list hfield := concat (map snd frags).

Lemma meta_frags_clean frags : forall st,
  clean st -> Forall hfield_ok (all_fields frags) -> pseudo_first_from (ms_regular st) (all_fields frags) ->
  list_size (all_fields frags) <= ms_remain st -> ms_remain st < 2 ^ 31 -> frag_lens_ok (ms_remain st) frags ->
  exists st', meta_frags st frags = Ok st' /\ clean st' /\ ms_fields st' = ms_fields st ++ all_fields frags.
Proof.
  induction frags as [|[len fs] frags IH]; intros st C FA PF SZ LT FL.
  - exists st. cbn. rewrite app_nil_r. repeat split; apply C.
  - unfold all_fields in *. cbn [map concat snd] in *. cbn [frag_lens_ok] in FL. destruct FL as [FL1 FL2].
    apply Forall_app in FA. destruct FA as [FA1 FA2]. rewrite list_size_app in SZ.
    assert (PFs : pseudo_first_from (ms_regular st) fs /\
                  pseudo_first_from (regular_after (ms_regular st) fs) (concat (map snd frags))).
    { clear - PF. revert PF. generalize (ms_regular st). induction fs as [|f fs IHf]; intros b PF; cbn [app pseudo_first_from regular_after] in *; [split; [trivial|exact PF]|].
      destruct PF as [P1 P2]. destruct (IHf _ P2) as [A B]. repeat split; assumption. }
    destruct PFs as [PF1 PF2].
    destruct (fold_emit_clean fs st C FA1 PF1) as (C' & F' & R' & G'); [lia|].
    cbn [meta_frags]. rewrite N.mod_small by (change (2 ^ 32) with 4294967296; change (2 ^ 31) with 2147483648 in LT; lia).
    destruct (N.ltb_spec (2 * ms_remain st) len); [lia|]. destruct C as (E & I & T). rewrite I.
    destruct (IH (fold_left meta_emit fs st)) as (st' & M & C'' & F''); try assumption.
    + rewrite G'. exact PF2.
    + rewrite R'. lia.
    + rewrite R'. lia.
    + rewrite R'. exact FL2.
    + exists st'. repeat split; try apply C''; [exact M|]. rewrite F'', F', <- app_assoc. reflexivity.
Qed.

(* a header block whose fields are all valid, with the pseudo-header fields first and consistent, whose
   list size is within MaxHeaderListSize (< 2^31) and whose fragments pass the size guard is delivered
   complete and untruncated, however it is cut into HEADERS + CONTINUATION frames *)
Theorem h2_meta_wellformed_delivered mx sid frags :
  let fields := all_fields frags in
  Forall hfield_ok fields -> pseudo_first_from false fields -> check_pseudos fields = true ->
  list_size fields <= mx -> mx < 2 ^ 31 -> frag_lens_ok mx frags ->
  h2_meta mx sid frags = MOk fields false.
Proof.
  cbv zeta. intros FA PF CP SZ LT FL. unfold h2_meta.
  set (st0 := {| ms_remain := mx; ms_regular := false; ms_invalid := false; ms_emit := true; ms_trunc := false; ms_fields := [] |}).
  destruct (meta_frags_clean frags st0) as (st' & M & (E & I & T) & F); try assumption; [repeat split|].
  rewrite M, I, F. cbn [app ms_fields st0]. rewrite CP. cbn [negb]. rewrite T. reflexivity.
Qed.

(* ---------- sequences of header blocks on one connection: nothing carries over ---------- *)
Lemma h2_meta_run_true mx sid frags : fst (h2_meta_run true mx sid frags) = h2_meta mx sid frags.
Proof. unfold h2_meta_run, h2_meta. destruct (meta_frags _ frags); reflexivity. Qed.

(* what one block yields does not depend on the flag the previous block left in the decoder *)
Theorem h2_meta_block_independent e1 e2 mx sid frags :
  fst (h2_meta_from e1 mx sid frags) = fst (h2_meta_from e2 mx sid frags) /\
  fst (h2_meta_from e1 mx sid frags) = h2_meta mx sid frags.
Proof. split; [reflexivity|apply h2_meta_run_true]. Qed.

(* so a sequence read through one Framer is block by block what each block alone gives, up to the
   first connection error - whatever was rejected or truncated before *)
Definition is_conn_err (r : meta_res) : bool := match r with MErr (EConn _) => true | _ => false end.
Fixpoint until_conn_err (l : list meta_res) : list meta_res :=
  match l with [] => [] | r :: t => r :: if is_conn_err r then [] else until_conn_err t end.

Lemma meta_run_none_iff e mx sid frags :
  snd (h2_meta_run e mx sid frags) = None <-> is_conn_err (fst (h2_meta_run e mx sid frags)) = true.
Proof.
  unfold h2_meta_run. destruct (meta_frags _ frags) as [st|err] eqn:M.
  - cbn [fst snd]. split; [discriminate|]. destruct (ms_invalid st); [discriminate|].
    destruct (negb (check_pseudos (ms_fields st))); discriminate.
  - cbn [fst snd is_conn_err]. apply meta_frags_err in M. subst. split; reflexivity.
Qed.

Theorem h2_meta_seq_independent mx blocks : forall e,
  h2_meta_seq e mx blocks = until_conn_err (map (fun b => h2_meta mx (fst b) (snd b)) blocks).
Proof.
  induction blocks as [|[sid frags] blocks IH]; intro e; [reflexivity|].
  unfold h2_meta_seq in *. cbn [h2_meta_seq_with map until_conn_err fst snd].
  unfold h2_meta_from at 1.
  pose proof (h2_meta_run_true mx sid frags) as R. pose proof (meta_run_none_iff true mx sid frags) as NI.
  destruct (h2_meta_run true mx sid frags) as [res e'] eqn:RUN. cbn [fst snd] in *. subst res. f_equal.
  destruct e' as [e'|].
  - destruct (is_conn_err (h2_meta mx sid frags)) eqn:C; [destruct NI as [_ NI]; specialize (NI eq_refl); discriminate|].
    apply IH.
  - destruct NI as [NI _]. rewrite (NI eq_refl). reflexivity.
Qed.

(* without the re-enabling line a rejected block poisons the connection: the valid response that
   follows it is delivered with an empty field list *)
Theorem h2_meta_noreset_refuted :
  let bad := (1, [(10, [(bs ":status", bs "200"); (bs "X-Upper", bs "v")])]) in
  let good := (3, [(10, [(bs ":status", bs "200"); (bs "server", bs "x")])]) in
  h2_meta_seq true 65536 [bad; good] =
    [MErr (EStream 1 ErrCodeProtocol); MOk [(bs ":status", bs "200"); (bs "server", bs "x")] false] /\
  h2_meta_seq_with h2_meta_from_noreset true 65536 [bad; good] =
    [MErr (EStream 1 ErrCodeProtocol); MOk [] false].
Proof. cbv zeta. split; vm_compute; reflexivity. Qed.

(* ---------- the decoder is between two blocks whenever the connection lives on ---------- *)
Theorem h2_meta_decoder_always_closed dec mx sid su torn frags r e o :
  h2_meta_run2 true dec mx sid su torn frags = (r, Some (e, o)) -> o = false.
Proof.
  unfold h2_meta_run2. destruct (snd dec && su); [discriminate|].
  destruct (h2_meta_run true mx sid frags) as [r0 [e0|]]; [|discriminate].
  destruct torn; [discriminate|]. intro H. inversion H. reflexivity.
Qed.

(* one block read with the decoder closed: what it yields depends neither on the emit flag left
   behind nor on whether the block opens with a dynamic table size update *)
Definition h2_meta_block (mx : N) (b : N * (bool * bool) * list (N * list hfield)) : meta_res :=
  let '(sid, (su, torn), frags) := b in fst (h2_meta_run2 true (true, false) mx sid su torn frags).

Lemma h2_meta_run2_closed e mx sid su torn frags :
  h2_meta_run2 true (e, false) mx sid su torn frags =
  h2_meta_run2 true (true, false) mx sid false torn frags.
Proof. unfold h2_meta_run2. cbn [snd andb]. reflexivity. Qed.

Theorem h2_meta_seq2_independent mx blocks : forall e,
  h2_meta_seq2 true (e, false) mx blocks = until_conn_err (map (h2_meta_block mx) blocks).
Proof.
  induction blocks as [|[[sid [su torn]] frags] blocks IH]; intro e; [reflexivity|].
  cbn [h2_meta_seq2 map until_conn_err h2_meta_block].
  rewrite (h2_meta_run2_closed e), (h2_meta_run2_closed true mx sid su).
  destruct (h2_meta_run2 true (true, false) mx sid false torn frags) as [res d'] eqn:R. cbn [fst]. f_equal.
  destruct d' as [[e' o]|].
  - pose proof (h2_meta_decoder_always_closed _ _ _ _ _ _ _ _ _ R) as ->.
    assert (C : is_conn_err res = false).
    { unfold h2_meta_run2 in R. cbn [snd andb] in R.
      pose proof (meta_run_none_iff true mx sid frags) as NI.
      destruct (h2_meta_run true mx sid frags) as [r0 [e0|]]; [|discriminate]. cbn [fst snd] in NI.
      destruct torn; [discriminate|]. inversion R; subst.
      destruct (is_conn_err res) eqn:C; [|reflexivity]. destruct NI as [_ NI]. specialize (NI eq_refl). discriminate. }
    rewrite C. apply IH.
  - assert (C : is_conn_err res = true).
    { unfold h2_meta_run2 in R. cbn [snd andb] in R.
      pose proof (meta_run_none_iff true mx sid frags) as NI.
      destruct (h2_meta_run true mx sid frags) as [r0 [e0|]]; cbn [fst snd] in NI.
      - destruct torn; [inversion R; reflexivity|discriminate].
      - inversion R; subst. apply NI. reflexivity. }
    rewrite C. reflexivity.
Qed.

(* returning the malformed-field stream error before hdec.Close() leaves the decoder in mid-block:
   the valid block that follows, opening with a dynamic table size update, kills the connection *)
Theorem h2_meta_close_after_invalid_refuted :
  let bad := (1, (false, false), [(10, [(bs ":status", bs "200"); (bs "X-Upper", bs "v")])]) in
  let good := (3, (true, false), [(10, [(bs ":status", bs "200"); (bs "server", bs "x")])]) in
  h2_meta_seq2 true (true, false) 65536 [bad; good] =
    [MErr (EStream 1 ErrCodeProtocol); MOk [(bs ":status", bs "200"); (bs "server", bs "x")] false] /\
  h2_meta_seq2 false (true, false) 65536 [bad; good] =
    [MErr (EStream 1 ErrCodeProtocol); MErr (EConn ErrCodeCompression)].
Proof. cbv zeta. split; vm_compute; reflexivity. Qed.

(* ---------- ErrorDetail is per frame ---------- *)
Lemma read_event_detail_irrelevant dec d1 d2 mx ev :
  read_event true dec d1 mx ev = read_event true dec d2 mx ev.
Proof. destruct ev; reflexivity. Qed.

(* over every sequence of header blocks and refused frames: what ErrorDetail() says after each
   ReadFrame does not depend on what an earlier call left behind *)
Theorem h2_error_detail_per_frame mx evs : forall dec d1 d2,
  read_events true dec d1 mx evs = read_events true dec d2 mx evs.
Proof.
  induction evs as [|ev evs IH]; intros dec d1 d2; [reflexivity|].
  cbn [read_events]. rewrite (read_event_detail_irrelevant dec d1 d2). reflexivity.
Qed.

(* a frame the frame parser refuses never has a detail; a header block has one iff it ends in a stream error *)
Theorem h2_error_detail_spec dec d mx ev o st : read_event true dec d mx ev = (o, st) ->
  snd o = match ev, fst o with
          | EvRejected _, _ => false
          | EvBlock _ _ _ _, MErr (EStream _ _) => true
          | EvBlock _ _ _ _, _ => false
          end.
Proof.
  destruct ev as [sid su torn frags|sid]; cbn [read_event].
  - destruct (h2_meta_run2 true dec mx sid su torn frags) as [res dec']. intro H. inversion H; subst. cbn.
    destruct res as [|[]]; reflexivity.
  - intro H. inversion H; subst. reflexivity.
Qed.

(* with the reset moved into checkFrameOrder, the refused frame that follows a malformed block
   inherits its detail *)
Theorem h2_error_detail_reset_late_refuted :
  let bad := EvBlock 1 false false [(10, [(bs ":status", bs "200"); (bs "X-Upper", bs "v")])] in
  read_events true (true, false) false 65536 [bad; EvRejected 3] =
    [(MErr (EStream 1 ErrCodeProtocol), true); (MErr (EStream 3 ErrCodeProtocol), false)] /\
  read_events false (true, false) false 65536 [bad; EvRejected 3] =
    [(MErr (EStream 1 ErrCodeProtocol), true); (MErr (EStream 3 ErrCodeProtocol), true)].
Proof. cbv zeta. split; vm_compute; reflexivity. Qed.
