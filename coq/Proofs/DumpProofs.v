(* Proofs/DumpProofs.v - C13 lemmas: routing / exactly-once / silence over run_hooks, the
   asynchronous queue, and the response-header line reader. *)
From Coq Require Import Lia.
From ReqV Require Import Lib.Bytes Lib.BytesFacts Model.Dump Model.DumpReader.

(* ---------- content ---------- *)
Lemma content_app i w a b : content i w (a ++ b) = content i w a ++ content i w b.
Proof.
  induction a as [|[[j v] p] a IH]; cbn [content app]; [reflexivity|].
  destruct (Nat.eqb i j && N.eqb w v); rewrite IH; [rewrite app_assoc|]; reflexivity.
Qed.

Lemma content_dump_to i w j v p :
  content i w (dump_to j v p) = if Nat.eqb i j && N.eqb w v then p else [].
Proof.
  destruct p as [|x p]; cbn [dump_to content].
  - destruct (Nat.eqb i j && N.eqb w v); reflexivity.
  - destruct (Nat.eqb i j && N.eqb w v); [rewrite app_nil_r|]; reflexivity.
Qed.

Lemma content_hook_emit i w j o h :
  content i w (hook_emit (j, o) h) = if Nat.eqb i j then hook_bytes_for o w h else [].
Proof.
  unfold hook_emit, hook_bytes_for. cbn [snd].
  destruct (enabled o (hook_part h)); cbn [negb content].
  2:{ destruct (Nat.eqb i j); reflexivity. }
  destruct h; cbn [raw_emit]; rewrite content_dump_to;
    destruct (Nat.eqb i j); cbn [andb]; reflexivity.
Qed.

Lemma content_emit_all_notin i w ds h :
  ~ In i (map fst ds) -> content i w (hook_emit_all ds h) = [].
Proof.
  unfold hook_emit_all. induction ds as [|[j o] ds IH]; cbn [flat_map map fst In]; intro H.
  - reflexivity.
  - rewrite content_app, content_hook_emit.
    destruct (Nat.eqb i j) eqn:E.
    + apply Nat.eqb_eq in E. subst. exfalso. apply H. now left.
    + rewrite IH; [reflexivity|]. intro. apply H. now right.
Qed.

Lemma content_emit_all i o w ds h :
  NoDup (map fst ds) -> In (i, o) ds ->
  content i w (hook_emit_all ds h) = hook_bytes_for o w h.
Proof.
  unfold hook_emit_all. induction ds as [|[j o'] ds IH]; cbn [flat_map map fst In]; intros ND HI.
  - contradiction.
  - inversion ND as [|? ? Hn ND']; subst.
    rewrite content_app, content_hook_emit.
    destruct HI as [HI|HI].
    + inversion HI; subst. rewrite Nat.eqb_refl.
      fold (hook_emit_all ds h). rewrite content_emit_all_notin by assumption.
      apply app_nil_r.
    + destruct (Nat.eqb i j) eqn:E.
      * apply Nat.eqb_eq in E. subst. exfalso. apply Hn.
        change j with (fst (j, o)). now apply in_map.
      * cbn [app]. now apply IH.
Qed.

Lemma content_run_hooks i o w ds hs :
  NoDup (map fst ds) -> In (i, o) ds ->
  content i w (run_hooks ds hs) = flat_map (hook_bytes_for o w) hs.
Proof.
  intros ND HI. unfold run_hooks. induction hs as [|h hs IH]; cbn [flat_map]; [reflexivity|].
  rewrite content_app, IH, (content_emit_all i o) by assumption. reflexivity.
Qed.

(* where hook h of options o goes *)
Definition dest (o : options) (h : hook) : writer :=
  if is_separator h then output o else resolve o (hook_part h).
Definition hook_data (h : hook) : bytes :=
  match h with
  | HReqHeader p | HReqBody p | HRespHeader p | HRespBody p => p
  | HReqBodyEnd sep => sep
  | HRespBodyEOF => crlf
  end.

Lemma hook_bytes_for_spec o w h :
  hook_bytes_for o w h =
    if enabled o (hook_part h) && N.eqb w (dest o h) then hook_data h else [].
Proof.
  unfold hook_bytes_for, dest. destruct (enabled o (hook_part h)); cbn [negb andb]; [|reflexivity].
  destruct h; cbn [is_separator hook_part hook_data]; reflexivity.
Qed.

(* bytes of part p go to resolve o p (separators to Output) and nowhere else; every hook
   contributes exactly once, in program order *)
Lemma routing_exact i o w ds hs :
  NoDup (map fst ds) -> In (i, o) ds ->
  content i w (run_hooks ds hs) =
    flat_map (fun h => if enabled o (hook_part h) && N.eqb w (dest o h) then hook_data h else []) hs.
Proof.
  intros. rewrite (content_run_hooks i o) by assumption.
  induction hs as [|h hs IH]; cbn [flat_map]; [reflexivity|].
  now rewrite hook_bytes_for_spec, IH.
Qed.

Lemma nowhere_else i o w ds hs :
  NoDup (map fst ds) -> In (i, o) ds ->
  (forall p, enabled o p = true -> resolve o p <> w) -> output o <> w ->
  content i w (run_hooks ds hs) = [].
Proof.
  intros ND HI Hr Ho. rewrite (routing_exact i o) by assumption.
  induction hs as [|h hs IH]; cbn [flat_map]; [reflexivity|]. rewrite IH, app_nil_r.
  destruct (enabled o (hook_part h)) eqn:E; cbn [andb]; [|reflexivity].
  destruct (N.eqb w (dest o h)) eqn:Ew; [|reflexivity].
  apply N.eqb_eq in Ew. exfalso. unfold dest in Ew.
  destruct (is_separator h); [now apply Ho|]. now apply (Hr _ E).
Qed.

(* a part that is switched off contributes nothing to any writer: deleting its hooks from
   the exchange leaves every writer's content unchanged *)
Lemma off_means_silent i o w ds hs p :
  NoDup (map fst ds) -> In (i, o) ds -> enabled o p = false ->
  content i w (run_hooks ds hs) =
  content i w (run_hooks ds (filter (fun h => negb (part_eqb (hook_part h) p)) hs)).
Proof.
  intros ND HI Hoff. rewrite !(content_run_hooks i o) by assumption.
  induction hs as [|h hs IH]; cbn [flat_map filter]; [reflexivity|].
  destruct (part_eqb (hook_part h) p) eqn:E; cbn [negb].
  - assert (hook_part h = p) by (destruct (hook_part h), p; cbn in E; congruence). subst p.
    unfold hook_bytes_for at 1. rewrite Hoff. cbn [negb app]. exact IH.
  - cbn [flat_map]. now rewrite IH.
Qed.

Lemma all_off_silent i o w ds hs :
  NoDup (map fst ds) -> In (i, o) ds -> (forall p, enabled o p = false) ->
  content i w (run_hooks ds hs) = [].
Proof.
  intros ND HI Hoff. rewrite (content_run_hooks i o) by assumption.
  induction hs as [|h hs IH]; cbn [flat_map]; [reflexivity|].
  rewrite IH, app_nil_r. unfold hook_bytes_for. now rewrite Hoff.
Qed.

(* a writer dedicated to part p (no other enabled part and not Output) receives exactly the
   payload of p's hooks: each byte once, in order, no separators *)
Lemma exactly_once i o w ds hs p :
  NoDup (map fst ds) -> In (i, o) ds -> enabled o p = true -> resolve o p = w ->
  (forall p', p' <> p -> enabled o p' = true -> resolve o p' <> w) -> output o <> w ->
  content i w (run_hooks ds hs) = flat_map (hook_payload p) hs.
Proof.
  intros ND HI Hon Hw Hothers Hout. rewrite (routing_exact i o) by assumption.
  induction hs as [|h hs IH]; cbn [flat_map]; [reflexivity|]. rewrite IH. f_equal.
  unfold dest.
  destruct h; cbn [hook_part is_separator hook_data hook_payload].
  all: try (destruct p; cbn [hook_payload];
            try (rewrite Hon, <- Hw, N.eqb_refl; reflexivity)).
  all: try (match goal with |- (if enabled _ ?q && N.eqb _ (resolve _ ?q) then _ else _) = [] =>
              destruct (enabled o q) eqn:E; cbn [andb]; [|reflexivity];
              destruct (N.eqb w (resolve o q)) eqn:Ew; [|reflexivity];
              apply N.eqb_eq in Ew; exfalso; apply (Hothers q); [discriminate|assumption|congruence]
            end).
  all: destruct (N.eqb w (output o)) eqn:Ew;
    [apply N.eqb_eq in Ew; exfalso; apply Hout; congruence
    |rewrite Bool.andb_false_r; reflexivity].
Qed.

(* ---------- h2/h3 field lines ---------- *)
Lemma field_hooks_payload_req fs :
  flat_map (hook_payload PReqH) (field_hooks HReqHeader fs) = flat_map field_line fs ++ crlf.
Proof.
  unfold field_hooks. rewrite flat_map_app. cbn [flat_map hook_payload app]. f_equal.
  induction fs as [|f fs IH]; cbn [map flat_map hook_payload]; [reflexivity|]. now rewrite IH.
Qed.

Lemma field_hooks_payload_resp fs :
  flat_map (hook_payload PRespH) (field_hooks HRespHeader fs) = flat_map field_line fs ++ crlf.
Proof.
  unfold field_hooks. rewrite flat_map_app. cbn [flat_map hook_payload app]. f_equal.
  induction fs as [|f fs IH]; cbn [map flat_map hook_payload]; [reflexivity|]. now rewrite IH.
Qed.

(* ---------- async ---------- *)
Lemma run_async_all q prog sched : run_async q prog sched = q ++ prog.
Proof.
  revert q sched. induction prog as [|t r IH]; intros q sched; cbn [run_async].
  - now rewrite app_nil_r.
  - rewrite IH. rewrite <- app_assoc. cbn [app].
    rewrite app_assoc, firstn_skipn. reflexivity.
Qed.

Lemma async_preserves_order prog sched : run_async [] prog sched = prog.
Proof. apply run_async_all. Qed.

Lemma unstarted_blocks prog :
  chan_capacity < length prog -> run_unstarted prog = BlockedForever.
Proof.
  unfold run_unstarted. intro H. destruct (Nat.leb (length prog) chan_capacity) eqn:E; [|reflexivity].
  apply Nat.leb_le in E. lia.
Qed.

(* ---------- the line reader ---------- *)
Lemma read_slice_split n s :
  let '(line, rest, _) := read_slice n s in line ++ rest = s.
Proof.
  unfold read_slice. destruct (index_byte LF (firstn n s)).
  - apply firstn_skipn.
  - destruct (Nat.leb n (length s)); [apply firstn_skipn | apply app_nil_r].
Qed.

(* same (line, isPrefix, err) and same reader state as bufio.Reader.ReadLine, for every
   buffer size and every stream *)
Lemma read_line_dump_equiv n s :
  rl_line (read_line_dump n s) = rl_line (read_line_plain n s) /\
  rl_prefix (read_line_dump n s) = rl_prefix (read_line_plain n s) /\
  rl_err (read_line_dump n s) = rl_err (read_line_plain n s) /\
  rl_rest (read_line_dump n s) = rl_rest (read_line_plain n s).
Proof.
  unfold read_line_dump, read_line_plain.
  destruct (read_slice n s) as [[line rest] e].
  destruct e.
  - destruct line; cbn; auto.
  - destruct line; cbn; auto.
  - destruct (rev line) as [|x r1]; cbn; auto. destruct (beqb x CR); cbn; auto.
Qed.

(* what is dumped is exactly what was consumed from the stream by that call *)
Lemma read_line_dump_consumed n s :
  rl_dumped (read_line_dump n s) ++ rl_rest (read_line_dump n s) = s.
Proof.
  unfold read_line_dump. pose proof (read_slice_split n s) as H.
  destruct (read_slice n s) as [[line rest] e].
  destruct e.
  - destruct line; cbn [rl_dumped rl_rest]; exact H.
  - destruct line; cbn [rl_dumped rl_rest]; exact H.
  - destruct (rev line) as [|x r1] eqn:E; cbn [rl_dumped rl_rest]; [exact H|].
    destruct (beqb x CR) eqn:Ex; cbn [rl_dumped rl_rest]; [|exact H].
    apply beqb_eq in Ex. subst x.
    assert (line = rev r1 ++ [CR]) as ->.
    { rewrite <- (rev_involutive line), E. reflexivity. }
    rewrite <- H, <- app_assoc. reflexivity.
Qed.

Definition rl_agree (f g : nat -> bytes -> rl) : Prop :=
  forall n s, rl_line (f n s) = rl_line (g n s) /\ rl_prefix (f n s) = rl_prefix (g n s) /\
              rl_err (f n s) = rl_err (g n s) /\ rl_rest (f n s) = rl_rest (g n s).

Lemma read_logical_agree f g n fuel acc s d1 d2 :
  rl_agree f g ->
  fst (read_logical f n fuel acc s d1) = fst (read_logical g n fuel acc s d2).
Proof.
  intro A. revert acc s d1 d2. induction fuel as [|fuel IH]; intros; cbn [read_logical]; [reflexivity|].
  destruct (A n s) as (Hl & Hp & He & Hr). rewrite Hl, Hp, He, Hr.
  destruct (rl_err (g n s)); cbn [fst]; try reflexivity.
  destruct (rl_prefix (g n s)); cbn [fst]; [apply IH | reflexivity].
Qed.

Lemma read_block_agree f g n fuel s lines d1 d2 :
  rl_agree f g ->
  fst (read_block f n fuel s lines d1) = fst (read_block g n fuel s lines d2).
Proof.
  intro A. revert s lines d1 d2. induction fuel as [|fuel IH]; intros; cbn [read_block]; [reflexivity|].
  pose proof (read_logical_agree f g n (S (length s)) [] s d1 d2 A) as H.
  destruct (read_logical f n (S (length s)) [] s d1) as [[r1 rest1] dd1].
  destruct (read_logical g n (S (length s)) [] s d2) as [[r2 rest2] dd2].
  cbn [fst] in H. inversion H; subst.
  destruct r2 as [[|x l]| |]; cbn [fst]; try reflexivity. apply IH.
Qed.

(* dumped fragments ++ unread stream = the stream: nothing lost, nothing twice *)
Definition rl_consumes (f : nat -> bytes -> rl) : Prop :=
  forall n s, rl_dumped (f n s) ++ rl_rest (f n s) = s.

Lemma read_logical_consumed f n fuel acc s d :
  rl_consumes f ->
  let '(_, rest, d') := read_logical f n fuel acc s d in concat d' ++ rest = concat d ++ s.
Proof.
  intro C. revert acc s d. induction fuel as [|fuel IH]; intros; cbn [read_logical]; [reflexivity|].
  assert (Hd : forall rest',
     concat (push_frag d (rl_dumped (f n s))) ++ rest' = concat d ++ rl_dumped (f n s) ++ rest').
  { intro rest'. unfold push_frag. destruct (rl_dumped (f n s)) eqn:E; [reflexivity|].
    rewrite concat_app. cbn [concat]. rewrite app_nil_r, <- app_assoc. reflexivity. }
  pose proof (C n s) as Hc.
  destruct (rl_err (f n s)).
  - destruct (rl_prefix (f n s)).
    + specialize (IH (acc ++ rl_line (f n s)) (rl_rest (f n s)) (push_frag d (rl_dumped (f n s)))).
      destruct (read_logical f n fuel _ _ _) as [[r rest] d'].
      rewrite IH, Hd, Hc. reflexivity.
    + rewrite Hd, Hc. reflexivity.
  - rewrite Hd, Hc. reflexivity.
  - rewrite Hd, Hc. reflexivity.
Qed.

Lemma read_block_consumed f n fuel s lines d :
  rl_consumes f ->
  let '(_, _, rest, d') := read_block f n fuel s lines d in concat d' ++ rest = concat d ++ s.
Proof.
  intro C. revert s lines d. induction fuel as [|fuel IH]; intros; cbn [read_block]; [reflexivity|].
  pose proof (read_logical_consumed f n (S (length s)) [] s d C) as H.
  destruct (read_logical f n (S (length s)) [] s d) as [[r rest] d'].
  destruct r as [[|x l]| |]; try exact H.
  specialize (IH rest (lines ++ [x :: l]) d').
  destruct (read_block f n fuel rest _ d') as [[[ls e] rest'] d''].
  now rewrite IH.
Qed.

Lemma read_line_dump_agree : rl_agree read_line_dump read_line_plain.
Proof. intros n s. apply read_line_dump_equiv. Qed.
Lemma read_line_dump_consumes : rl_consumes read_line_dump.
Proof. intros n s. apply read_line_dump_consumed. Qed.

(* the pinned closure is NOT equivalent: a 20-byte header line through a 16-byte buffer *)
Definition pinned_witness : bytes := bs "X-Long: aaaaaaaaaaaaaaaaaaaaaaaa" ++ crlf ++ crlf.
Lemma read_line_dump_pinned_differs :
  rl_prefix (read_line_dump_pinned 16 pinned_witness) <> rl_prefix (read_line_plain 16 pinned_witness).
Proof. vm_compute. discriminate. Qed.
Lemma read_block_pinned_differs :
  fst (read_block read_line_dump_pinned 16 10 pinned_witness [] []) <>
  fst (read_block read_line_plain 16 10 pinned_witness [] []).
Proof. vm_compute. discriminate. Qed.
