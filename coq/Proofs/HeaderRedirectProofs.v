(* Proofs/HeaderRedirectProofs.v - C16: on a hop after a redirect no header is doubled or altered by
   AlwaysCopyHeaderRedirectPolicy, whatever the spelling of the names given to it. *)
From ReqV Require Import Lib.Bytes Lib.BytesFacts Model.HeaderOrder Model.HeaderCollect Model.HeaderMerge
  Model.HeaderRedirect Proofs.HeaderOrderProofs Proofs.HeaderCollectProofs Proofs.HeaderMergeProofs.
From Coq Require Import Lia.

(* the policy depends on a name only through its canonical form ... *)
Lemma policy_step_canonical initial hop n n' :
  mime_key n = mime_key n' -> policy_step initial hop n = policy_step initial hop n'.
Proof. intros E. unfold policy_step. now rewrite E. Qed.

Lemma mime_key_case_insensitive n n' :
  forallb is_tchar n = true -> to_lower n = to_lower n' -> mime_key n = mime_key n'.
Proof.
  intros Ht El. pose proof (canonical_key_case_insensitive n n' Ht El) as E.
  assert (Ht' : forallb is_tchar n' = true) by (rewrite <- forallb_tchar_lower, <- El, forallb_tchar_lower; exact Ht).
  unfold canonical_key in E. now rewrite (tchar_not_pseudo n Ht), (tchar_not_pseudo n' Ht') in E.
Qed.

(* ... so every letter-case spelling of a field name does the same *)
Lemma policy_step_any_spelling initial hop n n' :
  forallb is_tchar n = true -> to_lower n = to_lower n' -> policy_step initial hop n = policy_step initial hop n'.
Proof. intros Ht El. apply policy_step_canonical. now apply mime_key_case_insensitive. Qed.

Lemma hvals_filter (p : kv -> bool) h k :
  NoDup (map fst h) -> hvals (filter p h) k = hvals h k \/ hvals (filter p h) k = [].
Proof.
  unfold hvals. induction h as [|x t IH]; intros Hnd; [now left|].
  cbn [map] in Hnd. inversion Hnd as [|? ? Hn Hnd']; subst. cbn [filter].
  destruct (p x) eqn:P; cbn [hget].
  - destruct (bytes_eqb (fst x) k); [now left|now apply IH].
  - destruct (bytes_eqb (fst x) k) eqn:E; [|now apply IH].
    right. apply bytes_eqb_eq in E. rewrite hget_none; [reflexivity|].
    intros C. apply Hn. rewrite E. apply in_map_iff in C as (y & Ey & Hy).
    apply filter_In in Hy as [Hy _]. apply in_map_iff. now exists y.
Qed.

Lemma policy_step_inv initial hop n :
  (forall k, hvals hop k = hvals initial k \/ hvals hop k = []) ->
  forall k, hvals (policy_step initial hop n) k = hvals initial k \/ hvals (policy_step initial hop n) k = [].
Proof.
  intros H k. unfold policy_step. destruct (negb (is_nil (hvals hop (mime_key n)))); [apply H|].
  destruct (hvals initial (mime_key n)) as [|v vs] eqn:E; [apply H|].
  destruct (bytes_eqb k (mime_key n)) eqn:Ek.
  - apply bytes_eqb_eq in Ek. subst k. left. now rewrite hvals_hset_same.
  - apply bytes_eqb_neq in Ek. rewrite hvals_hset_other by assumption. apply H.
Qed.

(* never doubled, never altered: on the hop every name holds either exactly the initial request's
   values or nothing - for every list of policy names (any spelling, repeated, unknown) *)
Theorem hop_never_doubles initial names strip :
  NoDup (map fst initial) ->
  forall k, hvals (hop_hdr initial names strip) k = hvals initial k \/ hvals (hop_hdr initial names strip) k = [].
Proof.
  intros Hnd. unfold hop_hdr, always_copy.
  assert (H0 : forall k, hvals (copy_headers strip initial) k = hvals initial k \/ hvals (copy_headers strip initial) k = [])
    by (intros k; now apply hvals_filter).
  revert H0. generalize (copy_headers strip initial). induction names as [|n r IH]; intros hop H; [exact H|].
  cbn [fold_left]. apply IH. now apply policy_step_inv.
Qed.

Lemma policy_step_keeps_nonempty initial hop n k :
  hvals hop k <> [] -> hvals (policy_step initial hop n) k <> [].
Proof.
  intros H. unfold policy_step. destruct (is_nil (hvals hop (mime_key n))) eqn:E; cbn [negb]; [|exact H].
  destruct (hvals initial (mime_key n)) as [|v vs]; [exact H|].
  destruct (bytes_eqb k (mime_key n)) eqn:Ek.
  - apply bytes_eqb_eq in Ek. subst k. destruct (hvals hop (mime_key n)); [congruence|discriminate].
  - apply bytes_eqb_neq in Ek. now rewrite hvals_hset_other.
Qed.

Lemma policy_step_fills initial hop n :
  hvals initial (mime_key n) <> [] -> hvals (policy_step initial hop n) (mime_key n) <> [].
Proof.
  intros H. unfold policy_step. destruct (is_nil (hvals hop (mime_key n))) eqn:E; cbn [negb].
  - destruct (hvals initial (mime_key n)) as [|v vs] eqn:Ei; [congruence|]. rewrite hvals_hset_same. discriminate.
  - destruct (hvals hop (mime_key n)); [discriminate|discriminate].
Qed.

Lemma always_copy_keeps_nonempty initial names : forall hop k,
  hvals hop k <> [] -> hvals (always_copy initial names hop) k <> [].
Proof.
  unfold always_copy. induction names as [|n r IH]; intros hop k H; [exact H|].
  cbn [fold_left]. apply IH. now apply policy_step_keeps_nonempty.
Qed.

(* a header the policy names (in any spelling) reaches every hop with exactly the initial values -
   also when net/http stripped it on leaving the initial domain *)
Theorem named_header_on_every_hop initial names strip n :
  NoDup (map fst initial) -> In n names -> hvals initial (mime_key n) <> [] ->
  hvals (hop_hdr initial names strip) (mime_key n) = hvals initial (mime_key n).
Proof.
  intros Hnd Hin Hne. destruct (hop_never_doubles initial names strip Hnd (mime_key n)) as [E|E]; [exact E|].
  exfalso. revert E. unfold hop_hdr, always_copy. generalize (copy_headers strip initial).
  induction names as [|m r IH]; intros hop; [destruct Hin|]. cbn [fold_left].
  destruct Hin as [->|Hin].
  - intros E. apply (always_copy_keeps_nonempty initial r (policy_step initial hop n) (mime_key n)); [|exact E].
    now apply policy_step_fills.
  - now apply IH.
Qed.

(* looking for the value under the name as the policy spells it: a lower-case name on a same-origin
   hop adds the values a second time *)
Lemma policy_exact_spelling_refuted :
  let initial := [(bs "Authorization", [bs "Bearer abc"]); (bs "X-A", [bs "1"])] in
  hvals (hop_hdr initial [bs "authorization"] false) (bs "Authorization") = [bs "Bearer abc"] /\
  hvals (fold_left (policy_step_exact initial) [bs "authorization"] (copy_headers false initial)) (bs "Authorization")
    = [bs "Bearer abc"; bs "Bearer abc"].
Proof. split; vm_compute; reflexivity. Qed.
