(* Proofs/SettingsSim.v - C19: the reference-heap model refines the value model as long as every
   field is deep-copied by Clone (table = deep_tbl) and no jar is installed without a factory.
   Invariant: every heap cell carries an owner tag (object, field); an object's references point
   to cells tagged with that object and field; an operation on object id changes only cells
   tagged with id (frame), so every other object reads exactly what it read before. *)
From Coq Require Import List Arith Bool Lia.
From ReqV Require Import Model.Settings Proofs.SettingsHeap Proofs.SettingsValue.
Import ListNotations.

Lemma nth_upd_case {A} f i (x : A) l d :
  nth i (upd_nth f x l) d = if (f =? i) && (f <? length l) then x else nth i l d.
Proof.
  destruct (Nat.eqb_spec f i); simpl.
  - subst. destruct (Nat.ltb_spec i (length l)).
    + now apply SettingsHeap.nth_upd_nth_eq.
    + rewrite !nth_overflow; auto. now rewrite SettingsHeap.upd_nth_length.
  - now apply SettingsHeap.nth_upd_nth_neq.
Qed.

Lemma upd_nth_map_ext {A B} (g g' : A -> B) d x : forall f l,
  (forall i, i <> f -> g' (nth i l d) = g (nth i l d)) ->
  upd_nth f x (map g' l) = upd_nth f x (map g l).
Proof.
  intros f l. revert f. induction l as [|a l IH]; intros f H; destruct f; simpl; auto.
  - f_equal. apply map_nth_ext with (d := d). intros i. apply (H (S i)). lia.
  - f_equal; [apply (H 0); lia|]. apply IH. intros i Hi. apply (H (S i)). lia.
Qed.

Lemma comp_sl_upd W A oA A' e id l f s' :
  comp_sl A oA id l -> frame [] W A oA A' -> (forall i, i <> f -> ~ W (id, KSl i)) ->
  sl_ok A' (oA ++ e) (id, KSl f) s' ->
  comp_sl A' (oA ++ e) id (upd_nth f s' l) /\
  map (sl_read A') (upd_nth f s' l) = upd_nth f (sl_read A' s') (map (sl_read A) l).
Proof.
  intros Hc F HW Hs. split.
  - intros i. rewrite nth_upd_case. destruct (Nat.eqb_spec f i).
    + subst. destruct (Nat.ltb_spec i (length l)); simpl; [exact Hs|]. rewrite nth_overflow by lia. exact I.
    + simpl. destruct (sl_ok_frame A oA A' e W (id, KSl i) (nth i l None)); auto.
  - rewrite map_upd_nth. apply upd_nth_map_ext with (d := None). intros i Hi.
    destruct (sl_ok_frame A oA A' e W (id, KSl i) (nth i l None)); auto.
Qed.

Lemma comp_mp_upd M oM M' e id l f m' :
  comp_mp oM id l -> frame [] (eq (id, f)) M oM M' -> mp_ok (oM ++ e) (id, f) m' ->
  comp_mp (oM ++ e) id (upd_nth f m' l) /\
  map (mp_read M') (upd_nth f m' l) = upd_nth f (mp_read M' m') (map (mp_read M) l).
Proof.
  intros Hc F Hs. split.
  - intros i. rewrite nth_upd_case. destruct (Nat.eqb_spec f i).
    + subst. destruct (Nat.ltb_spec i (length l)); simpl; [exact Hs|]. rewrite nth_overflow by lia. exact I.
    + simpl. destruct (mp_ok_frame M oM M' e (eq (id, f)) (id, i) (nth i l None)); auto.
      intros E; inversion E; congruence.
  - rewrite map_upd_nth. apply upd_nth_map_ext with (d := None). intros i Hi.
    destruct (mp_ok_frame M oM M' e (eq (id, f)) (id, i) (nth i l None)); auto.
    intros E; inversion E; congruence.
Qed.

Definition WAid (id : oid) (t : atag) : Prop := fst t = id.
Definition WMid (id : oid) (t : mtag) : Prop := fst t = id.
Definition WOid (id x : oid) : Prop := x = id.
Definition idframe (id : oid) := hframe (WAid id) (WMid id) (WOid id) (WMid id).
Definition noframe := hframe (fun _ => False) (fun _ => False) (fun _ => False) (fun _ => False).

Lemma noframe_idframe id H ow H' : noframe H ow H' -> idframe id H ow H'.
Proof.
  intros (A & B & C & D). unfold idframe, hframe.
  split; [eapply frame_weaken; [|exact A]; simpl; tauto|].
  split; [eapply frame_weaken; [|exact B]; simpl; tauto|].
  split; [eapply frame_weaken; [|exact C]; simpl; tauto|].
  eapply frame_weaken; [|exact D]; simpl; tauto.
Qed.

Lemma nth_map_default {A B} (f : A -> B) l i d d' : f d = d' -> nth i (map f l) d' = f (nth i l d).
Proof. intros <-. apply map_nth. Qed.

Lemma sl_read_nth A l i : nth i (map (sl_read A) l) [] = sl_read A (nth i l None).
Proof. now apply nth_map_default. Qed.
Lemma mp_read_nth M l i : nth i (map (mp_read M) l) [] = mp_read M (nth i l None).
Proof. now apply nth_map_default. Qed.

(* the retry record after c.getRetryOption() *)
Lemma get_retry_spec H ow id o H1 o1 r :
  lens H ow -> obj_ok H ow id o -> get_retry H o = (H1, o1, r) ->
  exists eR, length (owR ow ++ eR) = length (recs H1) /\
    arrs H1 = arrs H /\ maps H1 = maps H /\ jars H1 = jars H /\
    frame retry0 (fun _ : oid => False) (recs H) (owR ow) (recs H1) /\
    o1 = set_rt o (Some r) /\ r < length (recs H1) /\
    rt_ok (arrs H) (recs H1) (owA ow) (owR ow ++ eR) id (Some r) /\
    rt_view (arrs H) (recs H1) (Some r) = rt_view (arrs H) (recs H) (o_rt o).
Proof.
  intros (La & Lm & Lr & Lj) [O1 O2 O3 O4 O5] G. unfold get_retry in G.
  destruct (o_rt o) as [a|] eqn:E.
  - inversion G; subst. exists []. rewrite app_nil_r. simpl in O3. destruct O3 as (T & C & K).
    repeat split; auto.
    + destruct o1; unfold set_rt; simpl in *; congruence.
    + rewrite <- Lr. eapply nth_error_lt; eauto.
  - inversion G; subst. exists [id]. simpl. rewrite !app_length, Lr. simpl.
    repeat split; auto; rewrite ?nth_app_new; simpl; auto; try lia.
    + rewrite app_length; lia.
    + intros a t0 Ha _. apply app_nth1. rewrite <- Lr. eapply nth_error_lt; eauto.
    + rewrite <- Lr. apply nth_error_app_new.
Qed.

Lemma lens_ext_nil H ow : lens H ow -> lens H (ext ow [] [] [] []).
Proof. unfold lens, ext; simpl. now rewrite !app_nil_r. Qed.

Lemma obj_ok_ext_nil H ow id o : obj_ok H ow id o -> obj_ok H (ext ow [] [] [] []) id o.
Proof. intros [A B C D E]. constructor; unfold ext; simpl; now rewrite ?app_nil_r. Qed.

Lemma idframe_refl id H ow : idframe id H ow H.
Proof. repeat split; auto. Qed.

Lemma vobj_eq a b c d e f g h i x a' b' c' g' x' :
  a = a' -> b = b' -> c = c' -> g = g' -> x = x' ->
  {| v_sl := a; v_mp := b; v_rt := c; v_chain := d; v_tchain := e; v_scal := f; v_jar := g; v_fact := h; v_par := i; v_ext := x |} =
  {| v_sl := a'; v_mp := b'; v_rt := c'; v_chain := d; v_tchain := e; v_scal := f; v_jar := g'; v_fact := h; v_par := i; v_ext := x' |}.
Proof. intros; subst; reflexivity. Qed.

(* ---- a heap update that only touches the arrays tagged (id, KSl f) ---- *)
(* W: the tags of the arrays the update may have written: (id, KSl f) and scratch arrays of id *)
Definition fieldW (id : oid) (f : nat) (W : atag -> Prop) : Prop :=
  (forall i, i <> f -> ~ W (id, KSl i)) /\ ~ W (id, KConds) /\ ~ W (id, KHooks) /\ (forall t, W t -> fst t = id).

Lemma fieldW_eq id f : fieldW id f (eq (id, KSl f)).
Proof. repeat split; try (intros E; inversion E; fail). - intros i N E; inversion E; congruence. - now intros t <-. Qed.

Lemma sim_sl_fieldW W H ow id o f A' s' e rd :
  lens H ow -> obj_ok H ow id o -> fieldW id f W ->
  length (owA ow ++ e) = length A' -> sl_ok A' (owA ow ++ e) (id, KSl f) s' ->
  sl_read A' s' = rd -> frame [] W (arrs H) (owA ow) A' ->
  let H' := with_arrs H A' in let o' := set_sl o (upd_nth f s' (o_sl o)) in
  lens H' (ext ow e [] [] []) /\ idframe id H ow H' /\ obj_ok H' (ext ow e [] [] []) id o' /\
  abs_obj H' o' = vset_sl (abs_obj H o) (upd_nth f rd (v_sl (abs_obj H o))).
Proof.
  intros (La & Lm & Lr & Lj) [O1 O2 O3 O4 O5] (W1 & W2 & W3 & W4) L Ok Rd F H' o'.
  destruct (comp_sl_upd W _ _ _ e _ _ _ _ O1 F W1 Ok) as [C1 E1].
  destruct (rt_ok_frame _ _ _ _ A' (recs H) e [] W (fun _ => False) _ _ O3 F (frame_refl _ _ _ _)) as [C3 E3]; auto.
  split; [|split; [|split]].
  - unfold lens, ext; simpl. rewrite !app_nil_r. auto.
  - unfold idframe, hframe; simpl. split; [eapply frame_weaken; [|exact F]; exact W4|].
    split; [apply frame_refl|]. split; apply frame_refl.
  - constructor; simpl; auto; rewrite ?app_nil_r; auto.
  - rewrite !abs_obj_eq. unfold vset_sl; simpl. apply vobj_eq; auto. now rewrite E1, Rd.
Qed.

Lemma sim_sl_field H ow id o f A' s' e rd :
  lens H ow -> obj_ok H ow id o ->
  length (owA ow ++ e) = length A' -> sl_ok A' (owA ow ++ e) (id, KSl f) s' ->
  sl_read A' s' = rd -> frame [] (eq (id, KSl f)) (arrs H) (owA ow) A' ->
  let H' := with_arrs H A' in let o' := set_sl o (upd_nth f s' (o_sl o)) in
  lens H' (ext ow e [] [] []) /\ idframe id H ow H' /\ obj_ok H' (ext ow e [] [] []) id o' /\
  abs_obj H' o' = vset_sl (abs_obj H o) (upd_nth f rd (v_sl (abs_obj H o))).
Proof. intros L O. apply sim_sl_fieldW; auto. apply fieldW_eq. Qed.

Lemma sim_mp_field H ow id o f M' m' e rd :
  lens H ow -> obj_ok H ow id o ->
  length (owM ow ++ e) = length M' -> mp_ok (owM ow ++ e) (id, f) m' ->
  mp_read M' m' = rd -> frame [] (eq (id, f)) (maps H) (owM ow) M' ->
  let H' := with_maps H M' in let o' := set_mp o (upd_nth f m' (o_mp o)) in
  lens H' (ext ow [] e [] []) /\ idframe id H ow H' /\ obj_ok H' (ext ow [] e [] []) id o' /\
  abs_obj H' o' = vset_mp (abs_obj H o) (upd_nth f rd (v_mp (abs_obj H o))).
Proof.
  intros (La & Lm & Lr & Lj) [O1 O2 O3 O4 O5] L Ok Rd F H' o'.
  destruct (comp_mp_upd _ _ _ e _ _ _ _ O2 F Ok) as [C1 E1].
  split; [|split; [|split]].
  - unfold lens, ext; simpl. rewrite !app_nil_r. auto.
  - unfold idframe, hframe; simpl. split; [apply frame_refl|].
    split; [eapply frame_weaken; [|exact F]; intros t <-; reflexivity|]. split; apply frame_refl.
  - constructor; simpl; auto; rewrite ?app_nil_r; auto.
  - rewrite !abs_obj_eq. unfold vset_mp; simpl. apply vobj_eq; auto. now rewrite E1, Rd.
Qed.

(* ---- an update of the retry record r of object id (fields and/or its slices) ---- *)
Lemma sim_rt H ow id o A' R' eA eR r vr :
  lens H ow -> obj_ok H ow id o ->
  length (owA ow ++ eA) = length A' -> length (owR ow ++ eR) = length R' ->
  frame [] (fun t => t = (id, KConds) \/ t = (id, KHooks)) (arrs H) (owA ow) A' ->
  frame retry0 (eq id) (recs H) (owR ow) R' ->
  rt_ok A' R' (owA ow ++ eA) (owR ow ++ eR) id (Some r) -> rt_view A' R' (Some r) = vr ->
  let H' := with_recs (with_arrs H A') R' in let o' := set_rt o (Some r) in
  lens H' (ext ow eA [] eR []) /\ idframe id H ow H' /\ obj_ok H' (ext ow eA [] eR []) id o' /\
  abs_obj H' o' = vset_rt (abs_obj H o) vr.
Proof.
  intros (La & Lm & Lr & Lj) [O1 O2 O3 O4 O5] L1 L2 FA FR Ok Rd H' o'.
  destruct (comp_sl_frame _ _ _ eA _ _ _ O1 FA) as [C1 E1].
  { intros i [E|E]; inversion E. }
  split; [|split; [|split]].
  - unfold lens, ext; simpl. rewrite !app_nil_r. auto.
  - unfold idframe, hframe; simpl.
    split; [eapply frame_weaken; [|exact FA]; intros t [->| ->]; reflexivity|].
    split; [apply frame_refl|].
    split; [eapply frame_weaken; [|exact FR]; intros t <-; reflexivity | apply frame_refl].
  - constructor; simpl; auto; rewrite ?app_nil_r; auto.
  - rewrite !abs_obj_eq. unfold vset_rt; simpl. apply vobj_eq; auto.
Qed.

(* ================= composing updates ================= *)
Lemma frame_upd {X T} (d : X) (t : T) S ow a x :
  nth_error ow a = Some t -> frame d (eq t) S ow (upd_nth a x S).
Proof.
  intros Ht. split; [now rewrite upd_nth_length|].
  intros a0 t0 Ha0 Hne. apply nth_upd_nth_neq. intros ->. rewrite Ht in Ha0. inversion Ha0; auto.
Qed.

Lemma frame_app {X T} (d : X) (W : T -> Prop) S (ow : list T) e : length ow = length S -> frame d W S ow (S ++ e).
Proof.
  intros L. split; [rewrite app_length; lia|].
  intros a t0 Ha _. apply app_nth1. rewrite <- L. eapply nth_error_lt; eauto.
Qed.

Lemma ext_ext ow a b c d a' b' c' d' :
  ext (ext ow a b c d) a' b' c' d' = ext ow (a ++ a') (b ++ b') (c ++ c') (d ++ d').
Proof. unfold ext; simpl. now rewrite <- !app_assoc. Qed.

Lemma hframe_trans WA WM WR WJ H ow H1 a b c d H2 :
  hframe WA WM WR WJ H ow H1 -> hframe WA WM WR WJ H1 (ext ow a b c d) H2 -> hframe WA WM WR WJ H ow H2.
Proof.
  intros (A1 & B1 & C1 & D1) (A2 & B2 & C2 & D2). unfold ext in *; simpl in *.
  repeat split; eapply frame_trans; eauto.
Qed.

(* (H', o') is what an operation on object id made of (H, o): it reads as v', only cells owned by id changed *)
Definition sim_res (id : oid) (H : heap) (ow : owners) (v' : vobj) (H' : heap) (o' : obj) : Prop :=
  exists eA eM eR eJ,
    lens H' (ext ow eA eM eR eJ) /\ idframe id H ow H' /\ obj_ok H' (ext ow eA eM eR eJ) id o' /\ abs_obj H' o' = v'.

Lemma sim_res_trans id H ow v1 H1 o1 v2 H2 o2 :
  sim_res id H ow v1 H1 o1 ->
  (forall ow1, lens H1 ow1 -> obj_ok H1 ow1 id o1 -> sim_res id H1 ow1 v2 H2 o2) ->
  sim_res id H ow v2 H2 o2.
Proof.
  intros (a & b & c & d & L1 & F1 & O1 & E1) K.
  destruct (K _ L1 O1) as (a' & b' & c' & d' & L2 & F2 & O2 & E2).
  exists (a ++ a'), (b ++ b'), (c ++ c'), (d ++ d'). rewrite <- ext_ext.
  split; [exact L2|]. split; [|split; [exact O2|exact E2]].
  unfold idframe in *. eapply hframe_trans; eauto.
Qed.

Lemma sim_res_refl id H ow o : lens H ow -> obj_ok H ow id o -> sim_res id H ow (abs_obj H o) H o.
Proof.
  intros L O. exists [], [], [], [].
  split; [now apply lens_ext_nil|]. split; [apply idframe_refl|]. split; [now apply obj_ok_ext_nil|reflexivity].
Qed.

(* an update of the object record that moves no reference *)
Lemma sim_res_pure id H ow o o' :
  lens H ow -> obj_ok H ow id o ->
  o_sl o' = o_sl o -> o_mp o' = o_mp o -> o_rt o' = o_rt o -> o_jar o' = o_jar o -> o_fact o' = o_fact o ->
  ext_ok (owJ ow) id (o_ext o') ->
  sim_res id H ow (abs_obj H o') H o'.
Proof.
  intros L [O1 O2 O3 O4 O5] E1 E2 E3 E4 E5 X.
  apply sim_res_refl; auto. constructor; rewrite ?E1, ?E2, ?E3, ?E4, ?E5; auto.
Qed.

(* ---- an update that only touches boxes owned by id ---- *)
Lemma sim_jars H ow id o J' e jar' fact' x' :
  lens H ow -> obj_ok H ow id o ->
  length (owJ ow ++ e) = length J' ->
  frame [] (WMid id) (jars H) (owJ ow) J' ->
  jar_ok (owJ ow ++ e) id jar' fact' -> ext_ok (owJ ow ++ e) id x' ->
  let H' := with_jars H J' in let o' := set_ext (set_jar o jar' fact') x' in
  sim_res id H ow (vset_ext (vset_jar (abs_obj H o) (jar_read H' jar') fact') (abs_ext J' x')) H' o'.
Proof.
  intros (La & Lm & Lr & Lj) [O1 O2 O3 O4 O5] L F JO XO H' o'.
  exists [], [], [], e. split; [|split; [|split]].
  - unfold lens, ext; simpl. rewrite !app_nil_r. auto.
  - unfold idframe, hframe; simpl. repeat split; auto; apply F.
  - constructor; simpl; auto; rewrite ?app_nil_r; auto.
  - reflexivity.
Qed.

(* ================= setters ================= *)
Lemma heap_eq A M R J A' M' R' J' : A = A' -> M = M' -> R = R' -> J = J' ->
  {| arrs := A; maps := M; recs := R; jars := J |} = {| arrs := A'; maps := M'; recs := R'; jars := J' |}.
Proof. intros; subst; reflexivity. Qed.

(* retry setters: c.getRetryOption() then the record is rewritten as x' over the arrays A' *)
Lemma sim_rt_set H ow id o H1 o1 r A' eA x' :
  lens H ow -> obj_ok H ow id o -> get_retry H o = (H1, o1, r) ->
  length (owA ow ++ eA) = length A' ->
  frame [] (fun t => t = (id, KConds) \/ t = (id, KHooks)) (arrs H) (owA ow) A' ->
  sl_ok A' (owA ow ++ eA) (id, KConds) (r_conds x') -> sl_ok A' (owA ow ++ eA) (id, KHooks) (r_hooks x') ->
  sim_res id H ow
    (vset_rt (abs_obj H o) {| vr_max := r_max x'; vr_int := r_int x';
                              vr_conds := sl_read A' (r_conds x'); vr_hooks := sl_read A' (r_hooks x') |})
    (with_recs (with_arrs H1 A') (upd_nth r x' (recs H1))) o1.
Proof.
  intros L O G LA FA Kc Kh.
  destruct (get_retry_spec _ _ _ _ _ _ _ L O G) as (eR & LR & E1 & E2 & E3 & FR & Eo & Hr & Ok & Rv).
  destruct L as (La & Lm & Lr & Lj).
  assert (Ht : nth_error (owR ow ++ eR) r = Some id) by (destruct Ok as (T & _); exact T).
  pose proof (sim_rt H ow id o A' (upd_nth r x' (recs H1)) eA eR r
                (rt_view A' (upd_nth r x' (recs H1)) (Some r)) (conj La (conj Lm (conj Lr Lj))) O LA) as S.
  rewrite upd_nth_length in S. specialize (S LR FA).
  assert (FR' : frame retry0 (eq id) (recs H) (owR ow) (upd_nth r x' (recs H1))).
  { eapply frame_trans; [eapply frame_weaken; [|exact FR]; intros t []|]. apply frame_upd. exact Ht. }
  specialize (S FR').
  assert (Ok' : rt_ok A' (upd_nth r x' (recs H1)) (owA ow ++ eA) (owR ow ++ eR) id (Some r)).
  { simpl. rewrite nth_upd_nth_eq by exact Hr. auto. }
  specialize (S Ok' eq_refl). cbv zeta in S. destruct S as (S1 & S2 & S3 & S4).
  replace (with_recs (with_arrs H1 A') (upd_nth r x' (recs H1)))
    with (with_recs (with_arrs H A') (upd_nth r x' (recs H1))).
  2:{ unfold with_recs, with_arrs; simpl. apply heap_eq; auto. }
  exists eA, [], eR, []. rewrite Eo. split; [exact S1|split; [exact S2|split; [exact S3|]]].
  rewrite S4. f_equal. unfold rt_view, rt_read; simpl. now rewrite nth_upd_nth_eq by exact Hr.
Qed.

(* what c.getRetryOption() returns reads as the object's retry option *)
Lemma get_retry_view H ow id o H1 o1 r :
  lens H ow -> obj_ok H ow id o -> get_retry H o = (H1, o1, r) ->
  let x := nth r (recs H1) retry0 in
  arrs H1 = arrs H /\
  sl_ok (arrs H) (owA ow) (id, KConds) (r_conds x) /\ sl_ok (arrs H) (owA ow) (id, KHooks) (r_hooks x) /\
  v_rt (abs_obj H o) = {| vr_max := r_max x; vr_int := r_int x;
                          vr_conds := sl_read (arrs H) (r_conds x); vr_hooks := sl_read (arrs H) (r_hooks x) |}.
Proof.
  intros L O G x.
  destruct (get_retry_spec _ _ _ _ _ _ _ L O G) as (eR & LR & E1 & E2 & E3 & FR & Eo & Hr & Ok & Rv).
  destruct Ok as (T & Kc & Kh). repeat split; auto.
  all: try (rewrite abs_obj_eq; cbn [v_rt]; rewrite <- Rv; reflexivity).
Qed.

Lemma ext_ok_app oJ e id x : ext_ok oJ id x -> ext_ok (oJ ++ e) id x.
Proof.
  intros (A & B & C). unfold ext_ok, mp_ok in *.
  destruct (e_dopt x), (e_dumper x), (e_tls x); repeat split; auto using nth_error_app_old.
Qed.

Lemma jar_ok_app oJ e id j f : jar_ok oJ id j f -> jar_ok (oJ ++ e) id j f.
Proof. destruct j; simpl; auto. intros [A B]; auto using nth_error_app_old. Qed.

Lemma abs_ext_app (J : list (list val)) oJ e id x :
  length oJ = length J -> ext_ok oJ id x -> abs_ext (J ++ e) x = abs_ext J x.
Proof.
  intros L X. destruct (ext_ok_frame J oJ (J ++ e) [] (fun _ => False) id x X); auto.
  now apply frame_app.
Qed.

Ltac vunf := unfold vset_sl, vset_mp, vset_rt, vset_chain, vset_tchain, vset_scal, vset_jar, vset_ext,
  set_sl, set_mp, set_rt, set_chain, set_tchain, set_scal, set_jar, set_ext, abs_obj;
  cbn [v_sl v_mp v_rt v_chain v_tchain v_scal v_jar v_fact v_par v_ext
       o_sl o_mp o_rt o_chain o_tchain o_scal o_jar o_fact o_par o_ext].

Lemma sim_intro id H ow v' H' o' eA eM eR eJ :
  lens H' (ext ow eA eM eR eJ) /\ idframe id H ow H' /\ obj_ok H' (ext ow eA eM eR eJ) id o' /\ abs_obj H' o' = v' ->
  sim_res id H ow v' H' o'.
Proof. intros K. exists eA, eM, eR, eJ. exact K. Qed.

Lemma sim_res_eq id H ow v v' H' o' : sim_res id H ow v H' o' -> v = v' -> sim_res id H ow v' H' o'.
Proof. now intros K <-. Qed.

(* the six retry setters share this shape *)
Lemma sim_retry_case H ow id o H1 o1 r A' eA x' vr Hres :
  lens H ow -> obj_ok H ow id o -> get_retry H o = (H1, o1, r) ->
  length (owA ow ++ eA) = length A' ->
  frame [] (fun t => t = (id, KConds) \/ t = (id, KHooks)) (arrs H) (owA ow) A' ->
  sl_ok A' (owA ow ++ eA) (id, KConds) (r_conds x') -> sl_ok A' (owA ow ++ eA) (id, KHooks) (r_hooks x') ->
  Hres = with_recs (with_arrs H1 A') (upd_nth r x' (recs H1)) ->
  vr = {| vr_max := r_max x'; vr_int := r_int x'; vr_conds := sl_read A' (r_conds x'); vr_hooks := sl_read A' (r_hooks x') |} ->
  sim_res id H ow (vset_rt (abs_obj H o) vr) Hres o1.
Proof. intros L O G LA FA Kc Kh -> ->. eapply sim_rt_set; eauto. Qed.

Lemma sim_res_chain id H ow v H' o' c : sim_res id H ow v H' o' -> sim_res id H ow (vset_chain v c) H' (set_chain o' c).
Proof.
  intros (a & b & c0 & d & L & F & [O1 O2 O3 O4 O5] & E). exists a, b, c0, d.
  split; [exact L|split; [exact F|split; [constructor; assumption|]]]. rewrite <- E. reflexivity.
Qed.
Lemma sim_res_tchain id H ow v H' o' c : sim_res id H ow v H' o' -> sim_res id H ow (vset_tchain v c) H' (set_tchain o' c).
Proof.
  intros (a & b & c0 & d & L & F & [O1 O2 O3 O4 O5] & E). exists a, b, c0, d.
  split; [exact L|split; [exact F|split; [constructor; assumption|]]]. rewrite <- E. reflexivity.
Qed.

(* WrapRoundTripFunc: the wrappers are first collected in a fresh slice ... *)
Lemma sim_wrap_first grow H ow id o f vs A1 w :
  lens H ow -> obj_ok H ow id o -> sl_build grow (arrs H) None vs = (A1, w) ->
  sim_res id H ow (vset_sl (abs_obj H o) (upd_nth f vs (v_sl (abs_obj H o)))) (with_arrs H A1) (set_sl o (upd_nth f w (o_sl o))).
Proof.
  intros L O E. pose proof L as (La & _).
  destruct (sl_build_spec grow (id, KSl f) vs _ (owA ow) None _ _ La I E) as (e & L1 & K1 & R1 & F1).
  eapply sim_intro. exact (sim_sl_field H ow id o f A1 w e _ L O L1 K1 R1 F1).
Qed.

(* ... which is adopted by the first call and appended to the registered ones by later calls *)
Lemma sim_wrap_more grow H ow id o f vs A1 w A2 s' :
  lens H ow -> obj_ok H ow id o -> sl_build grow (arrs H) None vs = (A1, w) ->
  sl_append grow A1 (nth f (o_sl o) None) vs = (A2, s') ->
  sim_res id H ow (vset_sl (abs_obj H o) (upd_nth f (nth f (v_sl (abs_obj H o)) [] ++ vs) (v_sl (abs_obj H o))))
    (with_arrs H A2) (set_sl o (upd_nth f s' (o_sl o))).
Proof.
  intros L O E1 E2. pose proof L as (La & _). pose proof O as [O1 _ _ _ _].
  set (tmp := (id, KTmp)).
  destruct (sl_build_spec grow tmp vs _ (owA ow) None _ _ La I E1) as (e1 & L1 & K1 & R1 & F1).
  assert (NE : ~ tmp = (id, KSl f)) by (unfold tmp; intros X; inversion X).
  destruct (sl_ok_frame _ _ _ e1 _ _ _ (O1 f) NE F1) as [Kf Rf].
  destruct (sl_append_spec _ _ _ (id, KSl f) _ _ _ _ L1 Kf E2) as (e2 & L2 & K2 & R2 & F2).
  set (W := fun t : atag => t = tmp \/ t = (id, KSl f)).
  assert (FW : frame [] W (arrs H) (owA ow) A2).
  { eapply frame_trans; [eapply frame_weaken; [|exact F1]|eapply frame_weaken; [|exact F2]]; unfold W; intros t <-; auto. }
  assert (HW : fieldW id f W).
  { unfold W, tmp. repeat split.
    - intros i N [X|X]; inversion X; congruence.
    - intros [X|X]; inversion X.
    - intros [X|X]; inversion X.
    - intros t [-> | ->]; reflexivity. }
  rewrite <- app_assoc in L2, K2.
  eapply sim_res_eq; [eapply sim_intro; exact (sim_sl_fieldW W H ow id o f A2 s' (e1 ++ e2) _ L O HW L2 K2 R2 FW)|].
  rewrite Rf. cbn [abs_obj v_sl]. now rewrite sl_read_nth.
Qed.

(* ---- boxes ---- *)
Lemma bx_get_upd_spec (J : list (list val)) oJ t p d f J1 a :
  length oJ = length J -> mp_ok oJ t p -> bx_get J p d = (J1, a) ->
  exists e, length (oJ ++ e) = length (bx_upd J1 a f) /\ nth_error (oJ ++ e) a = Some t /\
            nth a (bx_upd J1 a f) [] = f (odflt (bx_read J p) d) /\
            frame [] (eq t) J oJ (bx_upd J1 a f) /\
            (forall b, b <> a -> b < length J -> nth b (bx_upd J1 a f) [] = nth b J []) /\
            (forall b, p = None -> b < length J -> b <> a).
Proof.
  intros L Ok G. unfold bx_get in G. destruct p as [a0|]; inversion G; subst J1 a; clear G; unfold bx_upd.
  - simpl in Ok. pose proof (nth_error_lt _ _ _ Ok) as Ha. rewrite L in Ha.
    exists []. rewrite app_nil_r, upd_nth_length. repeat split; auto.
    + now rewrite nth_upd_nth_eq.
    + rewrite upd_nth_length; auto.
    + intros b t0 Hb Hne. apply nth_upd_nth_neq. intros ->. rewrite Ok in Hb. inversion Hb; auto.
    + intros b N _. apply nth_upd_nth_neq. congruence.
    + discriminate.
  - exists [t]. rewrite upd_nth_length, !app_length, L. simpl. repeat split; auto.
    + rewrite <- L. apply nth_error_app_new.
    + rewrite nth_upd_nth_eq by (rewrite app_length; simpl; lia). now rewrite nth_app_new.
    + rewrite upd_nth_length, app_length; lia.
    + intros b t0 Hb _. apply nth_error_lt in Hb. rewrite L in Hb.
      rewrite nth_upd_nth_neq by lia. now apply app_nth1.
    + intros b N Hb. rewrite nth_upd_nth_neq by congruence. now apply app_nth1.
    + intros b _ Hb. lia.
Qed.

Lemma bx_new_spec (J : list (list val)) (oJ : list mtag) t l :
  length oJ = length J ->
  length (oJ ++ [t]) = length (J ++ [l]) /\ nth_error (oJ ++ [t]) (length J) = Some t /\
  nth (length J) (J ++ [l]) [] = l /\ frame [] (fun _ : mtag => False) J oJ (J ++ [l]).
Proof.
  intros L. rewrite !app_length, L. simpl. repeat split; auto.
  - rewrite <- L. apply nth_error_app_new.
  - apply nth_app_new.
  - rewrite app_length; lia.
  - intros b t0 Hb _. apply nth_error_lt in Hb. rewrite L in Hb. now apply app_nth1.
Qed.

Lemma obj_eta o : set_ext (set_jar o (o_jar o) (o_fact o)) (o_ext o) = o.
Proof. destruct o; reflexivity. Qed.

Lemma opn_eqb_refl a : opn_eqb (Some a) (Some a) = true.
Proof. simpl. apply Nat.eqb_refl. Qed.

Lemma WMid_eq id k : forall t : mtag, (id, k) = t -> WMid id t.
Proof. intros t <-. reflexivity. Qed.

(* an update of the *DumpOptions / *tls.Config boxes of id; the cookie jar is not touched *)
Lemma sim_ext H ow id o J' e x' vx :
  lens H ow -> obj_ok H ow id o -> length (owJ ow ++ e) = length J' ->
  frame [] (fun t => t = (id, 1) \/ t = (id, 2)) (jars H) (owJ ow) J' ->
  ext_ok (owJ ow ++ e) id x' -> abs_ext J' x' = vx ->
  sim_res id H ow (vset_ext (abs_obj H o) vx) (with_jars H J') (set_ext o x').
Proof.
  intros L O L1 F X E. pose proof O as [O1 O2 O3 O4 O5].
  eapply sim_res_eq.
  - apply (sim_jars H ow id o J' e (o_jar o) (o_fact o) x'); auto.
    + eapply frame_weaken; [|exact F]. intros t [-> | ->]; reflexivity.
    + now apply jar_ok_app.
  - destruct (jar_ok_frame _ _ _ e _ _ _ _ O4 F) as [_ EJ]; [intros [X0|X0]; inversion X0|].
    rewrite E.
    change (jar_read (with_jars H J') (o_jar o)) with (match o_jar o with None => None | Some a => Some (nth a J' []) end).
    rewrite EJ. reflexivity.
Qed.

Lemma frame12_of id k (J : list (list val)) oJ J' : (k = 1 \/ k = 2) ->
  frame [] (eq (id, k)) J oJ J' -> frame [] (fun t : mtag => t = (id, 1) \/ t = (id, 2)) J oJ J'.
Proof. intros K F. eapply frame_weaken; [|exact F]. intros t <-. destruct K as [-> | ->]; auto. Qed.

Lemma frame12_none id (J : list (list val)) oJ J' :
  frame [] (fun _ : mtag => False) J oJ J' -> frame [] (fun t : mtag => t = (id, 1) \/ t = (id, 2)) J oJ J'.
Proof. intros F. eapply frame_weaken; [|exact F]. intros t []. Qed.

Lemma apply_setter_sim grow H ow id o s H' o' :
  lens H ow -> obj_ok H ow id o -> setter_nojar s ->
  apply_setter grow H o s = (H', o') ->
  sim_res id H ow (vapply (abs_obj H o) s) H' o'.
Proof.
  intros L O NJ Hs. pose proof L as (La & Lm & Lr & Lj). pose proof O as [O1 O2 O3 O4 O5].
  destruct s; cbn [apply_setter] in Hs.
  - (* SAppend *)
    destruct (sl_append grow (arrs H) (nth f (o_sl o) None) vs) as [A s'] eqn:E. inversion Hs; subst H' o'; clear Hs.
    destruct (sl_append_spec _ _ (owA ow) (id, KSl f) _ _ _ _ La (O1 f) E) as (e & L1 & K1 & R1 & F1).
    eapply sim_res_eq; [eapply sim_intro; exact (sim_sl_field H ow id o f A s' e _ L O L1 K1 R1 F1)|].
    cbn [vapply]. now rewrite <- sl_read_nth.
  - (* SClearCookies *)
    assert (SA : sim_res id H ow (vset_sl (abs_obj H o) (upd_nth F_COOKIES [] (v_sl (abs_obj H o)))) H
                   (set_sl o (upd_nth F_COOKIES None (o_sl o)))).
    { destruct (comp_sl_upd (fun _ => False) (arrs H) (owA ow) (arrs H) [] id (o_sl o) F_COOKIES None O1
                  (frame_refl _ _ _ _) (fun _ _ x => x) I) as [C1 E1].
      exists [], [], [], []. split; [now apply lens_ext_nil|]. split; [apply idframe_refl|]. split.
      - constructor; unfold ext; cbn [owA owM owR owJ set_sl o_sl o_mp o_rt o_jar o_fact o_ext]; rewrite ?app_nil_r; auto.
        now rewrite app_nil_r in C1.
      - rewrite !abs_obj_eq. unfold vset_sl, set_sl. cbn [v_sl v_mp v_rt v_chain v_tchain v_scal v_jar v_fact v_par v_ext
          o_sl o_mp o_rt o_chain o_tchain o_scal o_jar o_fact o_par o_ext]. apply vobj_eq; auto. }
    cbn [vapply]. replace (v_fact (abs_obj H o)) with (o_fact o) by reflexivity.
    destruct (o_fact o) eqn:EF; injection Hs as <- <-; [|exact SA].
    pose proof SA as (? & ? & ? & ? & _ & _ & _ & EA1).
    eapply sim_res_trans; [exact SA|]. intros ow1 Lw1 Ow1. pose proof Lw1 as (_ & _ & _ & Lj1). pose proof Ow1 as [_ _ _ _ Q5].
    destruct (bx_new_spec (jars H) (owJ ow1) (id, 0) [] Lj1) as (L1 & T1 & R1 & F1).
    eapply sim_res_eq.
    + apply (sim_jars H ow1 id (set_sl o (upd_nth F_COOKIES None (o_sl o))) (jars H ++ [[]]) [(id, 0)] (Some (length (jars H))) true (o_ext o)); auto.
      * eapply frame_weaken; [|exact F1]. intros t [].
      * simpl. auto.
      * now apply ext_ok_app.
    + cbn [jar_read with_jars jars]. rewrite R1, (abs_ext_app _ (owJ ow1) _ id) by auto. rewrite EA1. reflexivity.
  - (* SMapSet *)
    destruct (mp_update (maps H) (nth f (o_mp o) None) k (fun _ => [v])) as [M m'] eqn:E. inversion Hs; subst H' o'; clear Hs.
    destruct (mp_update_spec _ (owM ow) (id, f) _ _ _ _ _ Lm (O2 f) E) as (e & L1 & K1 & R1 & F1).
    eapply sim_res_eq; [eapply sim_intro; exact (sim_mp_field H ow id o f M m' e _ L O L1 K1 R1 F1)|].
    cbn [vapply]. now rewrite <- mp_read_nth.
  - (* SMapAdd *)
    destruct (mp_update (maps H) (nth f (o_mp o) None) k (fun old => old ++ [v])) as [M m'] eqn:E. inversion Hs; subst H' o'; clear Hs.
    destruct (mp_update_spec _ (owM ow) (id, f) _ _ _ _ _ Lm (O2 f) E) as (e & L1 & K1 & R1 & F1).
    eapply sim_res_eq; [eapply sim_intro; exact (sim_mp_field H ow id o f M m' e _ L O L1 K1 R1 F1)|].
    cbn [vapply]. now rewrite <- mp_read_nth.
  - (* SRetryCount *)
    destruct (get_retry H o) as [[H1 o1] r] eqn:G. inversion Hs; subst H' o'; clear Hs.
    destruct (get_retry_view _ _ _ _ _ _ _ L O G) as (EA & Kc & Kh & Vr).
    cbn [vapply]. rewrite Vr. cbn [vr_max vr_int vr_conds vr_hooks].
    eapply (sim_retry_case H ow id o H1 o1 r (arrs H) [] {| r_max := n; r_int := r_int (nth r (recs H1) retry0); r_conds := r_conds (nth r (recs H1) retry0); r_hooks := r_hooks (nth r (recs H1) retry0) |}); eauto; rewrite ?app_nil_r; auto.
    + apply frame_refl.
    + unfold rec_upd, with_recs, with_arrs; cbn. apply heap_eq; auto.
  - (* SRetryInterval *)
    destruct (get_retry H o) as [[H1 o1] r] eqn:G. inversion Hs; subst H' o'; clear Hs.
    destruct (get_retry_view _ _ _ _ _ _ _ L O G) as (EA & Kc & Kh & Vr).
    cbn [vapply]. rewrite Vr. cbn [vr_max vr_int vr_conds vr_hooks].
    eapply (sim_retry_case H ow id o H1 o1 r (arrs H) [] {| r_max := r_max (nth r (recs H1) retry0); r_int := x; r_conds := r_conds (nth r (recs H1) retry0); r_hooks := r_hooks (nth r (recs H1) retry0) |}); eauto; rewrite ?app_nil_r; auto.
    + apply frame_refl.
    + unfold rec_upd, with_recs, with_arrs; cbn. apply heap_eq; auto.
  - (* SRetrySetHook *)
    destruct (get_retry H o) as [[H1 o1] r] eqn:G.
    destruct (get_retry_view _ _ _ _ _ _ _ L O G) as (EA & Kc & Kh & Vr).
    destruct (sl_lit (arrs H1) [h]) as [A s'] eqn:E. inversion Hs; subst H' o'; clear Hs. rewrite EA in E.
    destruct (sl_lit_spec _ (owA ow) (id, KHooks) _ _ _ La E) as (L1 & K1 & R1 & F1).
    destruct (sl_ok_frame _ _ _ [(id, KHooks)] _ _ _ Kc (fun x : False => x) F1) as [Kc' Rc].
    cbn [vapply]. rewrite Vr. cbn [vr_max vr_int vr_conds vr_hooks].
    eapply (sim_retry_case H ow id o H1 o1 r A [(id, KHooks)] {| r_max := r_max (nth r (recs H1) retry0); r_int := r_int (nth r (recs H1) retry0); r_conds := r_conds (nth r (recs H1) retry0); r_hooks := s' |}); eauto.
    + eapply frame_weaken; [|exact F1]. intros t [].
    + cbn [r_max r_int r_conds r_hooks]. now rewrite Rc, R1.
  - (* SRetryAddHook *)
    destruct (get_retry H o) as [[H1 o1] r] eqn:G.
    destruct (get_retry_view _ _ _ _ _ _ _ L O G) as (EA & Kc & Kh & Vr).
    destruct (sl_append grow (arrs H1) (r_hooks (nth r (recs H1) retry0)) [h]) as [A s'] eqn:E.
    inversion Hs; subst H' o'; clear Hs. rewrite EA in E.
    destruct (sl_append_spec _ _ (owA ow) (id, KHooks) _ _ _ _ La Kh E) as (e & L1 & K1 & R1 & F1).
    assert (NE : (id, KHooks) <> (id, KConds)) by congruence.
    destruct (sl_ok_frame _ _ _ e _ _ _ Kc NE F1) as [Kc' Rc].
    cbn [vapply]. rewrite Vr. cbn [vr_max vr_int vr_conds vr_hooks].
    eapply (sim_retry_case H ow id o H1 o1 r A e {| r_max := r_max (nth r (recs H1) retry0); r_int := r_int (nth r (recs H1) retry0); r_conds := r_conds (nth r (recs H1) retry0); r_hooks := s' |}); eauto.
    + eapply frame_weaken; [|exact F1]. intros t <-; auto.
    + cbn [r_max r_int r_conds r_hooks]. now rewrite Rc, R1.
  - (* SRetrySetCond *)
    destruct (get_retry H o) as [[H1 o1] r] eqn:G.
    destruct (get_retry_view _ _ _ _ _ _ _ L O G) as (EA & Kc & Kh & Vr).
    destruct (sl_lit (arrs H1) [c]) as [A s'] eqn:E. inversion Hs; subst H' o'; clear Hs. rewrite EA in E.
    destruct (sl_lit_spec _ (owA ow) (id, KConds) _ _ _ La E) as (L1 & K1 & R1 & F1).
    destruct (sl_ok_frame _ _ _ [(id, KConds)] _ _ _ Kh (fun x : False => x) F1) as [Kh' Rh].
    cbn [vapply]. rewrite Vr. cbn [vr_max vr_int vr_conds vr_hooks].
    eapply (sim_retry_case H ow id o H1 o1 r A [(id, KConds)] {| r_max := r_max (nth r (recs H1) retry0); r_int := r_int (nth r (recs H1) retry0); r_conds := s'; r_hooks := r_hooks (nth r (recs H1) retry0) |}); eauto.
    + eapply frame_weaken; [|exact F1]. intros t [].
    + cbn [r_max r_int r_conds r_hooks]. now rewrite Rh, R1.
  - (* SRetryAddCond *)
    destruct (get_retry H o) as [[H1 o1] r] eqn:G.
    destruct (get_retry_view _ _ _ _ _ _ _ L O G) as (EA & Kc & Kh & Vr).
    destruct (sl_append grow (arrs H1) (r_conds (nth r (recs H1) retry0)) [c]) as [A s'] eqn:E.
    inversion Hs; subst H' o'; clear Hs. rewrite EA in E.
    destruct (sl_append_spec _ _ (owA ow) (id, KConds) _ _ _ _ La Kc E) as (e & L1 & K1 & R1 & F1).
    assert (NE : (id, KConds) <> (id, KHooks)) by congruence.
    destruct (sl_ok_frame _ _ _ e _ _ _ Kh NE F1) as [Kh' Rh].
    cbn [vapply]. rewrite Vr. cbn [vr_max vr_int vr_conds vr_hooks].
    eapply (sim_retry_case H ow id o H1 o1 r A e {| r_max := r_max (nth r (recs H1) retry0); r_int := r_int (nth r (recs H1) retry0); r_conds := s'; r_hooks := r_hooks (nth r (recs H1) retry0) |}); eauto.
    + eapply frame_weaken; [|exact F1]. intros t <-; auto.
    + cbn [r_max r_int r_conds r_hooks]. now rewrite Rh, R1.
  - (* SScal *)
    inversion Hs; subst H' o'; clear Hs.
    eapply sim_res_eq; [apply (sim_res_pure id H ow o (set_scal o (nset k v (o_scal o)))); auto|reflexivity].
  - (* SWrap *)
    destruct vs as [|v0 vs0]; [inversion Hs; subst; now apply sim_res_refl|].
    cbv iota in Hs. cbn [vapply]. remember (v0 :: vs0) as vs eqn:Evs. clear Evs.
    destruct (sl_build grow (arrs H) None vs) as [A1 w] eqn:E1.
    replace (v_chain (abs_obj H o)) with (o_chain o) by reflexivity.
    destruct (o_chain o) as [ch|] eqn:EC.
    + destruct (sl_append grow A1 (nth F_RTW (o_sl o) None) vs) as [A2 s'] eqn:E2.
      injection Hs as <- <-.
      apply sim_res_chain. apply (sim_wrap_more grow H ow id o F_RTW vs A1 w A2 s'); auto.
    + injection Hs as <- <-.
      apply sim_res_chain. apply (sim_wrap_first grow H ow id o F_RTW vs A1 w); auto.
  - (* STWrap *)
    destruct vs as [|v0 vs0]; [inversion Hs; subst; now apply sim_res_refl|].
    cbv iota in Hs. cbn [vapply]. remember (v0 :: vs0) as vs eqn:Evs. clear Evs.
    destruct (sl_build grow (arrs H) None vs) as [A1 w] eqn:E1.
    replace (v_tchain (abs_obj H o)) with (o_tchain o) by reflexivity.
    destruct (o_tchain o) as [ch|] eqn:EC.
    + destruct (sl_append grow A1 (nth F_TRW (o_sl o) None) vs) as [A2 s'] eqn:E2.
      injection Hs as <- <-.
      apply sim_res_tchain. apply (sim_wrap_more grow H ow id o F_TRW vs A1 w A2 s'); auto.
    + injection Hs as <- <-.
      apply sim_res_tchain. apply (sim_wrap_first grow H ow id o F_TRW vs A1 w); auto.
  - (* SJarFactory *)
    inversion Hs; subst H' o'; clear Hs.
    destruct (bx_new_spec (jars H) (owJ ow) (id, 0) [] Lj) as (L1 & T1 & R1 & F1).
    eapply sim_res_eq.
    + apply (sim_jars H ow id o (jars H ++ [[]]) [(id, 0)] (Some (length (jars H))) true (o_ext o)); auto.
      * eapply frame_weaken; [|exact F1]. intros t [].
      * simpl. auto.
      * now apply ext_ok_app.
    + cbn [jar_read with_jars jars]. rewrite R1, (abs_ext_app _ (owJ ow) _ id) by auto. reflexivity.
  - (* SJarPlain *) exfalso. apply NJ. reflexivity.
  - (* SJarStore *)
    destruct (o_jar o) as [j|] eqn:EJ.
    2:{ inversion Hs; subst. eapply sim_res_eq; [now apply sim_res_refl|].
        cbn [vapply]. replace (v_jar (abs_obj H' o')) with (jar_read H' (o_jar o')) by reflexivity. now rewrite EJ. }
    inversion Hs; subst H' o'; clear Hs.
    simpl in O4. destruct O4 as [Tj Fj]. pose proof (nth_error_lt _ _ _ Tj) as Hj. rewrite Lj in Hj.
    rewrite <- (obj_eta o) at 2. rewrite EJ.
    assert (F1 : frame [] (eq (id, 0)) (jars H) (owJ ow) (upd_nth j (nth j (jars H) [] ++ [ck]) (jars H))) by now apply frame_upd.
    eapply sim_res_eq.
    + apply (sim_jars H ow id o _ [] (Some j) (o_fact o) (o_ext o)); auto.
      * now rewrite app_nil_r, upd_nth_length.
      * eapply frame_weaken; [|exact F1]. apply WMid_eq.
      * rewrite app_nil_r. simpl. auto.
      * now rewrite app_nil_r.
    + cbn [jar_read with_jars jars vapply]. rewrite nth_upd_nth_eq by exact Hj.
      destruct (ext_ok_frame _ _ _ [] (eq (id, 0)) id _ O5 F1) as [_ EX]; try (intros X; inversion X; fail).
      rewrite EX. vunf. cbn [jar_read]. rewrite EJ. reflexivity.
  - (* SSliceSet *)
    destruct (sl_lit (arrs H) vs) as [A s'] eqn:E. injection Hs as <- <-.
    destruct (sl_lit_spec _ (owA ow) (id, KSl f) _ _ _ La E) as (L1 & K1 & R1 & F1).
    assert (HW : fieldW id f (fun _ : atag => False)) by (repeat split; tauto).
    eapply sim_intro. exact (sim_sl_fieldW _ H ow id o f A s' [(id, KSl f)] vs L O HW L1 K1 R1 F1).
  - (* STlsEdit *)
    destruct O5 as (X1 & X2 & X3).
    destruct (bx_get (jars H) (e_tls (o_ext o)) TLS0) as [J1 a] eqn:G. injection Hs as <- <-.
    destruct (bx_get_upd_spec _ (owJ ow) (id, 2) _ TLS0 (apply_edits es) _ _ Lj X3 G) as (e & L1 & T1 & R1 & F1 & _ & _).
    assert (N12 : (id, 2) <> (id, 1)) by congruence.
    destruct (bx_ok_frame _ _ _ e _ _ _ X1 F1 N12) as (A1 & B1 & _).
    destruct (bx_ok_frame _ _ _ e _ _ _ X2 F1 N12) as (A2 & _ & C2).
    cbn [vapply].
    apply (sim_ext H ow id o _ e); auto.
    + apply (frame12_of id 2); auto.
    + repeat split; auto.
    + cbn [abs_obj v_ext]. unfold abs_ext, xset_tls, set_tls. cbn [e_dopt e_dumper e_tls x_dopt x_dumper x_tls bx_read].
      rewrite B1, R1. f_equal. destruct (e_dumper (o_ext o)) as [b|]; auto. now rewrite (C2 b eq_refl).
  - (* STlsNew *)
    destruct O5 as (X1 & X2 & X3). injection Hs as <- <-.
    destruct (bx_new_spec (jars H) (owJ ow) (id, 2) l Lj) as (L1 & T1 & R1 & F1).
    destruct (bx_ok_frame _ _ _ [(id, 2)] _ _ _ X1 F1 (fun x : False => x)) as (A1 & B1 & _).
    destruct (bx_ok_frame _ _ _ [(id, 2)] _ _ _ X2 F1 (fun x : False => x)) as (A2 & _ & C2).
    cbn [vapply].
    apply (sim_ext H ow id o _ [(id, 2)]); auto.
    + now apply frame12_none.
    + repeat split; auto.
    + cbn [abs_obj v_ext]. unfold abs_ext, xset_tls, set_tls. cbn [e_dopt e_dumper e_tls x_dopt x_dumper x_tls bx_read].
      rewrite B1, R1. f_equal. destruct (e_dumper (o_ext o)) as [b|]; auto. now rewrite (C2 b eq_refl).
  - (* SDumpAll *)
    destruct O5 as (X1 & X2 & X3). cbn [vapply].
    replace (x_dumper (v_ext (abs_obj H o))) with
      (match e_dumper (o_ext o) with None => DOff | Some b => if opn_eqb (e_dopt (o_ext o)) (Some b) then DLinked else DOwn (nth b (jars H) []) end)
      by reflexivity.
    destruct (e_dumper (o_ext o)) as [b|] eqn:ED.
    { injection Hs as <- <-. eapply sim_res_eq; [now apply sim_res_refl|]. destruct (opn_eqb _ _); reflexivity. }
    destruct (e_dopt (o_ext o)) as [a0|] eqn:EDo; cbn [bx_get] in Hs; injection Hs as <- <-.
    + apply (sim_ext H ow id o (jars H) []); auto.
      * now rewrite app_nil_r.
      * apply frame_refl.
      * rewrite app_nil_r. repeat split; auto.
      * cbn [abs_obj v_ext]. unfold abs_ext, xset_dumper, xset_dopt, set_dumper, set_dopt.
        cbn [e_dopt e_dumper e_tls x_dopt x_dumper x_tls bx_read odflt]. rewrite EDo, opn_eqb_refl. reflexivity.
    + destruct (bx_new_spec (jars H) (owJ ow) (id, 1) DUMP0 Lj) as (L1 & T1 & R1 & F1).
      destruct (bx_ok_frame _ _ _ [(id, 1)] _ _ _ X3 F1 (fun x : False => x)) as (A3 & B3 & _).
      apply (sim_ext H ow id o _ [(id, 1)]); auto.
      * now apply frame12_none.
      * repeat split; auto.
      * cbn [abs_obj v_ext]. unfold abs_ext, xset_dumper, xset_dopt, set_dumper, set_dopt.
        cbn [e_dopt e_dumper e_tls x_dopt x_dumper x_tls bx_read odflt]. rewrite EDo, opn_eqb_refl, R1, B3. reflexivity.
  - (* SDumpEnable *)
    destruct O5 as (X1 & X2 & X3). cbn [vapply].
    destruct (bx_get (jars H) (e_dopt (o_ext o)) DUMP0) as [J1 a] eqn:G. injection Hs as <- <-.
    destruct (bx_get_upd_spec _ (owJ ow) (id, 1) _ DUMP0 (apply_edits es) _ _ Lj X1 G) as (e & L1 & T1 & R1 & F1 & Nb & Nn).
    assert (N12 : (id, 1) <> (id, 2)) by congruence.
    destruct (bx_ok_frame _ _ _ e _ _ _ X3 F1 N12) as (A3 & B3 & _).
    apply (sim_ext H ow id o _ e); auto.
    + apply (frame12_of id 1); auto.
    + repeat split; auto. cbn [set_dumper set_dopt e_dumper e_dopt].
      destruct (e_dumper (o_ext o)) as [b|]; simpl; auto using nth_error_app_old.
    + cbn [abs_obj v_ext]. unfold abs_ext, xset_dumper, xset_dopt, set_dumper, set_dopt.
      cbn [e_dopt e_dumper e_tls x_dopt x_dumper x_tls bx_read]. rewrite R1, B3. f_equal.
      destruct (e_dumper (o_ext o)) as [b|] eqn:ED; [|now rewrite opn_eqb_refl].
      simpl in X2. pose proof (nth_error_lt _ _ _ X2) as Hb. rewrite Lj in Hb.
      destruct (e_dopt (o_ext o)) as [a0|] eqn:EDo.
      * cbn [bx_get] in G. injection G as <- <-. simpl opn_eqb.
        destruct (Nat.eqb_spec a0 b); auto. rewrite Nb; auto.
      * simpl opn_eqb. pose proof (Nn b eq_refl Hb) as Nab.
        destruct (Nat.eqb_spec a b); [congruence|]. rewrite Nb; auto.
  - (* SDumpDisable *)
    injection Hs as <- <-. destruct O5 as (X1 & X2 & X3).
    eapply sim_res_eq; [apply (sim_res_pure id H ow o (set_ext o (set_dumper (o_ext o) None))); auto|reflexivity].
    repeat split; simpl; auto.
  - (* SDumpSetOpts *)
    destruct O5 as (X1 & X2 & X3). cbn [vapply]. injection Hs as <- <-.
    destruct (bx_new_spec (jars H) (owJ ow) (id, 1) l Lj) as (L1 & T1 & R1 & F1).
    destruct (bx_ok_frame _ _ _ [(id, 1)] _ _ _ X3 F1 (fun x : False => x)) as (A3 & B3 & _).
    apply (sim_ext H ow id o _ [(id, 1)]); auto.
    + now apply frame12_none.
    + repeat split; auto. cbn [set_dumper set_dopt e_dumper e_dopt]. destruct (e_dumper (o_ext o)); simpl; auto.
    + cbn [abs_obj v_ext]. unfold abs_ext, xset_dumper, xset_dopt, set_dumper, set_dopt.
      cbn [e_dopt e_dumper e_tls x_dopt x_dumper x_tls bx_read]. rewrite R1, B3. f_equal.
      destruct (e_dumper (o_ext o)) as [b|]; [|reflexivity]. rewrite opn_eqb_refl. destruct (opn_eqb _ _); reflexivity.
  - (* SDumpTransport *)
    destruct O5 as (X1 & X2 & X3). cbn [vapply]. injection Hs as <- <-.
    destruct (bx_new_spec (jars H) (owJ ow) (id, 1) l Lj) as (L1 & T1 & R1 & F1).
    destruct (bx_ok_frame _ _ _ [(id, 1)] _ _ _ X1 F1 (fun x : False => x)) as (A1 & B1 & _).
    destruct (bx_ok_frame _ _ _ [(id, 1)] _ _ _ X3 F1 (fun x : False => x)) as (A3 & B3 & _).
    apply (sim_ext H ow id o _ [(id, 1)]); auto.
    + now apply frame12_none.
    + repeat split; auto.
    + cbn [abs_obj v_ext]. unfold abs_ext, xset_dumper, set_dumper.
      cbn [e_dopt e_dumper e_tls x_dopt x_dumper x_tls]. rewrite R1, B1, B3. f_equal.
      destruct (e_dopt (o_ext o)) as [a0|] eqn:EDo; [|reflexivity]. simpl in X1.
      pose proof (nth_error_lt _ _ _ X1) as Ha. rewrite Lj in Ha. simpl.
      destruct (Nat.eqb_spec a0 (length (jars H))); [lia|reflexivity].
Qed.
