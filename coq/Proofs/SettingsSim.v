(* Proofs/SettingsSim.v - C19: the reference-heap model refines the value model as long as every
   field is deep-copied by Clone (table = deep_tbl) and no jar is installed without a factory.
   Invariant: every heap cell carries an owner tag (object, field); an object's references point
   to cells tagged with that object and field; an operation on object id changes only cells
   tagged with id (frame), so every other object reads exactly what it read before. *)
From Coq Require Import List Arith Bool Lia.
From ReqV Require Import Model.Settings Proofs.SettingsHeap Proofs.SettingsValue.
Import ListNotations.

Lemma nth_upd_case {A} f i (x : A) l d :
  nth i (upd_nth f x l) d = if (f =? i) && (f <? length l) then x else nth i l d.
Proof.
  destruct (Nat.eqb_spec f i); simpl.
  - subst. destruct (Nat.ltb_spec i (length l)).
    + now apply SettingsHeap.nth_upd_nth_eq.
    + rewrite !nth_overflow; auto. now rewrite SettingsHeap.upd_nth_length.
  - now apply SettingsHeap.nth_upd_nth_neq.
Qed.

Lemma upd_nth_map_ext {A B} (g g' : A -> B) d x : forall f l,
  (forall i, i <> f -> g' (nth i l d) = g (nth i l d)) ->
  upd_nth f x (map g' l) = upd_nth f x (map g l).
Proof.
  intros f l. revert f. induction l as [|a l IH]; intros f H; destruct f; simpl; auto.
  - f_equal. apply map_nth_ext with (d := d). intros i. apply (H (S i)). lia.
  - f_equal; [apply (H 0); lia|]. apply IH. intros i Hi. apply (H (S i)). lia.
Qed.

Lemma comp_sl_upd A oA A' e id l f s' :
  comp_sl A oA id l -> frame [] (eq (id, KSl f)) A oA A' -> sl_ok A' (oA ++ e) (id, KSl f) s' ->
  comp_sl A' (oA ++ e) id (upd_nth f s' l) /\
  map (sl_read A') (upd_nth f s' l) = upd_nth f (sl_read A' s') (map (sl_read A) l).
Proof.
  intros Hc F Hs. split.
  - intros i. rewrite nth_upd_case. destruct (Nat.eqb_spec f i).
    + subst. destruct (Nat.ltb_spec i (length l)); simpl; [exact Hs|]. rewrite nth_overflow by lia. exact I.
    + simpl. destruct (sl_ok_frame A oA A' e (eq (id, KSl f)) (id, KSl i) (nth i l None)); auto.
      intros E; inversion E; congruence.
  - rewrite map_upd_nth. apply upd_nth_map_ext with (d := None). intros i Hi.
    destruct (sl_ok_frame A oA A' e (eq (id, KSl f)) (id, KSl i) (nth i l None)); auto.
    intros E; inversion E; congruence.
Qed.

Lemma comp_mp_upd M oM M' e id l f m' :
  comp_mp oM id l -> frame [] (eq (id, f)) M oM M' -> mp_ok (oM ++ e) (id, f) m' ->
  comp_mp (oM ++ e) id (upd_nth f m' l) /\
  map (mp_read M') (upd_nth f m' l) = upd_nth f (mp_read M' m') (map (mp_read M) l).
Proof.
  intros Hc F Hs. split.
  - intros i. rewrite nth_upd_case. destruct (Nat.eqb_spec f i).
    + subst. destruct (Nat.ltb_spec i (length l)); simpl; [exact Hs|]. rewrite nth_overflow by lia. exact I.
    + simpl. destruct (mp_ok_frame M oM M' e (eq (id, f)) (id, i) (nth i l None)); auto.
      intros E; inversion E; congruence.
  - rewrite map_upd_nth. apply upd_nth_map_ext with (d := None). intros i Hi.
    destruct (mp_ok_frame M oM M' e (eq (id, f)) (id, i) (nth i l None)); auto.
    intros E; inversion E; congruence.
Qed.

Definition WAid (id : oid) (t : atag) : Prop := fst t = id.
Definition WMid (id : oid) (t : mtag) : Prop := fst t = id.
Definition WOid (id x : oid) : Prop := x = id.
Definition idframe (id : oid) := hframe (WAid id) (WMid id) (WOid id) (WMid id).
Definition noframe := hframe (fun _ => False) (fun _ => False) (fun _ => False) (fun _ => False).

Lemma noframe_idframe id H ow H' : noframe H ow H' -> idframe id H ow H'.
Proof.
  intros (A & B & C & D). unfold idframe, hframe.
  split; [eapply frame_weaken; [|exact A]; simpl; tauto|].
  split; [eapply frame_weaken; [|exact B]; simpl; tauto|].
  split; [eapply frame_weaken; [|exact C]; simpl; tauto|].
  eapply frame_weaken; [|exact D]; simpl; tauto.
Qed.

Lemma nth_map_default {A B} (f : A -> B) l i d d' : f d = d' -> nth i (map f l) d' = f (nth i l d).
Proof. intros <-. apply map_nth. Qed.

Lemma sl_read_nth A l i : nth i (map (sl_read A) l) [] = sl_read A (nth i l None).
Proof. now apply nth_map_default. Qed.
Lemma mp_read_nth M l i : nth i (map (mp_read M) l) [] = mp_read M (nth i l None).
Proof. now apply nth_map_default. Qed.

(* the retry record after c.getRetryOption() *)
Lemma get_retry_spec H ow id o H1 o1 r :
  lens H ow -> obj_ok H ow id o -> get_retry H o = (H1, o1, r) ->
  exists eR, length (owR ow ++ eR) = length (recs H1) /\
    arrs H1 = arrs H /\ maps H1 = maps H /\ jars H1 = jars H /\
    frame retry0 (fun _ : oid => False) (recs H) (owR ow) (recs H1) /\
    o1 = set_rt o (Some r) /\ r < length (recs H1) /\
    rt_ok (arrs H) (recs H1) (owA ow) (owR ow ++ eR) id (Some r) /\
    rt_view (arrs H) (recs H1) (Some r) = rt_view (arrs H) (recs H) (o_rt o).
Proof.
  intros (La & Lm & Lr & Lj) [O1 O2 O3 O4 O5] G. unfold get_retry in G.
  destruct (o_rt o) as [a|] eqn:E.
  - inversion G; subst. exists []. rewrite app_nil_r. simpl in O3. destruct O3 as (T & C & K).
    repeat split; auto.
    + destruct o1; unfold set_rt; simpl in *; congruence.
    + rewrite <- Lr. eapply nth_error_lt; eauto.
  - inversion G; subst. exists [id]. simpl. rewrite !app_length, Lr. simpl.
    repeat split; auto; rewrite ?nth_app_new; simpl; auto; try lia.
    + rewrite app_length; lia.
    + intros a t0 Ha _. apply app_nth1. rewrite <- Lr. eapply nth_error_lt; eauto.
    + rewrite <- Lr. apply nth_error_app_new.
Qed.

Lemma lens_ext_nil H ow : lens H ow -> lens H (ext ow [] [] [] []).
Proof. unfold lens, ext; simpl. now rewrite !app_nil_r. Qed.

Lemma obj_ok_ext_nil H ow id o : obj_ok H ow id o -> obj_ok H (ext ow [] [] [] []) id o.
Proof. intros [A B C D E]. constructor; unfold ext; simpl; now rewrite ?app_nil_r. Qed.

Lemma idframe_refl id H ow : idframe id H ow H.
Proof. repeat split; auto. Qed.

Lemma vobj_eq a b c d e f g h i x a' b' c' g' x' :
  a = a' -> b = b' -> c = c' -> g = g' -> x = x' ->
  {| v_sl := a; v_mp := b; v_rt := c; v_chain := d; v_tchain := e; v_scal := f; v_jar := g; v_fact := h; v_par := i; v_ext := x |} =
  {| v_sl := a'; v_mp := b'; v_rt := c'; v_chain := d; v_tchain := e; v_scal := f; v_jar := g'; v_fact := h; v_par := i; v_ext := x' |}.
Proof. intros; subst; reflexivity. Qed.

(* ---- a heap update that only touches the arrays tagged (id, KSl f) ---- *)
Lemma sim_sl_field H ow id o f A' s' e rd :
  lens H ow -> obj_ok H ow id o ->
  length (owA ow ++ e) = length A' -> sl_ok A' (owA ow ++ e) (id, KSl f) s' ->
  sl_read A' s' = rd -> frame [] (eq (id, KSl f)) (arrs H) (owA ow) A' ->
  let H' := with_arrs H A' in let o' := set_sl o (upd_nth f s' (o_sl o)) in
  lens H' (ext ow e [] [] []) /\ idframe id H ow H' /\ obj_ok H' (ext ow e [] [] []) id o' /\
  abs_obj H' o' = vset_sl (abs_obj H o) (upd_nth f rd (v_sl (abs_obj H o))).
Proof.
  intros (La & Lm & Lr & Lj) [O1 O2 O3 O4 O5] L Ok Rd F H' o'.
  destruct (comp_sl_upd _ _ _ e _ _ _ _ O1 F Ok) as [C1 E1].
  destruct (rt_ok_frame _ _ _ _ A' (recs H) e [] (eq (id, KSl f)) (fun _ => False) _ _ O3 F (frame_refl _ _ _ _)) as [C3 E3];
    try (intros E; inversion E; fail); auto.
  split; [|split; [|split]].
  - unfold lens, ext; simpl. rewrite !app_nil_r. auto.
  - unfold idframe, hframe; simpl. split; [eapply frame_weaken; [|exact F]; intros t <-; reflexivity|].
    split; [apply frame_refl|]. split; apply frame_refl.
  - constructor; simpl; auto; rewrite ?app_nil_r; auto.
  - rewrite !abs_obj_eq. unfold vset_sl; simpl. apply vobj_eq; auto. now rewrite E1, Rd.
Qed.

Lemma sim_mp_field H ow id o f M' m' e rd :
  lens H ow -> obj_ok H ow id o ->
  length (owM ow ++ e) = length M' -> mp_ok (owM ow ++ e) (id, f) m' ->
  mp_read M' m' = rd -> frame [] (eq (id, f)) (maps H) (owM ow) M' ->
  let H' := with_maps H M' in let o' := set_mp o (upd_nth f m' (o_mp o)) in
  lens H' (ext ow [] e [] []) /\ idframe id H ow H' /\ obj_ok H' (ext ow [] e [] []) id o' /\
  abs_obj H' o' = vset_mp (abs_obj H o) (upd_nth f rd (v_mp (abs_obj H o))).
Proof.
  intros (La & Lm & Lr & Lj) [O1 O2 O3 O4 O5] L Ok Rd F H' o'.
  destruct (comp_mp_upd _ _ _ e _ _ _ _ O2 F Ok) as [C1 E1].
  split; [|split; [|split]].
  - unfold lens, ext; simpl. rewrite !app_nil_r. auto.
  - unfold idframe, hframe; simpl. split; [apply frame_refl|].
    split; [eapply frame_weaken; [|exact F]; intros t <-; reflexivity|]. split; apply frame_refl.
  - constructor; simpl; auto; rewrite ?app_nil_r; auto.
  - rewrite !abs_obj_eq. unfold vset_mp; simpl. apply vobj_eq; auto. now rewrite E1, Rd.
Qed.

(* ---- an update of the retry record r of object id (fields and/or its slices) ---- *)
Lemma sim_rt H ow id o A' R' eA eR r vr :
  lens H ow -> obj_ok H ow id o ->
  length (owA ow ++ eA) = length A' -> length (owR ow ++ eR) = length R' ->
  frame [] (fun t => t = (id, KConds) \/ t = (id, KHooks)) (arrs H) (owA ow) A' ->
  frame retry0 (eq id) (recs H) (owR ow) R' ->
  rt_ok A' R' (owA ow ++ eA) (owR ow ++ eR) id (Some r) -> rt_view A' R' (Some r) = vr ->
  let H' := with_recs (with_arrs H A') R' in let o' := set_rt o (Some r) in
  lens H' (ext ow eA [] eR []) /\ idframe id H ow H' /\ obj_ok H' (ext ow eA [] eR []) id o' /\
  abs_obj H' o' = vset_rt (abs_obj H o) vr.
Proof.
  intros (La & Lm & Lr & Lj) [O1 O2 O3 O4 O5] L1 L2 FA FR Ok Rd H' o'.
  destruct (comp_sl_frame _ _ _ eA _ _ _ O1 FA) as [C1 E1].
  { intros i [E|E]; inversion E. }
  split; [|split; [|split]].
  - unfold lens, ext; simpl. rewrite !app_nil_r. auto.
  - unfold idframe, hframe; simpl.
    split; [eapply frame_weaken; [|exact FA]; intros t [->| ->]; reflexivity|].
    split; [apply frame_refl|].
    split; [eapply frame_weaken; [|exact FR]; intros t <-; reflexivity | apply frame_refl].
  - constructor; simpl; auto; rewrite ?app_nil_r; auto.
  - rewrite !abs_obj_eq. unfold vset_rt; simpl. apply vobj_eq; auto.
Qed.
