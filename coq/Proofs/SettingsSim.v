(* Proofs/SettingsSim.v - C19: the reference-heap model refines the value model as long as every
   field is deep-copied by Clone (table = deep_tbl) and no jar is installed without a factory.
   Invariant: every heap cell carries an owner tag (object, field); an object's references point
   to cells tagged with that object and field; an operation on object id changes only cells
   tagged with id (frame), so every other object reads exactly what it read before. *)
From Coq Require Import List Arith Bool Lia.
From ReqV Require Import Model.Settings Proofs.SettingsHeap Proofs.SettingsValue.
Import ListNotations.

Lemma nth_upd_case {A} f i (x : A) l d :
  nth i (upd_nth f x l) d = if (f =? i) && (f <? length l) then x else nth i l d.
Proof.
  destruct (Nat.eqb_spec f i); simpl.
  - subst. destruct (Nat.ltb_spec i (length l)).
    + now apply SettingsHeap.nth_upd_nth_eq.
    + rewrite !nth_overflow; auto. now rewrite SettingsHeap.upd_nth_length.
  - now apply SettingsHeap.nth_upd_nth_neq.
Qed.

Lemma upd_nth_map_ext {A B} (g g' : A -> B) d x : forall f l,
  (forall i, i <> f -> g' (nth i l d) = g (nth i l d)) ->
  upd_nth f x (map g' l) = upd_nth f x (map g l).
Proof.
  intros f l. revert f. induction l as [|a l IH]; intros f H; destruct f; simpl; auto.
  - f_equal. apply map_nth_ext with (d := d). intros i. apply (H (S i)). lia.
  - f_equal; [apply (H 0); lia|]. apply IH. intros i Hi. apply (H (S i)). lia.
Qed.

Lemma comp_sl_upd W A oA A' e id l f s' :
  comp_sl A oA id l -> frame [] W A oA A' -> (forall i, i <> f -> ~ W (id, KSl i)) ->
  sl_ok A' (oA ++ e) (id, KSl f) s' ->
  comp_sl A' (oA ++ e) id (upd_nth f s' l) /\
  map (sl_read A') (upd_nth f s' l) = upd_nth f (sl_read A' s') (map (sl_read A) l).
Proof.
  intros Hc F HW Hs. split.
  - intros i. rewrite nth_upd_case. destruct (Nat.eqb_spec f i).
    + subst. destruct (Nat.ltb_spec i (length l)); simpl; [exact Hs|]. rewrite nth_overflow by lia. exact I.
    + simpl. destruct (sl_ok_frame A oA A' e W (id, KSl i) (nth i l None)); auto.
  - rewrite map_upd_nth. apply upd_nth_map_ext with (d := None). intros i Hi.
    destruct (sl_ok_frame A oA A' e W (id, KSl i) (nth i l None)); auto.
Qed.

Lemma comp_mp_upd A M oA oM A' M' eA eM id l f k m' :
  comp_mp A M oA oM id l -> frame [] (eq (id, KMap f k)) A oA A' -> frame [] (eq (id, f)) M oM M' ->
  hm_ok A' M' (oA ++ eA) (oM ++ eM) (id, f) m' ->
  comp_mp A' M' (oA ++ eA) (oM ++ eM) id (upd_nth f m' l) /\
  map (mp_read A' M') (upd_nth f m' l) = upd_nth f (mp_read A' M' m') (map (mp_read A M) l).
Proof.
  intros Hc FA FM Hs.
  assert (Hoth : forall i, i <> f -> hm_ok A' M' (oA ++ eA) (oM ++ eM) (id, i) (nth i l None) /\
                                     mp_read A' M' (nth i l None) = mp_read A M (nth i l None)).
  { intros i N. apply (hm_ok_frame A M oA oM A' M' eA eM (eq (id, KMap f k)) (eq (id, f)) (id, i) _ (Hc i)); auto.
    - intros E; inversion E; congruence.
    - intros k0 E; inversion E; simpl in *; congruence. }
  split.
  - intros i. rewrite nth_upd_case. destruct (Nat.eqb_spec f i).
    + subst. destruct (Nat.ltb_spec i (length l)); simpl; [exact Hs|]. rewrite nth_overflow by lia. exact I.
    + simpl. apply Hoth; auto.
  - rewrite map_upd_nth. apply upd_nth_map_ext with (d := None). intros i Hi. apply Hoth; auto.
Qed.

Definition WAid (id : oid) (t : atag) : Prop := fst t = id.
Definition WMid (id : oid) (t : mtag) : Prop := fst t = id.
Definition WOid (id x : oid) : Prop := x = id.
Definition idframe (id : oid) := hframe (WAid id) (WMid id) (WOid id) (WMid id).
Definition noframe := hframe (fun _ => False) (fun _ => False) (fun _ => False) (fun _ => False).

Lemma noframe_idframe id H ow H' : noframe H ow H' -> idframe id H ow H'.
Proof.
  intros (A & B & C & D). unfold idframe, hframe.
  split; [eapply frame_weaken; [|exact A]; simpl; tauto|].
  split; [eapply frame_weaken; [|exact B]; simpl; tauto|].
  split; [eapply frame_weaken; [|exact C]; simpl; tauto|].
  eapply frame_weaken; [|exact D]; simpl; tauto.
Qed.

Lemma nth_map_default {A B} (f : A -> B) l i d d' : f d = d' -> nth i (map f l) d' = f (nth i l d).
Proof. intros <-. apply map_nth. Qed.

Lemma sl_read_nth A l i : nth i (map (sl_read A) l) [] = sl_read A (nth i l None).
Proof. now apply nth_map_default. Qed.
Lemma mp_read_nth A M l i : nth i (map (mp_read A M) l) [] = mp_read A M (nth i l None).
Proof. now apply nth_map_default. Qed.

(* the retry record after c.getRetryOption() *)
Lemma get_retry_spec H ow id o H1 o1 r :
  lens H ow -> obj_ok H ow id o -> get_retry H o = (H1, o1, r) ->
  exists eR, length (owR ow ++ eR) = length (recs H1) /\
    arrs H1 = arrs H /\ maps H1 = maps H /\ jars H1 = jars H /\
    frame retry0 (fun _ : oid => False) (recs H) (owR ow) (recs H1) /\
    o1 = set_rt o (Some r) /\ r < length (recs H1) /\
    rt_ok (arrs H) (recs H1) (owA ow) (owR ow ++ eR) id (Some r) /\
    rt_view (arrs H) (recs H1) (Some r) = rt_view (arrs H) (recs H) (o_rt o).
Proof.
  intros (La & Lm & Lr & Lj) [O1 O2 O3 O4 O5] G. unfold get_retry in G.
  destruct (o_rt o) as [a|] eqn:E.
  - inversion G; subst. exists []. rewrite app_nil_r. simpl in O3. destruct O3 as (T & C & K).
    repeat split; auto.
    + destruct o1; unfold set_rt; simpl in *; congruence.
    + rewrite <- Lr. eapply nth_error_lt; eauto.
  - inversion G; subst. exists [id]. simpl. rewrite !app_length, Lr. simpl.
    repeat split; auto; rewrite ?nth_app_new; simpl; auto; try lia.
    + rewrite app_length; lia.
    + intros a t0 Ha _. apply app_nth1. rewrite <- Lr. eapply nth_error_lt; eauto.
    + rewrite <- Lr. apply nth_error_app_new.
Qed.

Lemma lens_ext_nil H ow : lens H ow -> lens H (ext ow [] [] [] []).
Proof. unfold lens, ext; simpl. now rewrite !app_nil_r. Qed.

Lemma obj_ok_ext_nil H ow id o : obj_ok H ow id o -> obj_ok H (ext ow [] [] [] []) id o.
Proof. intros [A B C D E]. constructor; unfold ext; simpl; now rewrite ?app_nil_r. Qed.

Lemma idframe_refl id H ow : idframe id H ow H.
Proof. repeat split; auto. Qed.

Lemma vobj_eq a b c d e f g h i x a' b' c' g' x' :
  a = a' -> b = b' -> c = c' -> g = g' -> x = x' ->
  {| v_sl := a; v_mp := b; v_rt := c; v_chain := d; v_tchain := e; v_scal := f; v_jar := g; v_fact := h; v_par := i; v_ext := x |} =
  {| v_sl := a'; v_mp := b'; v_rt := c'; v_chain := d; v_tchain := e; v_scal := f; v_jar := g'; v_fact := h; v_par := i; v_ext := x' |}.
Proof. intros; subst; reflexivity. Qed.

(* ---- a heap update that only touches the arrays tagged (id, KSl f) ---- *)
(* W: the tags of the arrays the update may have written: (id, KSl f) and scratch arrays of id *)
Definition fieldW (id : oid) (f : nat) (W : atag -> Prop) : Prop :=
  (forall i, i <> f -> ~ W (id, KSl i)) /\ ~ W (id, KConds) /\ ~ W (id, KHooks) /\ (forall t, W t -> fst t = id) /\
  (forall g k, ~ W (id, KMap g k)).

Lemma fieldW_eq id f : fieldW id f (eq (id, KSl f)).
Proof.
  repeat split; try (intros E; inversion E; fail).
  - intros i N E; inversion E; congruence.
  - now intros t <-.
  - intros g k E; inversion E.
Qed.

Lemma sim_sl_fieldW W H ow id o f A' s' e rd :
  lens H ow -> obj_ok H ow id o -> fieldW id f W ->
  length (owA ow ++ e) = length A' -> sl_ok A' (owA ow ++ e) (id, KSl f) s' ->
  sl_read A' s' = rd -> frame [] W (arrs H) (owA ow) A' ->
  let H' := with_arrs H A' in let o' := set_sl o (upd_nth f s' (o_sl o)) in
  lens H' (ext ow e [] [] []) /\ idframe id H ow H' /\ obj_ok H' (ext ow e [] [] []) id o' /\
  abs_obj H' o' = vset_sl (abs_obj H o) (upd_nth f rd (v_sl (abs_obj H o))).
Proof.
  intros (La & Lm & Lr & Lj) [O1 O2 O3 O4 O5] (W1 & W2 & W3 & W4 & W5) L Ok Rd F H' o'.
  destruct (comp_sl_upd W _ _ _ e _ _ _ _ O1 F W1 Ok) as [C1 E1].
  destruct (comp_mp_frame _ _ _ _ A' (maps H) e [] W (fun _ => False) _ _ O2 F (frame_refl _ _ _ _)) as [C2 E2]; auto.
  destruct (rt_ok_frame _ _ _ _ A' (recs H) e [] W (fun _ => False) _ _ O3 F (frame_refl _ _ _ _)) as [C3 E3]; auto.
  split; [|split; [|split]].
  - unfold lens, ext; simpl. rewrite !app_nil_r. auto.
  - unfold idframe, hframe; simpl. split; [eapply frame_weaken; [|exact F]; exact W4|].
    split; [apply frame_refl|]. split; apply frame_refl.
  - constructor; simpl; auto; rewrite ?app_nil_r; auto.
  - rewrite !abs_obj_eq. unfold vset_sl; simpl. apply vobj_eq; auto. now rewrite E1, Rd.
Qed.

Lemma sim_sl_field H ow id o f A' s' e rd :
  lens H ow -> obj_ok H ow id o ->
  length (owA ow ++ e) = length A' -> sl_ok A' (owA ow ++ e) (id, KSl f) s' ->
  sl_read A' s' = rd -> frame [] (eq (id, KSl f)) (arrs H) (owA ow) A' ->
  let H' := with_arrs H A' in let o' := set_sl o (upd_nth f s' (o_sl o)) in
  lens H' (ext ow e [] [] []) /\ idframe id H ow H' /\ obj_ok H' (ext ow e [] [] []) id o' /\
  abs_obj H' o' = vset_sl (abs_obj H o) (upd_nth f rd (v_sl (abs_obj H o))).
Proof. intros L O. apply sim_sl_fieldW; auto. apply fieldW_eq. Qed.

Lemma sim_mp_field H ow id o f k A' M' m' eA eM rd :
  lens H ow -> obj_ok H ow id o ->
  length (owA ow ++ eA) = length A' -> length (owM ow ++ eM) = length M' ->
  hm_ok A' M' (owA ow ++ eA) (owM ow ++ eM) (id, f) m' -> mp_read A' M' m' = rd ->
  frame [] (eq (id, KMap f k)) (arrs H) (owA ow) A' -> frame [] (eq (id, f)) (maps H) (owM ow) M' ->
  let H' := with_maps (with_arrs H A') M' in let o' := set_mp o (upd_nth f m' (o_mp o)) in
  lens H' (ext ow eA eM [] []) /\ idframe id H ow H' /\ obj_ok H' (ext ow eA eM [] []) id o' /\
  abs_obj H' o' = vset_mp (abs_obj H o) (upd_nth f rd (v_mp (abs_obj H o))).
Proof.
  intros (La & Lm & Lr & Lj) [O1 O2 O3 O4 O5] LA LM Ok Rd FA FM H' o'.
  destruct (comp_mp_upd _ _ _ _ _ _ eA eM _ _ _ _ _ O2 FA FM Ok) as [C2 E2].
  destruct (comp_sl_frame _ _ _ eA _ _ _ O1 FA) as [C1 E1].
  { intros i E; inversion E. }
  destruct (rt_ok_frame _ _ _ _ A' (recs H) eA [] (eq (id, KMap f k)) (fun _ => False) _ _ O3 FA (frame_refl _ _ _ _)) as [C3 E3];
    try (intros E; inversion E; fail); auto.
  split; [|split; [|split]].
  - unfold lens, ext; simpl. rewrite !app_nil_r. auto.
  - unfold idframe, hframe; simpl. split; [eapply frame_weaken; [|exact FA]; intros t <-; reflexivity|].
    split; [eapply frame_weaken; [|exact FM]; intros t <-; reflexivity|]. split; apply frame_refl.
  - constructor; simpl; auto; rewrite ?app_nil_r; auto.
  - rewrite !abs_obj_eq. unfold vset_mp; simpl. apply vobj_eq; auto. now rewrite E2, Rd.
Qed.

(* ---- an update of the retry record r of object id (fields and/or its slices) ---- *)
Lemma sim_rt H ow id o A' R' eA eR r vr :
  lens H ow -> obj_ok H ow id o ->
  length (owA ow ++ eA) = length A' -> length (owR ow ++ eR) = length R' ->
  frame [] (fun t => t = (id, KConds) \/ t = (id, KHooks)) (arrs H) (owA ow) A' ->
  frame retry0 (eq id) (recs H) (owR ow) R' ->
  rt_ok A' R' (owA ow ++ eA) (owR ow ++ eR) id (Some r) -> rt_view A' R' (Some r) = vr ->
  let H' := with_recs (with_arrs H A') R' in let o' := set_rt o (Some r) in
  lens H' (ext ow eA [] eR []) /\ idframe id H ow H' /\ obj_ok H' (ext ow eA [] eR []) id o' /\
  abs_obj H' o' = vset_rt (abs_obj H o) vr.
Proof.
  intros (La & Lm & Lr & Lj) [O1 O2 O3 O4 O5] L1 L2 FA FR Ok Rd H' o'.
  destruct (comp_sl_frame _ _ _ eA _ _ _ O1 FA) as [C1 E1].
  { intros i [E|E]; inversion E. }
  destruct (comp_mp_frame _ _ _ _ A' (maps H) eA [] _ (fun _ => False) _ _ O2 FA (frame_refl _ _ _ _)) as [C2 E2]; auto.
  { intros g k [E|E]; inversion E. }
  split; [|split; [|split]].
  - unfold lens, ext; simpl. rewrite !app_nil_r. auto.
  - unfold idframe, hframe; simpl.
    split; [eapply frame_weaken; [|exact FA]; intros t [->| ->]; reflexivity|].
    split; [apply frame_refl|].
    split; [eapply frame_weaken; [|exact FR]; intros t <-; reflexivity | apply frame_refl].
  - constructor; simpl; auto; rewrite ?app_nil_r; auto.
  - rewrite !abs_obj_eq. unfold vset_rt; simpl. apply vobj_eq; auto.
Qed.

(* ================= composing updates ================= *)
Lemma frame_upd {X T} (d : X) (t : T) S ow a x :
  nth_error ow a = Some t -> frame d (eq t) S ow (upd_nth a x S).
Proof.
  intros Ht. split; [now rewrite upd_nth_length|].
  intros a0 t0 Ha0 Hne. apply nth_upd_nth_neq. intros ->. rewrite Ht in Ha0. inversion Ha0; auto.
Qed.

Lemma frame_app {X T} (d : X) (W : T -> Prop) S (ow : list T) e : length ow = length S -> frame d W S ow (S ++ e).
Proof.
  intros L. split; [rewrite app_length; lia|].
  intros a t0 Ha _. apply app_nth1. rewrite <- L. eapply nth_error_lt; eauto.
Qed.

Lemma ext_ext ow a b c d a' b' c' d' :
  ext (ext ow a b c d) a' b' c' d' = ext ow (a ++ a') (b ++ b') (c ++ c') (d ++ d').
Proof. unfold ext; simpl. now rewrite <- !app_assoc. Qed.

Lemma hframe_trans WA WM WR WJ H ow H1 a b c d H2 :
  hframe WA WM WR WJ H ow H1 -> hframe WA WM WR WJ H1 (ext ow a b c d) H2 -> hframe WA WM WR WJ H ow H2.
Proof.
  intros (A1 & B1 & C1 & D1) (A2 & B2 & C2 & D2). unfold ext in *; simpl in *.
  repeat split; eapply frame_trans; eauto.
Qed.

(* (H', o') is what an operation on object id made of (H, o): it reads as v', only cells owned by id changed *)
Definition sim_res (id : oid) (H : heap) (ow : owners) (v' : vobj) (H' : heap) (o' : obj) : Prop :=
  exists eA eM eR eJ,
    lens H' (ext ow eA eM eR eJ) /\ idframe id H ow H' /\ obj_ok H' (ext ow eA eM eR eJ) id o' /\ abs_obj H' o' = v'.

Lemma sim_res_trans id H ow v1 H1 o1 v2 H2 o2 :
  sim_res id H ow v1 H1 o1 ->
  (forall ow1, lens H1 ow1 -> obj_ok H1 ow1 id o1 -> sim_res id H1 ow1 v2 H2 o2) ->
  sim_res id H ow v2 H2 o2.
Proof.
  intros (a & b & c & d & L1 & F1 & O1 & E1) K.
  destruct (K _ L1 O1) as (a' & b' & c' & d' & L2 & F2 & O2 & E2).
  exists (a ++ a'), (b ++ b'), (c ++ c'), (d ++ d'). rewrite <- ext_ext.
  split; [exact L2|]. split; [|split; [exact O2|exact E2]].
  unfold idframe in *. eapply hframe_trans; eauto.
Qed.

Lemma sim_res_refl id H ow o : lens H ow -> obj_ok H ow id o -> sim_res id H ow (abs_obj H o) H o.
Proof.
  intros L O. exists [], [], [], [].
  split; [now apply lens_ext_nil|]. split; [apply idframe_refl|]. split; [now apply obj_ok_ext_nil|reflexivity].
Qed.

(* an update of the object record that moves no reference *)
Lemma sim_res_pure id H ow o o' :
  lens H ow -> obj_ok H ow id o ->
  o_sl o' = o_sl o -> o_mp o' = o_mp o -> o_rt o' = o_rt o -> o_jar o' = o_jar o -> o_fact o' = o_fact o ->
  ext_ok (owJ ow) id (o_ext o') ->
  sim_res id H ow (abs_obj H o') H o'.
Proof.
  intros L [O1 O2 O3 O4 O5] E1 E2 E3 E4 E5 X.
  apply sim_res_refl; auto. constructor; rewrite ?E1, ?E2, ?E3, ?E4, ?E5; auto.
Qed.

(* ---- an update that only touches boxes owned by id ---- *)
Lemma sim_jars H ow id o J' e jar' fact' x' :
  lens H ow -> obj_ok H ow id o ->
  length (owJ ow ++ e) = length J' ->
  frame [] (WMid id) (jars H) (owJ ow) J' ->
  jar_ok (owJ ow ++ e) id jar' fact' -> ext_ok (owJ ow ++ e) id x' ->
  let H' := with_jars H J' in let o' := set_ext (set_jar o jar' fact') x' in
  sim_res id H ow (vset_ext (vset_jar (abs_obj H o) (jar_read H' jar') fact') (abs_ext J' x')) H' o'.
Proof.
  intros (La & Lm & Lr & Lj) [O1 O2 O3 O4 O5] L F JO XO H' o'.
  exists [], [], [], e. split; [|split; [|split]].
  - unfold lens, ext; simpl. rewrite !app_nil_r. auto.
  - unfold idframe, hframe; simpl. repeat split; auto; apply F.
  - constructor; simpl; auto; rewrite ?app_nil_r; auto.
  - reflexivity.
Qed.

(* ================= setters ================= *)
Lemma heap_eq A M R J A' M' R' J' : A = A' -> M = M' -> R = R' -> J = J' ->
  {| arrs := A; maps := M; recs := R; jars := J |} = {| arrs := A'; maps := M'; recs := R'; jars := J' |}.
Proof. intros; subst; reflexivity. Qed.

(* retry setters: c.getRetryOption() then the record is rewritten as x' over the arrays A' *)
Lemma sim_rt_set H ow id o H1 o1 r A' eA x' :
  lens H ow -> obj_ok H ow id o -> get_retry H o = (H1, o1, r) ->
  length (owA ow ++ eA) = length A' ->
  frame [] (fun t => t = (id, KConds) \/ t = (id, KHooks)) (arrs H) (owA ow) A' ->
  sl_ok A' (owA ow ++ eA) (id, KConds) (r_conds x') -> sl_ok A' (owA ow ++ eA) (id, KHooks) (r_hooks x') ->
  sim_res id H ow
    (vset_rt (abs_obj H o) {| vr_max := r_max x'; vr_int := r_int x';
                              vr_conds := sl_read A' (r_conds x'); vr_hooks := sl_read A' (r_hooks x') |})
    (with_recs (with_arrs H1 A') (upd_nth r x' (recs H1))) o1.
Proof.
  intros L O G LA FA Kc Kh.
  destruct (get_retry_spec _ _ _ _ _ _ _ L O G) as (eR & LR & E1 & E2 & E3 & FR & Eo & Hr & Ok & Rv).
  destruct L as (La & Lm & Lr & Lj).
  assert (Ht : nth_error (owR ow ++ eR) r = Some id) by (destruct Ok as (T & _); exact T).
  pose proof (sim_rt H ow id o A' (upd_nth r x' (recs H1)) eA eR r
                (rt_view A' (upd_nth r x' (recs H1)) (Some r)) (conj La (conj Lm (conj Lr Lj))) O LA) as S.
  rewrite upd_nth_length in S. specialize (S LR FA).
  assert (FR' : frame retry0 (eq id) (recs H) (owR ow) (upd_nth r x' (recs H1))).
  { eapply frame_trans; [eapply frame_weaken; [|exact FR]; intros t []|]. apply frame_upd. exact Ht. }
  specialize (S FR').
  assert (Ok' : rt_ok A' (upd_nth r x' (recs H1)) (owA ow ++ eA) (owR ow ++ eR) id (Some r)).
  { simpl. rewrite nth_upd_nth_eq by exact Hr. auto. }
  specialize (S Ok' eq_refl). cbv zeta in S. destruct S as (S1 & S2 & S3 & S4).
  replace (with_recs (with_arrs H1 A') (upd_nth r x' (recs H1)))
    with (with_recs (with_arrs H A') (upd_nth r x' (recs H1))).
  2:{ unfold with_recs, with_arrs; simpl. apply heap_eq; auto. }
  exists eA, [], eR, []. rewrite Eo. split; [exact S1|split; [exact S2|split; [exact S3|]]].
  rewrite S4. f_equal. unfold rt_view, rt_read; simpl. now rewrite nth_upd_nth_eq by exact Hr.
Qed.

(* what c.getRetryOption() returns reads as the object's retry option *)
Lemma get_retry_view H ow id o H1 o1 r :
  lens H ow -> obj_ok H ow id o -> get_retry H o = (H1, o1, r) ->
  let x := nth r (recs H1) retry0 in
  arrs H1 = arrs H /\
  sl_ok (arrs H) (owA ow) (id, KConds) (r_conds x) /\ sl_ok (arrs H) (owA ow) (id, KHooks) (r_hooks x) /\
  v_rt (abs_obj H o) = {| vr_max := r_max x; vr_int := r_int x;
                          vr_conds := sl_read (arrs H) (r_conds x); vr_hooks := sl_read (arrs H) (r_hooks x) |}.
Proof.
  intros L O G x.
  destruct (get_retry_spec _ _ _ _ _ _ _ L O G) as (eR & LR & E1 & E2 & E3 & FR & Eo & Hr & Ok & Rv).
  destruct Ok as (T & Kc & Kh). repeat split; auto.
  all: try (rewrite abs_obj_eq; cbn [v_rt]; rewrite <- Rv; reflexivity).
Qed.

Lemma ext_ok_app oJ e id x : ext_ok oJ id x -> ext_ok (oJ ++ e) id x.
Proof.
  intros (A & B & C). unfold ext_ok, mp_ok in *.
  destruct (e_dopt x), (e_dumper x), (e_tls x); repeat split; auto using nth_error_app_old.
Qed.

Lemma jar_ok_app oJ e id j f : jar_ok oJ id j f -> jar_ok (oJ ++ e) id j f.
Proof. destruct j; simpl; auto. intros [A B]; auto using nth_error_app_old. Qed.

Lemma abs_ext_app (J : list (list val)) oJ e id x :
  length oJ = length J -> ext_ok oJ id x -> abs_ext (J ++ e) x = abs_ext J x.
Proof.
  intros L X. destruct (ext_ok_frame J oJ (J ++ e) [] (fun _ => False) id x X); auto.
  now apply frame_app.
Qed.

Ltac vunf := unfold vset_sl, vset_mp, vset_rt, vset_chain, vset_tchain, vset_scal, vset_jar, vset_ext,
  set_sl, set_mp, set_rt, set_chain, set_tchain, set_scal, set_jar, set_ext, abs_obj;
  cbn [v_sl v_mp v_rt v_chain v_tchain v_scal v_jar v_fact v_par v_ext
       o_sl o_mp o_rt o_chain o_tchain o_scal o_jar o_fact o_par o_ext].

Lemma sim_intro id H ow v' H' o' eA eM eR eJ :
  lens H' (ext ow eA eM eR eJ) /\ idframe id H ow H' /\ obj_ok H' (ext ow eA eM eR eJ) id o' /\ abs_obj H' o' = v' ->
  sim_res id H ow v' H' o'.
Proof. intros K. exists eA, eM, eR, eJ. exact K. Qed.

Lemma sim_res_eq id H ow v v' H' o' : sim_res id H ow v H' o' -> v = v' -> sim_res id H ow v' H' o'.
Proof. now intros K <-. Qed.

(* the six retry setters share this shape *)
Lemma sim_retry_case H ow id o H1 o1 r A' eA x' vr Hres :
  lens H ow -> obj_ok H ow id o -> get_retry H o = (H1, o1, r) ->
  length (owA ow ++ eA) = length A' ->
  frame [] (fun t => t = (id, KConds) \/ t = (id, KHooks)) (arrs H) (owA ow) A' ->
  sl_ok A' (owA ow ++ eA) (id, KConds) (r_conds x') -> sl_ok A' (owA ow ++ eA) (id, KHooks) (r_hooks x') ->
  Hres = with_recs (with_arrs H1 A') (upd_nth r x' (recs H1)) ->
  vr = {| vr_max := r_max x'; vr_int := r_int x'; vr_conds := sl_read A' (r_conds x'); vr_hooks := sl_read A' (r_hooks x') |} ->
  sim_res id H ow (vset_rt (abs_obj H o) vr) Hres o1.
Proof. intros L O G LA FA Kc Kh -> ->. eapply sim_rt_set; eauto. Qed.

Lemma sim_res_chain id H ow v H' o' c : sim_res id H ow v H' o' -> sim_res id H ow (vset_chain v c) H' (set_chain o' c).
Proof.
  intros (a & b & c0 & d & L & F & [O1 O2 O3 O4 O5] & E). exists a, b, c0, d.
  split; [exact L|split; [exact F|split; [constructor; assumption|]]]. rewrite <- E. reflexivity.
Qed.
Lemma sim_res_tchain id H ow v H' o' c : sim_res id H ow v H' o' -> sim_res id H ow (vset_tchain v c) H' (set_tchain o' c).
Proof.
  intros (a & b & c0 & d & L & F & [O1 O2 O3 O4 O5] & E). exists a, b, c0, d.
  split; [exact L|split; [exact F|split; [constructor; assumption|]]]. rewrite <- E. reflexivity.
Qed.

(* WrapRoundTripFunc: the wrappers are first collected in a fresh slice ... *)
Lemma sim_wrap_first grow H ow id o f vs A1 w :
  lens H ow -> obj_ok H ow id o -> sl_build grow (arrs H) None vs = (A1, w) ->
  sim_res id H ow (vset_sl (abs_obj H o) (upd_nth f vs (v_sl (abs_obj H o)))) (with_arrs H A1) (set_sl o (upd_nth f w (o_sl o))).
Proof.
  intros L O E. pose proof L as (La & _).
  destruct (sl_build_spec grow (id, KSl f) vs _ (owA ow) None _ _ La I E) as (e & L1 & K1 & R1 & F1).
  eapply sim_intro. exact (sim_sl_field H ow id o f A1 w e _ L O L1 K1 R1 F1).
Qed.

(* ... which is adopted by the first call and appended to the registered ones by later calls *)
Lemma sim_wrap_more grow H ow id o f vs A1 w A2 s' :
  lens H ow -> obj_ok H ow id o -> sl_build grow (arrs H) None vs = (A1, w) ->
  sl_append grow A1 (nth f (o_sl o) None) vs = (A2, s') ->
  sim_res id H ow (vset_sl (abs_obj H o) (upd_nth f (nth f (v_sl (abs_obj H o)) [] ++ vs) (v_sl (abs_obj H o))))
    (with_arrs H A2) (set_sl o (upd_nth f s' (o_sl o))).
Proof.
  intros L O E1 E2. pose proof L as (La & _). pose proof O as [O1 _ _ _ _].
  set (tmp := (id, KTmp)).
  destruct (sl_build_spec grow tmp vs _ (owA ow) None _ _ La I E1) as (e1 & L1 & K1 & R1 & F1).
  assert (NE : ~ tmp = (id, KSl f)) by (unfold tmp; intros X; inversion X).
  destruct (sl_ok_frame _ _ _ e1 _ _ _ (O1 f) NE F1) as [Kf Rf].
  destruct (sl_append_spec _ _ _ (id, KSl f) _ _ _ _ L1 Kf E2) as (e2 & L2 & K2 & R2 & F2).
  set (W := fun t : atag => t = tmp \/ t = (id, KSl f)).
  assert (FW : frame [] W (arrs H) (owA ow) A2).
  { eapply frame_trans; [eapply frame_weaken; [|exact F1]|eapply frame_weaken; [|exact F2]]; unfold W; intros t <-; auto. }
  assert (HW : fieldW id f W).
  { unfold W, tmp. repeat split.
    - intros i N [X|X]; inversion X; congruence.
    - intros [X|X]; inversion X.
    - intros [X|X]; inversion X.
    - intros t [-> | ->]; reflexivity.
    - intros g k [X|X]; inversion X. }
  rewrite <- app_assoc in L2, K2.
  eapply sim_res_eq; [eapply sim_intro; exact (sim_sl_fieldW W H ow id o f A2 s' (e1 ++ e2) _ L O HW L2 K2 R2 FW)|].
  rewrite Rf. cbn [abs_obj v_sl]. now rewrite sl_read_nth.
Qed.

(* ---- boxes ---- *)
Lemma bx_get_upd_spec (J : list (list val)) oJ t p d f J1 a :
  length oJ = length J -> mp_ok oJ t p -> bx_get J p d = (J1, a) ->
  exists e, length (oJ ++ e) = length (bx_upd J1 a f) /\ nth_error (oJ ++ e) a = Some t /\
            nth a (bx_upd J1 a f) [] = f (odflt (bx_read J p) d) /\
            frame [] (eq t) J oJ (bx_upd J1 a f) /\
            (forall b, b <> a -> b < length J -> nth b (bx_upd J1 a f) [] = nth b J []) /\
            (forall b, p = None -> b < length J -> b <> a).
Proof.
  intros L Ok G. unfold bx_get in G. destruct p as [a0|]; inversion G; subst J1 a; clear G; unfold bx_upd.
  - simpl in Ok. pose proof (nth_error_lt _ _ _ Ok) as Ha. rewrite L in Ha.
    exists []. rewrite app_nil_r, upd_nth_length. repeat split; auto.
    + now rewrite nth_upd_nth_eq.
    + rewrite upd_nth_length; auto.
    + intros b t0 Hb Hne. apply nth_upd_nth_neq. intros ->. rewrite Ok in Hb. inversion Hb; auto.
    + intros b N _. apply nth_upd_nth_neq. congruence.
    + discriminate.
  - exists [t]. rewrite upd_nth_length, !app_length, L. simpl. repeat split; auto.
    + rewrite <- L. apply nth_error_app_new.
    + rewrite nth_upd_nth_eq by (rewrite app_length; simpl; lia). now rewrite nth_app_new.
    + rewrite upd_nth_length, app_length; lia.
    + intros b t0 Hb _. apply nth_error_lt in Hb. rewrite L in Hb.
      rewrite nth_upd_nth_neq by lia. now apply app_nth1.
    + intros b N Hb. rewrite nth_upd_nth_neq by congruence. now apply app_nth1.
    + intros b _ Hb. lia.
Qed.

Lemma bx_new_spec (J : list (list val)) (oJ : list mtag) t l :
  length oJ = length J ->
  length (oJ ++ [t]) = length (J ++ [l]) /\ nth_error (oJ ++ [t]) (length J) = Some t /\
  nth (length J) (J ++ [l]) [] = l /\ frame [] (fun _ : mtag => False) J oJ (J ++ [l]).
Proof.
  intros L. rewrite !app_length, L. simpl. repeat split; auto.
  - rewrite <- L. apply nth_error_app_new.
  - apply nth_app_new.
  - rewrite app_length; lia.
  - intros b t0 Hb _. apply nth_error_lt in Hb. rewrite L in Hb. now apply app_nth1.
Qed.

Lemma obj_eta o : set_ext (set_jar o (o_jar o) (o_fact o)) (o_ext o) = o.
Proof. destruct o; reflexivity. Qed.

Lemma opn_eqb_refl a : opn_eqb (Some a) (Some a) = true.
Proof. simpl. apply Nat.eqb_refl. Qed.

Lemma WMid_eq id k : forall t : mtag, (id, k) = t -> WMid id t.
Proof. intros t <-. reflexivity. Qed.

(* an update of the *DumpOptions / *tls.Config boxes of id; the cookie jar is not touched *)
Lemma sim_ext H ow id o J' e x' vx :
  lens H ow -> obj_ok H ow id o -> length (owJ ow ++ e) = length J' ->
  frame [] (fun t => t = (id, 1) \/ t = (id, 2)) (jars H) (owJ ow) J' ->
  ext_ok (owJ ow ++ e) id x' -> abs_ext J' x' = vx ->
  sim_res id H ow (vset_ext (abs_obj H o) vx) (with_jars H J') (set_ext o x').
Proof.
  intros L O L1 F X E. pose proof O as [O1 O2 O3 O4 O5].
  eapply sim_res_eq.
  - apply (sim_jars H ow id o J' e (o_jar o) (o_fact o) x'); auto.
    + eapply frame_weaken; [|exact F]. intros t [-> | ->]; reflexivity.
    + now apply jar_ok_app.
  - destruct (jar_ok_frame _ _ _ e _ _ _ _ O4 F) as [_ EJ]; [intros [X0|X0]; inversion X0|].
    rewrite E.
    change (jar_read (with_jars H J') (o_jar o)) with (match o_jar o with None => None | Some a => Some (nth a J' []) end).
    rewrite EJ. reflexivity.
Qed.

Lemma frame12_of id k (J : list (list val)) oJ J' : (k = 1 \/ k = 2) ->
  frame [] (eq (id, k)) J oJ J' -> frame [] (fun t : mtag => t = (id, 1) \/ t = (id, 2)) J oJ J'.
Proof. intros K F. eapply frame_weaken; [|exact F]. intros t <-. destruct K as [-> | ->]; auto. Qed.

Lemma frame12_none id (J : list (list val)) oJ J' :
  frame [] (fun _ : mtag => False) J oJ J' -> frame [] (fun t : mtag => t = (id, 1) \/ t = (id, 2)) J oJ J'.
Proof. intros F. eapply frame_weaken; [|exact F]. intros t []. Qed.

Lemma upd_nth_nth_same {A} (d : A) : forall f l, upd_nth f (nth f l d) l = l.
Proof. intros f l. revert f. induction l as [|x l IH]; destruct f; simpl; auto. now rewrite IH. Qed.

Lemma apply_setter_sim grow H ow id o s H' o' :
  lens H ow -> obj_ok H ow id o -> setter_nojar s ->
  apply_setter grow H o s = (H', o') ->
  sim_res id H ow (vapply (abs_obj H o) s) H' o'.
Proof.
  intros L O NJ Hs. pose proof L as (La & Lm & Lr & Lj). pose proof O as [O1 O2 O3 O4 O5].
  destruct s; cbn [apply_setter] in Hs.
  - (* SAppend *)
    destruct (sl_append grow (arrs H) (nth f (o_sl o) None) vs) as [A s'] eqn:E. inversion Hs; subst H' o'; clear Hs.
    destruct (sl_append_spec _ _ (owA ow) (id, KSl f) _ _ _ _ La (O1 f) E) as (e & L1 & K1 & R1 & F1).
    eapply sim_res_eq; [eapply sim_intro; exact (sim_sl_field H ow id o f A s' e _ L O L1 K1 R1 F1)|].
    cbn [vapply]. now rewrite <- sl_read_nth.
  - (* SClearCookies *)
    assert (SA : sim_res id H ow (vset_sl (abs_obj H o) (upd_nth F_COOKIES [] (v_sl (abs_obj H o)))) H
                   (set_sl o (upd_nth F_COOKIES None (o_sl o)))).
    { destruct (comp_sl_upd (fun _ => False) (arrs H) (owA ow) (arrs H) [] id (o_sl o) F_COOKIES None O1
                  (frame_refl _ _ _ _) (fun _ _ x => x) I) as [C1 E1].
      exists [], [], [], []. split; [now apply lens_ext_nil|]. split; [apply idframe_refl|]. split.
      - constructor; unfold ext; cbn [owA owM owR owJ set_sl o_sl o_mp o_rt o_jar o_fact o_ext]; rewrite ?app_nil_r; auto.
        now rewrite app_nil_r in C1.
      - rewrite !abs_obj_eq. unfold vset_sl, set_sl. cbn [v_sl v_mp v_rt v_chain v_tchain v_scal v_jar v_fact v_par v_ext
          o_sl o_mp o_rt o_chain o_tchain o_scal o_jar o_fact o_par o_ext]. apply vobj_eq; auto. }
    cbn [vapply]. replace (v_fact (abs_obj H o)) with (o_fact o) by reflexivity.
    destruct (o_fact o) eqn:EF; injection Hs as <- <-; [|exact SA].
    pose proof SA as (? & ? & ? & ? & _ & _ & _ & EA1).
    eapply sim_res_trans; [exact SA|]. intros ow1 Lw1 Ow1. pose proof Lw1 as (_ & _ & _ & Lj1). pose proof Ow1 as [_ _ _ _ Q5].
    destruct (bx_new_spec (jars H) (owJ ow1) (id, 0) [] Lj1) as (L1 & T1 & R1 & F1).
    eapply sim_res_eq.
    + apply (sim_jars H ow1 id (set_sl o (upd_nth F_COOKIES None (o_sl o))) (jars H ++ [[]]) [(id, 0)] (Some (length (jars H))) true (o_ext o)); auto.
      * eapply frame_weaken; [|exact F1]. intros t [].
      * simpl. auto.
      * now apply ext_ok_app.
    + cbn [jar_read with_jars jars]. rewrite R1, (abs_ext_app _ (owJ ow1) _ id) by auto. rewrite EA1. reflexivity.
  - (* SMapSet *)
    destruct (sl_lit (arrs H) [v]) as [A s'] eqn:E1.
    destruct (mp_put (maps H) (nth f (o_mp o) None) k s') as [M m'] eqn:E2. injection Hs as <- <-.
    destruct (sl_lit_spec _ (owA ow) (id, KMap f k) _ _ _ La E1) as (L1 & K1 & R1 & F1).
    assert (F1' : frame [] (eq (id, KMap f k)) (arrs H) (owA ow) A) by (eapply frame_weaken; [|exact F1]; intros t []).
    destruct (mp_put_spec (arrs H) A (maps H) (owA ow) [(id, KMap f k)] (owM ow) (id, f) _ k s' _ _ Lm (O2 f) F1' K1 E2)
      as (e & L2 & K2 & R2 & F2).
    eapply sim_res_eq; [eapply sim_intro; exact (sim_mp_field H ow id o f k A M m' [(id, KMap f k)] e _ L O L1 L2 K2 R2 F1' F2)|].
    cbn [vapply]. rewrite R1. now rewrite <- mp_read_nth.
  - (* SMapAdd *)
    destruct (mp_slot_spec (arrs H) (maps H) (owA ow) (owM ow) (id, f) _ k (O2 f)) as [Ks Rs].
    destruct (sl_append grow (arrs H) (mp_slot (maps H) (nth f (o_mp o) None) k) [v]) as [A s'] eqn:E1.
    destruct (mp_put (maps H) (nth f (o_mp o) None) k s') as [M m'] eqn:E2. injection Hs as <- <-.
    destruct (sl_append_spec _ _ (owA ow) (id, KMap f k) _ _ _ _ La Ks E1) as (e1 & L1 & K1 & R1 & F1).
    destruct (mp_put_spec (arrs H) A (maps H) (owA ow) e1 (owM ow) (id, f) _ k s' _ _ Lm (O2 f) F1 K1 E2)
      as (e & L2 & K2 & R2 & F2).
    eapply sim_res_eq; [eapply sim_intro; exact (sim_mp_field H ow id o f k A M m' e1 e _ L O L1 L2 K2 R2 F1 F2)|].
    cbn [vapply]. rewrite R1, Rs. now rewrite <- mp_read_nth.
  - (* SRetryCount *)
    destruct (get_retry H o) as [[H1 o1] r] eqn:G. inversion Hs; subst H' o'; clear Hs.
    destruct (get_retry_view _ _ _ _ _ _ _ L O G) as (EA & Kc & Kh & Vr).
    cbn [vapply]. rewrite Vr. cbn [vr_max vr_int vr_conds vr_hooks].
    eapply (sim_retry_case H ow id o H1 o1 r (arrs H) [] {| r_max := n; r_int := r_int (nth r (recs H1) retry0); r_conds := r_conds (nth r (recs H1) retry0); r_hooks := r_hooks (nth r (recs H1) retry0) |}); eauto; rewrite ?app_nil_r; auto.
    + apply frame_refl.
    + unfold rec_upd, with_recs, with_arrs; cbn. apply heap_eq; auto.
  - (* SRetryInterval *)
    destruct (get_retry H o) as [[H1 o1] r] eqn:G. inversion Hs; subst H' o'; clear Hs.
    destruct (get_retry_view _ _ _ _ _ _ _ L O G) as (EA & Kc & Kh & Vr).
    cbn [vapply]. rewrite Vr. cbn [vr_max vr_int vr_conds vr_hooks].
    eapply (sim_retry_case H ow id o H1 o1 r (arrs H) [] {| r_max := r_max (nth r (recs H1) retry0); r_int := x; r_conds := r_conds (nth r (recs H1) retry0); r_hooks := r_hooks (nth r (recs H1) retry0) |}); eauto; rewrite ?app_nil_r; auto.
    + apply frame_refl.
    + unfold rec_upd, with_recs, with_arrs; cbn. apply heap_eq; auto.
  - (* SRetrySetHook *)
    destruct (get_retry H o) as [[H1 o1] r] eqn:G.
    destruct (get_retry_view _ _ _ _ _ _ _ L O G) as (EA & Kc & Kh & Vr).
    destruct (sl_lit (arrs H1) [h]) as [A s'] eqn:E. inversion Hs; subst H' o'; clear Hs. rewrite EA in E.
    destruct (sl_lit_spec _ (owA ow) (id, KHooks) _ _ _ La E) as (L1 & K1 & R1 & F1).
    destruct (sl_ok_frame _ _ _ [(id, KHooks)] _ _ _ Kc (fun x : False => x) F1) as [Kc' Rc].
    cbn [vapply]. rewrite Vr. cbn [vr_max vr_int vr_conds vr_hooks].
    eapply (sim_retry_case H ow id o H1 o1 r A [(id, KHooks)] {| r_max := r_max (nth r (recs H1) retry0); r_int := r_int (nth r (recs H1) retry0); r_conds := r_conds (nth r (recs H1) retry0); r_hooks := s' |}); eauto.
    + eapply frame_weaken; [|exact F1]. intros t [].
    + cbn [r_max r_int r_conds r_hooks]. now rewrite Rc, R1.
  - (* SRetryAddHook *)
    destruct (get_retry H o) as [[H1 o1] r] eqn:G.
    destruct (get_retry_view _ _ _ _ _ _ _ L O G) as (EA & Kc & Kh & Vr).
    destruct (sl_append grow (arrs H1) (r_hooks (nth r (recs H1) retry0)) [h]) as [A s'] eqn:E.
    inversion Hs; subst H' o'; clear Hs. rewrite EA in E.
    destruct (sl_append_spec _ _ (owA ow) (id, KHooks) _ _ _ _ La Kh E) as (e & L1 & K1 & R1 & F1).
    assert (NE : (id, KHooks) <> (id, KConds)) by congruence.
    destruct (sl_ok_frame _ _ _ e _ _ _ Kc NE F1) as [Kc' Rc].
    cbn [vapply]. rewrite Vr. cbn [vr_max vr_int vr_conds vr_hooks].
    eapply (sim_retry_case H ow id o H1 o1 r A e {| r_max := r_max (nth r (recs H1) retry0); r_int := r_int (nth r (recs H1) retry0); r_conds := r_conds (nth r (recs H1) retry0); r_hooks := s' |}); eauto.
    + eapply frame_weaken; [|exact F1]. intros t <-; auto.
    + cbn [r_max r_int r_conds r_hooks]. now rewrite Rc, R1.
  - (* SRetrySetCond *)
    destruct (get_retry H o) as [[H1 o1] r] eqn:G.
    destruct (get_retry_view _ _ _ _ _ _ _ L O G) as (EA & Kc & Kh & Vr).
    destruct (sl_lit (arrs H1) [c]) as [A s'] eqn:E. inversion Hs; subst H' o'; clear Hs. rewrite EA in E.
    destruct (sl_lit_spec _ (owA ow) (id, KConds) _ _ _ La E) as (L1 & K1 & R1 & F1).
    destruct (sl_ok_frame _ _ _ [(id, KConds)] _ _ _ Kh (fun x : False => x) F1) as [Kh' Rh].
    cbn [vapply]. rewrite Vr. cbn [vr_max vr_int vr_conds vr_hooks].
    eapply (sim_retry_case H ow id o H1 o1 r A [(id, KConds)] {| r_max := r_max (nth r (recs H1) retry0); r_int := r_int (nth r (recs H1) retry0); r_conds := s'; r_hooks := r_hooks (nth r (recs H1) retry0) |}); eauto.
    + eapply frame_weaken; [|exact F1]. intros t [].
    + cbn [r_max r_int r_conds r_hooks]. now rewrite Rh, R1.
  - (* SRetryAddCond *)
    destruct (get_retry H o) as [[H1 o1] r] eqn:G.
    destruct (get_retry_view _ _ _ _ _ _ _ L O G) as (EA & Kc & Kh & Vr).
    destruct (sl_append grow (arrs H1) (r_conds (nth r (recs H1) retry0)) [c]) as [A s'] eqn:E.
    inversion Hs; subst H' o'; clear Hs. rewrite EA in E.
    destruct (sl_append_spec _ _ (owA ow) (id, KConds) _ _ _ _ La Kc E) as (e & L1 & K1 & R1 & F1).
    assert (NE : (id, KConds) <> (id, KHooks)) by congruence.
    destruct (sl_ok_frame _ _ _ e _ _ _ Kh NE F1) as [Kh' Rh].
    cbn [vapply]. rewrite Vr. cbn [vr_max vr_int vr_conds vr_hooks].
    eapply (sim_retry_case H ow id o H1 o1 r A e {| r_max := r_max (nth r (recs H1) retry0); r_int := r_int (nth r (recs H1) retry0); r_conds := s'; r_hooks := r_hooks (nth r (recs H1) retry0) |}); eauto.
    + eapply frame_weaken; [|exact F1]. intros t <-; auto.
    + cbn [r_max r_int r_conds r_hooks]. now rewrite Rh, R1.
  - (* SScal *)
    inversion Hs; subst H' o'; clear Hs.
    eapply sim_res_eq; [apply (sim_res_pure id H ow o (set_scal o (nset k v (o_scal o)))); auto|reflexivity].
  - (* SWrap *)
    destruct vs as [|v0 vs0]; [inversion Hs; subst; now apply sim_res_refl|].
    cbv iota in Hs. cbn [vapply]. remember (v0 :: vs0) as vs eqn:Evs. clear Evs.
    destruct (sl_build grow (arrs H) None vs) as [A1 w] eqn:E1.
    replace (v_chain (abs_obj H o)) with (o_chain o) by reflexivity.
    destruct (o_chain o) as [ch|] eqn:EC.
    + destruct (sl_append grow A1 (nth F_RTW (o_sl o) None) vs) as [A2 s'] eqn:E2.
      injection Hs as <- <-.
      apply sim_res_chain. apply (sim_wrap_more grow H ow id o F_RTW vs A1 w A2 s'); auto.
    + injection Hs as <- <-.
      apply sim_res_chain. apply (sim_wrap_first grow H ow id o F_RTW vs A1 w); auto.
  - (* STWrap *)
    destruct vs as [|v0 vs0]; [inversion Hs; subst; now apply sim_res_refl|].
    cbv iota in Hs. cbn [vapply]. remember (v0 :: vs0) as vs eqn:Evs. clear Evs.
    destruct (sl_build grow (arrs H) None vs) as [A1 w] eqn:E1.
    replace (v_tchain (abs_obj H o)) with (o_tchain o) by reflexivity.
    destruct (o_tchain o) as [ch|] eqn:EC.
    + destruct (sl_append grow A1 (nth F_TRW (o_sl o) None) vs) as [A2 s'] eqn:E2.
      injection Hs as <- <-.
      apply sim_res_tchain. apply (sim_wrap_more grow H ow id o F_TRW vs A1 w A2 s'); auto.
    + injection Hs as <- <-.
      apply sim_res_tchain. apply (sim_wrap_first grow H ow id o F_TRW vs A1 w); auto.
  - (* SJarFactory *)
    inversion Hs; subst H' o'; clear Hs.
    destruct (bx_new_spec (jars H) (owJ ow) (id, 0) [] Lj) as (L1 & T1 & R1 & F1).
    eapply sim_res_eq.
    + apply (sim_jars H ow id o (jars H ++ [[]]) [(id, 0)] (Some (length (jars H))) true (o_ext o)); auto.
      * eapply frame_weaken; [|exact F1]. intros t [].
      * simpl. auto.
      * now apply ext_ok_app.
    + cbn [jar_read with_jars jars]. rewrite R1, (abs_ext_app _ (owJ ow) _ id) by auto. reflexivity.
  - (* SJarPlain *) exfalso. apply NJ. reflexivity.
  - (* SJarStore *)
    destruct (o_jar o) as [j|] eqn:EJ.
    2:{ inversion Hs; subst. eapply sim_res_eq; [now apply sim_res_refl|].
        cbn [vapply]. replace (v_jar (abs_obj H' o')) with (jar_read H' (o_jar o')) by reflexivity. now rewrite EJ. }
    inversion Hs; subst H' o'; clear Hs.
    simpl in O4. destruct O4 as [Tj Fj]. pose proof (nth_error_lt _ _ _ Tj) as Hj. rewrite Lj in Hj.
    rewrite <- (obj_eta o) at 2. rewrite EJ.
    assert (F1 : frame [] (eq (id, 0)) (jars H) (owJ ow) (upd_nth j (nth j (jars H) [] ++ [ck]) (jars H))) by now apply frame_upd.
    eapply sim_res_eq.
    + apply (sim_jars H ow id o _ [] (Some j) (o_fact o) (o_ext o)); auto.
      * now rewrite app_nil_r, upd_nth_length.
      * eapply frame_weaken; [|exact F1]. apply WMid_eq.
      * rewrite app_nil_r. simpl. auto.
      * now rewrite app_nil_r.
    + cbn [jar_read with_jars jars vapply]. rewrite nth_upd_nth_eq by exact Hj.
      destruct (ext_ok_frame _ _ _ [] (eq (id, 0)) id _ O5 F1) as [_ EX]; try (intros X; inversion X; fail).
      rewrite EX. vunf. cbn [jar_read]. rewrite EJ. reflexivity.
  - (* SSliceSet *)
    destruct (sl_lit (arrs H) vs) as [A s'] eqn:E. injection Hs as <- <-.
    destruct (sl_lit_spec _ (owA ow) (id, KSl f) _ _ _ La E) as (L1 & K1 & R1 & F1).
    assert (HW : fieldW id f (fun _ : atag => False)) by (repeat split; tauto).
    eapply sim_intro. exact (sim_sl_fieldW _ H ow id o f A s' [(id, KSl f)] vs L O HW L1 K1 R1 F1).
  - (* STlsEdit *)
    destruct O5 as (X1 & X2 & X3).
    destruct (bx_get (jars H) (e_tls (o_ext o)) TLS0) as [J1 a] eqn:G. injection Hs as <- <-.
    destruct (bx_get_upd_spec _ (owJ ow) (id, 2) _ TLS0 (apply_edits es) _ _ Lj X3 G) as (e & L1 & T1 & R1 & F1 & _ & _).
    assert (N12 : (id, 2) <> (id, 1)) by congruence.
    destruct (bx_ok_frame _ _ _ e _ _ _ X1 F1 N12) as (A1 & B1 & _).
    destruct (bx_ok_frame _ _ _ e _ _ _ X2 F1 N12) as (A2 & _ & C2).
    cbn [vapply].
    apply (sim_ext H ow id o _ e); auto.
    + apply (frame12_of id 2); auto.
    + repeat split; auto.
    + cbn [abs_obj v_ext]. unfold abs_ext, xset_tls, set_tls. cbn [e_dopt e_dumper e_tls x_dopt x_dumper x_tls bx_read].
      rewrite B1, R1. f_equal. destruct (e_dumper (o_ext o)) as [b|]; auto. now rewrite (C2 b eq_refl).
  - (* STlsNew *)
    destruct O5 as (X1 & X2 & X3). injection Hs as <- <-.
    destruct (bx_new_spec (jars H) (owJ ow) (id, 2) l Lj) as (L1 & T1 & R1 & F1).
    destruct (bx_ok_frame _ _ _ [(id, 2)] _ _ _ X1 F1 (fun x : False => x)) as (A1 & B1 & _).
    destruct (bx_ok_frame _ _ _ [(id, 2)] _ _ _ X2 F1 (fun x : False => x)) as (A2 & _ & C2).
    cbn [vapply].
    apply (sim_ext H ow id o _ [(id, 2)]); auto.
    + now apply frame12_none.
    + repeat split; auto.
    + cbn [abs_obj v_ext]. unfold abs_ext, xset_tls, set_tls. cbn [e_dopt e_dumper e_tls x_dopt x_dumper x_tls bx_read].
      rewrite B1, R1. f_equal. destruct (e_dumper (o_ext o)) as [b|]; auto. now rewrite (C2 b eq_refl).
  - (* SDumpAll *)
    destruct O5 as (X1 & X2 & X3). cbn [vapply].
    replace (x_dumper (v_ext (abs_obj H o))) with
      (match e_dumper (o_ext o) with None => DOff | Some b => if opn_eqb (e_dopt (o_ext o)) (Some b) then DLinked else DOwn (nth b (jars H) []) end)
      by reflexivity.
    destruct (e_dumper (o_ext o)) as [b|] eqn:ED.
    { injection Hs as <- <-. eapply sim_res_eq; [now apply sim_res_refl|]. destruct (opn_eqb _ _); reflexivity. }
    destruct (e_dopt (o_ext o)) as [a0|] eqn:EDo; cbn [bx_get] in Hs; injection Hs as <- <-.
    + apply (sim_ext H ow id o (jars H) []); auto.
      * now rewrite app_nil_r.
      * apply frame_refl.
      * rewrite app_nil_r. repeat split; auto.
      * cbn [abs_obj v_ext]. unfold abs_ext, xset_dumper, xset_dopt, set_dumper, set_dopt.
        cbn [e_dopt e_dumper e_tls x_dopt x_dumper x_tls bx_read odflt]. rewrite EDo, opn_eqb_refl. reflexivity.
    + destruct (bx_new_spec (jars H) (owJ ow) (id, 1) DUMP0 Lj) as (L1 & T1 & R1 & F1).
      destruct (bx_ok_frame _ _ _ [(id, 1)] _ _ _ X3 F1 (fun x : False => x)) as (A3 & B3 & _).
      apply (sim_ext H ow id o _ [(id, 1)]); auto.
      * now apply frame12_none.
      * repeat split; auto.
      * cbn [abs_obj v_ext]. unfold abs_ext, xset_dumper, xset_dopt, set_dumper, set_dopt.
        cbn [e_dopt e_dumper e_tls x_dopt x_dumper x_tls bx_read odflt]. rewrite EDo, opn_eqb_refl, R1, B3. reflexivity.
  - (* SDumpEnable *)
    destruct O5 as (X1 & X2 & X3). cbn [vapply].
    destruct (bx_get (jars H) (e_dopt (o_ext o)) DUMP0) as [J1 a] eqn:G. injection Hs as <- <-.
    destruct (bx_get_upd_spec _ (owJ ow) (id, 1) _ DUMP0 (apply_edits es) _ _ Lj X1 G) as (e & L1 & T1 & R1 & F1 & Nb & Nn).
    assert (N12 : (id, 1) <> (id, 2)) by congruence.
    destruct (bx_ok_frame _ _ _ e _ _ _ X3 F1 N12) as (A3 & B3 & _).
    apply (sim_ext H ow id o _ e); auto.
    + apply (frame12_of id 1); auto.
    + repeat split; auto. cbn [set_dumper set_dopt e_dumper e_dopt].
      destruct (e_dumper (o_ext o)) as [b|]; simpl; auto using nth_error_app_old.
    + cbn [abs_obj v_ext]. unfold abs_ext, xset_dumper, xset_dopt, set_dumper, set_dopt.
      cbn [e_dopt e_dumper e_tls x_dopt x_dumper x_tls bx_read]. rewrite R1, B3. f_equal.
      destruct (e_dumper (o_ext o)) as [b|] eqn:ED; [|now rewrite opn_eqb_refl].
      simpl in X2. pose proof (nth_error_lt _ _ _ X2) as Hb. rewrite Lj in Hb.
      destruct (e_dopt (o_ext o)) as [a0|] eqn:EDo.
      * cbn [bx_get] in G. injection G as <- <-. simpl opn_eqb.
        destruct (Nat.eqb_spec a0 b); auto. rewrite Nb; auto.
      * simpl opn_eqb. pose proof (Nn b eq_refl Hb) as Nab.
        destruct (Nat.eqb_spec a b); [congruence|]. rewrite Nb; auto.
  - (* SDumpDisable *)
    injection Hs as <- <-. destruct O5 as (X1 & X2 & X3).
    eapply sim_res_eq; [apply (sim_res_pure id H ow o (set_ext o (set_dumper (o_ext o) None))); auto|reflexivity].
    repeat split; simpl; auto.
  - (* SDumpSetOpts *)
    destruct O5 as (X1 & X2 & X3). cbn [vapply]. injection Hs as <- <-.
    destruct (bx_new_spec (jars H) (owJ ow) (id, 1) l Lj) as (L1 & T1 & R1 & F1).
    destruct (bx_ok_frame _ _ _ [(id, 1)] _ _ _ X3 F1 (fun x : False => x)) as (A3 & B3 & _).
    apply (sim_ext H ow id o _ [(id, 1)]); auto.
    + now apply frame12_none.
    + repeat split; auto. cbn [set_dumper set_dopt e_dumper e_dopt]. destruct (e_dumper (o_ext o)); simpl; auto.
    + cbn [abs_obj v_ext]. unfold abs_ext, xset_dumper, xset_dopt, set_dumper, set_dopt.
      cbn [e_dopt e_dumper e_tls x_dopt x_dumper x_tls bx_read]. rewrite R1, B3. f_equal.
      destruct (e_dumper (o_ext o)) as [b|]; [|reflexivity]. rewrite opn_eqb_refl. destruct (opn_eqb _ _); reflexivity.
  - (* SDumpTransport *)
    destruct O5 as (X1 & X2 & X3). cbn [vapply]. injection Hs as <- <-.
    destruct (bx_new_spec (jars H) (owJ ow) (id, 1) l Lj) as (L1 & T1 & R1 & F1).
    destruct (bx_ok_frame _ _ _ [(id, 1)] _ _ _ X1 F1 (fun x : False => x)) as (A1 & B1 & _).
    destruct (bx_ok_frame _ _ _ [(id, 1)] _ _ _ X3 F1 (fun x : False => x)) as (A3 & B3 & _).
    apply (sim_ext H ow id o _ [(id, 1)]); auto.
    + now apply frame12_none.
    + repeat split; auto.
    + cbn [abs_obj v_ext]. unfold abs_ext, xset_dumper, set_dumper.
      cbn [e_dopt e_dumper e_tls x_dopt x_dumper x_tls]. rewrite R1, B1, B3. f_equal.
      destruct (e_dopt (o_ext o)) as [a0|] eqn:EDo; [|reflexivity]. simpl in X1.
      pose proof (nth_error_lt _ _ _ X1) as Ha. rewrite Lj in Ha. simpl.
      destruct (Nat.eqb_spec a0 (length (jars H))); [lia|reflexivity].
  - (* SMapTouch *)
    destruct (nth f (o_mp o) None) as [a|] eqn:En.
    + injection Hs as <- <-. eapply sim_res_eq; [now apply sim_res_refl|].
      cbn [vapply]. rewrite upd_nth_nth_same. reflexivity.
    + injection Hs as <- <-.
      assert (LA : length (owA ow ++ []) = length (arrs H)) by now rewrite app_nil_r.
      assert (LM : length (owM ow ++ [(id, f)]) = length (maps H ++ [[]])) by (rewrite !app_length, Lm; reflexivity).
      assert (OK : hm_ok (arrs H) (maps H ++ [[]]) (owA ow ++ []) (owM ow ++ [(id, f)]) (id, f) (Some (length (maps H)))).
      { change (nth_error (owM ow ++ [(id, f)]) (length (maps H)) = Some (id, f) /\
                ent_ok (arrs H) (owA ow ++ []) (id, f) (nth (length (maps H)) (maps H ++ [[]]) [])).
        rewrite <- Lm at 1. rewrite nth_error_app_new, nth_app_new. split; auto. split; [constructor|intros k s []]. }
      assert (RD : mp_read (arrs H) (maps H ++ [[]]) (Some (length (maps H))) = []).
      { unfold mp_read, mp_cell. now rewrite nth_app_new. }
      pose proof (sim_mp_field H ow id o f 0 (arrs H) (maps H ++ [[]]) (Some (length (maps H))) [] [(id, f)] [] L O LA LM OK RD
                    (frame_refl _ _ _ _) (frame_app _ _ _ _ _ Lm)) as K.
      eapply sim_res_eq; [eapply sim_intro; exact K|].
      cbn [vapply]. f_equal. f_equal. cbn [abs_obj v_mp]. rewrite mp_read_nth, En. reflexivity.
  - (* SJarNil *)
    injection Hs as <- <-. exists [], [], [], [].
    split; [now apply lens_ext_nil|]. split; [apply idframe_refl|]. split; [|reflexivity].
    constructor; unfold ext; cbn [owA owM owR owJ set_jar o_sl o_mp o_rt o_jar o_fact o_ext]; rewrite ?app_nil_r; auto. exact I.
Qed.

(* ================= Clone, R(), C() ================= *)
Lemma clone_sls_spec dst src : forall l modes k A oA A' l',
  (forall i, nth i modes true = true) -> length oA = length A ->
  (forall i, sl_ok A oA (src, KSl (k + i)) (nth i l None)) ->
  clone_sls modes A l = (A', l') ->
  exists e, length (oA ++ e) = length A' /\
    (forall i, sl_ok A' (oA ++ e) (dst, KSl (k + i)) (nth i l' None)) /\
    map (sl_read A') l' = map (sl_read A) l /\ frame [] (fun _ : atag => False) A oA A'.
Proof.
  induction l as [|s t IH]; intros modes k A oA A' l' Hm HL Hok Hc; cbn [clone_sls] in Hc.
  - inversion Hc; subst. exists []. rewrite app_nil_r. repeat split; auto. intros i; destruct i; exact I.
  - assert (M0 : hd true modes = true) by (specialize (Hm 0); destruct modes; auto).
    rewrite M0 in Hc.
    destruct (sl_clone A s) as [A1 s1] eqn:E1.
    destruct (clone_sls (tl modes) A1 t) as [A2 t2] eqn:E2. inversion Hc; subst A' l'; clear Hc.
    destruct (sl_clone_spec _ oA (dst, KSl (k + 0)) _ _ _ HL E1) as (e1 & L1 & K1 & R1 & F1).
    assert (Hok1 : forall i, sl_ok A1 (oA ++ e1) (src, KSl (S k + i)) (nth i t None) /\ sl_read A1 (nth i t None) = sl_read A (nth i t None)).
    { intros i. specialize (Hok (S i)). replace (k + S i) with (S k + i) in Hok by lia.
      apply (sl_ok_frame _ _ _ e1 _ _ _ Hok (fun x : False => x) F1). }
    destruct (IH (tl modes) (S k) A1 (oA ++ e1) A2 t2) as (e2 & L2 & K2 & R2 & F2); auto.
    { intros i. specialize (Hm (S i)). destruct modes; auto. destruct i; auto. }
    { intros i. apply Hok1. }
    exists (e1 ++ e2). rewrite app_assoc. split; [exact L2|]. split; [|split].
    + intros [|i]; cbn [nth].
      * apply (sl_ok_frame _ _ _ e2 _ _ _ K1 (fun x : False => x) F2).
      * replace (k + S i) with (S k + i) by lia. apply K2.
    + cbn [map]. f_equal.
      * destruct (sl_ok_frame _ _ _ e2 _ _ _ K1 (fun x : False => x) F2) as [_ E]. now rewrite E.
      * rewrite R2. apply map_nth_ext with (d := None). intros i. apply Hok1.
    + eapply frame_trans; eauto.
Qed.

Lemma clone_mps_spec dst src : forall l modes k A (M : list hmapcell) oA (oM : list mtag) A' M' l',
  (forall i, nth i modes true = true) -> length oA = length A -> length oM = length M ->
  (forall i, hm_ok A M oA oM (src, k + i) (nth i l None)) ->
  clone_mps modes A M l = (A', M', l') ->
  exists eA eM, length (oA ++ eA) = length A' /\ length (oM ++ eM) = length M' /\
    (forall i, hm_ok A' M' (oA ++ eA) (oM ++ eM) (dst, k + i) (nth i l' None)) /\
    map (mp_read A' M') l' = map (mp_read A M) l /\
    frame [] (fun _ : atag => False) A oA A' /\ frame [] (fun _ : mtag => False) M oM M'.
Proof.
  induction l as [|m t IH]; intros modes k A M oA oM A' M' l' Hm LA LM Hok Hc; cbn [clone_mps] in Hc.
  - inversion Hc; subst. exists [], []. rewrite !app_nil_r. repeat split; auto. intros i; destruct i; exact I.
  - assert (M0 : hd true modes = true) by (specialize (Hm 0); destruct modes; auto).
    rewrite M0 in Hc.
    destruct (mp_clone A M m) as [[A1 M1] m1] eqn:E1.
    destruct (clone_mps (tl modes) A1 M1 t) as [[A2 M2] t2] eqn:E2. inversion Hc; subst A' M' l'; clear Hc.
    pose proof (Hok 0) as H0. cbn [nth] in H0.
    destruct (mp_clone_spec _ _ oA oM (dst, k + 0) (src, k + 0) _ _ _ _ LA LM H0 E1) as (eA1 & eM1 & LA1 & LM1 & K1 & R1 & FA1 & FM1).
    assert (Hok1 : forall i, hm_ok A1 M1 (oA ++ eA1) (oM ++ eM1) (src, S k + i) (nth i t None) /\
                             mp_read A1 M1 (nth i t None) = mp_read A M (nth i t None)).
    { intros i. specialize (Hok (S i)). replace (k + S i) with (S k + i) in Hok by lia. cbn [nth] in Hok.
      apply (hm_ok_frame A M oA oM A1 M1 eA1 eM1 (fun _ => False) (fun _ => False) _ _ Hok); auto. }
    destruct (IH (tl modes) (S k) A1 M1 (oA ++ eA1) (oM ++ eM1) A2 M2 t2) as (eA2 & eM2 & LA2 & LM2 & K2 & R2 & FA2 & FM2); auto.
    { intros i. specialize (Hm (S i)). destruct modes; auto. destruct i; auto. }
    { intros i. apply Hok1. }
    exists (eA1 ++ eA2), (eM1 ++ eM2). rewrite !app_assoc. split; [exact LA2|]. split; [exact LM2|].
    destruct (hm_ok_frame A1 M1 _ _ A2 M2 eA2 eM2 (fun _ => False) (fun _ => False) _ _ K1) as [K1' R1']; auto.
    split; [|split; [|split]].
    + intros [|i]; cbn [nth].
      * exact K1'.
      * replace (k + S i) with (S k + i) by lia. apply K2.
    + cbn [map]. f_equal.
      * now rewrite R1', R1.
      * rewrite R2. apply map_nth_ext with (d := None). intros i. apply Hok1.
    + eapply frame_trans; eauto.
    + eapply frame_trans; eauto.
Qed.

Lemma rt_clone_spec grow dst src H ow r H' r' :
  lens H ow -> rt_ok (arrs H) (recs H) (owA ow) (owR ow) src r -> rt_clone grow H r = (H', r') ->
  exists eA eR, lens H' (ext ow eA [] eR []) /\ maps H' = maps H /\ jars H' = jars H /\
    frame [] (fun _ : atag => False) (arrs H) (owA ow) (arrs H') /\
    frame retry0 (fun _ : oid => False) (recs H) (owR ow) (recs H') /\
    rt_ok (arrs H') (recs H') (owA ow ++ eA) (owR ow ++ eR) dst r' /\
    rt_view (arrs H') (recs H') r' = rt_view (arrs H) (recs H) r.
Proof.
  intros (La & Lm & Lr & Lj) Ok Hc. unfold rt_clone in Hc. destruct r as [a|].
  2:{ inversion Hc; subst. exists [], []. unfold lens, ext; simpl. rewrite !app_nil_r.
      repeat split; auto. }
  simpl in Ok. destruct Ok as (Ta & Kc & Kh). set (x := nth a (recs H) retry0) in *.
  destruct (sl_append grow (arrs H) None (sl_read (arrs H) (r_conds x))) as [A1 c1] eqn:E1.
  destruct (sl_append grow A1 None (sl_read A1 (r_hooks x))) as [A2 h1] eqn:E2.
  inversion Hc; subst H' r'; clear Hc.
  destruct (sl_append_spec grow (arrs H) (owA ow) (dst, KConds) None _ _ _ La I E1) as (e1 & L1 & K1 & R1 & F1).
  destruct (sl_append_spec grow A1 (owA ow ++ e1) (dst, KHooks) None _ _ _ L1 I E2) as (e2 & L2 & K2 & R2 & F2).
  assert (F1' : frame [] (fun _ : atag => False) (arrs H) (owA ow) A1).
  { destruct (sl_read (arrs H) (r_conds x)) eqn:Ev.
    - cbn [sl_append] in E1. inversion E1; subst. apply frame_refl.
    - cbn [sl_append] in E1. inversion E1; subst. now apply frame_app. }
  assert (F2' : frame [] (fun _ : atag => False) A1 (owA ow ++ e1) A2).
  { destruct (sl_read A1 (r_hooks x)) eqn:Ev.
    - cbn [sl_append] in E2. inversion E2; subst. apply frame_refl.
    - cbn [sl_append] in E2. inversion E2; subst. now apply frame_app. }
  destruct (sl_ok_frame _ _ _ e1 _ _ _ Kh (fun x : False => x) F1') as [Kh1 Rh1].
  destruct (sl_ok_frame _ _ _ e2 _ _ _ K1 (fun x : False => x) F2') as [K1' R1'].
  exists (e1 ++ e2), [dst]. unfold lens, ext; cbn [owA owM owR owJ arrs maps recs jars with_recs with_arrs].
  rewrite !app_nil_r, app_assoc.
  split; [split; [exact L2|split; [exact Lm|split; [rewrite !app_length, Lr; reflexivity|exact Lj]]]|].
  split; [reflexivity|]. split; [reflexivity|].
  split; [eapply frame_trans; eauto|]. split; [now apply frame_app|].
  assert (Ex : nth (length (recs H)) (recs H ++ [{| r_max := r_max x; r_int := r_int x; r_conds := c1; r_hooks := h1 |}]) retry0
               = {| r_max := r_max x; r_int := r_int x; r_conds := c1; r_hooks := h1 |}) by apply nth_app_new.
  split.
  - cbn [rt_ok]. rewrite Ex. cbn [r_conds r_hooks]. split; [|split; auto].
    rewrite <- Lr. apply nth_error_app_new.
  - unfold rt_view, rt_read. cbn [arrs recs]. rewrite Ex. cbn [r_max r_int r_conds r_hooks]. fold x.
    rewrite R1', R1, R2, Rh1. reflexivity.
Qed.

Lemma bx_clone_spec (J : list (list val)) (oJ : list mtag) t' p J' p' :
  length oJ = length J -> bx_clone J p = (J', p') ->
  exists e, length (oJ ++ e) = length J' /\ mp_ok (oJ ++ e) t' p' /\ bx_read J' p' = bx_read J p /\
    frame [] (fun _ : mtag => False) J oJ J' /\
    (forall a, p = Some a -> p' = Some (length J) /\ length J' = S (length J)) /\ (p = None -> p' = None).
Proof.
  intros L Hc. unfold bx_clone in Hc. destruct p as [a|]; inversion Hc; subst J' p'; clear Hc.
  - destruct (bx_new_spec J oJ t' (nth a J []) L) as (L1 & T1 & R1 & F1).
    exists [t']. split; [exact L1|]. split; [exact T1|]. split; [simpl; now rewrite R1|]. split; [exact F1|].
    split; [intros a0 _; split; [reflexivity|rewrite app_length; simpl; lia] | intros E; discriminate].
  - exists []. rewrite app_nil_r. split; [exact L|]. split; [exact I|]. split; [reflexivity|].
    split; [apply frame_refl|]. split; [intros a E; discriminate|reflexivity].
Qed.

Lemma clone_boxes_spec dst src (J : list (list val)) (oJ : list mtag) o J' jar x :
  length oJ = length J -> jar_ok oJ src (o_jar o) (o_fact o) -> ext_ok oJ src (o_ext o) ->
  clone_boxes deep_tbl J o = (J', jar, x) ->
  exists e, length (oJ ++ e) = length J' /\ frame [] (fun _ : mtag => False) J oJ J' /\
    jar_ok (oJ ++ e) dst jar (o_fact o) /\ ext_ok (oJ ++ e) dst x /\
    match jar with None => None | Some a => Some (nth a J' []) end
      = (if o_fact o then Some [] else match o_jar o with None => None | Some a => Some (nth a J []) end) /\
    abs_ext J' x = abs_ext J (o_ext o).
Proof.
  intros L JO (X1 & X2 & X3) Hc. unfold clone_boxes in Hc.
  cbn [deep_tbl t_jar t_tls t_dopt t_dumper t_link andb] in Hc. rewrite andb_true_r in Hc.
  (* the jar *)
  assert (S3 : exists J3 jar0 e3, (if o_fact o then (J ++ [[]], Some (length J)) else (J, o_jar o)) = (J3, jar0) /\
             length (oJ ++ e3) = length J3 /\ frame [] (fun _ : mtag => False) J oJ J3 /\
             jar_ok (oJ ++ e3) dst jar0 (o_fact o) /\
             match jar0 with None => None | Some a => Some (nth a J3 []) end
               = (if o_fact o then Some [] else match o_jar o with None => None | Some a => Some (nth a J []) end)).
  { destruct (o_fact o) eqn:EF.
    - destruct (bx_new_spec J oJ (dst, 0) [] L) as (L1 & T1 & R1 & F1).
      exists (J ++ [[]]), (Some (length J)), [(dst, 0)].
      split; [reflexivity|]. split; [exact L1|]. split; [exact F1|]. split; [simpl; auto|]. now rewrite R1.
    - exists J, (o_jar o), []. rewrite app_nil_r. destruct (o_jar o) as [a|]; [destruct JO; discriminate|].
      split; [reflexivity|]. split; [exact L|]. split; [apply frame_refl|]. split; [exact I|reflexivity]. }
  destruct S3 as (J3 & jar0 & e3 & E3 & L3 & F3 & K3 & R3). rewrite E3 in Hc.
  destruct (bx_clone J3 (e_tls (o_ext o))) as [J4 tls] eqn:E4.
  destruct (bx_clone J4 (e_dopt (o_ext o))) as [J5 dopt] eqn:E5.
  destruct (bx_clone_spec J3 (oJ ++ e3) (dst, 2) _ _ _ L3 E4) as (e4 & L4 & K4 & R4 & F4 & P4 & N4).
  destruct (bx_clone_spec J4 ((oJ ++ e3) ++ e4) (dst, 1) _ _ _ L4 E5) as (e5 & L5 & K5 & R5 & F5 & P5 & N5).
  (* the source's pointers keep reading the same through the allocations *)
  assert (F05 : frame [] (fun _ : mtag => False) J oJ J5).
  { eapply frame_trans; [eapply frame_trans; [exact F3|exact F4]|]. rewrite <- app_assoc in F5. exact F5. }
  destruct (bx_ok_frame _ _ _ e3 _ _ _ X3 F3 (fun x : False => x)) as (_ & B33 & _).
  assert (F04 : frame [] (fun _ : mtag => False) J oJ J4) by exact (frame_trans _ _ _ _ _ _ _ F3 F4).
  destruct (bx_ok_frame _ _ _ (e3 ++ e4) _ _ _ X1 F04 (fun x : False => x)) as (_ & B14 & _).
  destruct (bx_ok_frame _ _ _ ((e3 ++ e4) ++ e5) _ _ _ X2 F05 (fun x : False => x)) as (_ & _ & C25).
  (* the dumper *)
  set (D := match e_dumper (o_ext o) with
            | Some b => if opn_eqb (e_dopt (o_ext o)) (Some b) then (J5, dopt) else bx_clone J5 (Some b)
            | None => (J5, None) end) in *.
  destruct D as [J6 dumper] eqn:E6. cbv beta iota zeta in Hc. injection Hc as <- <- <-.
  assert (S6 : exists e6, length ((((oJ ++ e3) ++ e4) ++ e5) ++ e6) = length J6 /\
             frame [] (fun _ : mtag => False) J5 (((oJ ++ e3) ++ e4) ++ e5) J6 /\
             mp_ok ((((oJ ++ e3) ++ e4) ++ e5) ++ e6) (dst, 1) dumper /\
             match dumper with None => DOff | Some b => if opn_eqb dopt (Some b) then DLinked else DOwn (nth b J6 []) end
               = x_dumper (abs_ext J (o_ext o))).
  { unfold D in E6. unfold abs_ext; cbn [x_dumper].
    destruct (e_dumper (o_ext o)) as [b|] eqn:ED.
    2:{ inversion E6; subst. exists []. rewrite app_nil_r. repeat split; auto. }
    destruct (opn_eqb (e_dopt (o_ext o)) (Some b)) eqn:EL.
    - inversion E6; subst J6 dumper. exists []. rewrite app_nil_r. split; [exact L5|]. split; [apply frame_refl|].
      split; [exact K5|].
      destruct (e_dopt (o_ext o)) as [a0|] eqn:EDo; [|discriminate].
      destruct (P5 a0 eq_refl) as [-> _]. now rewrite opn_eqb_refl.
    - destruct (bx_clone_spec J5 (((oJ ++ e3) ++ e4) ++ e5) (dst, 1) _ _ _ L5 E6) as (e6 & L6 & K6 & R6 & F6 & P6 & N6).
      exists e6. split; [exact L6|]. split; [exact F6|]. split; [exact K6|].
      destruct (P6 b eq_refl) as [-> L6']. simpl in R6. inversion R6 as [R6'].
      assert (NL : opn_eqb dopt (Some (length J5)) = false).
      { destruct (e_dopt (o_ext o)) as [a0|] eqn:EDo.
        - destruct (P5 a0 eq_refl) as [-> L5']. simpl. apply Nat.eqb_neq. lia.
        - rewrite (N5 eq_refl). reflexivity. }
      rewrite NL, R6', (C25 b eq_refl). reflexivity. }
  destruct S6 as (e6 & L6 & F6 & K6 & R6).
  exists (((e3 ++ e4) ++ e5) ++ e6). rewrite !app_assoc. split; [exact L6|].
  assert (F06 : frame [] (fun _ : mtag => False) J oJ J6).
  { pose proof F6 as F6'. rewrite <- !app_assoc in F6'. exact (frame_trans _ _ _ _ _ _ _ F05 F6'). }
  split; [exact F06|].
  assert (F36 : frame [] (fun _ : mtag => False) J3 (oJ ++ e3) J6).
  { pose proof (frame_trans _ _ _ _ _ _ _ F4 F5) as F35. pose proof F6 as F6a.
    rewrite <- (app_assoc (oJ ++ e3) e4 e5) in F6a. exact (frame_trans _ _ _ _ _ _ _ F35 F6a). }
  assert (F46 : frame [] (fun _ : mtag => False) J4 ((oJ ++ e3) ++ e4) J6) by exact (frame_trans _ _ _ _ _ _ _ F5 F6).
  destruct (jar_ok_frame _ _ _ ((e4 ++ e5) ++ e6) _ _ _ _ K3 F36 (fun x : False => x)) as [K3' R3'].
  destruct (bx_ok_frame _ _ _ (e5 ++ e6) _ _ _ K4 F46 (fun x : False => x)) as (K4' & B4 & _).
  destruct (bx_ok_frame _ _ _ e6 _ _ _ K5 F6 (fun x : False => x)) as (K5' & B5 & _).
  rewrite <- !app_assoc in *.
  split; [exact K3'|]. split; [repeat split; auto|]. split; [now rewrite R3'|].
  unfold abs_ext at 1. cbn [e_dopt e_dumper e_tls]. rewrite R6, B5, R5, B14, B4, R4, B33. reflexivity.
Qed.

Lemma repeat_true_nth n i : nth i (repeat true n) true = true.
Proof. revert i; induction n; destruct i; simpl; auto. Qed.

Lemma clone_obj_sim grow H ow src dst o H' o' :
  lens H ow -> obj_ok H ow src o -> clone_obj grow deep_tbl H o = (H', o') ->
  exists eA eM eR eJ, lens H' (ext ow eA eM eR eJ) /\ noframe H ow H' /\
    obj_ok H' (ext ow eA eM eR eJ) dst o' /\ abs_obj H' o' = vclone (abs_obj H o).
Proof.
  intros L O Hc. pose proof L as (La & Lm & Lr & Lj). pose proof O as [O1 O2 O3 O4 O5].
  unfold clone_obj in Hc. cbn [deep_tbl t_sl t_mp t_rt t_scal] in Hc.
  destruct (clone_sls (repeat true NSL) (arrs H) (o_sl o)) as [A1 sls] eqn:E1.
  destruct (clone_mps (repeat true NMP) A1 (maps H) (o_mp o)) as [[A1' M1] mps] eqn:E2.
  destruct (rt_clone grow (with_maps (with_arrs H A1') M1) (o_rt o)) as [H2 rt] eqn:E3.
  destruct (clone_boxes deep_tbl (jars H2) o) as [[J6 jar] x] eqn:E4.
  injection Hc as <- <-.
  destruct (clone_sls_spec dst src _ _ 0 _ (owA ow) _ _ (repeat_true_nth NSL) La O1 E1) as (e1 & LA1 & KA1 & RA1 & FA1).
  (* the source's maps read the same over A1 *)
  destruct (comp_mp_frame _ _ _ _ A1 (maps H) e1 [] (fun _ => False) (fun _ => False) _ _ O2 FA1 (frame_refl _ _ _ _)) as [O2' RO2]; auto.
  rewrite app_nil_r in O2'.
  destruct (clone_mps_spec dst src _ _ 0 A1 (maps H) (owA ow ++ e1) (owM ow) _ _ _ (repeat_true_nth NMP) LA1 Lm O2' E2)
    as (eA2 & e2 & LA2 & LM1 & KM1 & RM1 & FA2 & FM1).
  rewrite RO2 in RM1.
  assert (FA12 : frame [] (fun _ : atag => False) (arrs H) (owA ow) A1') by exact (frame_trans _ _ _ _ _ _ _ FA1 FA2).
  set (H1 := with_maps (with_arrs H A1') M1) in *.
  assert (L1 : lens H1 (ext ow (e1 ++ eA2) e2 [] [])).
  { unfold lens, ext, H1; simpl. rewrite !app_nil_r, app_assoc. auto. }
  destruct (rt_ok_frame (arrs H) (recs H) (owA ow) (owR ow) A1' (recs H) (e1 ++ eA2) [] (fun _ => False) (fun _ => False) src (o_rt o)
              O3 FA12 (frame_refl _ _ _ _)) as [O3' V3]; auto.
  assert (O3'' : rt_ok (arrs H1) (recs H1) (owA (ext ow (e1 ++ eA2) e2 [] [])) (owR (ext ow (e1 ++ eA2) e2 [] [])) src (o_rt o)).
  { unfold H1, ext; simpl. exact O3'. }
  destruct (rt_clone_spec grow dst src H1 (ext ow (e1 ++ eA2) e2 [] []) (o_rt o) H2 rt L1 O3'' E3) as (eA3 & eR3 & L2 & EM2 & EJ2 & FA3 & FR2 & K3 & V2).
  pose proof L2 as (La2 & Lm2 & Lr2 & Lj2). unfold ext in La2, Lm2, Lr2, Lj2, FA3, FR2, K3; simpl in La2, Lm2, Lr2, Lj2, FA3, FR2, K3.
  rewrite ?app_nil_r in *. rewrite (app_assoc (owA ow) e1 eA2) in *.
  rewrite EJ2 in E4.
  destruct (clone_boxes_spec dst src (jars H) (owJ ow) o _ _ _ Lj O4 O5 E4) as (e6 & L6 & F6 & KJ & KX & RJ & RX).
  (* the clone's slices and maps as read in the final heap *)
  assert (FA23 : frame [] (fun _ : atag => False) A1 (owA ow ++ e1) (arrs H2)) by exact (frame_trans _ _ _ _ _ _ _ FA2 FA3).
  assert (KMF : forall i, hm_ok (arrs H2) M1 (((owA ow ++ e1) ++ eA2) ++ eA3) (owM ow ++ e2) (dst, i) (nth i mps None) /\
                         mp_read (arrs H2) M1 (nth i mps None) = mp_read A1' M1 (nth i mps None)).
  { intros i.
    destruct (hm_ok_frame A1' M1 _ _ (arrs H2) M1 eA3 [] (fun _ => False) (fun _ => False) _ _ (KM1 i)) as [K R]; auto.
    - apply frame_refl.
    - rewrite app_nil_r in K. auto. }
  exists ((e1 ++ eA2) ++ eA3), e2, eR3, e6.
  split; [|split; [|split]].
  - unfold lens, ext; simpl. rewrite !app_assoc. repeat split; auto; try (now rewrite EM2).
  - unfold noframe, hframe; simpl. split; [rewrite <- app_assoc in FA3; exact (frame_trans _ _ _ _ _ _ _ FA12 FA3)|].
    split; [now rewrite EM2|]. split; [exact FR2|exact F6].
  - constructor; unfold ext; simpl.
    + intros i. rewrite !app_assoc. rewrite <- (app_assoc (owA ow ++ e1) eA2 eA3).
      apply (sl_ok_frame _ _ _ (eA2 ++ eA3) _ _ _ (KA1 i) (fun x : False => x) FA23).
    + intros i. rewrite EM2. rewrite !app_assoc. apply KMF.
    + rewrite !app_assoc. exact K3.
    + exact KJ.
    + exact KX.
  - assert (ESL : map (sl_read (arrs H2)) sls = map (sl_read (arrs H)) (o_sl o)).
    { rewrite <- RA1. apply map_nth_ext with (d := None). intros i.
      apply (sl_ok_frame _ _ _ (eA2 ++ eA3) _ _ _ (KA1 i) (fun x : False => x) FA23). }
    assert (EMP : map (mp_read (arrs H2) (maps H2)) mps = map (mp_read (arrs H) (maps H)) (o_mp o)).
    { rewrite EM2, <- RM1. apply map_nth_ext with (d := None). intros i. apply KMF. }
    assert (ERT : rt_view (arrs H2) (recs H2) rt = rt_view (arrs H) (recs H) (o_rt o)) by (rewrite V2; exact V3).
    rewrite !abs_obj_eq. unfold vclone.
    cbn [v_sl v_mp v_rt v_chain v_tchain v_scal v_jar v_fact v_par v_ext
         o_sl o_mp o_rt o_chain o_tchain o_scal o_jar o_fact o_par o_ext arrs maps recs jars with_jars].
    rewrite ESL, EMP, ERT, RJ, RX, !sl_read_nth.
    f_equal.
    + destruct (sl_read (arrs H) (nth F_RTW (o_sl o) None)); reflexivity.
    + destruct (sl_read (arrs H) (nth F_TRW (o_sl o) None)); reflexivity.
Qed.

Lemma new_req_sim grow H ow c dst co H' o' :
  lens H ow -> obj_ok H ow (OC c) co -> new_req grow H c co = (H', o') ->
  exists eA eM eR eJ, lens H' (ext ow eA eM eR eJ) /\ noframe H ow H' /\
    obj_ok H' (ext ow eA eM eR eJ) dst o' /\ abs_obj H' o' = vnew_req c (abs_obj H co).
Proof.
  intros L O Hc. pose proof O as [O1 O2 O3 O4 O5]. unfold new_req in Hc.
  destruct (rt_clone grow H (o_rt co)) as [H1 rt] eqn:E. injection Hc as <- <-.
  destruct (rt_clone_spec grow dst (OC c) H ow _ _ _ L O3 E) as (eA & eR & L1 & EM & EJ & FA & FR & K & V).
  exists eA, [], eR, []. split; [exact L1|]. split; [|split].
  - unfold noframe, hframe. rewrite EM, EJ. split; [exact FA|]. split; [apply frame_refl|]. split; [exact FR|apply frame_refl].
  - constructor; unfold ext; simpl; auto.
    + intros i. do 8 (destruct i as [|i]; [exact I|]). exact I.
    + intros i. do 5 (destruct i as [|i]; [exact I|]). exact I.
    + repeat split; exact I.
  - rewrite !abs_obj_eq. unfold vnew_req. cbn [o_sl o_mp o_rt o_chain o_tchain o_scal o_jar o_fact o_par o_ext v_rt].
    rewrite V. reflexivity.
Qed.

Lemma new_client_sim H ow dst H' o' :
  lens H ow -> new_client H = (H', o') ->
  exists eA eM eR eJ, lens H' (ext ow eA eM eR eJ) /\ noframe H ow H' /\
    obj_ok H' (ext ow eA eM eR eJ) dst o' /\ abs_obj H' o' = vclient0.
Proof.
  intros (La & Lm & Lr & Lj) Hc. unfold new_client in Hc.
  destruct (sl_lit (arrs H) INTERNAL_AFTER) as [A s] eqn:E. injection Hc as <- <-.
  destruct (sl_lit_spec _ (owA ow) (dst, KSl F_AFTER) _ _ _ La E) as (L1 & K1 & R1 & F1).
  exists [(dst, KSl F_AFTER)], [], [], [(dst, 0); (dst, 2)].
  assert (T0 : nth_error (owJ ow ++ [(dst, 0); (dst, 2)]) (length (jars H)) = Some (dst, 0)).
  { rewrite <- Lj. rewrite nth_error_app2 by lia. now rewrite Nat.sub_diag. }
  assert (T2 : nth_error (owJ ow ++ [(dst, 0); (dst, 2)]) (S (length (jars H))) = Some (dst, 2)).
  { rewrite <- Lj. rewrite nth_error_app2 by lia. replace (S (length (owJ ow)) - length (owJ ow)) with 1 by lia. reflexivity. }
  split; [|split; [|split]].
  - unfold lens, ext; simpl. rewrite !app_nil_r.
    split; [exact L1|]. split; [exact Lm|]. split; [exact Lr|]. rewrite !app_length. simpl. lia.
  - unfold noframe, hframe; simpl. repeat split; auto; try apply frame_refl; try apply F1.
    + rewrite app_length; lia.
    + intros a t Ha _. apply app_nth1. rewrite <- Lj. eapply nth_error_lt; eauto.
  - constructor; unfold ext; simpl.
    + intros i. do 4 (destruct i as [|i]; [exact I|]). destruct i as [|i]; [exact K1|].
      do 3 (destruct i as [|i]; [exact I|]). exact I.
    + intros i. do 5 (destruct i as [|i]; [exact I|]). exact I.
    + exact I.
    + auto.
    + repeat split; simpl; auto.
  - rewrite abs_obj_eq. unfold vclient0.
    cbn [o_sl o_mp o_rt o_chain o_tchain o_scal o_jar o_fact o_par o_ext arrs maps recs jars with_jars with_arrs].
    unfold abs_ext. cbn [e_dopt e_dumper e_tls bx_read].
    assert (N0 : nth (length (jars H)) (jars H ++ [[]; TLS0]) [] = []).
    { rewrite app_nth2 by lia. now rewrite Nat.sub_diag. }
    assert (N1 : nth (S (length (jars H))) (jars H ++ [[]; TLS0]) [] = TLS0).
    { rewrite app_nth2 by lia. replace (S (length (jars H)) - length (jars H)) with 1 by lia. reflexivity. }
    rewrite N0, N1. cbn [map upd_nth repeat NSL NMP F_AFTER sl_read mp_read]. rewrite R1. reflexivity.
Qed.

(* ================= programs ================= *)
Definition inv (st : state) (ow : owners) : Prop :=
  lens (hp st) ow /\ NoDup (map fst (objs st)) /\
  forall id o, In (id, o) (objs st) -> obj_ok (hp st) ow id o.

Lemma NoDup_snoc {A} (l : list A) k : NoDup l -> ~ In k l -> NoDup (l ++ [k]).
Proof.
  induction 1 as [|x l Hx Hl IH]; simpl; intros Hn.
  - constructor; [intros []|constructor].
  - constructor.
    + rewrite in_app_iff. intros [Hi|[Hi|[]]]; [auto|]. subst. apply Hn. auto.
    + apply IH. auto.
Qed.

Section AssocLists.
  Context {B C : Type}.
  Lemma aget_In k (l : list (oid * B)) x : aget oid_eqb k l = Some x -> In (k, x) l.
  Proof.
    induction l as [|[j y] t IH]; simpl; [discriminate|].
    destruct (oid_eqb_spec j k); [intros E; inversion E; subst; auto|auto].
  Qed.
  Lemma aget_map (F : B -> C) k (l : list (oid * B)) :
    aget oid_eqb k (map (fun io => (fst io, F (snd io))) l) = option_map F (aget oid_eqb k l).
  Proof. induction l as [|[j y] t IH]; simpl; auto. destruct (oid_eqb j k); auto. Qed.
  Lemma aset_keys k (x : B) l :
    map fst (aset oid_eqb k x l) = if existsb (fun j => oid_eqb j k) (map fst l) then map fst l else map fst l ++ [k].
  Proof.
    induction l as [|[j y] t IH]; simpl; auto. destruct (oid_eqb j k) eqn:E; simpl; auto.
    rewrite IH. destruct (existsb _ _); reflexivity.
  Qed.
  Lemma aset_NoDup k (x : B) l : NoDup (map fst l) -> NoDup (map fst (aset oid_eqb k x l)).
  Proof.
    intros N. rewrite aset_keys. destruct (existsb _ _) eqn:E; auto.
    apply NoDup_snoc; auto.
    intros Hk. assert (existsb (fun j0 => oid_eqb j0 k) (map fst l) = true); [|congruence].
    apply existsb_exists. exists k. split; auto. apply oid_eqb_refl.
  Qed.
  Lemma aset_In k (x : B) l j y : NoDup (map fst l) ->
    In (j, y) (aset oid_eqb k x l) -> (j, y) = (k, x) \/ (In (j, y) l /\ j <> k).
  Proof.
    induction l as [|[i z] t IH]; simpl; intros N HI.
    - destruct HI as [E|[]]; auto.
    - inversion N; subst. destruct (oid_eqb_spec i k).
      + subst. destruct HI as [E|HI]; [auto|]. right. split; auto.
        intros ->. apply H1. change k with (fst (k, y)). now apply in_map.
      + destruct HI as [E|HI]; [inversion E; subst; auto|].
        destruct (IH H2 HI) as [E|[HI' Nk]]; auto.
  Qed.
  Lemma aset_map_ext (g g' : oid * B -> oid * C) k (v : C) l :
    NoDup (map fst l) -> (forall io, fst (g io) = fst io) -> (forall io, fst (g' io) = fst io) ->
    (forall io, In io l -> fst io <> k -> g' io = g io) ->
    aset oid_eqb k v (map g' l) = aset oid_eqb k v (map g l).
  Proof.
    intros N G G' Hx. induction l as [|io t IH]; simpl; auto.
    inversion N; subst.
    destruct (g' io) as [j' y'] eqn:E'. destruct (g io) as [j y] eqn:E.
    assert (J' : j' = fst io) by (rewrite <- (G' io), E'; reflexivity).
    assert (J : j = fst io) by (rewrite <- (G io), E; reflexivity). subst j j'.
    destruct (oid_eqb_spec (fst io) k) as [Ek|Nk].
    - f_equal. apply map_ext_in. intros a Ha. apply Hx; simpl; auto.
      intros Ea. apply H1. rewrite Ek, <- Ea. now apply in_map.
    - rewrite <- E, <- E', (Hx io); simpl; auto. rewrite E. f_equal. apply IH; auto.
      intros a Ha. apply Hx; simpl; auto.
  Qed.
End AssocLists.

Lemma aset_map_abs (F : obj -> vobj) k o' l :
  map (fun io => (fst io, F (snd io))) (aset oid_eqb k o' l) = aset oid_eqb k (F o') (map (fun io => (fst io, F (snd io))) l).
Proof. induction l as [|[j y] t IH]; simpl; auto. destruct (oid_eqb j k); simpl; auto. now rewrite IH. Qed.

Lemma view_abs st id : view st id = vget id (abs_state st).
Proof.
  unfold view, vget, abs_state, oget. rewrite (aget_map (abs_obj (hp st))).
  destruct (aget oid_eqb id (objs st)); reflexivity.
Qed.

(* the common shape: object `id` is (re)defined as o' over the heap H', every other object is framed *)
Lemma inv_update st ow id o' H' ow' v' :
  inv st ow -> lens H' ow' ->
  (forall j o, In (j, o) (objs st) -> j <> id -> obj_ok H' ow' j o /\ abs_obj H' o = abs_obj (hp st) o) ->
  obj_ok H' ow' id o' -> abs_obj H' o' = v' ->
  inv {| hp := H'; objs := oset id o' (objs st) |} ow' /\
  abs_state {| hp := H'; objs := oset id o' (objs st) |} = vset id v' (abs_state st).
Proof.
  intros (L & N & AO) L' Hoth Ho' Ev. split.
  - split; [exact L'|]. split; [now apply aset_NoDup|]. cbn [hp objs]. intros j o HI.
    destruct (aset_In _ _ _ _ _ N HI) as [E|[HI' Nk]]; [inversion E; subst; exact Ho'|]. now apply Hoth.
  - unfold abs_state, vset, oset. cbn [hp objs]. rewrite aset_map_abs, Ev.
    apply aset_map_ext; auto. intros [j o] HI Nk. simpl in *. f_equal. now apply (Hoth j o HI Nk).
Qed.

Theorem step_sim grow st ow o :
  inv st ow -> op_nojar o ->
  exists ow', inv (step grow deep_tbl st o) ow' /\ abs_state (step grow deep_tbl st o) = vstep (abs_state st) o.
Proof.
  intros I NJ. pose proof I as (L & N & AO). destruct o as [c|id s|src dst|c r|r]; cbn [step vstep].
  - (* C() *)
    destruct (new_client (hp st)) as [H' o'] eqn:E.
    destruct (new_client_sim _ ow (OC c) _ _ L E) as (a & b & c0 & d & L' & F & O' & V).
    exists (ext ow a b c0 d). apply (inv_update st ow (OC c) o' H' (ext ow a b c0 d) vclient0 I L'); auto.
    intros j o HI _. apply (obj_frame _ _ _ a b c0 d _ _ _ _ _ _ (AO _ _ HI) F); auto.
  - (* setter *)
    unfold vget. rewrite <- view_abs. unfold view. destruct (oget id (objs st)) as [ob|] eqn:G; [|exists ow; auto].
    destruct (apply_setter grow (hp st) ob s) as [H' o'] eqn:E.
    pose proof (AO _ _ (aget_In _ _ _ G)) as Oid.
    destruct (apply_setter_sim grow _ ow id ob s _ _ L Oid NJ E) as (a & b & c0 & d & L' & F & O' & V).
    exists (ext ow a b c0 d). apply (inv_update st ow id o' H' (ext ow a b c0 d) _ I L'); auto.
    intros j o HI Nj. apply (obj_frame _ _ _ a b c0 d _ _ _ _ _ _ (AO _ _ HI) F); unfold WAid, WMid, WOid; simpl; auto.
  - (* Clone *)
    unfold vget. rewrite <- view_abs. unfold view. destruct (oget (OC src) (objs st)) as [ob|] eqn:G; [|exists ow; auto].
    destruct (clone_obj grow deep_tbl (hp st) ob) as [H' o'] eqn:E.
    pose proof (AO _ _ (aget_In _ _ _ G)) as Oid.
    destruct (clone_obj_sim grow _ ow (OC src) (OC dst) ob _ _ L Oid E) as (a & b & c0 & d & L' & F & O' & V).
    exists (ext ow a b c0 d). apply (inv_update st ow (OC dst) o' H' (ext ow a b c0 d) _ I L'); auto.
    intros j o HI _. apply (obj_frame _ _ _ a b c0 d _ _ _ _ _ _ (AO _ _ HI) F); auto.
  - (* R() *)
    unfold vget. rewrite <- view_abs. unfold view. destruct (oget (OC c) (objs st)) as [ob|] eqn:G; [|exists ow; auto].
    destruct (new_req grow (hp st) c ob) as [H' o'] eqn:E.
    pose proof (AO _ _ (aget_In _ _ _ G)) as Oid.
    destruct (new_req_sim grow _ ow c (OR r) ob _ _ L Oid E) as (a & b & c0 & d & L' & F & O' & V).
    exists (ext ow a b c0 d). apply (inv_update st ow (OR r) o' H' (ext ow a b c0 d) _ I L'); auto.
    intros j o HI _. apply (obj_frame _ _ _ a b c0 d _ _ _ _ _ _ (AO _ _ HI) F); auto.
  - exists ow; auto.
Qed.

Lemma inv_init : inv init_state {| owA := []; owM := []; owR := []; owJ := [] |}.
Proof. split; [repeat split|]. split; [constructor|intros id o []]. Qed.

Theorem run_sim grow p : forall st ow, inv st ow -> Forall op_nojar p ->
  abs_state (run grow deep_tbl p st) = vrun p (abs_state st).
Proof.
  induction p as [|o p IH]; intros st ow I F; [reflexivity|].
  inversion F; subst. cbn [run vrun fold_left].
  destruct (step_sim grow st ow o I H1) as (ow' & I' & E). unfold run in IH. rewrite (IH _ ow' I' H2), E. reflexivity.
Qed.

(* the reference-heap model, run on any program of API calls, reads exactly as the value model *)
Theorem heap_refines_value grow p : Forall op_nojar p ->
  abs_state (run grow deep_tbl p init_state) = vrun p [].
Proof. intros F. exact (run_sim grow p _ _ inv_init F). Qed.
