(* Proofs/HeaderSyncProofs.v - C16: the Go source the model transcribes, as read from the working
   tree by gosync on every run (Gen/HeaderSrc.v), compared with the text the model was written
   from.  An edit of one of these functions makes the corresponding lemma fail: the check turns
   red with "a proof obligation no longer checks" and the model has to be re-audited against the
   new code - also when no generated input would expose the difference. *)
From ReqV Require Import Lib.Bytes Model.HeaderOrder Model.HeaderCollect Gen.HeaderSrc.

(* internal/header/sort.go - modelled by canonical_key, rank_in / rank_c, sort_key_values
   (sort.Stable under Less = rank(i) < rank(j); order map filled in list order, so the last
   duplicate decides; unlisted = len(orderedKeys)) *)
Lemma sort_go_as_modelled :
  src_canonicalKey = bs "{ if strings.HasPrefix(key, "":"") { return strings.ToLower(key) } return textproto.CanonicalMIMEHeaderKey(key) }" /\
  src_sorter_rank = bs "{ if index, ok := s.order[canonicalKey(s.kvs[i].Key)]; ok { return index } return s.unlisted }" /\
  src_sorter_Less = bs "{ return s.rank(i) < s.rank(j) }" /\
  src_sorter_Swap = bs "{ s.kvs[i], s.kvs[j] = s.kvs[j], s.kvs[i] }" /\
  src_SortKeyValues = bs "{ order := make(map[string]int) for i, key := range orderedKeys { order[canonicalKey(key)] = i } s := &sorter{order: order, unlisted: len(orderedKeys), kvs: kvs} sort.Stable(s) }".
Proof. repeat split; reflexivity. Qed.

(* internal/header/header.go IsExcluded - modelled by is_excluded (lower-case, then the table) *)
Lemma is_excluded_go_as_modelled :
  src_IsExcluded = bs "{ if reqWriteExcludeHeader[strings.ToLower(key)] { return true } return false }".
Proof. reflexivity. Qed.

(* header.go headerWriteSubset - modelled by h1_user (exact-key exclusion, invalid names dropped,
   values sanitised; key-sorted only when no order list is present) *)
Lemma header_write_subset_go_as_modelled :
  src_headerWriteSubset = bs "{ var kvs []header.KeyValues var hs *headerSorter if sort { kvs = make([]header.KeyValues, 0, len(h)) for k, v := range h { if !exclude[k] { kvs = append(kvs, header.KeyValues{k, v}) } } } else { kvs, hs = headerSortedKeyValues(h, exclude) } for _, kv := range kvs { if !httpguts.ValidHeaderFieldName(kv.Key) { continue } for i, v := range kv.Values { vv := headerNewlineToSpace.Replace(v) vv = textproto.TrimString(vv) if vv != v { kv.Values[i] = vv } } err := writeHeader(kv.Key, kv.Values...) if err != nil { if hs != nil { headerSorterPool.Put(hs) } return err } } if hs != nil { headerSorterPool.Put(hs) } return nil }".
Proof. reflexivity. Qed.

(* the names the three collectors write themselves, in source order, are the ones of the model:
   h1 Host, User-Agent (Content-Length comes from transferWriter, Accept-Encoding from the extra
   headers); h2/h3 the pseudo-header block in the default order, then trailer / (h2) cookie, and
   the automatic tail in the order of auto_tail.  ":protocol" (extended CONNECT) and "trailer" are
   outside the modelled domain. *)
Lemma writer_names_as_modelled :
  h1_writer_names = [bs "Host"; bs "User-Agent"] /\
  h2_writer_names = [bs ":authority"; bs ":method"; bs ":path"; bs ":scheme"; bs "trailer"; bs "cookie";
                     bs "content-length"; bs "accept-encoding"; bs "user-agent"] /\
  h3_writer_names = [bs ":authority"; bs ":method"; bs ":path"; bs ":scheme"; bs ":protocol"; bs "trailer";
                     bs "content-length"; bs "accept-encoding"; bs "user-agent"].
Proof. repeat split; reflexivity. Qed.

Lemma pseudo_default_order_from_source q :
  map fst (pseudo_kvs q) = firstn 4 h2_writer_names /\ map fst (pseudo_kvs q) = firstn 4 h3_writer_names.
Proof. split; reflexivity. Qed.

Lemma auto_tail_names_from_source q x :
  In x (auto_tail q) -> In (fst x) (skipn 6 h2_writer_names) /\ In (fst x) (skipn 6 h3_writer_names).
Proof.
  unfold auto_tail. intros H. apply in_app_or in H as [H|H].
  { unfold cl_kv in H. destruct (sends_cl _ _); [|destruct H]. destruct H as [<-|[]]. split; cbn; auto. }
  apply in_app_or in H as [H|H].
  { unfold gzip_kv in H. destruct (wants_gzip q); [|destruct H]. destruct H as [<-|[]]. split; cbn; auto. }
  destruct (did_ua (c_hdr q)); [destruct H|]. destruct H as [<-|[]]. split; cbn; auto.
Qed.

(* header.go headerSortedKeyValues - modelled by pooled_sorted: the pooled slice is truncated
   (hs.kvs[:0]) before the request's non-excluded entries are appended and sorted *)
Lemma header_sorted_key_values_go_as_modelled :
  src_headerSortedKeyValues = bs "{ hs = headerSorterPool.Get().(*headerSorter) if cap(hs.kvs) < len(h) { hs.kvs = make([]header.KeyValues, 0, len(h)) } kvs = hs.kvs[:0] for k, vv := range h { if !exclude[k] { kvs = append(kvs, header.KeyValues{k, vv}) } } hs.kvs = kvs sort.Sort(hs) return kvs, hs }".
Proof. reflexivity. Qed.

(* http2 encodeHeaders refuses an oversized header list BEFORE the encoding pass (h2_client_step,
   not h2_client_step_merged) *)
Lemma h2_counting_pass_precedes_encoding : (h2_src_refuse_offset <? h2_src_encode_offset)%N = true.
Proof. vm_compute. reflexivity. Qed.

(* Transport.Clone hands the clone a COPY of the wrapper slice (fam_step FClone) *)
Lemma clone_copies_wrappers_go_as_modelled : src_clone_wrappers = bs "cloneSlice(t.httpRoundTripWrappers)".
Proof. reflexivity. Qed.

(* round 4 *)
(* http3 writeHeaders: encode, frame and write under ONE critical section (step_locked) *)
Lemma h3_write_headers_go_as_modelled :
  src_h3_writeHeaders = bs "{ w.mutex.Lock() defer w.mutex.Unlock() defer w.encoder.Close() defer w.headerBuf.Reset() if err := w.encodeHeaders(req, gzip, """", actualContentLength(req), dumps); err != nil { return err } b := make([]byte, 0, 128) b = (&headersFrame{Length: uint64(w.headerBuf.Len())}).Append(b) if _, err := wr.Write(b); err != nil { return err } _, err := wr.Write(w.headerBuf.Bytes()) return err }".
Proof. reflexivity. Qed.

(* re-execution: merged copies are remembered and recognised by slice identity (rmerge_step / unmerge);
   the merge runs on the first attempt of an execution only (rmerge_attempt; fix df72f46) *)
Lemma resend_go_as_modelled :
  src_parseRequestHeader = bs "{ if c.Headers == nil || r.RetryAttempt > 0 { return nil } if r.Headers == nil { r.Headers = make(http.Header) } for k, vs := range c.Headers { if len(r.Headers[k]) == 0 { cp := append([]string(nil), vs...) r.Headers[k] = cp if r.clientMerged.headers == nil { r.clientMerged.headers = make(map[string][]string) } r.clientMerged.headers[k] = cp } } return nil }" /\
  src_unmerge_headers = bs "for k, vs := range m.headers { if cur := r.Headers[k]; len(vs) > 0 && len(cur) == len(vs) && &cur[0] == &vs[0] { delete(r.Headers, k) } }".
Proof. split; reflexivity. Qed.

(* HTTP/1.1: the caller's map is written with the exact-key table (h1_user) *)
Lemma h1_write_subset_call_go_as_modelled :
  src_h1_write_subset_call = bs "headerWriteSubset(r.Header, reqWriteExcludeHeader, writeHeader, sort)".
Proof. reflexivity. Qed.

(* round 5 *)
(* redirect.go AlwaysCopyHeaderRedirectPolicy: presence and values through the canonicalising
   Header.Values, the copy through Header.Add (policy_step) *)
Lemma always_copy_go_as_modelled :
  src_AlwaysCopyHeaderRedirectPolicy = bs "{ return func(req *http.Request, via []*http.Request) error { for _, header := range headers { if len(req.Header.Values(header)) > 0 { continue } vals := via[0].Header.Values(header) for _, val := range vals { req.Header.Add(header, val) } } return nil } }".
Proof. reflexivity. Qed.

(* http2 writeHeaders: first fragment 5 bytes shorter under a priority, END_HEADERS after the cut (split_block) *)
Lemma h2_write_headers_go_as_modelled :
  src_h2_writeHeaders = bs "{ first := true for len(hdrs) > 0 && cc.werr == nil { chunk := hdrs max := maxFrameSize if first && !cc.t.HeaderPriority.IsZero() && max > 5 { max -= 5 } if len(chunk) > max { chunk = chunk[:max] } hdrs = hdrs[len(chunk):] endHeaders := len(hdrs) == 0 if first { cc.fr.WriteHeaders(HeadersFrameParam{StreamID: streamID, BlockFragment: chunk, EndStream: endStream, EndHeaders: endHeaders, Priority: cc.t.HeaderPriority}) first = false } else { cc.fr.WriteContinuation(streamID, endHeaders, chunk) } } cc.bw.Flush() return cc.werr }".
Proof. reflexivity. Qed.

(* round 6 *)
(* http2 encodeAndWriteHeaders asks "cancelled meanwhile?" BEFORE the connection's HPACK encoder runs
   (h2_step_fate, not h2_step_fate_late) *)
Lemma h2_cancel_check_precedes_encoding : (h2_src_cancel_check_offset <? h2_src_encode_call_offset)%N = true.
Proof. vm_compute. reflexivity. Qed.

(* http3 WriteRequestHeader encodes into a private buffer and copies it to the stream afterwards; the
   connection-wide header buffer is emptied by writeHeaders' deferred Reset (src_h3_writeHeaders above:
   h3w_step) *)
Lemma h3_write_request_header_go_as_modelled :
  src_h3_WriteRequestHeader = bs "{ buf := &bytes.Buffer{} if err := w.writeHeaders(buf, req, gzip, dumps); err != nil { return err } _, err := str.Write(buf.Bytes()) return err }".
Proof. reflexivity. Qed.

(* round 7 *)
(* transport.go persistConn.roundTrip: Connection: close is added under DisableKeepAlives unless the
   request asks for it itself - reqWantsClose looks at the caller's Connection header (conn_close_kv) *)
Lemma h1_conn_close_cond_go_as_modelled :
  src_h1_conn_close_cond = bs "pc.t.DisableKeepAlives && !reqWantsClose(req.Request) && !isProtocolSwitchHeader(req.Header)".
Proof. reflexivity. Qed.

(* round 8 *)
(* Transport.Clone gives the clone a deep copy of the common headers (hfam_step HClone: private value slices) *)
Lemma clone_headers_go_as_modelled : src_clone_headers = bs "t.Headers.Clone()".
Proof. reflexivity. Qed.
