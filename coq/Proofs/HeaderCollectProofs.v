(* Proofs/HeaderCollectProofs.v - C16: lemmas about Model/HeaderCollect.v (the three request-header
   collectors: HTTP/1.1 writeRequest, HTTP/2 and HTTP/3 encodeHeaders).  The exclusion tables,
   bookkeeping keys and default User-Agent come from Gen/HeaderTables.v (gosync), so a change of
   those tables in the Go source breaks the table facts at the top of this file. *)
From ReqV Require Import Lib.Bytes Lib.BytesFacts Model.HeaderOrder Model.HeaderCollect
  Proofs.HeaderOrderProofs.
From Coq Require Import Lia Permutation Sorting.Sorted.

(* ================= specification-side definitions ================= *)

(* what the HTTP/1.1 writer sends for one entry of the header map: nothing for a key the writer
   handles itself / a bookkeeping key / an invalid name, else one line per value under the key
   EXACTLY as spelled in the map, the value sanitised (CR/LF -> blank, outer blanks trimmed) *)
Definition h1_user_lines (x : kv) : list line :=
  if negb (mem_bytes (fst x) h1_exclude) && valid_field_name (fst x)
  then map (fun v => (fst x, sanitize v)) (snd x) else [].

(* the automatic lines of HTTP/1.1: Host, User-Agent (default / override / blank = none),
   Content-Length, Accept-Encoding: gzip *)
Definition h1_auto (q : creq) : list line :=
  flatten ([(bs "Host", [c_host q])] ++ h1_ua (c_hdr q) ++
           cl_kv (bs "Content-Length") (c_method q) (c_clen q)) ++
  flatten (gzip_kv (bs "Accept-Encoding") q).

Definition h2_user_lines (x : kv) : list line := flatten (h2_entry x).
Definition h3_user_lines (x : kv) : list line := flatten (h3_entry x).

(* the names HTTP/2 (RFC 9113 8.2.2) and HTTP/3 (RFC 9114 4.2) forbid, the Host header that
   :authority replaces, and the two bookkeeping keys *)
Definition h23_forbidden : list bytes :=
  [bs "connection"; bs "proxy-connection"; bs "keep-alive"; bs "transfer-encoding"; bs "upgrade";
   bs "host"; header_order_key; pseudo_header_order_key].

Definition set_hdr (q : creq) (h : list kv) : creq :=
  mk_creq (c_method q) (c_host q) (c_path q) (c_scheme q) h (c_clen q) (c_compress q).

Definition h2_regular_lines (q : creq) : list line :=
  flatten (sort_if (order_list (c_hdr q)) (h2_regular q)).
Definition h3_regular_lines (q : creq) : list line :=
  flatten (sort_if (order_list (c_hdr q)) (h3_regular q)).

Definition rank_le (order : list bytes) (a b : line) : Prop :=
  line_rank order a <= line_rank order b.

(* ================= facts about the generated tables ================= *)
Lemma bookkeeping_in_h1_exclude :
  mem_bytes header_order_key h1_exclude = true /\ mem_bytes pseudo_header_order_key h1_exclude = true.
Proof. split; vm_compute; reflexivity. Qed.

Lemma forbidden_in_h23_exclude :
  forallb (fun f => mem_bytes f h23_exclude) h23_forbidden = true.
Proof. vm_compute. reflexivity. Qed.

Lemma forbidden_lower : forallb (fun f => bytes_eqb (to_lower f) f) h23_forbidden = true.
Proof. vm_compute. reflexivity. Qed.

Lemma auto_names_not_bookkeeping :
  forallb (fun n => negb (bytes_eqb n header_order_key) && negb (bytes_eqb n pseudo_header_order_key))
    [bs "Host"; bs "User-Agent"; bs "Content-Length"; bs "Accept-Encoding"] = true.
Proof. vm_compute. reflexivity. Qed.

Lemma h23_auto_names_allowed :
  forallb (fun n => negb (mem_bytes n h23_forbidden))
    [bs ":authority"; bs ":method"; bs ":path"; bs ":scheme"; bs "cookie";
     bs "content-length"; bs "accept-encoding"; bs "user-agent"] = true.
Proof. vm_compute. reflexivity. Qed.

(* ================= generic list facts ================= *)
Lemma mem_bytes_true x l : mem_bytes x l = true <-> In x l.
Proof.
  unfold mem_bytes. rewrite existsb_exists. split.
  - intros (y & Hy & E). apply bytes_eqb_eq in E. now subst.
  - intros H. exists x. split; [assumption|apply bytes_eqb_refl].
Qed.

Lemma mem_bytes_false x l : mem_bytes x l = false <-> ~ In x l.
Proof.
  rewrite <- mem_bytes_true. destruct (mem_bytes x l); split; intros H; congruence.
Qed.

Lemma flatten_app a b : flatten (a ++ b) = flatten a ++ flatten b.
Proof. unfold flatten. apply flat_map_app. Qed.

Lemma flatten_cons (a : kv) b : flatten (a :: b) = map (fun v => (fst a, v)) (snd a) ++ flatten b.
Proof. reflexivity. Qed.

Lemma flatten_perm a b : Permutation a b -> Permutation (flatten a) (flatten b).
Proof. unfold flatten. apply Permutation_flat_map. Qed.

Lemma flatten_flat_map {A} (g : A -> list kv) (l : list A) :
  flatten (flat_map g l) = flat_map (fun x => flatten (g x)) l.
Proof.
  induction l as [|x t IH]; cbn [flat_map]; [reflexivity|].
  now rewrite flatten_app, IH.
Qed.

Lemma in_flatten l (x : line) :
  In x (flatten l) <-> exists vs, In (fst x, vs) l /\ In (snd x) vs.
Proof.
  unfold flatten. rewrite in_flat_map. split.
  - intros ([k vs] & Hin & Hx). cbn [fst snd] in Hx. apply in_map_iff in Hx as (v & <- & Hv).
    exists vs. now split.
  - intros (vs & Hin & Hv). exists (fst x, vs). split; [assumption|].
    cbn [fst snd]. apply in_map_iff. exists (snd x). split; [now destruct x|assumption].
Qed.

Lemma sort_le_insert_perm {A} (le : A -> A -> bool) x l : Permutation (insert_le le x l) (x :: l).
Proof.
  induction l as [|y t IH]; cbn [insert_le]; [reflexivity|].
  destruct (le x y); [reflexivity|]. rewrite IH. apply perm_swap.
Qed.

Lemma sort_le_perm {A} (le : A -> A -> bool) l : Permutation (sort_le le l) l.
Proof.
  induction l as [|x t IH]; cbn [sort_le]; [reflexivity|].
  rewrite sort_le_insert_perm. now constructor.
Qed.

Lemma sort_if_perm order kvs : Permutation (sort_if order kvs) kvs.
Proof. unfold sort_if. destruct (is_nil order); [reflexivity|apply sort_is_permutation]. Qed.

Lemma filter_perm {A} (f : A -> bool) l l' :
  Permutation l l' -> Permutation (filter f l) (filter f l').
Proof.
  induction 1 as [|x l l' _ IH|x y l|l l' l'' _ IH1 _ IH2]; cbn [filter].
  - reflexivity.
  - destruct (f x); [now constructor|assumption].
  - destruct (f x), (f y); try reflexivity. apply perm_swap.
  - now transitivity (filter f l').
Qed.

Lemma lower_lines_app a b : lower_lines (a ++ b) = lower_lines a ++ lower_lines b.
Proof. unfold lower_lines. apply map_app. Qed.

(* ================= HTTP/1.1 ================= *)
Lemma flatten_h1_user h : flatten (h1_user h) = flat_map h1_user_lines h.
Proof.
  unfold h1_user. induction h as [|x t IH]; [reflexivity|].
  cbn [filter flat_map]. unfold h1_user_lines at 1.
  destruct (negb (mem_bytes (fst x) h1_exclude) && valid_field_name (fst x)).
  - cbn [map]. rewrite flatten_cons. rewrite IH. f_equal. cbn [fst snd]. rewrite map_map. reflexivity.
  - exact IH.
Qed.

Lemma h1_kvs_perm q :
  Permutation (flatten (h1_kvs q)) (h1_auto q ++ flat_map h1_user_lines (c_hdr q)).
Proof.
  unfold h1_kvs, h1_auto. cbv zeta.
  set (A := [(bs "Host", [c_host q])]). set (U := h1_ua (c_hdr q)).
  set (C := cl_kv (bs "Content-Length") (c_method q) (c_clen q)).
  set (G := gzip_kv (bs "Accept-Encoding") q).
  set (M := if is_nil (order_list (c_hdr q)) then sort_by_key (h1_user (c_hdr q)) else h1_user (c_hdr q)).
  assert (HM : Permutation (flatten M) (flat_map h1_user_lines (c_hdr q))).
  { rewrite <- flatten_h1_user. apply flatten_perm. unfold M.
    destruct (is_nil (order_list (c_hdr q))); [apply sort_le_perm|reflexivity]. }
  rewrite !flatten_app. rewrite <- !app_assoc.
  apply Permutation_app_head. apply Permutation_app_head. apply Permutation_app_head.
  rewrite HM. apply Permutation_app_comm.
Qed.

(* each_value_exactly_once, HTTP/1.1: for EVERY request the wire lines are, as a multiset, the
   automatic lines plus one line per value of every map entry that is not excluded/invalid,
   under the key as spelled.  With or without an order list. *)
Lemma h1_each_value_exactly_once q :
  Permutation (h1_lines q) (h1_auto q ++ flat_map h1_user_lines (c_hdr q)).
Proof.
  unfold h1_lines. rewrite <- h1_kvs_perm. apply flatten_perm, sort_if_perm.
Qed.

(* h1_spelling_preserved: a header the caller set under key k (any spelling, canonical or not)
   is on the wire under exactly k, once per value *)
Lemma h1_spelling_preserved q k vs v :
  In (k, vs) (c_hdr q) -> In v vs ->
  mem_bytes k h1_exclude = false -> valid_field_name k = true ->
  In (k, sanitize v) (h1_lines q).
Proof.
  intros Hin Hv He Hval. eapply Permutation_in; [symmetry; apply h1_each_value_exactly_once|].
  apply in_or_app. right. apply in_flat_map. exists (k, vs). split; [assumption|].
  unfold h1_user_lines. cbn [fst snd]. rewrite He, Hval. cbn.
  apply in_map_iff. now exists v.
Qed.

(* the value is transmitted exactly when it holds no CR/LF and no outer blanks *)
Definition clean_value (v : bytes) : bool :=
  forallb (fun b => negb (beqb b x0a || beqb b x0d)) v &&
  match v with c :: _ => negb (is_sp_tab c) | [] => true end &&
  match rev v with c :: _ => negb (is_sp_tab c) | [] => true end.

Lemma map_nl_id v :
  forallb (fun b => negb (beqb b x0a || beqb b x0d)) v = true -> map nl_to_space v = v.
Proof.
  induction v as [|c v IH]; cbn [forallb map]; [reflexivity|].
  intros H. apply andb_true_iff in H as [Hc Hv]. rewrite IH by assumption. f_equal.
  unfold nl_to_space. apply negb_true_iff in Hc. now rewrite Hc.
Qed.

Lemma sanitize_clean v : clean_value v = true -> sanitize v = v.
Proof.
  unfold clean_value, sanitize. intros H.
  apply andb_true_iff in H as [H H3]. apply andb_true_iff in H as [H1 H2].
  rewrite map_nl_id by assumption.
  unfold trim, trim_left, trim_right.
  assert (E1 : drop_while is_sp_tab v = v).
  { destruct v as [|c v]; [reflexivity|]. cbn [drop_while]. apply negb_true_iff in H2. now rewrite H2. }
  rewrite E1.
  assert (E2 : drop_while is_sp_tab (rev v) = rev v).
  { destruct (rev v) as [|c r]; [reflexivity|]. cbn [drop_while]. apply negb_true_iff in H3. now rewrite H3. }
  rewrite E2. apply rev_involutive.
Qed.

Lemma h1_names q l :
  In l (h1_lines q) ->
  In (fst l) [bs "Host"; bs "User-Agent"; bs "Content-Length"; bs "Accept-Encoding"] \/
  (mem_bytes (fst l) h1_exclude = false /\ exists vs, In (fst l, vs) (c_hdr q)).
Proof.
  intros H. apply (Permutation_in _ (h1_each_value_exactly_once q)) in H.
  apply in_app_or in H as [H|H].
  - left. unfold h1_auto in H. apply in_app_or in H as [H|H].
    + apply in_flatten in H as (vs & H & _).
      apply in_app_or in H as [H|H].
      { destruct H as [H|[]]. injection H as <- _. cbn; auto. }
      apply in_app_or in H as [H|H].
      { unfold h1_ua in H. destruct (hget (c_hdr q) (bs "User-Agent")).
        - destruct (is_nil (header_get (c_hdr q) (bs "User-Agent"))); [destruct H|].
          destruct H as [H|[]]. injection H as <- _. cbn; auto.
        - destruct H as [H|[]]. injection H as <- _. cbn; auto. }
      unfold cl_kv in H. destruct (sends_cl (c_method q) (c_clen q)); [|destruct H].
      destruct H as [H|[]]. injection H as <- _. cbn; auto.
    + apply in_flatten in H as (vs & H & _). unfold gzip_kv in H.
      destruct (wants_gzip q); [|destruct H]. destruct H as [H|[]]. injection H as <- _. cbn; auto 6.
  - right. apply in_flat_map in H as (x & Hx & Hl). unfold h1_user_lines in Hl.
    destruct (negb (mem_bytes (fst x) h1_exclude) && valid_field_name (fst x)) eqn:E; [|destruct Hl].
    apply in_map_iff in Hl as (v & <- & _). cbn [fst].
    apply andb_true_iff in E as [E _]. apply negb_true_iff in E. split; [assumption|].
    exists (snd x). now destruct x.
Qed.

(* bookkeeping_never_emitted, HTTP/1.1 *)
Lemma h1_bookkeeping_never_emitted q l :
  In l (h1_lines q) -> fst l <> header_order_key /\ fst l <> pseudo_header_order_key.
Proof.
  intros H. apply h1_names in H as [H|[He _]].
  - pose proof auto_names_not_bookkeeping as T. rewrite forallb_forall in T.
    specialize (T _ H). apply andb_true_iff in T as [T1 T2].
    apply negb_true_iff in T1, T2. apply bytes_eqb_neq in T1, T2. now split.
  - destruct bookkeeping_in_h1_exclude as [B1 B2]. split; intros E; rewrite E in He; congruence.
Qed.

(* ================= HTTP/2 and HTTP/3 ================= *)
Lemma pseudo_lines_perm q : Permutation (pseudo_lines q) (flatten (pseudo_kvs q)).
Proof. unfold pseudo_lines. apply flatten_perm, sort_if_perm. Qed.

Lemma h2_regular_perm q :
  Permutation (h2_regular_lines q) (flat_map h2_user_lines (c_hdr q) ++ flatten (auto_tail q)).
Proof.
  unfold h2_regular_lines. rewrite (flatten_perm _ _ (sort_if_perm _ _)).
  unfold h2_regular. rewrite flatten_app, flatten_flat_map. reflexivity.
Qed.

Lemma h3_regular_perm q :
  Permutation (h3_regular_lines q) (flat_map h3_user_lines (c_hdr q) ++ flatten (auto_tail q)).
Proof.
  unfold h3_regular_lines. rewrite (flatten_perm _ _ (sort_if_perm _ _)).
  unfold h3_regular. rewrite flatten_app, flatten_flat_map. reflexivity.
Qed.

(* the wire list is the pseudo-header block followed by the regular block *)
Lemma h2_lines_split q :
  h2_lines q = lower_lines (pseudo_lines q) ++ lower_lines (h2_regular_lines q).
Proof. unfold h2_lines. apply lower_lines_app. Qed.

Lemma h3_lines_split q :
  h3_lines q = lower_lines (pseudo_lines q) ++ lower_lines (h3_regular_lines q).
Proof. unfold h3_lines. apply lower_lines_app. Qed.

(* each_value_exactly_once, HTTP/2 *)
Lemma h2_each_value_exactly_once q :
  Permutation (h2_lines q)
    (lower_lines (flatten (pseudo_kvs q) ++ flat_map h2_user_lines (c_hdr q) ++ flatten (auto_tail q))).
Proof.
  rewrite h2_lines_split, <- lower_lines_app. unfold lower_lines. apply Permutation_map.
  apply Permutation_app; [apply pseudo_lines_perm|apply h2_regular_perm].
Qed.

Lemma h3_each_value_exactly_once q :
  Permutation (h3_lines q)
    (lower_lines (flatten (pseudo_kvs q) ++ flat_map h3_user_lines (c_hdr q) ++ flatten (auto_tail q))).
Proof.
  rewrite h3_lines_split, <- lower_lines_app. unfold lower_lines. apply Permutation_map.
  apply Permutation_app; [apply pseudo_lines_perm|apply h3_regular_perm].
Qed.

(* what one map entry contributes *)
Lemma h2_user_lines_ordinary k vs :
  is_excluded k = false -> is_ua k = false -> equal_fold k (bs "cookie") = false ->
  h2_user_lines (k, vs) = map (fun v => (k, v)) vs.
Proof.
  intros E U C. unfold h2_user_lines, h2_entry. cbn [fst snd]. rewrite E, U, C.
  cbn. apply app_nil_r.
Qed.

Lemma h3_user_lines_ordinary k vs :
  is_excluded k = false -> is_ua k = false ->
  h3_user_lines (k, vs) = map (fun v => (k, v)) vs.
Proof.
  intros E U. unfold h3_user_lines, h3_entry. cbn [fst snd]. rewrite E, U.
  unfold flatten. induction vs as [|v t IH]; [reflexivity|]. cbn [map flat_map fst snd app].
  now rewrite IH.
Qed.

Lemma h23_user_lines_excluded k vs :
  is_excluded k = true -> h2_user_lines (k, vs) = [] /\ h3_user_lines (k, vs) = [].
Proof.
  intros E. unfold h2_user_lines, h3_user_lines, h2_entry, h3_entry. cbn [fst]. now rewrite E.
Qed.

(* at most one User-Agent per map key: its first value, none when that is blank *)
Lemma h23_user_lines_ua k vs :
  is_excluded k = false -> is_ua k = true ->
  h2_user_lines (k, vs) = h3_user_lines (k, vs) /\
  h2_user_lines (k, vs) = match vs with v :: _ => if is_nil v then [] else [(k, v)] | [] => [] end.
Proof.
  intros E U. unfold h2_user_lines, h3_user_lines, h2_entry, h3_entry. cbn [fst snd]. rewrite E, U.
  split; [reflexivity|]. unfold ua_first. destruct vs as [|v t]; [reflexivity|].
  destruct (is_nil v); reflexivity.
Qed.

Lemma h2_user_lines_cookie k vs :
  is_excluded k = false -> is_ua k = false -> equal_fold k (bs "cookie") = true ->
  h2_user_lines (k, vs) = map (fun c => (bs "cookie", c)) (flat_map crumbs vs).
Proof.
  intros E U C. unfold h2_user_lines, h2_entry. cbn [fst snd]. rewrite E, U, C.
  cbn. apply app_nil_r.
Qed.

(* names of what a map entry contributes: never an excluded name *)
Lemma h2_entry_names x y : In y (h2_entry x) ->
  (fst y = fst x \/ fst y = bs "cookie") /\ is_excluded (fst x) = false.
Proof.
  unfold h2_entry. destruct (is_excluded (fst x)) eqn:E; [intros []|].
  destruct (is_ua (fst x)).
  { unfold ua_first. destruct (snd x) as [|v t]; [intros []|]. destruct (is_nil v); [intros []|].
    intros [<-|[]]. cbn. auto. }
  destruct (equal_fold (fst x) (bs "cookie")).
  { intros [<-|[]]. cbn. auto. }
  intros [<-|[]]. cbn. auto.
Qed.

Lemma h3_entry_names x y : In y (h3_entry x) -> fst y = fst x /\ is_excluded (fst x) = false.
Proof.
  unfold h3_entry. destruct (is_excluded (fst x)) eqn:E; [intros []|].
  destruct (is_ua (fst x)).
  { unfold ua_first. destruct (snd x) as [|v t]; [intros []|]. destruct (is_nil v); [intros []|].
    intros [<-|[]]. cbn. auto. }
  intros H. apply in_map_iff in H as (v & <- & _). cbn. auto.
Qed.

Lemma auto_tail_names q y : In y (auto_tail q) ->
  In (fst y) [bs "content-length"; bs "accept-encoding"; bs "user-agent"].
Proof.
  unfold auto_tail. intros H. apply in_app_or in H as [H|H].
  { unfold cl_kv in H. destruct (sends_cl _ _); [|destruct H]. destruct H as [<-|[]]. cbn; auto. }
  apply in_app_or in H as [H|H].
  { unfold gzip_kv in H. destruct (wants_gzip q); [|destruct H]. destruct H as [<-|[]]. cbn; auto. }
  destruct (did_ua (c_hdr q)); [destruct H|]. destruct H as [<-|[]]. cbn; auto.
Qed.

Lemma pseudo_names q y : In y (pseudo_kvs q) ->
  In (fst y) [bs ":authority"; bs ":method"; bs ":path"; bs ":scheme"].
Proof. unfold pseudo_kvs. intros [<-|[<-|[<-|[<-|[]]]]]; cbn; auto. Qed.

Lemma allowed_name n :
  In n [bs ":authority"; bs ":method"; bs ":path"; bs ":scheme"; bs "cookie";
        bs "content-length"; bs "accept-encoding"; bs "user-agent"] ->
  mem_bytes (to_lower n) h23_forbidden = false.
Proof.
  intros H. pose proof h23_auto_names_allowed as T. rewrite forallb_forall in T.
  assert (to_lower n = n) as ->.
  { cbn in H. repeat (destruct H as [<-|H]; [vm_compute; reflexivity|]). destruct H. }
  apply negb_true_iff. now apply T.
Qed.

Lemma not_excluded_not_forbidden k : is_excluded k = false -> mem_bytes (to_lower k) h23_forbidden = false.
Proof.
  unfold is_excluded. intros E. apply mem_bytes_false. intros Hin.
  pose proof forbidden_in_h23_exclude as T. rewrite forallb_forall in T.
  specialize (T _ Hin). congruence.
Qed.

(* forbidden_fields_omitted + bookkeeping_never_emitted, HTTP/2: whatever the spelling of the key
   in the header map, no line of a connection-specific field, of Host, or of a bookkeeping key *)
Lemma h2_forbidden_never_emitted q l :
  In l (h2_lines q) -> mem_bytes (fst l) h23_forbidden = false.
Proof.
  intros H. apply (Permutation_in _ (h2_each_value_exactly_once q)) in H.
  unfold lower_lines in H. apply in_map_iff in H as (l0 & <- & H). cbn [fst].
  apply in_app_or in H as [H|H].
  { apply in_flatten in H as (vs & H & _). apply pseudo_names in H. cbn [fst] in H.
    apply allowed_name. cbn in *. intuition. }
  apply in_app_or in H as [H|H].
  - apply in_flat_map in H as (x & _ & H). unfold h2_user_lines in H.
    apply in_flatten in H as (vs & H & _). apply h2_entry_names in H as [[E|E] Ex]; cbn [fst] in E.
    + rewrite E. now apply not_excluded_not_forbidden.
    + rewrite E. apply allowed_name. cbn; auto 6.
  - apply in_flatten in H as (vs & H & _). apply auto_tail_names in H. cbn [fst] in H.
    apply allowed_name. cbn in *. intuition.
Qed.

Lemma h3_forbidden_never_emitted q l :
  In l (h3_lines q) -> mem_bytes (fst l) h23_forbidden = false.
Proof.
  intros H. apply (Permutation_in _ (h3_each_value_exactly_once q)) in H.
  unfold lower_lines in H. apply in_map_iff in H as (l0 & <- & H). cbn [fst].
  apply in_app_or in H as [H|H].
  { apply in_flatten in H as (vs & H & _). apply pseudo_names in H. cbn [fst] in H.
    apply allowed_name. cbn in *. intuition. }
  apply in_app_or in H as [H|H].
  - apply in_flat_map in H as (x & _ & H). unfold h3_user_lines in H.
    apply in_flatten in H as (vs & H & _). apply h3_entry_names in H as [E Ex]; cbn [fst] in E.
    rewrite E. now apply not_excluded_not_forbidden.
  - apply in_flatten in H as (vs & H & _). apply auto_tail_names in H. cbn [fst] in H.
    apply allowed_name. cbn in *. intuition.
Qed.

(* is_excluded does not depend on the spelling of the key *)
Lemma is_excluded_any_spelling k k' : to_lower k = to_lower k' -> is_excluded k = is_excluded k'.
Proof. unfold is_excluded. now intros ->. Qed.

Lemma forbidden_excluded_any_spelling k :
  In (to_lower k) h23_forbidden -> is_excluded k = true.
Proof.
  intros H. unfold is_excluded. pose proof forbidden_in_h23_exclude as T.
  rewrite forallb_forall in T. now apply T.
Qed.

(* HTTP/1.1: only the exact keys of the writer's table are "handled by the writer"; any other
   spelling of those names (user-agent, HOST, content-length, ...) is not in the table ... *)
Definition h1_writer_handled : list bytes :=
  [bs "Host"; bs "User-Agent"; bs "Content-Length"; bs "Transfer-Encoding"; bs "Trailer"].

Lemma h1_exclude_is_the_table : h1_exclude = [bs "Content-Length"; bs "Host"; bs "Trailer"; bs "Transfer-Encoding";
                                              bs "User-Agent"; header_order_key; pseudo_header_order_key].
Proof. reflexivity. Qed.

Lemma h1_other_spelling_not_excluded k :
  In (to_lower k) (map to_lower h1_writer_handled) -> ~ In k h1_writer_handled -> mem_bytes k h1_exclude = false.
Proof.
  intros Hl Hn. apply mem_bytes_false. intros Hin. rewrite h1_exclude_is_the_table in Hin.
  cbn [In] in Hin. cbn [h1_writer_handled In] in Hn.
  destruct Hin as [<-|[<-|[<-|[<-|[<-|[<-|[<-|[]]]]]]]]; try (apply Hn; tauto);
    revert Hl; vm_compute; intuition discriminate.
Qed.

(* ... and is therefore written as the caller's own line, once per value, as spelled (next to the
   writer's own Host / User-Agent / Content-Length line) *)
Lemma h1_noncanonical_writer_name_kept q k vs v :
  In (k, vs) (c_hdr q) -> In v vs ->
  In (to_lower k) (map to_lower h1_writer_handled) -> ~ In k h1_writer_handled -> valid_field_name k = true ->
  In (k, sanitize v) (h1_lines q).
Proof.
  intros Hin Hv Hl Hn Hval. apply (h1_spelling_preserved q k vs v); try assumption.
  now apply h1_other_spelling_not_excluded.
Qed.
