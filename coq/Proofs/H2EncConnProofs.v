(* Proofs/H2EncConnProofs.v - a refused header / trailer block leaves no trace on the connection:
   over every sequence of exchanges the peer decodes every block that was sent to exactly the fields
   of its exchange. *)
From Coq Require Import Lia.
From ReqV Require Import Lib.Bytes Lib.BytesFacts Lib.BigEndian Model.H2Frame Model.H3Frame Model.H2Meta Model.H2EncConn.
Open Scope N_scope.

Section ConnProofs.
Variables S D B : Type.
Variable enc : S -> list hfield -> B * S.
Variable dec : D -> B -> option (list hfield * D).
(* "in step": whatever relates an encoder to the decoder that has seen all of its output *)
Variable insync : S -> D -> Prop.
Hypothesis hpack_roundtrip : forall s d fs b s',
  insync s d -> enc s fs = (b, s') -> exists d', dec d b = Some (fs, d') /\ insync s' d'.

(* what the peer must end up with: the fields of every exchange within the limit, nothing for the rest *)
Definition expected (limit : N) (xs : list (list hfield)) : list (option (option (list hfield))) :=
  map (fun fs => if over_limit limit fs then None else Some (Some fs)) xs.

Theorem conn_refusals_leave_no_trace limit xs : forall s d, insync s d ->
  conn_run S D B enc dec true limit s d xs = expected limit xs.
Proof.
  induction xs as [|fs xs IH]; intros s d I; [reflexivity|].
  cbn [conn_run expected map]. unfold conn_send.
  destruct (over_limit limit fs).
  - f_equal. apply IH. exact I.
  - destruct (enc s fs) as [b s'] eqn:E. destruct (hpack_roundtrip s d fs b s' I E) as (d' & Dd & I').
    rewrite Dd. f_equal. apply IH. exact I'.
Qed.

(* in particular: a sequence with refused exchanges anywhere in it delivers the same as the sequence
   with those exchanges left out *)
Theorem conn_refused_as_if_absent limit xs : forall s d, insync s d ->
  filter (fun o => match o with None => false | Some _ => true end) (conn_run S D B enc dec true limit s d xs) =
  conn_run S D B enc dec true limit s d (filter (fun fs => negb (over_limit limit fs)) xs).
Proof.
  intros s d I. rewrite !conn_refusals_leave_no_trace by exact I. unfold expected.
  induction xs as [|fs xs IH]; [reflexivity|]. cbn [map filter].
  destruct (over_limit limit fs) eqn:O; cbn [negb filter map]; [exact IH|]. rewrite O. f_equal. exact IH.
Qed.
End ConnProofs.

(* the toy HPACK satisfies the hypothesis (so the theorem is not vacuous) ... *)
Lemma toy_find_nth f t i : tbl_find f t = Some i -> nth_error t i = Some f.
Proof.
  revert i. induction t as [|g t IH]; intros i H; [discriminate|]. cbn [tbl_find] in H.
  destruct (hfield_eqb f g) eqn:E.
  - inversion H; subst. cbn. unfold hfield_eqb in E. apply Bool.andb_true_iff in E. destruct E as [E1 E2].
    apply bytes_eqb_eq in E1. apply bytes_eqb_eq in E2. destruct f, g. cbn in *. subst. reflexivity.
  - destruct (tbl_find f t) as [j|]; [|discriminate]. inversion H; subst. cbn. apply IH. reflexivity.
Qed.

Lemma toy_roundtrip fs : forall t ts t', toy_enc_toks t fs = (ts, t') -> toy_dec_toks t ts = Some (fs, t').
Proof.
  induction fs as [|f fs IH]; intros t ts t' H.
  - cbn in H. inversion H; subst. reflexivity.
  - cbn [toy_enc_toks] in H. destruct (tbl_find f t) as [i|] eqn:F.
    + destruct (toy_enc_toks t fs) as [ts0 t0] eqn:E. inversion H; subst. cbn [toy_dec_toks].
      rewrite (toy_find_nth f t i F). rewrite (IH _ _ _ E). reflexivity.
    + destruct (toy_enc_toks (f :: t) fs) as [ts0 t0] eqn:E. inversion H; subst. cbn [toy_dec_toks].
      rewrite (IH _ _ _ E). reflexivity.
Qed.

Theorem toy_hpack_in_step : forall s d fs b s',
  s = d -> toy_enc_toks s fs = (b, s') -> exists d', toy_dec_toks d b = Some (fs, d') /\ s' = d'.
Proof. intros s d fs b s' -> E. exists s'. split; [apply toy_roundtrip; exact E|reflexivity]. Qed.

(* ... and with it the one-pass variant (encode while counting, drop the bytes on refusal) is refuted:
   after a refused trailer block the next request decodes at the peer to the WRONG fields *)
Theorem conn_one_pass_refuted :
  let a := (bs "x-a", bs "1") in let big := (bs "x-trailer", bs "0123456789") in
  let xs := [[a]; [big; big]; [big]] in          (* list sizes 36, 102, 51; the peer allows 60 *)
  conn_run _ _ _ toy_enc_toks toy_dec_toks true 60 [] [] xs = [Some (Some [a]); None; Some (Some [big])] /\
  conn_run _ _ _ toy_enc_toks toy_dec_toks false 60 [] [] xs = [Some (Some [a]); None; Some (Some [a])].
Proof. cbv zeta. vm_compute. split; reflexivity. Qed.
