(* Proofs/BystanderProofs.v - requests that share a wait queue, a connection window or a dial with a
   request whose context ended are not affected (Model/Bystander.v). *)
From Coq Require Import List Bool Arith ZArith Lia.
From ReqV Require Import Model.Lifecycle Model.Bystander.
Import ListNotations.

(* ---------- 1. wait queue ---------- *)

Lemma deliver_none : forall q r, deliver q = (None, r) -> r = [] /\ has_live q = false.
Proof.
  induction q as [|[i l] q IH]; intros r H; cbn in *.
  - injection H as <-. auto.
  - destruct l; [discriminate|]. apply IH in H. cbn. exact H.
Qed.

Lemma deliver_some : forall q i r, deliver q = (Some i, r) ->
  exists pre, q = pre ++ (i, true) :: r /\ has_live pre = false.
Proof.
  induction q as [|[j l] q IH]; intros i r H; cbn in *; [discriminate|].
  destruct l.
  - injection H as <- <-. exists []. auto.
  - apply IH in H as [pre [E L]]. exists ((j, false) :: pre). subst q. cbn. auto.
Qed.

Lemma mark_dead_live : forall i q, has_live q = false -> has_live (mark_dead i q) = false.
Proof.
  induction q as [|[j l] q IH]; intros H; cbn in *; [reflexivity|].
  apply orb_false_iff in H as [H1 H2]. destruct (Nat.eqb i j); cbn; [exact H2|].
  rewrite H1. cbn. auto.
Qed.

Definition qinv (s : qst) : Prop := q_idle s > 0 -> has_live (q_queue s) = false.

Lemma qstep_inv : forall s l, qinv s -> qinv (qstep false s l).
Proof.
  intros [q idle sv] l I. unfold qinv in *. cbn in *. destruct l as [i|i|]; cbn.
  - destruct idle as [|n]; cbn; intros H; [lia|]. apply I. lia.
  - intros H. apply mark_dead_live. auto.
  - destruct (deliver q) as [[i|] r] eqn:E; cbn; intros H.
    + apply deliver_some in E as [pre [-> L]]. specialize (I H).
      unfold has_live in I. rewrite existsb_app in I. cbn in I. rewrite orb_true_r in I. discriminate.
    + apply deliver_none in E as [-> _]. reflexivity.
Qed.

Lemma fold_inv : forall ls s, qinv s -> qinv (fold_left (qstep false) ls s).
Proof. induction ls as [|l r IH]; intros s I; cbn; [exact I|]. apply IH. apply qstep_inv. exact I. Qed.

(* whatever requests queued, whichever of them were cancelled, in whatever order connections became
   idle: no live waiter sits in the queue while a connection is parked in the idle list *)
Theorem queue_no_live_waiter_stranded : forall ls,
  q_idle (qrun false ls) > 0 -> has_live (q_queue (qrun false ls)) = false.
Proof. intros ls. apply (fold_inv ls qinit). intros H. cbn in H. lia. Qed.

(* a connection that becomes idle goes to the FIRST live waiter; dead entries in front are dropped *)
Theorem queue_first_live_served : forall s i r,
  deliver (q_queue s) = (Some i, r) ->
  q_served (qstep false s QFree) = q_served s ++ [i] /\
  exists pre, q_queue s = pre ++ (i, true) :: r /\ has_live pre = false.
Proof.
  intros [q idle sv] i r H. cbn in *. rewrite H. cbn. split; [reflexivity|]. apply deliver_some. exact H.
Qed.

(* the seeded variant (front entry only) strands a live waiter behind a cancelled one *)
Theorem queue_front_only_refuted :
  let s := qrun true [QEnq 0; QEnq 1; QCancel 0; QFree] in
  q_idle s = 1 /\ has_live (q_queue s) = true /\ q_served s = [].
Proof. vm_compute. auto. Qed.

(* ---------- 2. connection receive window ---------- *)

Open Scope Z_scope.

Definition winv (w : Z) (st : inflow * Z * Z) : Prop :=
  let '(f, cr, peer) := st in
  in_avail f + in_unsent f = w /\ peer = in_avail f /\ 0 <= in_unsent f < min_refresh /\ cr + in_unsent f >= 0.

Lemma stray_frame_inv : forall w st n st', 0 <= n -> winv w st ->
  stray_frame true st n = Some st' ->
  winv w st' /\ (let '(_, cr, _) := st in let '(f', cr', _) := st' in cr' + in_unsent f' = cr + in_unsent (fst (fst st)) + n).
Proof.
  intros w [[f cr] peer] n st' Hn [A [B [C D]]] H. unfold stray_frame in H.
  unfold in_take in H. destruct (n >? in_avail f) eqn:T; [discriminate|].
  rewrite Z.gtb_ltb in T. apply Z.ltb_ge in T. unfold in_add in H. cbn [in_avail in_unsent] in H.
  destruct ((in_unsent f + n <? min_refresh) && (in_unsent f + n <? in_avail f - n)) eqn:G;
    injection H as <-; cbn [winv in_avail in_unsent fst].
  - apply andb_prop in G as [G1 G2]. apply Z.ltb_lt in G1. apply Z.ltb_lt in G2.
    unfold min_refresh in *. repeat split; try lia.
  - unfold min_refresh in *. repeat split; try lia.
Qed.

(* DATA for streams that were reset and forgotten: every byte is accounted for and handed back -
   after ANY sequence of such frames the peer may send the whole window again, except for a
   remainder below inflowMinRefresh that travels with the next update *)
Theorem window_restored : forall w ns f cr peer, 0 < w -> Forall (fun n => 0 <= n) ns ->
  stray_frames true (win_init w) ns = Some (f, cr, peer) ->
  peer + in_unsent f = w /\ 0 <= in_unsent f < min_refresh /\ cr + in_unsent f = fold_right Z.add 0 ns.
Proof.
  intros w ns f cr peer Hw Hns H.
  assert (forall ns st st', Forall (fun n => 0 <= n) ns -> winv w st -> stray_frames true st ns = Some st' ->
            winv w st' /\ (snd (fst st')) + in_unsent (fst (fst st')) =
                          (snd (fst st)) + in_unsent (fst (fst st)) + fold_right Z.add 0 ns) as G.
  { clear. induction ns as [|n r IH]; intros st st' F I H; cbn in H.
    - injection H as <-. split; [exact I|cbn; lia].
    - inversion F as [|? ? Hn Fr]; subst.
      destruct (stray_frame true st n) as [st1|] eqn:E; [|discriminate].
      destruct (stray_frame_inv w st n st1 Hn I E) as [I1 Q].
      destruct (IH st1 st' Fr I1 H) as [I2 R]. split; [exact I2|].
      destruct st as [[f0 c0] p0]. destruct st1 as [[f1 c1] p1]. cbn in *. lia. }
  assert (winv w (win_init w)) as I0 by (unfold winv, win_init, min_refresh; cbn; lia).
  destruct (G ns _ _ Hns I0 H) as [[A [B [C D]]] R]. cbn in R.
  split; [lia|]. split; [exact C|lia].
Qed.

(* the seeded variant (the frame is ignored): the peer's window shrinks by everything that arrived *)
Lemma stray_ignored : forall ns f cr p,
  stray_frames false (f, cr, p) ns = Some (f, cr, p - fold_right Z.add 0 ns).
Proof.
  induction ns as [|n r IH]; intros f cr p; cbn.
  - f_equal. f_equal. lia.
  - rewrite IH. f_equal. f_equal. lia.
Qed.

Theorem window_ignored_refuted : forall w ns,
  stray_frames false (win_init w) ns = Some (mkIn w 0, 0, w - fold_right Z.add 0 ns).
Proof. intros w ns. unfold win_init. apply stray_ignored. Qed.
Close Scope Z_scope.

(* ---------- 3. shared dial ---------- *)

Definition b_fine (s : shst) : Prop := forall e, s_b s <> BRet (Some e).

Lemma shstep_fine : forall s l s', b_fine s -> shstep true s l = Some s' -> b_fine s'.
Proof.
  intros [a d b] l s' F H. unfold b_fine in *. cbn in *.
  destruct l as [c| | | |]; cbn in H.
  - destruct a; injection H as <-; exact F.
  - destruct d; try discriminate. destruct a; try discriminate. injection H as <-. exact F.
  - destruct d; try discriminate. destruct a; try discriminate. injection H as <-. exact F.
  - destruct b; try discriminate. destruct d as [|c|]; try discriminate; injection H as <-; cbn.
    + destruct c; cbn; intros e; discriminate.
    + intros e; discriminate.
  - destruct b; try discriminate. injection H as <-. cbn. intros e; discriminate.
Qed.

(* a request that joined another request's dial never fails because that request's context ended -
   cancelled or past its deadline alike: it dials for itself *)
Theorem share_waiter_never_fails : forall ls s, shrun true shinit ls = Some s -> forall e, s_b s <> BRet (Some e).
Proof.
  intros ls. assert (forall s0, b_fine s0 -> forall s, shrun true s0 ls = Some s -> b_fine s) as G.
  { induction ls as [|l r IH]; intros s0 F s H; cbn in H.
    - injection H as <-. exact F.
    - destruct (shstep true s0 l) as [s1|] eqn:E; [|discriminate].
      eapply IH; [|exact H]. eapply shstep_fine; eauto. }
  intros s H. apply (G shinit); [|exact H]. intros e. cbn. discriminate.
Qed.

Theorem share_waiter_redials_for_every_cause : forall c,
  shrun true shinit [SCancelA c; SDialFails; SBSees; SBDialOk] = Some (mkSh (Some c) (SFail c) (BRet None)).
Proof. intros []; reflexivity. Qed.

(* the seeded variant (re-dial after context.Canceled only) hands the owner's deadline to the waiter *)
Theorem share_deadline_dropped_refuted :
  exists s, shrun false shinit [SCancelA CDeadline; SDialFails; SBSees] = Some s /\
            s_b s = BRet (Some (ECause CDeadline)).
Proof. eexists. cbn. split; reflexivity. Qed.

(* ---------- 4. HPACK tables ---------- *)

(* whatever requests were cancelled before or during the writing of their headers: the peer's decoder
   has seen exactly the blocks the encoder produced, in the same order - the tables agree *)
Theorem hpack_tables_in_step : forall ls, h_enc (hrun false ls) = h_sent (hrun false ls).
Proof.
  intros ls. unfold hrun.
  assert (forall s, h_enc s = h_sent s -> h_enc (fold_left (hstep false) ls s) = h_sent (fold_left (hstep false) ls s)) as G.
  { induction ls as [|[i cb cd] r IH]; intros s E; cbn; [exact E|].
    apply IH. destruct cb; cbn; [exact E|]. rewrite E. reflexivity. }
  apply G. reflexivity.
Qed.

(* the seeded variant (context tested after the encoding): the tables part for good *)
Theorem hpack_late_check_refuted :
  let s := hrun true [HSend 0 false false; HSend 1 false true; HSend 2 false false] in
  h_enc s = [0; 1; 2] /\ h_sent s = [0; 2].
Proof. vm_compute. auto. Qed.
