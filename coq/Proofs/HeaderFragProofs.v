(* Proofs/HeaderFragProofs.v - C16: whatever the size of an HTTP/2 header block, the peer's limit and
   the priority setting, the frames written carry the whole block, none exceeds the limit, and
   END_HEADERS sits on the last one. *)
From ReqV Require Import Lib.Bytes Model.HeaderFrag.
From Coq Require Import Lia NArith.

Lemma skipn_shorter {A} m (l : list A) : 0 < m -> l <> [] -> length (skipn m l) < length l.
Proof. intros Hm Hl. rewrite skipn_length. destruct l; [congruence|]. cbn [length]. lia. Qed.

Definition cut (first prio : bool) (max : nat) : nat :=
  if first && prio && (5 <? max) then max - 5 else max.

Lemma cut_pos first prio max : 5 < max -> 0 < cut first prio max.
Proof. intros H. unfold cut. destruct (first && prio && (5 <? max)); lia. Qed.

(* the peer reassembles exactly the block *)
Lemma split_reassembles fuel : forall first prio max hdrs,
  5 < max -> length hdrs <= fuel -> reassemble (split_block fuel first prio max hdrs) = hdrs.
Proof.
  induction fuel as [|f IH]; intros first prio max hdrs Hm Hl.
  - destruct hdrs; [reflexivity|cbn in Hl; lia].
  - cbn [split_block]. destruct hdrs as [|b t] eqn:E; [reflexivity|]. cbn [is_nilb]. rewrite <- E in *.
    fold (cut first prio max). pose proof (cut_pos first prio max Hm) as Hc.
    cbn [reassemble f_end f_frag].
    destruct (is_nilb (skipn (cut first prio max) hdrs)) eqn:R.
    + rewrite <- (firstn_skipn (cut first prio max) hdrs) at 2.
      destruct (skipn (cut first prio max) hdrs); [now rewrite app_nil_r|discriminate].
    + rewrite IH; [apply firstn_skipn|assumption|].
      assert (hdrs <> []) by (rewrite E; discriminate).
      pose proof (skipn_shorter (cut first prio max) hdrs Hc H). lia.
Qed.

(* no frame payload (fragment + priority bytes) exceeds the peer's MAX_FRAME_SIZE *)
Lemma split_payload_bound fuel : forall first prio max hdrs f,
  5 < max -> In f (split_block fuel first prio max hdrs) -> payload_len f <= max.
Proof.
  induction fuel as [|fu IH]; intros first prio max hdrs f Hm Hin; [destruct Hin|].
  cbn [split_block] in Hin. destruct (is_nilb hdrs); [destruct Hin|].
  destruct Hin as [<-|Hin]; [|eapply IH; eassumption].
  unfold payload_len. cbn [f_frag f_prio]. rewrite firstn_length.
  destruct first, prio; cbn [andb]; try lia.
  assert ((5 <? max) = true) as -> by (apply Nat.ltb_lt; lia). lia.
Qed.

(* END_HEADERS is set on the last frame and on no other; only the first frame carries priority *)
Lemma split_end_flags fuel : forall first prio max hdrs,
  5 < max -> length hdrs <= fuel -> hdrs <> [] ->
  exists init lastf, split_block fuel first prio max hdrs = init ++ [lastf] /\
    f_end lastf = true /\ (forall f, In f init -> f_end f = false).
Proof.
  induction fuel as [|fu IH]; intros first prio max hdrs Hm Hl Hne.
  - destruct hdrs; [congruence|cbn in Hl; lia].
  - cbn [split_block]. destruct hdrs as [|b t] eqn:E; [congruence|]. cbn [is_nilb]. rewrite <- E in *.
    fold (cut first prio max). pose proof (cut_pos first prio max Hm) as Hc.
    destruct (skipn (cut first prio max) hdrs) as [|b' t'] eqn:R.
    + exists [], (mk_hframe (first && prio) (firstn (cut first prio max) hdrs) true). cbn [is_nilb].
      destruct fu; cbn; (split; [reflexivity|split; [reflexivity|intros f []]]).
    + cbn [is_nilb]. rewrite <- R.
      destruct (IH false prio max (skipn (cut first prio max) hdrs) Hm) as (init & lastf & Eq & El & Ei).
      * assert (hdrs <> []) by (rewrite E; discriminate).
        pose proof (skipn_shorter (cut first prio max) hdrs Hc H). lia.
      * rewrite R. discriminate.
      * exists (mk_hframe (first && prio) (firstn (cut first prio max) hdrs) false :: init), lastf.
        rewrite Eq. split; [reflexivity|]. split; [assumption|].
        intros f [<-|Hf]; [reflexivity|now apply Ei].
Qed.

Theorem write_headers_correct prio max hdrs :
  5 < max ->
  reassemble (write_headers prio max hdrs) = hdrs /\
  (forall f, In f (write_headers prio max hdrs) -> payload_len f <= max) /\
  (hdrs <> [] -> exists init lastf, write_headers prio max hdrs = init ++ [lastf] /\
     f_end lastf = true /\ forall f, In f init -> f_end f = false).
Proof.
  intros Hm. unfold write_headers. split; [now apply split_reassembles|].
  split; [intros f; now apply split_payload_bound|]. intros Hne. now apply split_end_flags.
Qed.

(* deciding END_HEADERS before the cut: with a priority and a block within 5 bytes below the limit
   the HEADERS frame is flagged although bytes are still to come - the peer gets a truncated block *)
Lemma end_headers_early_refuted :
  let hdrs := bs "0123456789ABCDEFGH" in                       (* 18 bytes, peer limit 20, priority *)
  reassemble (write_headers true 20 hdrs) = hdrs /\
  reassemble (split_block_early 18 true true 20 hdrs) = bs "0123456789ABCDE" /\
  map payload_len (split_block_early 18 true true 20 hdrs) = [20; 3].
Proof. repeat split; vm_compute; reflexivity. Qed.
