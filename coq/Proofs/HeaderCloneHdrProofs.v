(* Proofs/HeaderCloneHdrProofs.v - C16: in a family of cloned clients a common header value added or
   set on one member never reaches, replaces or drops a value of another member. *)
From ReqV Require Import Lib.Bytes Lib.BytesFacts Model.HeaderOrder Model.HeaderCollect Model.HeaderMerge
  Model.HeaderSeq Model.HeaderCloneHdr Proofs.HeaderMergeProofs Proofs.HeaderSeqProofs.
From Coq Require Import Lia.

Definition hwrites (o : hfam_op) (j : nat) : bool :=
  match o with HClone _ => false | HAdd w _ _ | HSet w _ _ => w =? j end.

Lemma hfam_step_length s o : length s <= length (hfam_step s o).
Proof. destruct o; cbn [hfam_step]; rewrite ?app_length, ?upd_length; cbn; lia. Qed.

Lemma hfam_step_other s o j :
  j < length s -> hwrites o j = false -> nth j (hfam_step s o) [] = nth j s [].
Proof.
  intros Hj Hw. destruct o as [w|w k v|w k v]; cbn [hfam_step hwrites] in *.
  - now rewrite app_nth1.
  - apply nth_upd_other. now apply Nat.eqb_neq.
  - apply nth_upd_other. now apply Nat.eqb_neq.
Qed.

(* for EVERY later sequence of operations on OTHER members (clones of it, clones of clones, values
   added or set on parent, sibling, child): a member's common headers do not change *)
Theorem hfam_later_ops_do_not_reach ops2 : forall s j,
  j < length s -> forallb (fun o => negb (hwrites o j)) ops2 = true ->
  nth j (fold_left hfam_step ops2 s) [] = nth j s [].
Proof.
  induction ops2 as [|o r IH]; intros s j Hj Hw; [reflexivity|].
  cbn [forallb] in Hw. apply andb_true_iff in Hw as [Ho Hr]. apply negb_true_iff in Ho.
  cbn [fold_left]. rewrite IH; [now apply hfam_step_other| |assumption].
  pose proof (hfam_step_length s o). lia.
Qed.

Lemma hfam_clone_copies s w : nth (length s) (hfam_step s (HClone w)) [] = nth w s [].
Proof. cbn [hfam_step]. rewrite app_nth2 by lia. now rewrite Nat.sub_diag. Qed.

(* the lost-update scenario: clone, then one more value under the same name on the clone AND on the
   original, in either order - each side ends with the inherited values followed by its OWN value *)
Theorem clone_then_append_both_sides s w k a b :
  w < length s ->
  let kid := length s in
  let s1 := fold_left hfam_step [HClone w; HAdd kid k a; HAdd w k b] s in
  let s2 := fold_left hfam_step [HClone w; HAdd w k b; HAdd kid k a] s in
  hvals (nth kid s1 []) k = hvals (nth w s []) k ++ [a] /\ hvals (nth w s1 []) k = hvals (nth w s []) k ++ [b] /\
  hvals (nth kid s2 []) k = hvals (nth w s []) k ++ [a] /\ hvals (nth w s2 []) k = hvals (nth w s []) k ++ [b].
Proof.
  intros Hw kid s1 s2. subst s1 s2. cbn [fold_left hfam_step].
  assert (L : length (s ++ [nth w s []]) = S (length s)) by (rewrite app_length; cbn; lia).
  assert (K : nth kid (s ++ [nth w s []]) [] = nth w s []) by (unfold kid; rewrite app_nth2 by lia; now rewrite Nat.sub_diag).
  assert (W : nth w (s ++ [nth w s []]) [] = nth w s []) by now rewrite app_nth1.
  assert (N : kid <> w) by (unfold kid; lia).
  repeat split.
  - rewrite nth_upd_other by lia. rewrite nth_upd_same by lia. now rewrite hvals_hset_same, K.
  - rewrite nth_upd_same by (rewrite upd_length; lia). rewrite nth_upd_other by lia.
    now rewrite hvals_hset_same, W.
  - rewrite nth_upd_same by (rewrite upd_length; lia). rewrite nth_upd_other by lia.
    now rewrite hvals_hset_same, K.
  - rewrite nth_upd_other by lia. rewrite nth_upd_same by lia. now rewrite hvals_hset_same, W.
Qed.

(* with a SHALLOW copy of the map (value slices shared): three values under one name (array of
   capacity 4), the clone appends, then the original appends - into the same slot *)
Lemma shallow_clone_lost_update :
  let k := bs "X-Common" in
  let hp0 := mk_sheap [] in
  let '(hp1, m1) := sappend hp0 [] k (bs "a") in
  let '(hp2, m2) := sappend hp1 m1 k (bs "b") in
  let '(hp3, orig) := sappend hp2 m2 k (bs "c") in      (* len 3, cap 4 *)
  let clone := orig in                                  (* the map copied, the slices shared *)
  let '(hp4, clone') := sappend hp3 clone k (bs "clone-only") in
  let '(hp5, orig') := sappend hp4 orig k (bs "orig-only") in
  smap_vals hp4 clone' k = [bs "a"; bs "b"; bs "c"; bs "clone-only"] /\
  smap_vals hp5 clone' k = [bs "a"; bs "b"; bs "c"; bs "orig-only"] /\
  smap_vals hp5 orig' k = [bs "a"; bs "b"; bs "c"; bs "orig-only"].
Proof. vm_compute. repeat split. Qed.
