(* Proofs/MuxRespProofs.v - C02: HTTP/2 and HTTP/3 deliver the concatenation of the DATA
   payloads for every partition (any padding), the same header multimap as HTTP/1.1, and
   the three protocols agree on the abstract response. *)
From ReqV Require Import Lib.Bytes Lib.BytesFacts Model.H1Resp Model.H1Render Model.RespRender
  Model.BodyFraming Model.StreamBody Model.RespAPI Model.MuxResp
  Proofs.BodyFramingProofs Proofs.RespRenderProofs.
From Coq Require Import Lia ZifyBool ZifyNat ZifyN.

(* ====================================================================== *)
(* HTTP/2 body: any DATA partition, any padding                           *)
(* ====================================================================== *)

Definition open_frames (fs : list h2frame) : Prop := Forall (fun f => fd_end f = false) fs.
Definition payload (fs : list h2frame) : bytes := concat (map fd_data fs).

Lemma h2_pipe_open fs tail : open_frames fs ->
  h2_pipe (map (fun f => H2Data (fd_data f) (fd_end f)) fs ++ tail) =
    (payload fs ++ fst (h2_pipe tail), snd (h2_pipe tail)).
Proof.
  induction 1 as [|f fs Hf _ IH]; cbn [map app payload concat h2_pipe].
  - destruct (h2_pipe tail); reflexivity.
  - rewrite Hf. fold (payload fs). rewrite IH. cbn [fst snd]. now rewrite app_assoc.
Qed.

(* END_STREAM on the last DATA frame *)
Lemma h2_pipe_end_on_data fs last : open_frames fs -> fd_end last = true ->
  h2_pipe (h2_events (fs ++ [last]) false) = (payload (fs ++ [last]), H2Clean).
Proof.
  intros Ho Hl. unfold h2_events. rewrite app_nil_r, map_app, h2_pipe_open by assumption.
  cbn [map h2_pipe]. rewrite Hl. cbn [fst snd]. unfold payload.
  rewrite map_app, concat_app. cbn [map concat]. now rewrite app_nil_r.
Qed.

(* END_STREAM on a trailer HEADERS frame *)
Lemma h2_pipe_end_on_trailers fs : open_frames fs ->
  h2_pipe (h2_events fs true) = (payload fs, H2Clean).
Proof.
  intros Ho. unfold h2_events. rewrite h2_pipe_open by assumption.
  cbn [h2_pipe fst snd]. now rewrite app_nil_r.
Qed.

Lemma take_N_all d : take_N (N.of_nat (length d)) d = (d, [], 0%N).
Proof. pose proof (take_N_exact d []) as H. now rewrite app_nil_r in H. Qed.

Lemma h2_read_clean cl d evs :
  h2_pipe evs = (d, H2Clean) ->
  (cl = None \/ cl = Some (N.of_nat (length d))) ->
  h2_read cl false evs = (d, H2Clean).
Proof.
  intros Hp [->| ->]; unfold h2_read; rewrite Hp; [reflexivity|].
  rewrite take_N_all. reflexivity.
Qed.

(* For EVERY partition of the body into DATA frames, with ANY padding on any frame, with or
   without a declared Content-Length, ended by END_STREAM on the last DATA frame or on a
   trailer block: the caller reads exactly the concatenation of the payloads, then io.EOF. *)
Theorem h2_body_concat fs last cl :
  open_frames fs -> fd_end last = true ->
  (cl = None \/ cl = Some (N.of_nat (length (payload (fs ++ [last]))))) ->
  h2_read cl false (h2_events (fs ++ [last]) false) = (payload (fs ++ [last]), H2Clean).
Proof. intros Ho Hl Hcl. apply h2_read_clean; [now apply h2_pipe_end_on_data|assumption]. Qed.

Theorem h2_body_concat_trailers fs cl :
  open_frames fs -> (cl = None \/ cl = Some (N.of_nat (length (payload fs)))) ->
  h2_read cl false (h2_events fs true) = (payload fs, H2Clean).
Proof. intros Ho Hcl. apply h2_read_clean; [now apply h2_pipe_end_on_trailers|assumption]. Qed.

(* padding is not part of what is delivered *)
Theorem h2_padding_irrelevant fs pads :
  payload (map (fun fp => {| fd_data := fd_data (fst fp); fd_pad := snd fp; fd_end := fd_end (fst fp) |})
               (combine fs pads)) = payload (firstn (length pads) fs).
Proof.
  revert pads. induction fs as [|f fs IH]; intros [|p pads]; try reflexivity.
  cbn [combine map payload concat firstn length]. fold (payload (firstn (length pads) fs)).
  rewrite <- IH. reflexivity.
Qed.

(* ====================================================================== *)
(* HTTP/3 body: any DATA partition                                        *)
(* ====================================================================== *)

Lemma h3_read_parts_none parts :
  h3_read true None (h3_events parts) = (concat parts, H3Clean).
Proof.
  unfold h3_events. induction parts as [|p ps IH]; [reflexivity|].
  cbn [map app h3_read concat]. rewrite N.ltb_irrefl. rewrite IH. reflexivity.
Qed.

Lemma h3_read_parts_some parts : forall m,
  m = N.of_nat (length (concat parts)) ->
  h3_read true (Some m) (h3_events parts) = (concat parts, H3Clean).
Proof.
  unfold h3_events. induction parts as [|p ps IH]; intros m Hm.
  - cbn in Hm. subst. reflexivity.
  - cbn [map app h3_read concat]. cbn [concat] in Hm. rewrite app_length in Hm.
    destruct (N.eqb_spec (N.of_nat (length p)) 0) as [E|E].
    + assert (p = []) by (destruct p; [reflexivity|cbn in E; lia]). subst p. cbn [app].
      apply IH. cbn in Hm. lia.
    + destruct (N.ltb_spec m (N.of_nat (length p))); [lia|].
      rewrite N.ltb_irrefl. rewrite (IH (m - N.of_nat (length p))%N) by lia. reflexivity.
Qed.

(* For EVERY partition of the body into DATA frames (empty frames included), with or without
   a declared Content-Length, then FIN: exactly the concatenation, then io.EOF. *)
Theorem h3_body_concat parts rem :
  (rem = None \/ rem = Some (N.of_nat (length (concat parts)))) ->
  h3_read true rem (h3_events parts) = (concat parts, H3Clean).
Proof. intros [->| ->]; [apply h3_read_parts_none|now apply h3_read_parts_some]. Qed.

(* ====================================================================== *)
(* header fields: lower-case on the wire, canonical for the caller        *)
(* ====================================================================== *)

Definition lower_fields (fs : list field) : list mfield := map (fun f => (to_lower (fst f), snd f)) fs.

Lemma canon_go_lower k : forall u, canon_go u (to_lower k) = canon_go u k.
Proof.
  induction k as [|c k IH]; intros u; [reflexivity|].
  change (to_lower (c :: k)) with (lower_byte c :: to_lower k).
  destruct u; destruct c; cbn [canon_go]; rewrite IH; reflexivity.
Qed.

Lemma tchar_lower c : is_tchar c = true -> is_tchar (lower_byte c) = true.
Proof. destruct c; vm_compute; congruence. Qed.

Lemma canonical_header_key_lower k :
  forallb is_tchar k = true -> canonical_header_key (to_lower k) = canon_name k.
Proof.
  intros H. unfold canonical_header_key, canon_name.
  assert (forallb is_tchar (to_lower k) = true) as ->.
  { unfold to_lower. rewrite forallb_forall in *. intros x Hx. apply in_map_iff in Hx as (y & <- & Hy).
    apply tchar_lower. auto. }
  apply canon_go_lower.
Qed.

Definition token_names (fs : list field) : Prop := Forall (fun f => forallb is_tchar (fst f) = true) fs.

Lemma add_all_from fs : token_names fs -> forall m,
  fold_left (fun m f => hadd (canonical_header_key (fst f)) (snd f) m) (lower_fields fs) m =
  collect_from m fs.
Proof.
  induction 1 as [|f fs Hf _ IH]; intros m; [reflexivity|].
  cbn [lower_fields map fold_left collect_from fst snd]. fold (lower_fields fs).
  rewrite canonical_header_key_lower by assumption. apply IH.
Qed.

(* http.Header.Add over the lower-cased fields = the multimap of the origin's fields *)
Theorem add_all_collect fs : token_names fs -> add_all (lower_fields fs) = collect fs.
Proof. intros H. unfold add_all, collect. now apply add_all_from. Qed.

Definition none_named (k : bytes) (fs : list field) : Prop := Forall (fun f => named k f = false) fs.

Lemma h2_header_from fs : token_names fs -> none_named K_TRAILER fs -> forall h t,
  fold_left h2_header_step (lower_fields fs) (h, t) = (collect_from h fs, t).
Proof.
  induction 1 as [|f fs Hf _ IH]; intros Hn h t; [reflexivity|].
  inversion Hn as [|? ? Hnf Hns]; subst.
  cbn [lower_fields map fold_left collect_from fst snd]. fold (lower_fields fs).
  unfold h2_header_step at 2. cbn [fst snd].
  rewrite canonical_header_key_lower by assumption. unfold named in Hnf. rewrite Hnf.
  now apply IH.
Qed.

Theorem h2_header_collect fs :
  token_names fs -> none_named K_TRAILER fs -> h2_header (lower_fields fs) = (collect fs, []).
Proof. intros Ht Hn. unfold h2_header, collect. now apply h2_header_from. Qed.

Lemma h3_fields_from fs : token_names fs -> none_named K_CL fs -> forall h,
  h3_fields (lower_fields fs) h None = Some (collect_from h fs, None).
Proof.
  induction 1 as [|[k v] fs Hf _ IH]; intros Hn h; [reflexivity|].
  inversion Hn as [|? ? Hnf Hns]; subst. cbn [fst snd] in *.
  cbn [lower_fields map h3_fields collect_from fold_left fst snd]. fold (lower_fields fs).
  assert (E : bytes_eqb (to_lower k) K_CL_LOWER = false).
  { apply bytes_eqb_neq. intros E. unfold named in Hnf. cbn [fst] in Hnf. apply bytes_eqb_neq in Hnf. apply Hnf.
    rewrite <- (canonical_header_key_lower k) by assumption. rewrite E. reflexivity. }
  rewrite E. rewrite canonical_header_key_lower by assumption. now apply IH.
Qed.

Theorem h3_header_collect fs :
  token_names fs -> none_named K_CL fs -> none_named K_TRAILER fs ->
  h3_header (lower_fields fs) = Some (collect fs, [], (-1)%Z).
Proof.
  intros Ht Hcl Htr. unfold h3_header. rewrite h3_fields_from by assumption.
  fold (collect fs). rewrite hget_collect.
  assert (values_of K_TRAILER fs = []) as ->.
  { clear - Htr. induction Htr as [|f fs Hf _ IH]; [reflexivity|]. rewrite values_of_cons, Hf. exact IH. }
  reflexivity.
Qed.

(* ====================================================================== *)
(* once the response is complete, nothing the peer does afterwards counts *)
(* ====================================================================== *)

Lemma h2_pipe_after evs after : snd (h2_pipe evs) <> H2Pending -> h2_pipe (evs ++ after) = h2_pipe evs.
Proof.
  induction evs as [|e evs IH]; cbn [app h2_pipe]; [intros H; now contradiction H|].
  destruct e as [p [|]| | | |]; try reflexivity.
  intros H. destruct (h2_pipe evs) as [d e0] eqn:E. cbn [snd] in *. rewrite IH by exact H. reflexivity.
Qed.

Lemma h2_read_after cl hdr_end evs after :
  snd (h2_pipe evs) <> H2Pending -> h2_read cl hdr_end (evs ++ after) = h2_read cl hdr_end evs.
Proof. intros H. unfold h2_read. now rewrite h2_pipe_after. Qed.

(* A response stream that has ended (END_STREAM on DATA or on the trailer block): RST_STREAM
   with any code, GOAWAY, the end of the connection - ANY sequence of later peer events, in
   any order relative to the caller's reads - leaves status, header, trailers and the body
   the caller reads unchanged. *)
Theorem h2_after_end_irrelevant is_head heads frames trailers after m sizes :
  snd (h2_pipe (h2_events frames (match trailers with Some _ => true | None => false end))) <> H2Pending ->
  h2_exchange_after is_head heads frames trailers after m sizes =
  h2_exchange is_head heads frames trailers m sizes.
Proof.
  intros H. unfold h2_exchange, h2_exchange_after.
  destruct (h2_final heads 0) as [[code hd]|]; [|reflexivity].
  destruct (h2_header (hh_fields hd)) as [hdr declared].
  rewrite h2_read_after by exact H. now rewrite app_nil_r.
Qed.

Lemma ended_on_data fs last : open_frames fs -> fd_end last = true ->
  snd (h2_pipe (h2_events (fs ++ [last]) false)) <> H2Pending.
Proof. intros Ho Hl. rewrite h2_pipe_end_on_data by assumption. discriminate. Qed.

Lemma ended_on_trailers fs : open_frames fs -> snd (h2_pipe (h2_events fs true)) <> H2Pending.
Proof. intros Ho. rewrite h2_pipe_end_on_trailers by assumption. discriminate. Qed.

(* ====================================================================== *)
(* concurrent streams on one connection are independent                   *)
(* ====================================================================== *)

Inductive interleave {A} : list A -> list A -> list A -> Prop :=
| il_nil : interleave [] [] []
| il_left x a b l : interleave a b l -> interleave (x :: a) b (x :: l)
| il_right x a b l : interleave a b l -> interleave a (x :: b) (x :: l).

(* a connection event that is none of stream [sid]'s business: another stream's frame, a PING,
   a graceful GOAWAY that covers the stream *)
Definition foreign (sid : N) (c : conn_ev) : Prop := stream_view sid [c] = [].

Lemma stream_view_cons sid c l : stream_view sid (c :: l) = stream_view sid [c] ++ stream_view sid l.
Proof. unfold stream_view. cbn [flat_map]. now rewrite app_nil_r. Qed.

(* For EVERY interleaving of a stream's own frames with anything foreign to it - frames of any
   number of other streams (also streams that end, are reset or whose callers go away
   meanwhile), PINGs, graceful GOAWAYs covering it - the stream sees exactly its own frames,
   in order. *)
Theorem stream_view_interleave sid own other l :
  interleave (map (CFrame sid) own) other l -> Forall (foreign sid) other ->
  stream_view sid l = own.
Proof.
  intros H. remember (map (CFrame sid) own) as mine eqn:E. revert own E.
  induction H as [|x a b l H IH|x a b l H IH]; intros own E Hf.
  - destruct own; [reflexivity|discriminate].
  - destruct own as [|e own]; [discriminate|]. cbn [map] in E. inversion E; subst.
    rewrite stream_view_cons. cbn [stream_view flat_map]. rewrite N.eqb_refl. cbn [app].
    f_equal. now apply IH.
  - inversion Hf as [|? ? Hx Hb]; subst. rewrite stream_view_cons. unfold foreign in Hx. rewrite Hx.
    cbn [app]. now apply IH.
Qed.

(* ... hence every caller reads exactly what it would read with the connection to itself *)
Theorem concurrent_streams_independent cl hdr_end sid own other l :
  interleave (map (CFrame sid) own) other l -> Forall (foreign sid) other ->
  h2_conn_read cl hdr_end sid l = h2_read cl hdr_end own.
Proof. intros H Hf. unfold h2_conn_read. now rewrite (stream_view_interleave sid own other l H Hf). Qed.

Lemma foreign_other_stream sid s e : s <> sid -> foreign sid (CFrame s e).
Proof. intros H. unfold foreign. cbn. destruct (N.eqb_spec s sid); [contradiction|reflexivity]. Qed.

Lemma foreign_ping sid : foreign sid CPing.
Proof. reflexivity. Qed.

Lemma foreign_graceful_goaway sid last : (sid <= last)%N -> foreign sid (CGoAway last).
Proof. intros H. unfold foreign. cbn. destruct (N.leb_spec sid last); [reflexivity|lia]. Qed.

(* ====================================================================== *)
(* an HTTP/2 stream cut before END_STREAM is never delivered as complete  *)
(* ====================================================================== *)

Definition stream_cut (e : h2ev) : Prop :=
  match e with H2ConnEnd | H2GoAwayClose | H2Rst _ => True | _ => False end.

Lemma h2_pipe_cut fs k after : open_frames fs -> stream_cut k ->
  snd (h2_pipe (h2_events fs false ++ k :: after)) <> H2Clean.
Proof.
  intros Ho Hk. unfold h2_events. rewrite app_nil_r, h2_pipe_open by assumption. cbn [snd].
  destruct k; try contradiction; cbn; discriminate.
Qed.

(* Whatever DATA frames arrived (any number, any padding), with or without a declared length:
   if the stream has not ended and the connection ends with a clean FIN, a GOAWAY + FIN, or the
   stream is reset, the caller's read ends with an error - never with io.EOF. *)
Theorem h2_cut_never_complete fs k after cl : open_frames fs -> stream_cut k ->
  snd (h2_read cl false (h2_events fs false ++ k :: after)) <> H2Clean.
Proof.
  intros Ho Hk. pose proof (h2_pipe_cut fs k after Ho Hk) as P. unfold h2_read.
  destruct (h2_pipe (h2_events fs false ++ k :: after)) as [d e]. cbn [snd] in P.
  destruct cl as [n|]; [|exact P].
  destruct (take_N n d) as [[t rest] missing]. destruct rest; [|cbn; discriminate].
  destruct (missing =? 0)%N; cbn [snd]; [exact P|]. destruct e; try discriminate; try contradiction.
Qed.

(* ====================================================================== *)
(* an HTTP/3 stream that ends inside a DATA frame is never complete       *)
(* ====================================================================== *)

Lemma h3_cut_none parts declared partial :
  (N.of_nat (length partial) < declared)%N ->
  h3_read true None (h3_events_cut parts declared partial) = (concat parts ++ partial, H3UnexpectedEOF).
Proof.
  intros H. unfold h3_events_cut. induction parts as [|p ps IH].
  - cbn [map app h3_read concat]. destruct (N.ltb_spec (N.of_nat (length partial)) declared); [reflexivity|lia].
  - cbn [map app h3_read concat]. rewrite N.ltb_irrefl, IH. now rewrite app_assoc.
Qed.

Lemma h3_cut_some parts declared partial : forall m,
  (N.of_nat (length partial) < declared)%N ->
  snd (h3_read true (Some m) (h3_events_cut parts declared partial)) <> H3Clean.
Proof.
  unfold h3_events_cut. induction parts as [|p ps IH]; intros m H.
  - cbn [map app h3_read].
    destruct (N.eqb_spec declared 0); [lia|].
    destruct (m <? declared)%N; [destruct (m <=? N.of_nat (length partial))%N; cbn; discriminate|].
    destruct (N.ltb_spec (N.of_nat (length partial)) declared); [cbn; discriminate|lia].
  - cbn [map app h3_read].
    destruct (N.of_nat (length p) =? 0)%N; [now apply IH|].
    destruct (N.ltb_spec m (N.of_nat (length p))) as [L|L].
    + destruct (N.leb_spec m (N.of_nat (length p))); [cbn; discriminate|lia].
    + rewrite N.ltb_irrefl.
      destruct (h3_read true (Some (m - N.of_nat (length p))%N)
                  (map (fun p0 => H3Data (N.of_nat (length p0)) p0) ps ++ [H3Data declared partial; H3Fin])) as [d e] eqn:E.
      cbn [snd]. specialize (IH (m - N.of_nat (length p))%N H). rewrite E in IH. exact IH.
Qed.

(* For EVERY sequence of complete DATA frames followed by a frame of which only a part arrived
   before the FIN, with or without a declared Content-Length, and WHENEVER the FIN reached the
   client (with the last bytes or later - the event sequence is the same): the read ends with
   an error, never with io.EOF; without a declared length the caller has received exactly the
   bytes that arrived. *)
Theorem h3_cut_never_complete parts declared partial rem :
  (N.of_nat (length partial) < declared)%N ->
  snd (h3_read true rem (h3_events_cut parts declared partial)) <> H3Clean /\
  (rem = None -> fst (h3_read true rem (h3_events_cut parts declared partial)) = concat parts ++ partial).
Proof.
  intros H. destruct rem as [m|].
  - split; [now apply h3_cut_some|discriminate].
  - rewrite h3_cut_none by assumption. split; [discriminate|reflexivity].
Qed.
