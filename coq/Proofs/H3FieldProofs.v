(* Proofs/H3FieldProofs.v - received HTTP/3 field sections: parseHeaders / parseTrailers accept
   exactly the sections Model/H3Spec.v (the RFC 9114 transcription) calls well-formed. *)
From Coq Require Import Lia ZifyBool ZifyNat ZifyN.
From ReqV Require Import Lib.Bytes Lib.BytesFacts Lib.BigEndian Model.QuicVarint Model.H3Frame Model.H3Spec.
Open Scope N_scope.

(* ---------- bytes ---------- *)
Lemma mem_byte_true_In c s : mem_byte c s = true <-> In c s.
Proof.
  destruct (mem_byte c s) eqn:E.
  - split; [intros _|reflexivity]. destruct (in_dec Byte.byte_eq_dec c s) as [I|NI]; [exact I|].
    apply mem_byte_false_In in NI. congruence.
  - apply mem_byte_false_In in E. split; [discriminate|contradiction].
Qed.

Lemma token_mem b : is_token_byte b =
  mem_byte b (bs "!#$%&'*+-.^_`|~0123456789abcdefghijklmnopqrstuvwxyzABCDEFGHIJKLMNOPQRSTUVWXYZ").
Proof. destruct b; reflexivity. Qed.
Lemma tchar_iff b : is_token_byte b = true <-> rfc_tchar b.
Proof. rewrite token_mem. apply mem_byte_true_In. Qed.
Lemma upper_mem b : is_upper b = mem_byte b (bs "ABCDEFGHIJKLMNOPQRSTUVWXYZ").
Proof. destruct b; reflexivity. Qed.
Lemma upper_iff b : is_upper b = true <-> rfc_upper b.
Proof. rewrite upper_mem. apply mem_byte_true_In. Qed.
Lemma digit_mem b : is_digit b = mem_byte b (bs "0123456789").
Proof. destruct b; reflexivity. Qed.
Lemma token_ascii b : is_token_byte b = true -> (bN b <? 128) = true.
Proof. destruct b; vm_compute; congruence. Qed.
Lemma value_char_iff b : valid_value_byte b = true <-> rfc_value_char b.
Proof.
  unfold rfc_value_char. split.
  - intro H. destruct b; vm_compute in H; try discriminate; (split; [try (left; vm_compute; discriminate); right; reflexivity | discriminate]).
  - intros [[G| ->] N]; [|reflexivity]. unfold valid_value_byte.
    destruct (N.leb_spec 32 (bN b)); [|lia]. cbn [andb].
    destruct (N.eqb_spec (bN b) 127) as [E|_]; [|reflexivity]. exfalso. apply N.
    destruct b; vm_compute in E; try discriminate. reflexivity.
Qed.

Lemma forallb_Forall_iff {A} (f : A -> bool) (P : A -> Prop) l :
  (forall x, f x = true <-> P x) -> (forallb f l = true <-> Forall P l).
Proof.
  intro H. rewrite forallb_forall, Forall_forall. split; intros G x I; apply H; apply G; exact I.
Qed.
Lemma existsb_false_Forall {A} (f : A -> bool) (P : A -> Prop) l :
  (forall x, f x = true <-> P x) -> (existsb f l = false <-> Forall (fun x => ~ P x) l).
Proof.
  intro H. induction l as [|x l IH]; cbn; [split; [constructor|reflexivity]|].
  rewrite Bool.orb_false_iff, IH. split.
  - intros [A1 A2]. constructor; [rewrite <- H; congruence|exact A2].
  - intro F. inversion F; subst. split; [|assumption]. destruct (f x) eqn:E; [|reflexivity]. apply H in E. contradiction.
Qed.

Lemma bytes_eqb_sym a b : bytes_eqb a b = bytes_eqb b a.
Proof.
  destruct (bytes_eqb a b) eqn:E1; destruct (bytes_eqb b a) eqn:E2; try reflexivity.
  - apply bytes_eqb_eq in E1. apply bytes_eqb_neq in E2. congruence.
  - apply bytes_eqb_neq in E1. apply bytes_eqb_eq in E2. congruence.
Qed.

Lemma mem_bytes_In x l : mem_bytes x l = true <-> In x l.
Proof.
  induction l as [|y l IH]; cbn; [split; [discriminate|tauto]|].
  rewrite Bool.orb_true_iff, IH, bytes_eqb_eq. split; intros [A|A]; auto.
Qed.

Lemma is_pseudo_iff n : is_pseudo n = true <-> rfc_is_pseudo n.
Proof.
  unfold is_pseudo, rfc_is_pseudo. destruct n as [|c r]; [split; [discriminate|intros [? H]; discriminate]|].
  rewrite beqb_eq. split; [intros ->; eauto|intros [r' H]; congruence].
Qed.
Lemma is_pseudo_false_iff n : is_pseudo n = false <-> ~ rfc_is_pseudo n.
Proof. rewrite <- is_pseudo_iff. destruct (is_pseudo n); split; congruence. Qed.

(* ---------- one field, the checks that do not depend on the loop state ---------- *)
Definition regular_okb (f : field) : bool :=
  valid_field_name (fst f) && negb (mem_bytes (fst f) h3InvalidHeaderFields) &&
  negb (bytes_eqb (fst f) name_te && negb (bytes_eqb (snd f) value_trailers)).
Definition pseudo_okb (is_request : bool) (name : bytes) : bool :=
  match assoc_bytes name h3PseudoTable with
  | Some (_, is_resp) => negb (Bool.eqb is_request is_resp)
  | None => false
  end.
Definition field_okb (is_request : bool) (f : field) : bool :=
  is_ascii (fst f) && negb (existsb is_upper (fst f)) && valid_field_value (snd f) &&
  (if is_pseudo (fst f) then pseudo_okb is_request (fst f) else regular_okb f).

Lemma pseudo_okb_mem q name : pseudo_okb q name = mem_bytes name (rfc_defined_pseudo q).
Proof.
  unfold pseudo_okb, h3PseudoTable, rfc_defined_pseudo, rfc_request_pseudo, rfc_response_pseudo.
  destruct q; cbn [assoc_bytes mem_bytes];
  change (hx "3a70617468") with (bs ":path"); change (hx "3a6d6574686f64") with (bs ":method");
  change (hx "3a617574686f72697479") with (bs ":authority"); change (hx "3a70726f746f636f6c") with (bs ":protocol");
  change (hx "3a736368656d65") with (bs ":scheme"); change (hx "3a737461747573") with (bs ":status");
  rewrite (bytes_eqb_sym (bs ":path") name), (bytes_eqb_sym (bs ":method") name), (bytes_eqb_sym (bs ":authority") name),
          (bytes_eqb_sym (bs ":protocol") name), (bytes_eqb_sym (bs ":scheme") name), (bytes_eqb_sym (bs ":status") name);
  repeat match goal with |- context [bytes_eqb name ?k] =>
    let E := fresh "E" in destruct (bytes_eqb name k) eqn:E; [apply bytes_eqb_eq in E; subst name; reflexivity|] end;
  reflexivity.
Qed.

Lemma invalid_fields_eq : h3InvalidHeaderFields = rfc_connection_specific.
Proof. reflexivity. Qed.

Lemma defined_pseudo_shape q name : In name (rfc_defined_pseudo q) ->
  is_ascii name = true /\ existsb is_upper name = false /\ is_pseudo name = true.
Proof.
  destruct q; cbn; intro H;
    repeat match type of H with _ \/ _ => destruct H as [<-|H]; [repeat split; reflexivity|] end; contradiction.
Qed.

Lemma regular_name_shape name : rfc_regular_name name ->
  is_ascii name = true /\ existsb is_upper name = false /\ valid_field_name name = true.
Proof.
  intros (NE & FT & FU). repeat split.
  - apply forallb_forall. intros b I. rewrite Forall_forall in FT. apply token_ascii. apply tchar_iff. apply FT. exact I.
  - apply (existsb_false_Forall is_upper rfc_upper); [apply upper_iff|exact FU].
  - unfold valid_field_name. destruct name; [contradiction|].
    apply (forallb_Forall_iff is_token_byte rfc_tchar); [apply tchar_iff|exact FT].
Qed.

Theorem field_okb_iff q f : field_okb q f = true <-> rfc_field_ok q f.
Proof.
  destruct f as [name value]. unfold field_okb, rfc_field_ok. cbn [fst snd].
  rewrite !Bool.andb_true_iff, Bool.negb_true_iff.
  rewrite (forallb_Forall_iff valid_value_byte rfc_value_char) by apply value_char_iff.
  destruct (is_pseudo name) eqn:P.
  - rewrite pseudo_okb_mem, mem_bytes_In. apply is_pseudo_iff in P. split.
    + intros [[[_ _] V] I]. split; [exact V|]. left. split; assumption.
    + intros [V [[_ I]|[NP _]]]; [|contradiction].
      destruct (defined_pseudo_shape q name I) as (A & U & _). repeat split; assumption.
  - apply is_pseudo_false_iff in P. unfold regular_okb. cbn [fst snd].
    rewrite !Bool.andb_true_iff, !Bool.negb_true_iff. rewrite invalid_fields_eq. split.
    + intros [[[A U] V] [[VN NI] TE]]. split; [exact V|]. right. split; [exact P|]. repeat split.
      * unfold valid_field_name in VN. destruct name; [discriminate|discriminate].
      * unfold valid_field_name in VN. destruct name; [discriminate|].
        apply (forallb_Forall_iff is_token_byte rfc_tchar); [apply tchar_iff|exact VN].
      * apply (existsb_false_Forall is_upper rfc_upper); [apply upper_iff|exact U].
      * intro I. apply mem_bytes_In in I. congruence.
      * intros ->. apply Bool.andb_false_iff in TE. destruct TE as [TE|TE]; [discriminate|].
        apply Bool.negb_false_iff in TE. apply bytes_eqb_eq in TE. exact TE.
    + intros [V [[PS _]|(_ & RN & NC & TE)]]; [contradiction|].
      destruct (regular_name_shape name RN) as (A & U & VN). repeat split; try assumption.
      * destruct (mem_bytes name rfc_connection_specific) eqn:M; [|reflexivity]. apply mem_bytes_In in M. contradiction.
      * apply Bool.andb_false_iff. destruct (bytes_eqb name name_te) eqn:E; [right|left; reflexivity].
        apply bytes_eqb_eq in E. apply Bool.negb_false_iff. apply bytes_eqb_eq. exact (TE E).
Qed.

(* ---------- the loop ---------- *)
Definition is_cl (f : field) : bool := bytes_eqb (fst f) name_content_length.

(* pseudo-header fields only while no regular field was seen *)
Fixpoint pf (reg : bool) (fs : list field) : Prop :=
  match fs with
  | [] => True
  | f :: r => (is_pseudo (fst f) = true -> reg = false) /\ pf (reg || negb (is_pseudo (fst f))) r
  end.
(* content-length values agree with the first one *)
Fixpoint cla (cl : option bytes) (fs : list field) : Prop :=
  match fs with
  | [] => True
  | f :: r => if is_cl f then (match cl with Some c => c = snd f | None => True end) /\
                              cla (Some (match cl with Some c => c | None => snd f end)) r
              else cla cl r
  end.
Definition first_cl (cl : option bytes) (fs : list field) : option bytes :=
  match cl with Some c => Some c | None => hd_error (map snd (filter is_cl fs)) end.

Lemma cl_not_pseudo name : bytes_eqb name name_content_length = true -> is_pseudo name = false.
Proof. intro E. apply bytes_eqb_eq in E. subst. reflexivity. Qed.

Ltac fin := repeat split; try discriminate; try assumption; try (intros _; assumption); try reflexivity;
            try (rewrite Bool.orb_true_r; reflexivity); try (intros _; trivial).

Lemma step_spec q st f :
  match h3_header_step q st f with
  | HOk st' =>
      field_okb q f = true /\ (is_pseudo (fst f) = true -> hs_regular st = false) /\
      (is_cl f = true -> match hs_cl st with Some c => c = snd f | None => True end) /\
      hs_regular st' = hs_regular st || negb (is_pseudo (fst f)) /\
      hs_cl st' = (if is_cl f then Some (match hs_cl st with Some c => c | None => snd f end) else hs_cl st)
  | HErr _ =>
      ~ (field_okb q f = true /\ (is_pseudo (fst f) = true -> hs_regular st = false) /\
         (is_cl f = true -> match hs_cl st with Some c => c = snd f | None => True end))
  end.
Proof.
  destruct f as [name value]. unfold h3_header_step, field_okb, is_cl, regular_okb, pseudo_okb. cbn [fst snd].
  destruct (is_ascii name); cbn [negb andb]; [|intros [H _]; discriminate].
  destruct (existsb is_upper name); cbn [negb andb]; [intros [H _]; discriminate|].
  destruct (valid_field_value value); cbn [negb andb]; [|intros [H _]; discriminate].
  destruct (is_pseudo name) eqn:P.
  - assert (NCL : bytes_eqb name name_content_length = false).
    { destruct (bytes_eqb name name_content_length) eqn:E; [|reflexivity]. apply cl_not_pseudo in E. congruence. }
    rewrite NCL. destruct (hs_regular st) eqn:R.
    + intros (_ & H & _). specialize (H eq_refl). discriminate.
    + destruct (assoc_bytes name h3PseudoTable) as [[p r]|]; [|intros [H _]; discriminate].
      destruct (Bool.eqb q r); cbn [negb]; [intros [H _]; discriminate|].
      cbn [hs_regular hs_cl]. repeat split; try reflexivity; try discriminate.
  - destruct (valid_field_name name); cbn [negb andb]; [|intros [H _]; discriminate].
    destruct (mem_bytes name h3InvalidHeaderFields); cbn [negb andb]; [intros [H _]; discriminate|].
    destruct (bytes_eqb name name_te && negb (bytes_eqb value value_trailers)); cbn [negb andb]; [intros [H _]; discriminate|].
    destruct (bytes_eqb name name_content_length) eqn:CL.
    + destruct (hs_cl st) as [c|] eqn:C.
      * destruct (bytes_eqb c value) eqn:E.
        -- apply bytes_eqb_eq in E. cbn [hs_regular hs_cl]. fin.
        -- apply bytes_eqb_neq in E. intros (_ & _ & H). apply E. apply H. reflexivity.
      * cbn [hs_regular hs_cl]. fin.
    + cbn [hs_regular hs_cl]. fin.
Qed.

Lemma loop_iff q fs : forall st,
  (exists st', h3_header_loop q st fs = HOk st') <->
  (Forall (fun f => field_okb q f = true) fs /\ pf (hs_regular st) fs /\ cla (hs_cl st) fs).
Proof.
  induction fs as [|f fs IH]; intro st.
  - cbn. split; [intros _; repeat split; constructor|intros _; eexists; reflexivity].
  - cbn [h3_header_loop pf cla]. pose proof (step_spec q st f) as S.
    destruct (h3_header_step q st f) as [st'|e].
    + destruct S as (OK & PS & CLM & R' & C'). rewrite IH, R', C'. split.
      * intros (FA & PF & CLA). split; [constructor; assumption|]. split; [split; assumption|].
        destruct (is_cl f); [split; [apply CLM; reflexivity|exact CLA]|exact CLA].
      * intros (FA & [_ PF] & CLA). inversion FA; subst. split; [assumption|]. split; [exact PF|].
        destruct (is_cl f); [destruct CLA as [_ CLA]; exact CLA|exact CLA].
    + split; [intros [st' H]; discriminate|]. intros (FA & [PS PF] & CLA). exfalso. apply S.
      inversion FA; subst. split; [assumption|]. split; [exact PS|]. intro E. rewrite E in CLA. tauto.
Qed.

Lemma loop_cl q fs : forall st st', h3_header_loop q st fs = HOk st' -> hs_cl st' = first_cl (hs_cl st) fs.
Proof.
  induction fs as [|f fs IH]; intros st st' H.
  - cbn in H. inversion H; subst. unfold first_cl. destruct (hs_cl st'); reflexivity.
  - cbn [h3_header_loop] in H. pose proof (step_spec q st f) as S.
    destruct (h3_header_step q st f) as [st1|e]; [|discriminate].
    destruct S as (_ & _ & _ & _ & C'). rewrite (IH _ _ H), C'. unfold first_cl. cbn [filter].
    destruct (is_cl f); [|reflexivity]. destruct (hs_cl st); reflexivity.
Qed.

(* ---------- the declarative counterparts ---------- *)
Lemma pf_true_iff fs : pf true fs <-> Forall (fun f => ~ rfc_is_pseudo (fst f)) fs.
Proof.
  induction fs as [|f fs IH]; cbn [pf]; [split; [constructor|trivial]|]. cbn [orb]. rewrite IH. split.
  - intros [H F]. constructor; [|exact F]. apply is_pseudo_false_iff. destruct (is_pseudo (fst f)); [specialize (H eq_refl); discriminate|reflexivity].
  - intro F. inversion F as [|? ? NP F']; subst. split; [|exact F']. apply is_pseudo_false_iff in NP. rewrite NP. discriminate.
Qed.

Lemma pf_false_iff fs : pf false fs <-> rfc_pseudo_first fs.
Proof.
  unfold rfc_pseudo_first. induction fs as [|f fs IH]; cbn [pf].
  - split; [intros _; exists [], []; repeat split; constructor|trivial].
  - cbn [orb]. destruct (is_pseudo (fst f)) eqn:P; cbn [negb].
    + rewrite IH. apply is_pseudo_iff in P. split.
      * intros (_ & ps & rs & E & A & B). exists (f :: ps), rs. subst fs. repeat split; [constructor; assumption|exact B].
      * intros (ps & rs & E & A & B). split; [reflexivity|]. destruct ps as [|p ps].
        -- cbn in E. subst rs. inversion B; subst. contradiction.
        -- cbn in E. inversion E; subst. inversion A; subst. exists ps, rs. repeat split; assumption.
    + rewrite pf_true_iff. apply is_pseudo_false_iff in P. split.
      * intros (_ & F). exists [], (f :: fs). repeat split; [constructor|constructor; assumption].
      * intros (ps & rs & E & A & B). split; [discriminate|]. destruct ps as [|p ps].
        -- cbn in E. subst rs. inversion B; subst. assumption.
        -- cbn in E. inversion E; subst. inversion A; subst. contradiction.
Qed.

Lemma cl_values_eq fs : content_length_values fs = map snd (filter is_cl fs).
Proof. reflexivity. Qed.

Lemma cla_some_iff c fs : cla (Some c) fs <-> forall a, In a (map snd (filter is_cl fs)) -> a = c.
Proof.
  induction fs as [|f fs IH]; cbn [cla filter]; [split; [intros _ a []|trivial]|].
  destruct (is_cl f); [|exact IH]. cbn [map In]. rewrite IH. split.
  - intros [E H] a [<-|I]; [symmetry; exact E|exact (H a I)].
  - intro H. split; [symmetry; apply H; left; reflexivity|intros a I; apply H; right; exact I].
Qed.

Lemma cla_none_iff fs : cla None fs <-> forall a b, In a (map snd (filter is_cl fs)) -> In b (map snd (filter is_cl fs)) -> a = b.
Proof.
  induction fs as [|f fs IH]; cbn [cla filter]; [split; [intros _ a b []|trivial]|].
  destruct (is_cl f); [|exact IH]. cbn [map In]. rewrite cla_some_iff. split.
  - intros [_ H] a b [<-|Ia] [<-|Ib]; [reflexivity|symmetry; exact (H b Ib)|exact (H a Ia)|rewrite (H a Ia), (H b Ib); reflexivity].
  - intro H. split; [trivial|]. intros a I. apply H; [right; exact I|left; reflexivity].
Qed.

Lemma parse_uint63_iff c : (exists v, parse_uint63 c = Some v) <-> (rfc_decimal c /\ decimal_value c < 2 ^ 63).
Proof.
  unfold parse_uint63, rfc_decimal. destruct c as [|b c].
  - split; [intros [v H]; discriminate|intros [[H _] _]; contradiction].
  - change (dec_value (b :: c)) with (decimal_value (b :: c)).
    rewrite <- (forallb_Forall_iff is_digit (fun x => In x (bs "0123456789")))
      by (intro x; rewrite digit_mem; apply mem_byte_true_In).
    destruct (forallb is_digit (b :: c)).
    + destruct (N.ltb_spec (decimal_value (b :: c)) (2 ^ 63)).
      * split; [intros _; repeat split; [discriminate|assumption]|intros _; eexists; reflexivity].
      * split; [intros [v E]; discriminate|intros [_ L]; lia].
    + split; [intros [v E]; discriminate|intros [[_ E] _]; discriminate].
Qed.

(* ---------- parseHeaders accepts exactly the well-formed header sections ---------- *)
Theorem h3_headers_accept_iff_rfc9114 q fs :
  (exists h, h3_parse_headers q fs = HOk h) <-> rfc9114_header_section_ok q fs.
Proof.
  unfold h3_parse_headers, rfc9114_header_section_ok, content_length_ok. rewrite cl_values_eq.
  set (st0 := {| hs_regular := false; hs_cl := None; hs_hdr := hd_empty |}).
  pose proof (loop_iff q fs st0) as LI. pose proof (loop_cl q fs st0) as LC.
  cbn [hs_regular hs_cl st0] in LI. rewrite pf_false_iff, cla_none_iff in LI.
  rewrite <- (Forall_forall (fun a => a = [] \/ (rfc_decimal a /\ decimal_value a < 2 ^ 63))).
  assert (FO : Forall (fun f => field_okb q f = true) fs <-> Forall (rfc_field_ok q) fs).
  { rewrite !Forall_forall. split; intros H x I; apply field_okb_iff; apply H; exact I. }
  destruct (h3_header_loop q st0 fs) as [st|e] eqn:L.
  - specialize (LC st eq_refl). unfold first_cl in LC. cbn [hs_cl st0] in LC.
    assert (ACC : Forall (fun f => field_okb q f = true) fs /\ rfc_pseudo_first fs /\
                  (forall a b, In a (map snd (filter is_cl fs)) -> In b (map snd (filter is_cl fs)) -> a = b))
      by (apply LI; eauto).
    destruct ACC as (FA & PF & AG). rewrite FO in FA.
    assert (VAL : forall P : bytes -> Prop, Forall P (map snd (filter is_cl fs)) <->
                  match hs_cl st with Some c => P c | None => True end).
    { intro P. rewrite LC. destruct (map snd (filter is_cl fs)) as [|c l] eqn:E; cbn [hd_error].
      - split; [trivial|constructor].
      - split; [intro F; inversion F; assumption|]. intro Pc. apply Forall_forall. intros a Ia.
        rewrite (AG a c Ia (or_introl eq_refl)). exact Pc. }
    rewrite VAL. destruct (hs_cl st) as [[|b c]|].
    + split; [intros _; repeat split; try assumption; left; reflexivity|intros _; eexists; reflexivity].
    + pose proof (parse_uint63_iff (b :: c)) as PU. destruct (parse_uint63 (b :: c)) as [v|].
      * split; [intros _; repeat split; try assumption; right; apply PU; eauto|intros _; eexists; reflexivity].
      * split; [intros [h H]; discriminate|]. intros (_ & _ & _ & [C|C]); [discriminate|]. apply PU in C. destruct C; discriminate.
    + split; [intros _; repeat split; try assumption|intros _; eexists; reflexivity].
  - split; [intros [h H]; discriminate|]. intros (FA & PF & AG & _). rewrite <- FO in FA.
    assert (X : exists st', HErr e = HOk st') by (apply LI; repeat split; assumption). destruct X; discriminate.
Qed.

(* ---------- trailers ---------- *)
Lemma trailer_check_none f : h3_trailer_field_check f = None <-> (is_pseudo (fst f) = false /\ field_okb false f = true).
Proof.
  destruct f as [name value]. unfold h3_trailer_field_check, field_okb, regular_okb. cbn [fst snd].
  destruct (is_ascii name); cbn [negb andb]; [|split; [discriminate|intros [_ H]; discriminate]].
  destruct (existsb is_upper name); cbn [negb andb]; [split; [discriminate|intros [_ H]; discriminate]|].
  destruct (valid_field_value value); cbn [negb andb]; [|split; [discriminate|intros [_ H]; discriminate]].
  destruct (is_pseudo name); [split; [discriminate|intros [H _]; discriminate]|].
  destruct (valid_field_name name); cbn [negb andb]; [|split; [discriminate|intros [_ H]; discriminate]].
  destruct (mem_bytes name h3InvalidHeaderFields); cbn [negb andb]; [split; [discriminate|intros [_ H]; discriminate]|].
  destruct (bytes_eqb name name_te && negb (bytes_eqb value value_trailers)); cbn [negb]; [split; [discriminate|intros [_ H]; discriminate]|].
  split; intros _; [split; reflexivity|reflexivity].
Qed.

Theorem h3_trailers_accept_iff_rfc9114 fs :
  (exists m, h3_parse_trailers fs = HOk m) <-> rfc9114_trailer_section_ok fs.
Proof.
  unfold h3_parse_trailers, rfc9114_trailer_section_ok. generalize (@nil (bytes * list bytes)) as m0.
  induction fs as [|f fs IH]; intro m0.
  - cbn. split; [constructor|intros _; eexists; reflexivity].
  - cbn [h3_parse_trailers_from]. pose proof (trailer_check_none f) as T.
    destruct (h3_trailer_field_check f) as [e|].
    + split; [intros [m H]; discriminate|]. intro F. inversion F as [|? ? [NP OK] _]; subst.
      apply is_pseudo_false_iff in NP. apply field_okb_iff in OK.
      assert (X : Some e = None) by (apply T; split; assumption). discriminate.
    + destruct T as [T _]. destruct (T eq_refl) as [NP OK]. rewrite IH. split.
      * intro F. constructor; [|exact F]. split; [apply is_pseudo_false_iff; exact NP|apply field_okb_iff; exact OK].
      * intro F. inversion F; subst. assumption.
Qed.

(* the pinned parseTrailers (quic-go v0.48.2) accepted a malformed trailer section; the repaired one refuses it *)
Theorem h3_trailers_pinned_refuted :
  let fs := [(bs "X-Upper", bs "1")] in
  (exists m, h3_parse_trailers_pinned fs = HOk m) /\ ~ rfc9114_trailer_section_ok fs /\
  h3_parse_trailers fs = HErr HNotLower.
Proof.
  cbv zeta. split; [eexists; reflexivity|]. split; [|reflexivity].
  intro F. apply h3_trailers_accept_iff_rfc9114 in F. destruct F as [m H]. discriminate.
Qed.

(* ---------- responses: :status ---------- *)
Lemma pseudo_status_name name r : assoc_bytes name h3PseudoTable = Some (PsStatus, r) -> name = bs ":status".
Proof.
  unfold h3PseudoTable. cbn [assoc_bytes].
  repeat match goal with |- context [bytes_eqb ?k name] =>
    let E := fresh "E" in destruct (bytes_eqb k name) eqn:E; [apply bytes_eqb_eq in E; subst name; intro H; try discriminate H; reflexivity|] end.
  discriminate.
Qed.

Lemma step_status q st f st' : h3_header_step q st f = HOk st' ->
  hd_status (hs_hdr st') = hd_status (hs_hdr st) \/
  (fst f = bs ":status" /\ hd_status (hs_hdr st') = snd f).
Proof.
  destruct f as [name value]. unfold h3_header_step. cbn [fst snd].
  repeat match goal with
  | |- context [if ?c then _ else _] => destruct c; try discriminate
  | |- context [match assoc_bytes ?n ?t with _ => _ end] => let A := fresh "A" in destruct (assoc_bytes n t) as [[p r]|] eqn:A; try discriminate
  | |- context [match hs_cl ?s with _ => _ end] => destruct (hs_cl s); try discriminate
  end; intro H; inversion H; subst; cbn [hs_hdr hd_status set_headers]; try (left; reflexivity).
  destruct p; cbn [set_pseudo hd_status]; try (left; reflexivity). right. split; [eapply pseudo_status_name; eassumption|reflexivity].
Qed.

Lemma loop_status q fs : forall st st', h3_header_loop q st fs = HOk st' ->
  hd_status (hs_hdr st') = hd_status (hs_hdr st) \/ In (hd_status (hs_hdr st')) (status_values fs).
Proof.
  induction fs as [|f fs IH]; intros st st' H.
  - cbn in H. inversion H. left. reflexivity.
  - cbn [h3_header_loop] in H. destruct (h3_header_step q st f) as [st1|] eqn:S; [|discriminate].
    apply step_status in S. apply IH in H. unfold status_values. cbn [filter].
    destruct H as [H|H].
    + rewrite H. destruct S as [S|[N S]]; [left; exact S|]. right. rewrite N. cbn [bytes_eqb]. 
      replace (bytes_eqb (bs ":status") (bs ":status")) with true by reflexivity. cbn [map]. left. symmetry. exact S.
    + right. destruct (bytes_eqb (fst f) (bs ":status")); [right; exact H|exact H].
Qed.

(* what an accepted response is: a well-formed response header section that carries a :status field
   whose value is a non-empty integer (the StatusCode returned) *)
Theorem h3_response_accept_sound fs h code : h3_response fs = HOk (h, code) ->
  rfc9114_header_section_ok false fs /\ In (hd_status h) (status_values fs) /\
  hd_status h <> [] /\ go_atoi (hd_status h) = Some code.
Proof.
  unfold h3_response. intro H.
  destruct (h3_parse_headers false fs) as [h0|] eqn:P; [|discriminate].
  assert (WF : rfc9114_header_section_ok false fs) by (apply h3_headers_accept_iff_rfc9114; eauto).
  destruct (hd_status h0) as [|b s] eqn:S; [discriminate|].
  destruct (go_atoi (b :: s)) as [c|] eqn:A; [|discriminate]. inversion H; subst h0 c. clear H.
  split; [exact WF|]. rewrite S. split; [|split; [discriminate|exact A]].
  unfold h3_parse_headers in P.
  destruct (h3_header_loop false {| hs_regular := false; hs_cl := None; hs_hdr := hd_empty |} fs) as [st|] eqn:L; [|discriminate].
  apply loop_status in L. cbn [hs_hdr hd_status hd_empty] in L.
  assert (E : hd_status (hs_hdr st) = hd_status h).
  { destruct (hs_cl st) as [[|x c]|]; try (inversion P; reflexivity).
    destruct (parse_uint63 (x :: c)); [|discriminate]. inversion P. reflexivity. }
  rewrite E, S in L. destruct L as [L|L]; [discriminate|exact L].
Qed.

(* and the converse for the common case: refused when no :status field is present *)
Theorem h3_response_without_status_refused fs : status_values fs = [] -> forall r, h3_response fs <> HOk r.
Proof.
  intros E [h code] H. apply h3_response_accept_sound in H. destruct H as (_ & I & _). rewrite E in I. contradiction.
Qed.

(* ---------- responses, both directions ---------- *)
Lemma response_pseudo_is_status name p r :
  assoc_bytes name h3PseudoTable = Some (p, r) -> Bool.eqb false r = false -> name = bs ":status" /\ p = PsStatus.
Proof.
  unfold h3PseudoTable. cbn [assoc_bytes].
  repeat match goal with |- context [bytes_eqb ?k name] =>
    let E := fresh "E" in destruct (bytes_eqb k name) eqn:E;
      [apply bytes_eqb_eq in E; subst name; intros H1 H2; inversion H1; subst; try discriminate H2; split; reflexivity|] end.
  discriminate.
Qed.

Lemma step_status_exact st f st' : h3_header_step false st f = HOk st' ->
  hd_status (hs_hdr st') = if bytes_eqb (fst f) (bs ":status") then snd f else hd_status (hs_hdr st).
Proof.
  destruct f as [name value]. unfold h3_header_step. cbn [fst snd].
  destruct (negb (is_ascii name)); [discriminate|]. destruct (existsb is_upper name); [discriminate|].
  destruct (negb (valid_field_value value)); [discriminate|].
  destruct (is_pseudo name) eqn:P.
  - destruct (hs_regular st); [discriminate|].
    destruct (assoc_bytes name h3PseudoTable) as [[p r]|] eqn:A; [|discriminate].
    destruct (Bool.eqb false r) eqn:B; [discriminate|].
    destruct (response_pseudo_is_status name p r A B) as [-> ->].
    intro H. inversion H; subst. reflexivity.
  - assert (NS : bytes_eqb name (bs ":status") = false).
    { destruct (bytes_eqb name (bs ":status")) eqn:E; [|reflexivity]. apply bytes_eqb_eq in E. subst. discriminate. }
    rewrite NS.
    repeat match goal with
    | |- context [if ?c then _ else _] => destruct c; try discriminate
    | |- context [match hs_cl ?s with _ => _ end] => destruct (hs_cl s); try discriminate
    end; intro H; inversion H; subst; reflexivity.
Qed.

Lemma last_indep {A} (l : list A) : forall a d1 d2, last (a :: l) d1 = last (a :: l) d2.
Proof. induction l as [|y l IH]; intros a d1 d2; [reflexivity|]. change (last (y :: l) d1 = last (y :: l) d2). apply IH. Qed.
Lemma last_cons {A} (x : A) l d : last (x :: l) d = last l x.
Proof. destruct l as [|y l]; [reflexivity|]. change (last (y :: l) d = last (y :: l) x). apply last_indep. Qed.

Lemma loop_status_exact fs : forall st st', h3_header_loop false st fs = HOk st' ->
  hd_status (hs_hdr st') = last (status_values fs) (hd_status (hs_hdr st)).
Proof.
  induction fs as [|f fs IH]; intros st st' H.
  - cbn in H. inversion H. reflexivity.
  - cbn [h3_header_loop] in H. destruct (h3_header_step false st f) as [st1|] eqn:S; [|discriminate].
    apply step_status_exact in S. rewrite (IH _ _ H), S. unfold status_values. cbn [filter].
    destruct (bytes_eqb (fst f) (bs ":status")); [|reflexivity]. cbn [map]. rewrite last_cons. reflexivity.
Qed.

(* the status the response carries: the value of the last :status field ([] when there is none) *)
Definition response_status (fs : list field) : bytes := last (status_values fs) [].

Theorem h3_response_accept_iff fs :
  (exists r, h3_response fs = HOk r) <->
  (rfc9114_header_section_ok false fs /\ response_status fs <> [] /\ exists c, go_atoi (response_status fs) = Some c).
Proof.
  unfold h3_response, response_status.
  destruct (h3_parse_headers false fs) as [h|e] eqn:P.
  - assert (WF : rfc9114_header_section_ok false fs) by (apply h3_headers_accept_iff_rfc9114; eauto).
    assert (ST : hd_status h = last (status_values fs) []).
    { unfold h3_parse_headers in P.
      destruct (h3_header_loop false {| hs_regular := false; hs_cl := None; hs_hdr := hd_empty |} fs) as [st|] eqn:L; [|discriminate].
      apply loop_status_exact in L. cbn [hs_hdr hd_status hd_empty] in L. rewrite <- L.
      destruct (hs_cl st) as [[|x c]|]; try (inversion P; reflexivity).
      destruct (parse_uint63 (x :: c)); [|discriminate]. inversion P. reflexivity. }
    rewrite <- ST. destruct (hd_status h) as [|b s].
    + split; [intros [r H]; discriminate|intros (_ & N & _); contradiction].
    + destruct (go_atoi (b :: s)) as [c|].
      * split; [intros _; split; [exact WF|split; [discriminate|eauto]]|intros _; eexists; reflexivity].
      * split; [intros [r H]; discriminate|intros (_ & _ & [c H]); discriminate].
  - split; [intros [r H]; discriminate|]. intros (WF & _). apply h3_headers_accept_iff_rfc9114 in WF. destruct WF as [h H]. rewrite P in H. discriminate.
Qed.
