(* Proofs/TlsConnProofs.v - C03: HTTP/1.1 over TLS.  The TCP stream ending INSIDE a TLS record is
   an error of the exchange under every framing - the close-delimited one included -, for
   every way of cutting the response into records; ending BETWEEN two records it is exactly
   the plain-TCP cut at that plaintext offset (so the theorems of BodyFramingProofs apply,
   and close-delimited framing keeps its stated limit). *)
From ReqV Require Import Lib.Bytes Lib.BytesFacts Model.BodyFraming Model.TlsConn Proofs.BodyFramingProofs.
From ReqV Require Import Proofs.StreamBodyProofs.
From Coq Require Import Lia ZifyBool ZifyNat ZifyN.

(* the records that arrived whole are a prefix of the plaintext, a proper one if a
   non-empty record is still missing *)
Lemma tls_arrived_prefix : forall recs whole,
  tls_arrived recs whole = firstn (length (tls_arrived recs whole)) (concat recs).
Proof.
  unfold tls_arrived. induction recs as [|r recs IH]; intros [|whole]; cbn [firstn concat]; try reflexivity.
  rewrite app_length. rewrite <- (app_firstn_r r (concat recs)). rewrite <- IH. reflexivity.
Qed.

Lemma tls_arrived_short : forall recs whole, whole < length recs -> nth whole recs [] <> [] ->
  length (tls_arrived recs whole) < length (concat recs).
Proof.
  unfold tls_arrived. induction recs as [|r recs IH]; intros whole Hw Hn; [cbn in Hw; lia|].
  destruct whole as [|whole]; cbn [firstn concat nth] in *.
  - rewrite app_length. destruct r; [contradiction|cbn; lia].
  - rewrite !app_length. cbn [length] in Hw. specialize (IH whole ltac:(lia) Hn). lia.
Qed.

(* on a record boundary: the plain cut at that plaintext offset *)
Theorem tls_boundary_is_plain_cut_thm : forall hlen fr recs whole,
  h1_read_tls hlen fr recs whole false =
  h1_read hlen fr (firstn (length (tls_arrived recs whole)) (concat recs)).
Proof.
  intros. unfold h1_read_tls, h1_read_conn, h1_read. rewrite <- tls_arrived_prefix.
  destruct (take_N hlen (tls_arrived recs whole)) as [[t rest] missing].
  destruct (missing =? 0)%N; [|reflexivity].
  destruct fr; reflexivity.
Qed.

(* inside a record: an error whatever the framing.  W: what the origin writes behind the header
   block - Content-Length or chunked framing of [body], or the bare body (close-delimited) *)
Theorem tls_midrecord_detected_thm : forall hdr fr W body tb recs whole,
  (framed fr W body tb \/ (fr = FrClose /\ W = body)) ->
  concat recs = hdr ++ W -> whole < length recs -> nth whole recs [] <> [] ->
  match h1_read_tls (N.of_nat (length hdr)) fr recs whole true with
  | CallError => length (tls_arrived recs whole) < length hdr
  | BodyRead r => length hdr <= length (tls_arrived recs whole) /\
                  (truncation_err (rd_err r)) /\ exists m, rd_data r = firstn m body
  end.
Proof.
  intros hdr fr W body tb recs whole HW Hc Hw Hn.
  pose proof (tls_arrived_short recs whole Hw Hn) as Hs.
  pose proof (tls_arrived_prefix recs whole) as Hp. rewrite Hc in Hp, Hs.
  set (k := length (tls_arrived recs whole)) in *.
  unfold h1_read_tls. rewrite Hp.
  destruct HW as [Hfr | [-> ->]].
  - (* Content-Length / chunked: both endings are the same error *)
    assert (E : h1_read_conn (N.of_nat (length hdr)) fr (firstn k (hdr ++ W)) true =
                h1_read (N.of_nat (length hdr)) fr (firstn k (hdr ++ W))).
    { unfold h1_read_conn, h1_read.
      destruct (take_N (N.of_nat (length hdr)) (firstn k (hdr ++ W))) as [[t rest] missing].
      destruct (missing =? 0)%N; [|reflexivity]. destruct Hfr; reflexivity. }
    rewrite E. exact (h1_truncation_detected_thm hdr fr W body tb k Hfr Hs).
  - (* close-delimited: io.ErrUnexpectedEOF reaches the caller *)
    destruct (Nat.lt_ge_cases k (length hdr)) as [Hlt|Hge].
    + unfold h1_read_conn. rewrite take_N_spec, firstn_length, app_length.
      destruct (N.of_nat (length hdr) - N.of_nat (Nat.min k (length hdr + length body)) =? 0)%N eqn:E; [lia|].
      exact Hlt.
    + rewrite firstn_app_ge by assumption. unfold h1_read_conn. rewrite take_N_exact.
      cbn [N.eqb read_body_end rd_err rd_data]. split; [exact Hge|].
      split; [left; reflexivity|]. eauto.
Qed.

(* the seeded variant (io.ErrUnexpectedEOF of a TLS connection rewritten to io.EOF) is refuted:
   a close-delimited body cut inside a record is a clean, shorter message there *)
Lemma tls_rewritten_refuted :
  let hdr := bs "HTTP/1.1 200 OK" ++ crlfcrlf in
  let recs := [hdr; bs "hello "; bs "world"] in
  h1_read_tls_rewritten (N.of_nat (length hdr)) FrClose recs 2 true =
    BodyRead (mkRd (bs "hello ") Clean [] true []) /\
  h1_read_tls (N.of_nat (length hdr)) FrClose recs 2 true =
    BodyRead (mkRd (bs "hello ") UnexpectedEOF [] false []).
Proof. split; reflexivity. Qed.
