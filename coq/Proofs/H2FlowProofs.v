(* Proofs/H2FlowProofs.v - specifications of the flow.go kernel, proved about the
   gosync-generated functions of Gen/H2Flow.v for ALL int32 operands. *)
From Coq Require Import ZArith Bool Lia ZifyBool List.
From ReqV Require Import Lib.GoInt Gen.H2Flow Model.H2Flow Proofs.GoIntFacts.
Open Scope Z_scope.

Ltac Zify.zify_post_hook ::= Z.div_mod_to_equations.

(* outflow.add: true and the exact sum iff the mathematical sum fits in int32; otherwise
   false and nothing changes.  (The Go comment only mentions overflow above 2^31-1; the wrap
   trick also rejects underflow below -2^31.) *)
Lemma outflow_add_spec : forall n c cn d, in32 n -> in32 d ->
  outflow_add n c cn d =
    if in32b (n + d) then (Ret true, (n + d, c, cn)) else (Ret false, (n, c, cn)).
Proof.
  intros n c cn d Hn Hd. unfold outflow_add.
  destruct (in32b (n + d)) eqn:E.
  - apply in32b_true in E. rewrite (wrap32_id _ E).
    replace (Bool.eqb (n + d >? d) (n >? 0)) with true; [reflexivity|].
    unfold in32 in *. destruct (n + d >? d) eqn:A, (n >? 0) eqn:B; simpl; lia.
  - apply in32b_false in E. unfold in32 in *.
    assert (H : n + d > 2147483647 \/ n + d < -2147483648) by lia.
    destruct H as [H|H].
    + rewrite wrap32_over by lia.
      replace (Bool.eqb (n + d - 4294967296 >? d) (n >? 0)) with false; [reflexivity|].
      destruct (n + d - 4294967296 >? d) eqn:A, (n >? 0) eqn:B; simpl; lia.
    + rewrite wrap32_under by lia.
      replace (Bool.eqb (n + d + 4294967296 >? d) (n >? 0)) with false; [reflexivity|].
      destruct (n + d + 4294967296 >? d) eqn:A, (n >? 0) eqn:B; simpl; lia.
Qed.

Lemma outflow_available_spec : forall n c cn,
  outflow_available n c cn = (Ret (if c then Z.min n cn else n), (n, c, cn)).
Proof.
  intros. unfold outflow_available. destruct c; simpl.
  - destruct (cn <? n) eqn:E; f_equal; f_equal; lia.
  - reflexivity.
Qed.

(* outflow.take: panics (state unchanged) iff more than available is asked; otherwise both the
   stream and the connection window shrink by exactly n *)
Lemma outflow_take_spec : forall n cn t, in32 n -> in32 cn -> 0 <= t <= 2147483647 ->
  outflow_take n true cn t =
    if t >? Z.min n cn then (Panic, (n, true, cn)) else (Ret tt, (n - t, true, cn - t)).
Proof.
  intros n cn t Hn Hc Ht. unfold outflow_take. rewrite outflow_available_spec.
  unfold ret_val; simpl fst.
  destruct (t >? Z.min n cn) eqn:E; [reflexivity|].
  unfold in32 in *. rewrite !wrap32_id by (unfold in32; lia). reflexivity.
Qed.

(* inflow.add *)
Lemma inflow_add_spec : forall a u n, 0 <= a <= 2147483647 -> 0 <= u <= 2147483647 ->
  n <= 4611686018427387904 ->
  inflow_add a u n =
    if n <? 0 then (Panic, (a, u))
    else if a + u + n >? 2147483647 then (Panic, (a, u))
    else if (u + n <? inflowMinRefresh) && (u + n <? a) then (Ret 0, (a, u + n))
    else (Ret (u + n), (a + u + n, 0)).
Proof.
  intros a u n Ha Hu Hn. unfold inflow_add.
  destruct (n <? 0) eqn:E0; [reflexivity|].
  rewrite (wrap64_id (u + n)) by (unfold in64; lia).
  rewrite (wrap64_id (u + n + a)) by (unfold in64; lia).
  replace (u + n + a) with (a + u + n) by lia.
  destruct (a + u + n >? 2147483647) eqn:E1; [reflexivity|].
  rewrite (wrap32_id (u + n)) by (unfold in32; lia).
  destruct ((u + n <? inflowMinRefresh) && (u + n <? a)) eqn:E2; [reflexivity|].
  rewrite (wrap32_id (a + (u + n))) by (unfold in32; lia).
  replace (a + (u + n)) with (a + u + n) by lia. reflexivity.
Qed.

(* inflow.take: succeeds iff n <= avail *)
Lemma inflow_take_spec : forall a u n, 0 <= a <= 2147483647 -> 0 <= n <= 4294967295 ->
  inflow_take a u n = if n <=? a then (Ret true, (a - n, u)) else (Ret false, (a, u)).
Proof.
  intros a u n Ha Hn. unfold inflow_take.
  rewrite (wrapu32_id a) by (unfold inu32; lia).
  destruct (n <=? a) eqn:E.
  - replace (n >? a) with false by lia.
    rewrite (wrap32_id n) by (unfold in32; lia).
    rewrite wrap32_id by (unfold in32; lia). reflexivity.
  - replace (n >? a) with true by lia. reflexivity.
Qed.

Lemma take_inflows_spec : forall a1 u1 a2 u2 n,
  0 <= a1 <= 2147483647 -> 0 <= a2 <= 2147483647 -> 0 <= n <= 4294967295 ->
  takeInflows a1 u1 a2 u2 n =
    if (n <=? a1) && (n <=? a2) then (Ret true, (a1 - n, u1, a2 - n, u2))
    else (Ret false, (a1, u1, a2, u2)).
Proof.
  intros a1 u1 a2 u2 n H1 H2 Hn. unfold takeInflows.
  rewrite (wrapu32_id a1) by (unfold inu32; lia).
  rewrite (wrapu32_id a2) by (unfold inu32; lia).
  destruct ((n <=? a1) && (n <=? a2)) eqn:E.
  - replace ((n >? a1) || (n >? a2)) with false by lia.
    rewrite (wrap32_id n) by (unfold in32; lia).
    rewrite !wrap32_id by (unfold in32; lia). reflexivity.
  - replace ((n >? a1) || (n >? a2)) with true by lia. reflexivity.
Qed.

(* Credit bookkeeping of inflow.add: nothing is lost.  When add returns r, the advertised
   window grew by exactly r, avail + unsent grew by exactly n, and what stays unsent is below
   the refresh threshold AND below the window the peer still has. *)
Lemma inflow_add_conservation : forall a u n r a' u',
  0 <= a <= 2147483647 -> 0 <= u <= 2147483647 -> 0 <= n <= 4611686018427387904 ->
  inflow_add a u n = (Ret r, (a', u')) ->
  a' + u' = a + u + n /\ a' = a + r /\ 0 <= r /\
  0 <= u' /\ (u' = 0 \/ (u' < inflowMinRefresh /\ u' < a')) /\ a' <= 2147483647.
Proof.
  intros a u n r a' u' Ha Hu Hn H. rewrite inflow_add_spec in H by lia.
  replace (n <? 0) with false in H by lia.
  destruct (a + u + n >? 2147483647) eqn:E1; [discriminate|].
  destruct ((u + n <? inflowMinRefresh) && (u + n <? a)) eqn:E2; inversion H; subst; lia.
Qed.

(* a panic of inflow.add means the window would exceed 2^31-1 (or a negative update) *)
Lemma inflow_add_panic_iff : forall a u n,
  0 <= a <= 2147483647 -> 0 <= u <= 2147483647 -> n <= 4611686018427387904 ->
  (fst (inflow_add a u n) = Panic <-> n < 0 \/ a + u + n > 2147483647).
Proof.
  intros a u n Ha Hu Hn. rewrite inflow_add_spec by lia.
  destruct (n <? 0) eqn:E0; simpl; [split; [lia|reflexivity]|].
  destruct (a + u + n >? 2147483647) eqn:E1; simpl; [split; [lia|reflexivity]|].
  destruct ((u + n <? inflowMinRefresh) && (u + n <? a)); simpl; split; try discriminate; lia.
Qed.
