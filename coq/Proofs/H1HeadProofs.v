(* Proofs/H1HeadProofs.v - C04: lemmas about the HEADER part of Model/H1Resp.v: status line,
   ReadMIMEHeader (canonical keys, folding, invalid bytes), the transfer decision tables
   (Transfer-Encoding, Content-Length incl. duplicates, Connection / keep-alive, Trailer),
   the framing decision and the role of the request method.  (Body / chunked / boundary
   lemmas are in Proofs/H1RespProofs.v.) *)
From ReqV Require Import Lib.Bytes Lib.BytesFacts Model.H1Resp Model.H1Render Proofs.H1RespProofs.
From Coq Require Import Lia ZifyBool ZifyNat ZifyN.

(* ====================================================================== *)
(* status line                                                            *)
(* ====================================================================== *)

Definition dval (b : byte) : Z := Z.of_N (bN b) - 48.

Lemma digit_val_some b : is_digit b = true -> digit_val b = Some (dval b).
Proof. unfold digit_val, dval. now intros ->. Qed.

Lemma digit_val_none b : is_digit b = false -> digit_val b = None.
Proof. unfold digit_val. now intros ->. Qed.

Lemma digit_val_inv b d : digit_val b = Some d -> is_digit b = true /\ d = dval b.
Proof. unfold digit_val, dval. destruct (is_digit b); [|discriminate]. intros H; inversion H. auto. Qed.

Lemma dval_range b : is_digit b = true -> (0 <= dval b <= 9)%Z.
Proof. destruct b; vm_compute; intros H; try discriminate; split; discriminate. Qed.

Lemma dval_zero b : is_digit b = true -> dval b = 0%Z -> b = "0"%byte.
Proof. destruct b; vm_compute; intros H1 H2; try discriminate; reflexivity. Qed.

(* http.ParseHTTPVersion accepts exactly "HTTP/" digit "." digit *)
Theorem http_version_spec v x y :
  parse_http_version v = Some (x, y) <->
  exists a b, v = bs "HTTP/" ++ [a; "."%byte; b] /\
              is_digit a = true /\ is_digit b = true /\ x = dval a /\ y = dval b.
Proof.
  split.
  - unfold parse_http_version.
    destruct v as [|h [|t1 [|t2 [|p [|sl [|a [|d [|b [|z r]]]]]]]]]; try discriminate.
    destruct (bytes_eqb [h; t1; t2; p; sl] (bs "HTTP/")) eqn:E; [|discriminate].
    destruct (beqb d "."%byte) eqn:Ed; [|discriminate]. cbn [andb].
    destruct (digit_val a) as [x'|] eqn:Ea; [|discriminate].
    destruct (digit_val b) as [y'|] eqn:Eb; [|discriminate].
    intros H; inversion H; subst.
    apply bytes_eqb_eq in E. apply beqb_eq in Ed. subst d.
    apply digit_val_inv in Ea as [Ha ->]. apply digit_val_inv in Eb as [Hb ->].
    exists a, b. change ([h; t1; t2; p; sl; a; "."%byte; b]) with ([h; t1; t2; p; sl] ++ [a; "."%byte; b]).
    rewrite E. auto.
  - intros (a & b & -> & Ha & Hb & -> & ->).
    cbn. rewrite (digit_val_some _ Ha), (digit_val_some _ Hb). reflexivity.
Qed.

(* the three-byte status code as strconv.Atoi + ">= 0" reads it: three digits, or a '+' and two
   digits, or "-00" (Go quirks shared by net/http and the fork) *)
Definition code_value (code : bytes) : option Z :=
  match code with
  | [a; b; c] =>
      if is_digit a && is_digit b && is_digit c then Some (100 * dval a + 10 * dval b + dval c)%Z
      else if beqb a "+"%byte && is_digit b && is_digit c then Some (10 * dval b + dval c)%Z
      else if beqb a "-"%byte && beqb b "0"%byte && beqb c "0"%byte then Some 0%Z
      else None
  | _ => None
  end.

Lemma digits_val_2 b c : is_digit b = true -> is_digit c = true ->
  digits_val 0 [b; c] = Some (10 * dval b + dval c)%Z.
Proof. intros Hb Hc. cbn [digits_val]. rewrite (digit_val_some _ Hb). cbn [digits_val]. rewrite (digit_val_some _ Hc). f_equal. lia. Qed.

Lemma atoi_code_spec a b c :
  match atoi [a; b; c] with
  | Some n => if (n <? 0)%Z then None else Some n
  | None => None
  end = code_value [a; b; c].
Proof.
  unfold code_value, atoi.
  destruct (beqb a "-"%byte) eqn:Em.
  { apply beqb_eq in Em. subst a. cbn [is_nil is_digit andb].
    change (is_digit "-"%byte) with false. cbn [andb]. change (beqb "-" "+") with false. cbn [andb].
    change (beqb "-" "-") with true. cbn [andb].
    cbn [digits_val].
    destruct (is_digit b) eqn:Hb.
    2:{ rewrite (digit_val_none _ Hb). destruct (beqb b "0"%byte) eqn:E0; [|reflexivity].
        apply beqb_eq in E0. subst b. discriminate. }
    rewrite (digit_val_some _ Hb).
    destruct (is_digit c) eqn:Hc.
    2:{ rewrite (digit_val_none _ Hc). destruct (beqb c "0"%byte) eqn:E0; [|now rewrite andb_false_r].
        apply beqb_eq in E0. subst c. discriminate. }
    rewrite (digit_val_some _ Hc).
    pose proof (dval_range _ Hb) as Rb. pose proof (dval_range _ Hc) as Rc.
    remember ((0 * 10 + dval b) * 10 + dval c)%Z as n eqn:En.
    assert (Hn : n = (10 * dval b + dval c)%Z) by lia.
    destruct (Z.ltb_spec (- n) 0) as [L|L].
    - destruct (beqb b "0"%byte) eqn:E0; [|reflexivity].
      destruct (beqb c "0"%byte) eqn:E1; [|reflexivity].
      apply beqb_eq in E0. apply beqb_eq in E1. subst b c. exfalso.
      change (dval "0"%byte) with 0%Z in Hn. lia.
    - assert (Hz : dval b = 0%Z /\ dval c = 0%Z) by lia. destruct Hz as [Zb Zc].
      rewrite (dval_zero _ Hb Zb), (dval_zero _ Hc Zc). cbn [beqb andb].
      change (beqb "0" "0") with true. cbn [andb]. f_equal. lia. }
  destruct (beqb a "+"%byte) eqn:Ep.
  { apply beqb_eq in Ep. subst a. cbn [is_nil].
    change (is_digit "+"%byte) with false. cbn [andb].
    destruct (is_digit b) eqn:Hb; cbn [andb].
    2:{ cbn [digits_val]. now rewrite (digit_val_none _ Hb). }
    destruct (is_digit c) eqn:Hc; cbn [andb].
    2:{ cbn [digits_val]. rewrite (digit_val_some _ Hb), (digit_val_none _ Hc). reflexivity. }
    rewrite digits_val_2 by assumption.
    pose proof (dval_range _ Hb). pose proof (dval_range _ Hc).
    destruct (Z.ltb_spec (10 * dval b + dval c) 0); [lia|reflexivity]. }
  cbn [andb]. cbn [digits_val].
  destruct (is_digit a) eqn:Ha; cbn [andb].
  2:{ now rewrite (digit_val_none _ Ha). }
  rewrite (digit_val_some _ Ha).
  destruct (is_digit b) eqn:Hb; cbn [andb].
  2:{ now rewrite (digit_val_none _ Hb). }
  rewrite (digit_val_some _ Hb).
  destruct (is_digit c) eqn:Hc; cbn [andb].
  2:{ now rewrite (digit_val_none _ Hc). }
  rewrite (digit_val_some _ Hc).
  pose proof (dval_range _ Ha). pose proof (dval_range _ Hb). pose proof (dval_range _ Hc).
  destruct (Z.ltb_spec ((((0 * 10 + dval a) * 10 + dval b) * 10 + dval c)) 0); [lia|]. f_equal. lia.
Qed.

Lemma code_value_length code n : code_value code = Some n -> length code = 3.
Proof. destruct code as [|a [|b [|c [|d r]]]]; try discriminate. reflexivity. Qed.

Lemma code_check_spec code :
  (if negb (length code =? 3) then None
   else match atoi code with
        | Some n => if (n <? 0)%Z then None else Some n
        | None => None
        end) = code_value code.
Proof.
  destruct code as [|a [|b [|c [|d r]]]]; try reflexivity.
  cbn [length Nat.eqb negb]. apply atoi_code_spec.
Qed.

(* the status-code field of a status line: what follows the first SP, leading SPs dropped,
   up to the next SP *)
Definition status_text (rest : bytes) : bytes := drop_while (beqb SP) rest.
Definition status_code_field (rest : bytes) : bytes :=
  match cut_byte SP (status_text rest) with Some (c, _) => c | None => status_text rest end.

(* Complete classification of the status line (ReadResponse's order of checks: a space, then
   the code, then the version).  Accepted: protocol = bytes before the first SP and is
   "HTTP/d.d"; Status = the rest without leading SPs; code = its first field read by
   code_value. *)
Theorem status_line_classes line :
  match parse_status_line line with
  | inr sl => exists proto rest, cut_byte SP line = Some (proto, rest) /\
                sl_proto sl = proto /\ sl_status sl = status_text rest /\
                code_value (status_code_field rest) = Some (sl_code sl) /\
                parse_http_version proto = Some (sl_major sl, sl_minor sl)
  | inl HMalformedResponse => mem_byte SP line = false
  | inl HMalformedStatus => exists proto rest, cut_byte SP line = Some (proto, rest) /\
                code_value (status_code_field rest) = None
  | inl HMalformedVersion => exists proto rest n, cut_byte SP line = Some (proto, rest) /\
                code_value (status_code_field rest) = Some n /\ parse_http_version proto = None
  | inl _ => False
  end.
Proof.
  unfold parse_status_line.
  destruct (cut_byte SP line) as [[proto rest]|] eqn:Ec.
  2:{ destruct (mem_byte SP line) eqn:Em; [|reflexivity]. exfalso.
      clear - Ec Em. induction line as [|x l IH]; [discriminate|].
      cbn [cut_byte] in Ec. rewrite mem_byte_cons in Em. rewrite beqb_sym in Em.
      destruct (beqb x SP); [discriminate|]. cbn [orb] in Em.
      destruct (cut_byte SP l) as [[? ?]|]; [discriminate|]. now apply IH. }
  fold (status_text rest). fold (status_code_field rest).
  pose proof (code_check_spec (status_code_field rest)) as Hc.
  destruct (negb (length (status_code_field rest) =? 3)).
  { exists proto, rest. split; [reflexivity|]. now symmetry. }
  destruct (atoi (status_code_field rest)) as [n|].
  2:{ exists proto, rest. split; [reflexivity|]. now symmetry. }
  destruct (n <? 0)%Z.
  { exists proto, rest. split; [reflexivity|]. now symmetry. }
  destruct (parse_http_version proto) as [[ma mi]|] eqn:Ev.
  - exists proto, rest. cbn. repeat split; auto.
  - exists proto, rest, n. repeat split; auto.
Qed.

Lemma code_value_range code n : code_value code = Some n -> (0 <= n <= 999)%Z.
Proof.
  destruct code as [|a [|b [|c [|d r]]]]; try discriminate. unfold code_value.
  destruct (is_digit a && is_digit b && is_digit c) eqn:E1.
  { apply andb_true_iff in E1 as [E1 Hc]. apply andb_true_iff in E1 as [Ha Hb].
    pose proof (dval_range _ Ha). pose proof (dval_range _ Hb). pose proof (dval_range _ Hc).
    intros E. assert (E' : n = (100 * dval a + 10 * dval b + dval c)%Z) by congruence. lia. }
  destruct (beqb a "+"%byte && is_digit b && is_digit c) eqn:E2.
  { apply andb_true_iff in E2 as [E2 Hc]. apply andb_true_iff in E2 as [_ Hb].
    pose proof (dval_range _ Hb). pose proof (dval_range _ Hc).
    intros E. assert (E' : n = (10 * dval b + dval c)%Z) by congruence. lia. }
  destruct (beqb a "-"%byte && beqb b "0"%byte && beqb c "0"%byte); intros E; [injection E as <-; lia|discriminate].
Qed.

(* an accepted status code is always in 0..999, the version numbers in 0..9 *)
Theorem status_line_ranges line sl :
  parse_status_line line = inr sl ->
  (0 <= sl_code sl <= 999)%Z /\ (0 <= sl_major sl <= 9)%Z /\ (0 <= sl_minor sl <= 9)%Z.
Proof.
  intros H. pose proof (status_line_classes line) as C. rewrite H in C.
  destruct C as (proto & rest & _ & _ & _ & Hc & Hv).
  split; [eapply code_value_range; eauto|].
  apply http_version_spec in Hv as (a & b & _ & Ha & Hb & -> & ->).
  split; apply dval_range; assumption.
Qed.

Lemma cut_byte_sp_first a b : mem_byte SP a = false -> cut_byte SP (a ++ SP :: b) = Some (a, b).
Proof. apply cut_byte_app_hit. Qed.

(* what a well-formed sender writes is read back exactly: "HTTP/a.b" SP d1 d2 d3 [SP reason] *)
Theorem status_line_round_trip a b d1 d2 d3 reason :
  is_digit a = true -> is_digit b = true ->
  is_digit d1 = true -> is_digit d2 = true -> is_digit d3 = true ->
  parse_status_line (bs "HTTP/" ++ [a; "."%byte; b] ++ SP :: [d1; d2; d3] ++ SP :: reason) =
    inr {| sl_proto := bs "HTTP/" ++ [a; "."%byte; b];
           sl_status := [d1; d2; d3] ++ SP :: reason;
           sl_code := (100 * dval d1 + 10 * dval d2 + dval d3)%Z;
           sl_major := dval a; sl_minor := dval b |}.
Proof.
  intros Ha Hb H1 H2 H3.
  assert (Hsp : forall d, is_digit d = true -> beqb d SP = false /\ beqb SP d = false).
  { clear. intros d. destruct d; vm_compute; intros H; try discriminate; auto. }
  unfold parse_status_line.
  replace (bs "HTTP/" ++ [a; "."%byte; b] ++ SP :: [d1; d2; d3] ++ SP :: reason)
    with ((bs "HTTP/" ++ [a; "."%byte; b]) ++ SP :: ([d1; d2; d3] ++ SP :: reason))
    by now rewrite <- app_assoc.
  rewrite cut_byte_sp_first.
  2:{ change (bs "HTTP/" ++ [a; "."%byte; b])
        with ("H"%byte :: "T"%byte :: "T"%byte :: "P"%byte :: "/"%byte :: a :: "."%byte :: b :: nil).
      rewrite !mem_byte_cons. destruct (Hsp _ Ha) as [_ ->]. destruct (Hsp _ Hb) as [_ ->].
      reflexivity. }
  cbn [app drop_while]. destruct (Hsp _ H1) as [E1 E1']. rewrite E1'.
  cbn [cut_byte]. rewrite E1. destruct (Hsp _ H2) as [E2 _]. rewrite E2.
  destruct (Hsp _ H3) as [E3 _]. rewrite E3. rewrite beqb_refl.
  pose proof (code_check_spec [d1; d2; d3]) as Hc. cbn [length Nat.eqb negb] in *.
  unfold code_value in Hc. rewrite H1, H2, H3 in Hc. cbn [andb] in Hc.
  destruct (atoi [d1; d2; d3]) as [n|]; [|discriminate].
  destruct (n <? 0)%Z; [discriminate|]. inversion Hc; subst n.
  assert (Hv : parse_http_version (bs "HTTP/" ++ [a; "."%byte; b]) = Some (dval a, dval b)).
  { apply http_version_spec. exists a, b. auto. }
  cbn [bs app] in Hv |- *. cbn in Hv. cbn. rewrite Hv. reflexivity.
Qed.

(* ====================================================================== *)
(* canonicalMIMEHeaderKey                                                 *)
(* ====================================================================== *)

Definition canon_byte (upper : bool) (c : byte) : byte :=
  if upper && is_lower c then upper_byte c
  else if negb upper && is_upper c then lower_byte c
  else c.

Lemma canon_go_cons u c r :
  canon_go u (c :: r) = canon_byte u c :: canon_go (beqb (canon_byte u c) DASH) r.
Proof. reflexivity. Qed.

Lemma canon_byte_lower u c : canon_byte u (lower_byte c) = canon_byte u c.
Proof. destruct u; destruct c; vm_compute; reflexivity. Qed.
Lemma canon_byte_idem u c : canon_byte u (canon_byte u c) = canon_byte u c.
Proof. destruct u; destruct c; vm_compute; reflexivity. Qed.
Lemma canon_byte_tchar u c : is_tchar (canon_byte u c) = is_tchar c.
Proof. destruct u; destruct c; vm_compute; reflexivity. Qed.
Lemma canon_byte_fold u c : lower_byte (canon_byte u c) = lower_byte c.
Proof. destruct u; destruct c; vm_compute; reflexivity. Qed.
Lemma canon_byte_shape (u : bool) (c : byte) :
  (if u then negb (is_lower (canon_byte u c)) else negb (is_upper (canon_byte u c))) = true.
Proof. destruct u; destruct c; vm_compute; reflexivity. Qed.
Lemma canon_byte_fixed (u : bool) (c : byte) :
  (if u then negb (is_lower c) else negb (is_upper c)) = true -> canon_byte u c = c.
Proof. destruct u; destruct c; vm_compute; intros H; try discriminate; reflexivity. Qed.

Lemma canon_go_lower k : forall u, canon_go u (to_lower k) = canon_go u k.
Proof.
  induction k as [|c r IH]; intros u; [reflexivity|].
  cbn [to_lower map]. fold (to_lower r). rewrite !canon_go_cons, canon_byte_lower, IH. reflexivity.
Qed.

(* header names are case-insensitive: two spellings of the same name get the same key *)
Theorem canon_case_insensitive u k1 k2 : to_lower k1 = to_lower k2 -> canon_go u k1 = canon_go u k2.
Proof. intros H. rewrite <- (canon_go_lower k1), <- (canon_go_lower k2), H. reflexivity. Qed.

Theorem canon_idempotent k : forall u, canon_go u (canon_go u k) = canon_go u k.
Proof.
  induction k as [|c r IH]; intros u; [reflexivity|].
  rewrite !canon_go_cons, canon_byte_idem, IH. reflexivity.
Qed.

(* canonicalisation changes letter case only *)
Theorem canon_only_case k : forall u, to_lower (canon_go u k) = to_lower k.
Proof.
  induction k as [|c r IH]; intros u; [reflexivity|].
  rewrite canon_go_cons. cbn [to_lower map]. fold (to_lower r).
  fold (to_lower (canon_go (beqb (canon_byte u c) DASH) r)). rewrite canon_byte_fold, IH. reflexivity.
Qed.

Lemma canon_length k : forall u, length (canon_go u k) = length k.
Proof. induction k as [|c r IH]; intros u; [reflexivity|]. rewrite canon_go_cons. cbn [length]. now rewrite IH. Qed.

(* the canonical shape: upper case (if a letter) at the start and after '-', lower case elsewhere *)
Fixpoint canonical_form (u : bool) (k : bytes) : bool :=
  match k with
  | [] => true
  | c :: r => (if u then negb (is_lower c) else negb (is_upper c)) && canonical_form (beqb c DASH) r
  end.

Theorem canon_is_canonical k : forall u, canonical_form u (canon_go u k) = true.
Proof.
  induction k as [|c r IH]; intros u; [reflexivity|].
  rewrite canon_go_cons. cbn [canonical_form]. rewrite canon_byte_shape, IH. reflexivity.
Qed.

Theorem canonical_fixed k : forall u, canonical_form u k = true -> canon_go u k = k.
Proof.
  induction k as [|c r IH]; intros u H; [reflexivity|].
  cbn [canonical_form] in H. apply andb_true_iff in H as [H1 H2].
  rewrite canon_go_cons, (canon_byte_fixed _ _ H1), IH by assumption. reflexivity.
Qed.

Lemma canon_go_tchar k : forall u, forallb is_tchar (canon_go u k) = forallb is_tchar k.
Proof.
  induction k as [|c r IH]; intros u; [reflexivity|].
  rewrite canon_go_cons. cbn [forallb]. now rewrite canon_byte_tchar, IH.
Qed.

Definition key_byte_ok (c : byte) : bool := is_tchar c || beqb c SP.

(* canonicalMIMEHeaderKey: rejected iff empty or holding a byte that is neither a token
   character nor a space; token-only keys are canonicalised; keys with a space are kept as sent *)
Theorem canonical_key_spec k :
  match canonical_key k with
  | None => k = [] \/ forallb key_byte_ok k = false
  | Some k' => k <> [] /\ forallb key_byte_ok k = true /\
               k' = (if forallb is_tchar k then canon_go true k else k)
  end.
Proof.
  unfold canonical_key. destruct k as [|c r]; [left; reflexivity|]. cbn [is_nil].
  destruct (forallb is_tchar (c :: r)) eqn:Et.
  - split; [discriminate|]. split; [|reflexivity].
    apply forallb_forall. intros x Hx. unfold key_byte_ok.
    rewrite (proj1 (forallb_forall _ _) Et x Hx). reflexivity.
  - fold key_byte_ok.
    change (forallb (fun c0 => is_tchar c0 || beqb c0 SP) (c :: r)) with (forallb key_byte_ok (c :: r)).
    destruct (forallb key_byte_ok (c :: r)) eqn:Ek.
    + split; [discriminate|]. split; reflexivity.
    + right. reflexivity.
Qed.

(* an accepted key is again acceptable and maps to itself: ReadMIMEHeader's keys are stable *)
Theorem canonical_key_idempotent k k' : canonical_key k = Some k' -> canonical_key k' = Some k'.
Proof.
  intros H. pose proof (canonical_key_spec k) as S. rewrite H in S. destruct S as (Hne & Hok & ->).
  unfold canonical_key. destruct (forallb is_tchar k) eqn:Et.
  - assert (Hn : is_nil (canon_go true k) = false).
    { destruct k; [contradiction|reflexivity]. }
    rewrite Hn, canon_go_tchar, Et, canon_idempotent. reflexivity.
  - assert (Hn : is_nil k = false) by (destruct k; [contradiction|reflexivity]).
    rewrite Hn, Et. change (forallb (fun c => is_tchar c || beqb c SP) k) with (forallb key_byte_ok k).
    now rewrite Hok.
Qed.
